# per-property configuration of ./check
COMMON_TB = [
    "symbolic cryptography (Dolev-Yao term algebra): go-jose signing/verification, SHA-2 are modelled, not verified",
]

PROPS = {
    "C01": {
        "proof_module": "OidcModel.Proofs.C01",
        "theorems": ["C01.c01_holds", "C01.c01_sound", "C01.c01_complete_margin", "C01.c01_sound_all",
                     "C01.c01_complete_all", "C01.rpVerifyAccessToken_ok", "C01.getHashAlgorithm_eq",
                     "C01.tRound_second_bounds"],
        "cases": {"quick": 3000, "thorough": 60000},
        "rule": "ID tokens really signed (RSA/EC/Ed25519) starting from a valid token with 0-3 mutated dimensions out of 12 "
                "(iss, sub, aud shape, azp, exp/iat/auth_time at boundary +-2s, nonce, acr, at_hash variants, untrusted signer) x verifier "
                "configuration (offset, max iat age, max auth age, nonce fn, ACR verifier, allow-list); real rp.VerifyIDToken / rp.VerifyTokens; "
                "non-trivial = outcome class other than the modal one; distinct = outcome class x input with case id and timestamps removed",
        "trivial_class": r"ok\|ok\|ok",
        "trusted_base": COMMON_TB + ["JSON decoding of the payload is taken from the real codec (oracle; see C12)",
                                     "signature validity is symbolic here; key selection is C02's subject"],
        "assumptions": ["instants within years 1..9999 (Go time arithmetic exact)",
                        "a call is compared only through its [t0,t1] clock bracket; every time guard is monotone in now"],
    },
    "C02": {
        "proof_module": "OidcModel.Proofs.C02",
        "theorems": ["C02.c02_rp", "C02.c02_accessToken", "C02.c02_idTokenHint", "C02.c02_assertion",
                     "C02.parse_and_signature_sound", "C02.verifySignature_sound", "C02.findMatchingKey_eq_spec",
                     "C02.findMatchingKey_ok", "C02.findMatchingKey_ambiguous"],
        "cases": {"quick": 4000, "thorough": 40000},
        "rule": "part 1: oidc.FindMatchingKey on key sets of 1-4 keys over (kid in {'',a,b}) x (use in {'',sig,enc}) x (RSA,EC,OKP) x header kid x 6 algs "
                "(thorough: exhaustive for sets of <=2 keys) compared with the statement's selection rule; part 2: genuinely signed tokens with one of 10 "
                "serialisation manipulations (alg swap, HMAC-with-public-key, foreign key, truncated signature, replaced payload, extra segments, flattened / "
                "general JSON JWS, JSON smuggling, re-encoding) through rp.VerifyIDToken (remote JWKS), op.VerifyAccessToken, op.VerifyIDTokenHint (OpenIDKeySet), "
                "op.VerifyJWTAssertion (per-client key registry); non-trivial = outcome class other than the modal one",
        "trivial_class": r"err:ErrKeyNone\|err:ErrKeyNone\|ok",
        "exhaustive": {"thorough": True},
        "trusted_base": COMMON_TB + ["go-jose parsing (which signatures/headers/payload a string contains) is taken from the real library as oracle",
                                     "FindMatchingKey and the three KeySet implementations are hand-modelled; tied by this correspondence stream"],
        "assumptions": ["signature terms are symbolic: forging a signature without the key is impossible by definition of the term algebra"],
    },
    "C03": {
        "proof_module": "OidcModel.Proofs.C03",
        "theorems": ["C03.c03_no_unregistered_redirect", "C03.step_inv", "C03.step_verdicts", "C03.validateRedirectURI_ok", "C03.validateRedirectURI_err",
                     "C03.validateClient_ok", "C03.validateClient_err", "C03.checkURI_ok", "C03.native_ok", "C03.loopback_spec",
                     "C03.authRequestError_writes", "C03.authRequestError_disabled", "C03.authRequestError_nil", "C03.authResponseURL_base",
                     "C03.tryErrorRedirect_ok", "C03.webAuthorize_ok", "C03.providerAuthorize_writes", "C03.legacyAuthorize_writes",
                     "C03.authorizeCallback_writes", "C03.redirectURI_error_disabled", "C03.redirectDisabled_table",
                     "C03.authorize_skeleton_pinned", "C03.authorizeHandler_skeleton_pinned",
                     "C03.loopback_userinfo_witness", "C03.loopback_fragment_witness", "C03.scheme_case_witness", "C03.registered_strict_of_weak"],
        "cases": {"quick": 600, "thorough": 20000},
        "rule": "histories against the real /authorize and /authorize/callback handlers of both routers (n = number of histories, 5-12 authorization requests each, "
                "every line one HTTP request): 3-6 generated registrations per history (web / user-agent / native x dev mode x 4 auth methods x response types x 1-4 "
                "registered URIs from https, plain-http, loopback v4/v6/localhost with and without port and query, custom-scheme, oddly spelled and unparseable URIs "
                "x optional globs incl. malformed patterns); requested redirect_uri = registered, 12 near-miss kinds (slash, case, suffix, query, fragment, userinfo, "
                "scheme swap, host prefix/suffix tricks, truncation, leading space), 12 loopback-variant kinds (port, host spelling, scheme, userinfo, fragment, path, "
                "query, escaped path, non-loopback look-alikes, host in userinfo), glob targets, missing, foreign pool (javascript:, data:, //host, userinfo tricks), "
                "unknown client; x response_type (code / implicit / unsupported / missing) x response_mode x missing scope x prompt (none, none+login) x id_token_hint "
                "x request parameter (unsupported; in 40% of the histories request objects are supported and 22% of the requests carry a really signed request object that "
                "overrides redirect_uri / state / response_mode, 25% of them invalid: foreign key, wrong aud, wrong iss) x undecodable form x injected storage failures (GetClientByClientID, CreateAuthRequest, AuthRequestByID, SaveAuthCode, SigningKey; "
                "plain, oidc error, redirect-disabled oidc error); then login and callback (before login, after login, repeated, unknown / missing id). "
                "Oracle: what net/url, net.ParseIP and doublestar answered for the strings of the request is on the line; Location / form action parsed by net/url. "
                "non-trivial = every class except a direct page at /authorize; distinct = class x input",
        "trivial_class": r"(authorize:.*:page|reset:.*|login:.*)",
        "trusted_base": ["net/url.Parse, net.ParseIP(..).IsLoopback and doublestar.Match are oracles: the theorems hold for ALL their behaviours; what they answer on the "
                         "generated strings is recorded from the real libraries",
                         "op.Authorize (closure) and webServer.authorizeHandler are modelled by hand in Model/AuthzFlow.lean; their statement skeletons are regenerated and "
                         "pinned (authorize_skeleton_pinned, authorizeHandler_skeleton_pinned) and they are tied by this stream; every other function on the path is translated",
                         "storage = any functions (arbitrary failures) over constant registrations; stored requests keep client, redirect_uri, response type and mode "
                         "(refstore does; a storage that rewrites redirect_uri is outside the contract)",
                         "http.Redirect / http.Error / MarshalJSONWithStatus / html/template (form_post) are library calls: Location = the URL handed to http.Redirect",
                         "request-object processing (ParseRequestObject) is an arbitrary function in the theorems; the stream mints real request objects, the driver's "
                         "twin applies the overrides the harness put into them (signature validity by construction: right key / foreign key / wrong aud / wrong iss)"],
        "assumptions": ["weak reading proved for all inputs: scheme = literal prefix http:// / https://, native loopback variant = equal decoded path and raw query; "
                        "the strict reading (DESIGN 4.21) is what the monitor evaluates on observed responses: its two deviations are known findings F-C03b / F-C03c "
                        "with Lean witnesses",
                        "a redirect's destination is compared as (scheme, userinfo, host[:port], path) of net/url's parse; the round trip of the response "
                        "parameters is C11's subject"],
    },
    "C12": {
        "proof_module": "OidcModel.Proofs.C12",
        "theorems": ["C12.c12_registered_wins", "C12.c12_custom_survives", "C12.c12_merge_monitor", "C12.c12_audience_exact",
                     "C12.c12_time_exact", "C12.c12_bool_exact", "C12.c12_seal_roundtrip", "C12.c12_seal_monitor",
                     "Cfb.dec_enc", "Cfb.unseal_seal", "B64.decode_encode"],
        "cases": {"quick": 6000, "thorough": 150000},
        "rule": "(a) 7 claims/response types with random registered fields and custom-claim maps whose keys collide with registered names half of the time: "
                "json.Marshal, top-level comparison with merge(registered, custom), json.Unmarshal back; (b) Audience / Time / Bool decoders on a pool of 36 JSON "
                "documents + random integers; (c) crypto.EncryptAES/DecryptAES for key sizes 16/24/32 and plaintext lengths 0..300 (thorough: ..4096), the model "
                "re-computes the ciphertext from the drawn iv and AES's block evaluations (CFB consistency) and decrypts under a second key; "
                "non-trivial = everything but the modal class; distinct = class x input",
        "trivial_class": r"seal::ok",
        "trusted_base": ["encoding/json (generic decoding, struct tags, omitempty), time.Parse(RFC3339) and AES block encryption are oracles",
                         "the codec is hand-modelled (top-level merge, decoders); tied by this correspondence stream, not regenerated",
                         "'only under the same key' assumes AES is a pseudo-random permutation; it is sampled, not proved (partial)",
                         "Locale(s) and SpaceDelimitedArray decoders are exercised in the C09 stream only"],
        "assumptions": ["block function of fixed output size 16 (any function: the CFB theorem does not use AES)"],
    },
    "C04": {
        "proof_module": "OidcModel.Proofs.C04",
        "theorems": ["C04.authorizeCodeClient_ok", "C04.validateAccessTokenRequest_ok", "C04.legacyCodeExchange_ok",
                     "C04.authorizeCodeChallenge_ok", "C04.validateGrantType_iff"],
        "cases": {"quick": 250, "thorough": 4000},
        "rule": "random histories (4..18 ops quick, ..44 thorough) of authorize / login / callback / code exchange / refresh over 7 clients "
                "(confidential basic x2, public native, client_secret_post, private_key_jwt, without refresh grant, without code grant) on both routers, "
                "with replays, cross-client redemption, wrong / missing redirect_uri and code_verifier, S256 and plain challenges, wrong secrets, forged / expired / "
                "foreign assertions, garbage codes, and an injected DeleteAuthRequest failure; every line is one HTTP request against the real handlers; the "
                "model (regenerated decision functions + hand-written stateful shell) must produce the same response, the reference monitor judges the observed one; "
                "non-trivial = not the modal class; distinct = class x input",
        "trivial_class": r"authorize:login",
        "trusted_base": COMMON_TB + ["the handler skeletons (tokensHandler, withClient, CodeExchange) and the storage effects of CreateTokenResponse are hand-modelled (Model/Flow.lean); tied by this stream",
                                     "reference storage refstore as the meaning of a contract-fulfilling op.Storage",
                                     "history-level single-use follows from the modelled deletion; see Proofs/C04 for what is proved at function level"],
        "assumptions": ["codes and refresh tokens are compared through the harness's symbol table (real string <-> label)"],
    },
    "C07": {
        "proof_module": "OidcModel.Proofs.C07",
        "theorems": ["C07.validateRefreshTokenScopes_ok", "C07.validateRefreshTokenRequest_ok", "C07.legacyRefreshToken_ok", "C07.scope_chain_narrows"],
        "cases": {"quick": 250, "thorough": 4000},
        "rule": "the same histories as C04 with refresh chains favoured: own / foreign client, subset / superset / disjoint / empty scope lists, replayed (rotated) "
                "and unknown refresh tokens, refresh support enabled and disabled, both routers; journal entries of the storage calls are part of the observation",
        "trivial_class": r"authorize:login",
        "trusted_base": COMMON_TB + ["handler skeletons and rotation in the reference storage are hand-modelled; tied by this stream"],
        "assumptions": [],
    },
}
