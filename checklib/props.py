# per-property configuration of ./check
COMMON_TB = [
    "symbolic cryptography (Dolev-Yao term algebra): go-jose signing/verification, SHA-2 are modelled, not verified",
]

PROPS = {
    "C01": {
        "proof_module": "OidcModel.Proofs.C01",
        "theorems": ["C01.c01_holds", "C01.c01_sound", "C01.c01_complete_margin", "C01.c01_sound_all",
                     "C01.c01_complete_all", "C01.rpVerifyAccessToken_ok", "C01.getHashAlgorithm_eq",
                     "C01.tRound_second_bounds"],
        "cases": {"quick": 3000, "thorough": 60000},
        "rule": "ID tokens really signed (RSA/EC/Ed25519) starting from a valid token with 0-3 mutated dimensions out of 12 "
                "(iss, sub, aud shape, azp, exp/iat/auth_time at boundary +-2s, nonce, acr, at_hash variants, untrusted signer) x verifier "
                "configuration (offset, max iat age, max auth age, nonce fn, ACR verifier, allow-list); real rp.VerifyIDToken / rp.VerifyTokens; "
                "non-trivial = outcome class other than the modal one; distinct = outcome class x input with case id and timestamps removed",
        "trivial_class": r"ok\|ok\|ok",
        "trusted_base": COMMON_TB + ["JSON decoding of the payload is taken from the real codec (oracle; see C12)",
                                     "signature validity is symbolic here; key selection is C02's subject"],
        "assumptions": ["instants within years 1..9999 (Go time arithmetic exact)",
                        "a call is compared only through its [t0,t1] clock bracket; every time guard is monotone in now"],
    },
    "C02": {
        "proof_module": "OidcModel.Proofs.C02",
        "theorems": ["C02.c02_rp", "C02.c02_accessToken", "C02.c02_idTokenHint", "C02.c02_assertion",
                     "C02.parse_and_signature_sound", "C02.verifySignature_sound", "C02.findMatchingKey_eq_spec",
                     "C02.findMatchingKey_ok", "C02.findMatchingKey_ambiguous"],
        "cases": {"quick": 4000, "thorough": 40000},
        "rule": "part 1: oidc.FindMatchingKey on key sets of 1-4 keys over (kid in {'',a,b}) x (use in {'',sig,enc}) x (RSA,EC,OKP) x header kid x 6 algs "
                "(thorough: exhaustive for sets of <=2 keys) compared with the statement's selection rule; part 2: genuinely signed tokens with one of 10 "
                "serialisation manipulations (alg swap, HMAC-with-public-key, foreign key, truncated signature, replaced payload, extra segments, flattened / "
                "general JSON JWS, JSON smuggling, re-encoding) through rp.VerifyIDToken (remote JWKS), op.VerifyAccessToken, op.VerifyIDTokenHint (OpenIDKeySet), "
                "op.VerifyJWTAssertion (per-client key registry); non-trivial = outcome class other than the modal one",
        "trivial_class": r"err:ErrKeyNone\|err:ErrKeyNone\|ok",
        "exhaustive": {"thorough": True},
        "trusted_base": COMMON_TB + ["go-jose parsing (which signatures/headers/payload a string contains) is taken from the real library as oracle",
                                     "FindMatchingKey and the three KeySet implementations are hand-modelled; tied by this correspondence stream"],
        "assumptions": ["signature terms are symbolic: forging a signature without the key is impossible by definition of the term algebra"],
    },
    "C12": {
        "proof_module": "OidcModel.Proofs.C12",
        "theorems": ["C12.c12_registered_wins", "C12.c12_custom_survives", "C12.c12_merge_monitor", "C12.c12_audience_exact",
                     "C12.c12_time_exact", "C12.c12_bool_exact", "C12.c12_seal_roundtrip", "C12.c12_seal_monitor",
                     "Cfb.dec_enc", "Cfb.unseal_seal", "B64.decode_encode"],
        "cases": {"quick": 6000, "thorough": 150000},
        "rule": "(a) 7 claims/response types with random registered fields and custom-claim maps whose keys collide with registered names half of the time: "
                "json.Marshal, top-level comparison with merge(registered, custom), json.Unmarshal back; (b) Audience / Time / Bool decoders on a pool of 36 JSON "
                "documents + random integers; (c) crypto.EncryptAES/DecryptAES for key sizes 16/24/32 and plaintext lengths 0..300 (thorough: ..4096), the model "
                "re-computes the ciphertext from the drawn iv and AES's block evaluations (CFB consistency) and decrypts under a second key; "
                "non-trivial = everything but the modal class; distinct = class x input",
        "trivial_class": r"seal::ok",
        "trusted_base": ["encoding/json (generic decoding, struct tags, omitempty), time.Parse(RFC3339) and AES block encryption are oracles",
                         "the codec is hand-modelled (top-level merge, decoders); tied by this correspondence stream, not regenerated",
                         "'only under the same key' assumes AES is a pseudo-random permutation; it is sampled, not proved (partial)",
                         "Locale(s) and SpaceDelimitedArray decoders are exercised in the C09 stream only"],
        "assumptions": ["block function of fixed output size 16 (any function: the CFB theorem does not use AES)"],
    },
    "C04": {
        "proof_module": "OidcModel.Proofs.C04",
        "theorems": ["C04.authorizeCodeClient_ok", "C04.validateAccessTokenRequest_ok", "C04.legacyCodeExchange_ok",
                     "C04.authorizeCodeChallenge_ok", "C04.validateGrantType_iff"],
        "cases": {"quick": 250, "thorough": 4000},
        "rule": "random histories (4..18 ops quick, ..44 thorough) of authorize / login / callback / code exchange / refresh over 7 clients "
                "(confidential basic x2, public native, client_secret_post, private_key_jwt, without refresh grant, without code grant) on both routers, "
                "with replays, cross-client redemption, wrong / missing redirect_uri and code_verifier, S256 and plain challenges, wrong secrets, forged / expired / "
                "foreign assertions, garbage codes, and an injected DeleteAuthRequest failure; every line is one HTTP request against the real handlers; the "
                "model (regenerated decision functions + hand-written stateful shell) must produce the same response, the reference monitor judges the observed one; "
                "non-trivial = not the modal class; distinct = class x input",
        "trivial_class": r"authorize:login",
        "trusted_base": COMMON_TB + ["the handler skeletons (tokensHandler, withClient, CodeExchange) and the storage effects of CreateTokenResponse are hand-modelled (Model/Flow.lean); tied by this stream",
                                     "reference storage refstore as the meaning of a contract-fulfilling op.Storage",
                                     "history-level single-use follows from the modelled deletion; see Proofs/C04 for what is proved at function level"],
        "assumptions": ["codes and refresh tokens are compared through the harness's symbol table (real string <-> label)"],
    },
    "C07": {
        "proof_module": "OidcModel.Proofs.C07",
        "theorems": ["C07.validateRefreshTokenScopes_ok", "C07.validateRefreshTokenRequest_ok", "C07.legacyRefreshToken_ok", "C07.scope_chain_narrows"],
        "cases": {"quick": 250, "thorough": 4000},
        "rule": "the same histories as C04 with refresh chains favoured: own / foreign client, subset / superset / disjoint / empty scope lists, replayed (rotated) "
                "and unknown refresh tokens, refresh support enabled and disabled, both routers; journal entries of the storage calls are part of the observation",
        "trivial_class": r"authorize:login",
        "trusted_base": COMMON_TB + ["handler skeletons and rotation in the reference storage are hand-modelled; tied by this stream"],
        "assumptions": [],
    },
    "C16": {
        "proof_module": "OidcModel.Proofs.C16",
        "theorems": ["C16.c16_state_machine", "C16.c16_order", "C16.checkState_ok", "C16.denied_wins", "C16.approved_wins_over_expiry",
                     "C16.timeout_is_slow_down", "C16.deviceToken_ok", "C16.deviceToken_legit", "C16.poll_tokens_sound", "C16.poll_error_ok",
                     "C16.deviceAccessToken_ok", "C16.legacyDeviceToken_ok", "C16.withClient_ok", "C16.auth_response_ok",
                     "C16.userCode_wellformed", "C16.userCode_length", "C16.deviceCode_wellformed", "C16.c16_uris",
                     "C16.c16_uris_reserved_witness", "C16.issueOf_idToken"],
        "cases": {"quick": 1500, "thorough": 40000},
        "rule": "n = number of histories. (1) 6n direct calls of op.NewUserCode over 16 alphabets (ASCII, single letter, duplicates, containing '-', "
                "umlauts, Greek, emoji, mixed UTF-8 widths, reserved URL characters) x amounts 1..64 (biased to 1..3 and to multiples of the dash interval +-1) "
                "x dash intervals 0..9; the alphabet index of every character is recovered from the real output and the model must rebuild the string exactly; "
                "(2) n/2 calls of op.NewDeviceCode (16 bytes and 0..40), bytes recovered by decoding; (3) n random histories (4..17 ops quick, ..37 thorough) of "
                "device_authorization / approve / deny / expire (expiry moved to now-1h .. now+1h incl. -1ns, +30ms) / poll against the REAL HTTP handlers of both "
                "routers on the reference storage, 9 clients (confidential basic x2, public native, public user-agent, client_secret_post, private_key_jwt, without the "
                "device grant, native WITH secret, web WITHOUT secret), presentations canonical 75% / wrong secret / bare client_id / post / none / foreign secret / "
                "unregistered id, polls by the owner or another client, unknown / empty / mangled device codes, storage faults on the state lookup (DeadlineExceeded, "
                "wrapped DeadlineExceeded, expired request context, cancelled context, other error), histories without DeviceAuthorizationStorage, with tiny code "
                "spaces (duplicate user codes), with a storage that leaves userinfo.Subject empty, lifetimes 90s/5min/10min, intervals 1/5/10s; issued access tokens are "
                "decrypted with the provider's key and looked up in the storage, ID tokens decoded; non-trivial = everything but usercode lines; distinct = class x input",
        "trivial_class": r"usercode:ok",
        "trusted_base": COMMON_TB + [
            "hand-written: handler skeletons of both routers (Exchange dispatch, withClient, deviceAuthorizationHandler, deviceTokenHandler), ClientIDFromRequest "
            "without client assertions, createDeviceAuthorization (url building for an issuer without path), NewUserCode / NewDeviceCode as functions of the drawn "
            "randomness, CreateDeviceTokenResponse reduced to (subject, client, scopes, audience, id_token sub); tied by this stream only",
            "regenerated by factgen and consumed by the theorems: CheckDeviceAuthorizationState, assertDeviceStorage, deviceAccessToken, LegacyServer.DeviceToken, "
            "ParseDeviceAccessTokenRequest, ParseDeviceCodeRequest, DeviceAuthorization, LegacyServer.DeviceAuthorization, LegacyServer.VerifyClient, ValidateGrantType",
            "reference storage refstore as the meaning of a contract-fulfilling DeviceAuthorizationStorage (state only for the initiating client id)",
            "HTTP status codes of error answers are only sampled (the model carries the OAuth error code)",
            "crypto/rand: 16 bytes per device code, rand.Int below its bound; unguessability (entropy, non-collision) of the device code is an assumption of "
            "c16_state_machine, only length / alphabet / pairwise distinctness are monitored (PARTIAL, DESIGN section 6)"],
        "assumptions": ["user-code configuration in the domain of DESIGN 4.21: non-empty alphabet, amount >= 1, dash interval >= 0 (Nat in the model)",
                        "c16_state_machine: lifetime a whole number of seconds; alphabet without % + & # (c16_uris_reserved_witness proves what fails "
                        "otherwise); fresh device codes",
                        "expiry compared through the [t0,t1] clock bracket of each request (guard monotone in now)"],
    },
}
