# per-property configuration of ./check
COMMON_TB = [
    "symbolic cryptography (Dolev-Yao term algebra): go-jose signing/verification, SHA-2 are modelled, not verified",
]

PROPS = {
    "C01": {
        "proof_module": "OidcModel.Proofs.C01",
        "theorems": ["C01.c01_holds", "C01.c01_sound", "C01.c01_complete_margin", "C01.c01_sound_all",
                     "C01.c01_complete_all", "C01.rpVerifyAccessToken_ok", "C01.getHashAlgorithm_eq",
                     "C01.tRound_second_bounds"],
        "cases": {"quick": 3000, "thorough": 60000},
        "rule": "ID tokens really signed (RSA/EC/Ed25519) starting from a valid token with 0-3 mutated dimensions out of 12 "
                "(iss, sub, aud shape, azp, exp/iat/auth_time at boundary +-2s, nonce, acr, at_hash variants, untrusted signer) x verifier "
                "configuration (offset, max iat age, max auth age, nonce fn, ACR verifier, allow-list); real rp.VerifyIDToken / rp.VerifyTokens; "
                "non-trivial = outcome class other than the modal one; distinct = outcome class x input with case id and timestamps removed",
        "trivial_class": r"ok\|ok\|ok",
        "trusted_base": COMMON_TB + ["JSON decoding of the payload is taken from the real codec (oracle; see C12)",
                                     "signature validity is symbolic here; key selection is C02's subject"],
        "assumptions": ["instants within years 1..9999 (Go time arithmetic exact)",
                        "a call is compared only through its [t0,t1] clock bracket; every time guard is monotone in now"],
    },
    "C02": {
        "proof_module": "OidcModel.Proofs.C02",
        "theorems": ["C02.c02_rp", "C02.c02_accessToken", "C02.c02_idTokenHint", "C02.c02_assertion",
                     "C02.parse_and_signature_sound", "C02.verifySignature_sound", "C02.findMatchingKey_eq_spec",
                     "C02.findMatchingKey_ok", "C02.findMatchingKey_ambiguous"],
        "cases": {"quick": 4000, "thorough": 40000},
        "rule": "part 1: oidc.FindMatchingKey on key sets of 1-4 keys over (kid in {'',a,b}) x (use in {'',sig,enc}) x (RSA,EC,OKP) x header kid x 6 algs "
                "(thorough: exhaustive for sets of <=2 keys) compared with the statement's selection rule; part 2: genuinely signed tokens with one of 10 "
                "serialisation manipulations (alg swap, HMAC-with-public-key, foreign key, truncated signature, replaced payload, extra segments, flattened / "
                "general JSON JWS, JSON smuggling, re-encoding) through rp.VerifyIDToken (remote JWKS), op.VerifyAccessToken, op.VerifyIDTokenHint (OpenIDKeySet), "
                "op.VerifyJWTAssertion (per-client key registry); non-trivial = outcome class other than the modal one",
        "trivial_class": r"err:ErrKeyNone\|err:ErrKeyNone\|ok",
        "exhaustive": {"thorough": True},
        "trusted_base": COMMON_TB + ["go-jose parsing (which signatures/headers/payload a string contains) is taken from the real library as oracle",
                                     "FindMatchingKey and the three KeySet implementations are hand-modelled; tied by this correspondence stream"],
        "assumptions": ["signature terms are symbolic: forging a signature without the key is impossible by definition of the term algebra"],
    },
    "C12": {
        "proof_module": "OidcModel.Proofs.C12",
        "theorems": ["C12.c12_registered_wins", "C12.c12_custom_survives", "C12.c12_merge_monitor", "C12.c12_audience_exact",
                     "C12.c12_time_exact", "C12.c12_bool_exact", "C12.c12_seal_roundtrip", "C12.c12_seal_monitor",
                     "Cfb.dec_enc", "Cfb.unseal_seal", "B64.decode_encode"],
        "cases": {"quick": 6000, "thorough": 150000},
        "rule": "(a) 7 claims/response types with random registered fields and custom-claim maps whose keys collide with registered names half of the time: "
                "json.Marshal, top-level comparison with merge(registered, custom), json.Unmarshal back; (b) Audience / Time / Bool decoders on a pool of 36 JSON "
                "documents + random integers; (c) crypto.EncryptAES/DecryptAES for key sizes 16/24/32 and plaintext lengths 0..300 (thorough: ..4096), the model "
                "re-computes the ciphertext from the drawn iv and AES's block evaluations (CFB consistency) and decrypts under a second key; "
                "non-trivial = everything but the modal class; distinct = class x input",
        "trivial_class": r"seal::ok",
        "trusted_base": ["encoding/json (generic decoding, struct tags, omitempty), time.Parse(RFC3339) and AES block encryption are oracles",
                         "the codec is hand-modelled (top-level merge, decoders); tied by this correspondence stream, not regenerated",
                         "'only under the same key' assumes AES is a pseudo-random permutation; it is sampled, not proved (partial)",
                         "Locale(s) and SpaceDelimitedArray decoders are exercised in the C09 stream only"],
        "assumptions": ["block function of fixed output size 16 (any function: the CFB theorem does not use AES)"],
    },
    "C04": {
        "proof_module": "OidcModel.Proofs.C04",
        "theorems": ["C04.authorizeCodeClient_ok", "C04.validateAccessTokenRequest_ok", "C04.legacyCodeExchange_ok",
                     "C04.authorizeCodeChallenge_ok", "C04.validateGrantType_iff"],
        "cases": {"quick": 250, "thorough": 4000},
        "rule": "random histories (4..18 ops quick, ..44 thorough) of authorize / login / callback / code exchange / refresh over 7 clients "
                "(confidential basic x2, public native, client_secret_post, private_key_jwt, without refresh grant, without code grant) on both routers, "
                "with replays, cross-client redemption, wrong / missing redirect_uri and code_verifier, S256 and plain challenges, wrong secrets, forged / expired / "
                "foreign assertions, garbage codes, and an injected DeleteAuthRequest failure; every line is one HTTP request against the real handlers; the "
                "model (regenerated decision functions + hand-written stateful shell) must produce the same response, the reference monitor judges the observed one; "
                "non-trivial = not the modal class; distinct = class x input",
        "trivial_class": r"authorize:login",
        "trusted_base": COMMON_TB + ["the handler skeletons (tokensHandler, withClient, CodeExchange) and the storage effects of CreateTokenResponse are hand-modelled (Model/Flow.lean); tied by this stream",
                                     "reference storage refstore as the meaning of a contract-fulfilling op.Storage",
                                     "history-level single-use follows from the modelled deletion; see Proofs/C04 for what is proved at function level"],
        "assumptions": ["codes and refresh tokens are compared through the harness's symbol table (real string <-> label)"],
    },
    "C07": {
        "proof_module": "OidcModel.Proofs.C07",
        "theorems": ["C07.validateRefreshTokenScopes_ok", "C07.validateRefreshTokenRequest_ok", "C07.legacyRefreshToken_ok", "C07.scope_chain_narrows"],
        "cases": {"quick": 250, "thorough": 4000},
        "rule": "the same histories as C04 with refresh chains favoured: own / foreign client, subset / superset / disjoint / empty scope lists, replayed (rotated) "
                "and unknown refresh tokens, refresh support enabled and disabled, both routers; journal entries of the storage calls are part of the observation",
        "trivial_class": r"authorize:login",
        "trusted_base": COMMON_TB + ["handler skeletons and rotation in the reference storage are hand-modelled; tied by this stream"],
        "assumptions": [],
    },
    "C11": {
        "proof_module": "OidcModel.Proofs.C11",
        "theorems": ["C11.formDecode_QueryEscape", "C11.parseQuery_joinAmp", "C11.valuesOf_parseQuery_Encode",
                     "C11.c11_query_roundtrip", "C11.c11_holds_query", "C11.c11_holds_query_mode", "C11.authResponseURL_channel",
                     "C11.c11_fragment_wire", "C11.c11_fragment_roundtrip_partial", "C11.c11_fragment_double_encoding_witness",
                     "C11.c11_attr_no_breakout", "C11.c11_attr_roundtrip", "C11.canon_urlNormalize", "C11.c11_form_action_target",
                     "C11.formPostTemplate_ok", "C11.formPostAutoescape_on", "C11.template_missing_params",
                     "C11.tokenize_render", "C11.c11_form_tags", "C11.c11_form_submission_partial",
                     "C11.c11_form_custom_scheme_witness", "C11.c11_form_session_state_witness"],
        "cases": {"quick": 5000, "thorough": 120000},
        "rule": "redirect URI shape (37 shapes: plain, loopback, with query incl. colliding / quoted / malformed pairs, with fragment, query+fragment, custom scheme "
                "hierarchical and opaque, special path bytes, userinfo, upper-case scheme, unparsable) x response mode ('', query, fragment, form_post) x response type "
                "(code, id_token token, id_token) x response kind (code / token / error) x parameter strings (state, code, session_state, tokens, error_description) drawn "
                "from: alphanumerics, 60 crafted strings (+ / = & % # ? space quotes angle brackets, character-reference look-alikes, markup), random ASCII punctuation, "
                "random Unicode (Latin, Greek/Cyrillic, CJK, emoji, U+FFFD, noncharacters, U+2028), long strings, raw bytes incl. controls and invalid UTF-8 (query / fragment "
                "modes only), empty. Entry points of the REAL code: op.AuthResponseURL and op.AuthResponseFormPost directly, op.AuthResponseCode (code drawn via op.Crypto), "
                "op.AuthResponseToken (real tokens), op.AuthRequestError, op.TryErrorRedirect, and the HTTP path GET /authorize -> login -> GET /authorize/callback. The produced "
                "parameters are recorded at the schema-encoder boundary. The Lean driver recomputes the Location value / the HTML page byte for byte from the regenerated model "
                "(agree) and evaluates the monitor on the OBSERVED bytes with its own decoders; pages are additionally tokenised by golang.org/x/net/html and both views must coincide. "
                "non-trivial = every class but the modal one; distinct = class x input",
        "trivial_class": r"url:code:query:plain:redirect",
        "trusted_base": ["net/url.Parse is an oracle: the theorems assume of its answer only C11.ParseOK (the part before the query is rendered without ?/# and addresses "
                         "the same target; RawQuery is the URI's query text); the driver evaluates these conditions on every case (hyp=)",
                         "net/url escape/unescape/Values.Encode/URL.String and html/template's attrEscaper/urlFilter/urlNormalizer are hand-modelled byte for byte "
                         "(Model/AuthResponse.lean); tied by this stream (exact byte equality of Location / page)",
                         "the zitadel/schema encoder is modelled as 'every non-empty field under its schema name'; the produced parameters are taken at the encoder boundary",
                         "the specification's HTML tokenizer records start tags only, has no raw-text states and a short table of named character references; every page is also "
                         "tokenised by golang.org/x/net/html in the harness and the monitor demands that both views are equal",
                         "user-agent behaviour itself (WHATWG URL / HTML parsing) is represented by these decoders; http.Redirect's hexEscapeNonASCII is modelled"],
        "assumptions": ["form_post: parameter values are Unicode strings without NUL and CR (HTML cannot carry them; DESIGN 4.21), proved for bytes without NUL / CR",
                        "'as a user agent does': the raw text after # is parsed as application/x-www-form-urlencoded once",
                        "pre-existing query parameters = what the same decoder reads from the redirect URI's query (pairs with ';' or a malformed escape are not parameters)"],
    },
}
