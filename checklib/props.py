# per-property configuration of ./check
COMMON_TB = [
    "symbolic cryptography (Dolev-Yao term algebra): go-jose signing/verification, SHA-2 are modelled, not verified",
]

PROPS = {
    "C01": {
        "proof_module": "OidcModel.Proofs.C01",
        "theorems": ["C01.c01_holds", "C01.c01_sound", "C01.c01_complete_margin", "C01.c01_sound_all",
                     "C01.c01_complete_all", "C01.rpVerifyAccessToken_ok", "C01.getHashAlgorithm_eq",
                     "C01.tRound_second_bounds"],
        "cases": {"quick": 3000, "thorough": 60000},
        "rule": "ID tokens really signed (RSA/EC/Ed25519) starting from a valid token with 0-3 mutated dimensions out of 12 "
                "(iss, sub, aud shape, azp, exp/iat/auth_time at boundary +-2s, nonce, acr, at_hash variants, untrusted signer) x verifier "
                "configuration (offset, max iat age, max auth age, nonce fn, ACR verifier, allow-list); real rp.VerifyIDToken / rp.VerifyTokens; "
                "non-trivial = outcome class other than the modal one; distinct = outcome class x input with case id and timestamps removed",
        "trivial_class": r"ok\|ok\|ok",
        "trusted_base": COMMON_TB + ["JSON decoding of the payload is taken from the real codec (oracle; see C12)",
                                     "signature validity is symbolic here; key selection is C02's subject"],
        "assumptions": ["instants within years 1..9999 (Go time arithmetic exact)",
                        "a call is compared only through its [t0,t1] clock bracket; every time guard is monotone in now"],
    },
    "C02": {
        "proof_module": "OidcModel.Proofs.C02",
        "theorems": ["C02.c02_rp", "C02.c02_accessToken", "C02.c02_idTokenHint", "C02.c02_assertion",
                     "C02.parse_and_signature_sound", "C02.verifySignature_sound", "C02.findMatchingKey_eq_spec",
                     "C02.findMatchingKey_ok", "C02.findMatchingKey_ambiguous"],
        "cases": {"quick": 4000, "thorough": 40000},
        "rule": "part 1: oidc.FindMatchingKey on key sets of 1-4 keys over (kid in {'',a,b}) x (use in {'',sig,enc}) x (RSA,EC,OKP) x header kid x 6 algs "
                "(thorough: exhaustive for sets of <=2 keys) compared with the statement's selection rule; part 2: genuinely signed tokens with one of 10 "
                "serialisation manipulations (alg swap, HMAC-with-public-key, foreign key, truncated signature, replaced payload, extra segments, flattened / "
                "general JSON JWS, JSON smuggling, re-encoding) through rp.VerifyIDToken (remote JWKS), op.VerifyAccessToken, op.VerifyIDTokenHint (OpenIDKeySet), "
                "op.VerifyJWTAssertion (per-client key registry); non-trivial = outcome class other than the modal one",
        "trivial_class": r"err:ErrKeyNone\|err:ErrKeyNone\|ok",
        "exhaustive": {"thorough": True},
        "trusted_base": COMMON_TB + ["go-jose parsing (which signatures/headers/payload a string contains) is taken from the real library as oracle",
                                     "FindMatchingKey and the three KeySet implementations are hand-modelled; tied by this correspondence stream"],
        "assumptions": ["signature terms are symbolic: forging a signature without the key is impossible by definition of the term algebra"],
    },
    "C12": {
        "proof_module": "OidcModel.Proofs.C12",
        "theorems": ["C12.c12_registered_wins", "C12.c12_custom_survives", "C12.c12_merge_monitor", "C12.c12_audience_exact",
                     "C12.c12_time_exact", "C12.c12_bool_exact", "C12.c12_seal_roundtrip", "C12.c12_seal_monitor",
                     "Cfb.dec_enc", "Cfb.unseal_seal", "B64.decode_encode"],
        "cases": {"quick": 6000, "thorough": 150000},
        "rule": "(a) 7 claims/response types with random registered fields and custom-claim maps whose keys collide with registered names half of the time: "
                "json.Marshal, top-level comparison with merge(registered, custom), json.Unmarshal back; (b) Audience / Time / Bool decoders on a pool of 36 JSON "
                "documents + random integers; (c) crypto.EncryptAES/DecryptAES for key sizes 16/24/32 and plaintext lengths 0..300 (thorough: ..4096), the model "
                "re-computes the ciphertext from the drawn iv and AES's block evaluations (CFB consistency) and decrypts under a second key; "
                "non-trivial = everything but the modal class; distinct = class x input",
        "trivial_class": r"seal::ok",
        "trusted_base": ["encoding/json (generic decoding, struct tags, omitempty), time.Parse(RFC3339) and AES block encryption are oracles",
                         "the codec is hand-modelled (top-level merge, decoders); tied by this correspondence stream, not regenerated",
                         "'only under the same key' assumes AES is a pseudo-random permutation; it is sampled, not proved (partial)",
                         "Locale(s) and SpaceDelimitedArray decoders are exercised in the C09 stream only"],
        "assumptions": ["block function of fixed output size 16 (any function: the CFB theorem does not use AES)"],
    },
    "C04": {
        "proof_module": "OidcModel.Proofs.C04",
        "theorems": ["C04.authorizeCodeClient_ok", "C04.validateAccessTokenRequest_ok", "C04.legacyCodeExchange_ok",
                     "C04.authorizeCodeChallenge_ok", "C04.validateGrantType_iff"],
        "cases": {"quick": 250, "thorough": 4000},
        "rule": "random histories (4..18 ops quick, ..44 thorough) of authorize / login / callback / code exchange / refresh over 7 clients "
                "(confidential basic x2, public native, client_secret_post, private_key_jwt, without refresh grant, without code grant) on both routers, "
                "with replays, cross-client redemption, wrong / missing redirect_uri and code_verifier, S256 and plain challenges, wrong secrets, forged / expired / "
                "foreign assertions, garbage codes, and an injected DeleteAuthRequest failure; every line is one HTTP request against the real handlers; the "
                "model (regenerated decision functions + hand-written stateful shell) must produce the same response, the reference monitor judges the observed one; "
                "non-trivial = not the modal class; distinct = class x input",
        "trivial_class": r"authorize:login",
        "trusted_base": COMMON_TB + ["the handler skeletons (tokensHandler, withClient, CodeExchange) and the storage effects of CreateTokenResponse are hand-modelled (Model/Flow.lean); tied by this stream",
                                     "reference storage refstore as the meaning of a contract-fulfilling op.Storage",
                                     "history-level single-use follows from the modelled deletion; see Proofs/C04 for what is proved at function level"],
        "assumptions": ["codes and refresh tokens are compared through the harness's symbol table (real string <-> label)"],
    },
    "C07": {
        "proof_module": "OidcModel.Proofs.C07",
        "theorems": ["C07.validateRefreshTokenScopes_ok", "C07.validateRefreshTokenRequest_ok", "C07.legacyRefreshToken_ok", "C07.scope_chain_narrows"],
        "cases": {"quick": 250, "thorough": 4000},
        "rule": "the same histories as C04 with refresh chains favoured: own / foreign client, subset / superset / disjoint / empty scope lists, replayed (rotated) "
                "and unknown refresh tokens, refresh support enabled and disabled, both routers; journal entries of the storage calls are part of the observation",
        "trivial_class": r"authorize:login",
        "trusted_base": COMMON_TB + ["handler skeletons and rotation in the reference storage are hand-modelled; tied by this stream"],
        "assumptions": [],
    },
    "C14": {
        "proof_module": "OidcModel.Proofs.C14",
        "theorems": ["C14.c14_assertion_sound", "C14.c14_private_key_client", "C14.c14_request_object_sound", "C14.verifyJWTAssertion_paths"],
        "cases": {"quick": 3000, "thorough": 60000},
        "rule": "(a) assertions over iss / sub / aud / iat / exp (boundaries +-2s) / kid / signing key (own, another client's, unknown) against a registry in which "
                "every client has its OWN keys, verifier settings (max age, offset, default or custom subject check), through the real op.VerifyJWTAssertion; "
                "(b) assertions minted by client.NewSignerFromPrivateKeyByte + client.SignedJWTProfileAssertion for RSA / EC / Ed25519 keys; (c) request objects "
                "(own / foreign / unknown issuer, client_id agreeing or not, audience, response_type, 7 overridable parameters, manipulated serialisations) through "
                "the real op.ParseRequestObject with the resulting parameters observed; non-trivial = not the modal class",
        "trivial_class": r"reqobj:err",
        "trusted_base": COMMON_TB + ["JSON decoding of assertion / request-object payloads is taken from the real codec",
                                     "completeness ('helper assertions are accepted') is checked by the correspondence stream only, not proved"],
        "assumptions": ["no client is registered with an empty client id"],
    },
    "C05": {
        "proof_module": "OidcModel.Proofs.C05",
        "theorems": ["C05.legacyVerifyClient_ok", "C05.withClient_grant", "C05.authorizeTokenExchangeClient_ok",
                     "C05.authorizeClientCredentialsClient_ok", "C05.secret_ok", "C04.authorizeCodeClient_ok",
                     "C07.authorizeRefreshClient_ok", "C14.c14_private_key_client"],
        "cases": {"quick": 2500, "thorough": 40000},
        "rule": "one request per case against a fresh provider: router x op.Config flags (post, private_key_jwt, refresh) x storage capabilities (client credentials, "
                "token exchange, device) x endpoint (token with each of 6 grants, introspection, revocation, device_authorization) x 8 registrations (basic x2, public, "
                "post, private_key_jwt, without refresh grant, without code grant, code+refresh only) x presentation (right, wrong secret, none, id only, post body, "
                "malformed percent-escape in Basic, forged / expired assertion, unknown client, another client's credentials); the artefacts (code, refresh token, "
                "device code, subject token) are valid for the named client so that only authentication and grant registration decide; non-trivial = not the modal class",
        "trivial_class": r".*refused:invalid_client",
        "trusted_base": COMMON_TB + ["the request dispatch (tokensHandler / Exchange switch, ClientIDFromRequest, ParseTokenRevocationRequest) is not modelled: it is covered by the monitor on the real handlers only"],
        "assumptions": ["presenting a client_secret_basic secret in the POST body is not treated as a violation (the code accepts it)"],
    },
    "C08": {
        "proof_module": "OidcModel.Proofs.C08",
        "theorems": ["Res.honoured_implies_live", "Res.dead_step", "Res.dead_not_honoured", "Res.revocation_sticks", "Res.revoke_kills",
                     "Res.foreign_revoke_refused", "Res.unknown_revoke_ok", "Res.inactive_discloses_nothing"],
        "cases": {"quick": 250, "thorough": 5000},
        "rule": "random histories (5..20 ops quick, ..44 thorough) on both routers mixing token issuance through real code flows (opaque and JWT access tokens, 5 clients), "
                "expiry, userinfo, introspection (owner / foreign / public / assertion callers), revocation (hints none / access_token / refresh_token / bogus; owner / foreign / "
                "public), end_session with the ID token as hint, token exchange with the access token as subject; presented strings are genuine, bit-flipped (really decrypted, "
                "so CFB malleability is exercised), re-encrypted under another key, JWTs of a foreign key, garbage; non-trivial = not the modal class",
        "trivial_class": r"issue:.*",
        "trusted_base": COMMON_TB + ["the resource endpoints are hand-modelled (Model/Resource.lean) over the reference storage's token table; tied by this stream",
                                     "what Decrypt makes of a presented string is taken from the real AES code (oracle); the theorems hold for ANY plaintext"],
        "assumptions": ["token ids are unique in the storage (fresh counters)"],
    },
    "C10": {
        "proof_module": "OidcModel.Proofs.C10",
        "theorems": ["C10.c10_all_call_sites_checked", "C10.c10_fail_closed", "C10.c10_success_needs_all", "C10.runCalls_error_of_fails"],
        "cases": {"quick": 0, "thorough": 0},
        "rule": "fault enumeration: for each of 15 flows (authorize, callback code / implicit, token endpoint x 6 grants, device_authorization, userinfo, introspection, "
                "revocation, end_session, keys) on both routers, learn the journal length n of the fault-free request, then re-run it from a fresh provider with the k-th "
                "storage call failing for EVERY k = 1..n+1 and each error kind (plain error, context.DeadlineExceeded, oidc.Error); quick = 2 request variants, thorough = 12 "
                "(public / confidential client, opaque / JWT access tokens, scope sets, SetUserinfoFromRequest capability); non-trivial = a fault that hit a call; distinct = flow x router x failed method x status",
        "trivial_class": r".*:beyond:.*",
        "exhaustive": {"quick": True, "thorough": True},
        "trusted_base": ["the call-site extractor of factgen (storagecalls.go): which statements count as 'the error is examined' (next statement tests or returns it)",
                         "the abstract handler model (sequence of calls in the Except monad) is connected to the code only through that extracted fact list and the fault enumeration",
                         "refstore journal + k-th-call fault injection"],
        "assumptions": ["introspection's required answer to a storage failure is 'not active' (the code answers 200 {active:false})"],
    },
    "C15": {
        "proof_module": "OidcModel.Proofs.C15",
        "theorems": ["C15.c15_validate_sound", "C15.c15_response_declares_contents", "C15.c15_unissuable_type_is_error",
                     "C05.authorizeTokenExchangeClient_ok"],
        "cases": {"quick": 2000, "thorough": 30000},
        "rule": "one token-exchange request per case against a fresh provider (both routers, exchange storage on/off): subject token kind (opaque / JWT access token, refresh token, "
                "ID token, expired / revoked access token, expired ID token, JWT of a foreign key, rotated refresh token, garbage) x declared type (right, other, jwt, unknown, missing) "
                "x requested type (absent, access, refresh, id, jwt, unknown) x actor token (none, live, dead, garbage) x scope lists (incl. address, impersonation) x presenter "
                "(right secret, wrong secret, client without the grant, public client) x blocked user; the returned token is classified by really decrypting / verifying it and looked up in "
                "the reference storage; non-trivial = not the modal class",
        "trivial_class": r".*:invalid_request",
        "trusted_base": COMMON_TB + ["subject / actor token resolution (GetTokenIDAndSubjectFromToken) and the storage policy are ORACLES of the model (universally quantified in the theorems); "
                                     "the harness supplies the reference storage's ground truth for them",
                                     "token minting (CreateAccessToken / CreateIDToken) is hand-modelled as 'returns a non-empty token of the requested kind'"],
        "assumptions": ["'live' = known to the reference storage, unexpired, unrevoked (access / refresh tokens); verifies and unexpired (ID tokens)"],
    },
    "C06": {
        "proof_module": "OidcModel.Proofs.C06",
        "theorems": ["C06.c06_id_token_claims_verify", "C06.c06_exp_iat_bracket", "C06.c06_absent_auth_time_stays_absent", "C06.c06_audience_azp",
                     "C06.c06_access_token_claims", "C06.c06_hash_binding", "C06.asTime_fromTime_bounds"],
        "cases": {"quick": 1200, "thorough": 20000},
        "rule": "one issuance per case against a fresh provider served over a real HTTP listener: flows (code, implicit id_token token / id_token, refresh, device, token exchange -> id_token, "
                "jwt-bearer, client_credentials) x routers x signing keys / algorithms (RS256, RS384, PS256, ES256, ES384, EdDSA) x opaque / JWT access tokens x client clock skew (0, 5 s, 2 min) x "
                "ID-token lifetimes x scope sets x userinfo-assertion flag x storage variants (userinfo from scopes / from request) x a retired key still published; every ID token goes through the REAL "
                "rp.VerifyTokens / rp.VerifyIDToken with a remote key set fetched from the provider's /keys and the algorithms its discovery document advertises, every JWT access token through "
                "op.VerifyAccessToken, every opaque token is really decrypted; non-trivial = not the modal class",
        "trivial_class": r"code:RS256:tokens:opaque",
        "trusted_base": COMMON_TB + ["the verdicts of the real verifiers enter the monitor as observed facts",
                                     "CreateIDToken / CreateAccessToken / CreateTokenResponse themselves are not translated: the theorems are about the claim constructors they call"],
        "assumptions": ["instants after 1970-01-01T00:00:01Z, clock skew >= 0 (theorem hypotheses)"],
    },
}
