# per-property configuration of ./check
COMMON_TB = [
    "symbolic cryptography (Dolev-Yao term algebra): go-jose signing/verification, SHA-2 are modelled, not verified",
]

PROPS = {
    "C01": {
        "proof_module": "OidcModel.Proofs.C01",
        "theorems": ["C01.c01_holds", "C01.c01_sound", "C01.c01_complete_margin", "C01.c01_sound_all",
                     "C01.c01_complete_all", "C01.rpVerifyAccessToken_ok", "C01.getHashAlgorithm_eq",
                     "C01.tRound_second_bounds"],
        "cases": {"quick": 3000, "thorough": 60000},
        "rule": "ID tokens really signed (RSA/EC/Ed25519) starting from a valid token with 0-3 mutated dimensions out of 12 "
                "(iss, sub, aud shape, azp, exp/iat/auth_time at boundary +-2s, nonce, acr, at_hash variants, untrusted signer) x verifier "
                "configuration (offset, max iat age, max auth age, nonce fn, ACR verifier, allow-list); real rp.VerifyIDToken / rp.VerifyTokens; "
                "non-trivial = outcome class other than the modal one; distinct = outcome class x input with case id and timestamps removed",
        "trivial_class": r"ok\|ok\|ok",
        "trusted_base": COMMON_TB + ["JSON decoding of the payload is taken from the real codec (oracle; see C12)",
                                     "signature validity is symbolic here; key selection is C02's subject"],
        "assumptions": ["instants within years 1..9999 (Go time arithmetic exact)",
                        "a call is compared only through its [t0,t1] clock bracket; every time guard is monotone in now"],
    },
}
