# per-property configuration of ./check
COMMON_TB = [
    "symbolic cryptography (Dolev-Yao term algebra): go-jose signing/verification, SHA-2 are modelled, not verified",
]

PROPS = {
    "C01": {
        "proof_module": "OidcModel.Proofs.C01",
        "theorems": ["C01.c01_holds", "C01.c01_sound", "C01.c01_complete_margin", "C01.c01_sound_all",
                     "C01.c01_complete_all", "C01.rpVerifyAccessToken_ok", "C01.getHashAlgorithm_eq",
                     "C01.tRound_second_bounds"],
        "cases": {"quick": 3000, "thorough": 60000},
        "rule": "ID tokens really signed (RSA/EC/Ed25519) starting from a valid token with 0-3 mutated dimensions out of 12 "
                "(iss, sub, aud shape, azp, exp/iat/auth_time at boundary +-2s, nonce, acr, at_hash variants, untrusted signer) x verifier "
                "configuration (offset, max iat age, max auth age, nonce fn, ACR verifier, allow-list); real rp.VerifyIDToken / rp.VerifyTokens; "
                "non-trivial = outcome class other than the modal one; distinct = outcome class x input with case id and timestamps removed",
        "trivial_class": r"ok\|ok\|ok",
        "trusted_base": COMMON_TB + ["JSON decoding of the payload is taken from the real codec (oracle; see C12)",
                                     "signature validity is symbolic here; key selection is C02's subject"],
        "assumptions": ["instants within years 1..9999 (Go time arithmetic exact)",
                        "a call is compared only through its [t0,t1] clock bracket; every time guard is monotone in now"],
    },
    "C02": {
        "proof_module": "OidcModel.Proofs.C02",
        "theorems": ["C02.c02_rp", "C02.c02_accessToken", "C02.c02_idTokenHint", "C02.c02_assertion",
                     "C02.parse_and_signature_sound", "C02.verifySignature_sound", "C02.findMatchingKey_eq_spec",
                     "C02.findMatchingKey_ok", "C02.findMatchingKey_ambiguous"],
        "cases": {"quick": 4000, "thorough": 40000},
        "rule": "part 1: oidc.FindMatchingKey on key sets of 1-4 keys over (kid in {'',a,b}) x (use in {'',sig,enc}) x (RSA,EC,OKP) x header kid x 6 algs "
                "(thorough: exhaustive for sets of <=2 keys) compared with the statement's selection rule; part 2: genuinely signed tokens with one of 10 "
                "serialisation manipulations (alg swap, HMAC-with-public-key, foreign key, truncated signature, replaced payload, extra segments, flattened / "
                "general JSON JWS, JSON smuggling, re-encoding) through rp.VerifyIDToken (remote JWKS), op.VerifyAccessToken, op.VerifyIDTokenHint (OpenIDKeySet), "
                "op.VerifyJWTAssertion (per-client key registry); non-trivial = outcome class other than the modal one",
        "trivial_class": r"err:ErrKeyNone\|err:ErrKeyNone\|ok",
        "exhaustive": {"thorough": True},
        "trusted_base": COMMON_TB + ["go-jose parsing (which signatures/headers/payload a string contains) is taken from the real library as oracle",
                                     "FindMatchingKey and the three KeySet implementations are hand-modelled; tied by this correspondence stream"],
        "assumptions": ["signature terms are symbolic: forging a signature without the key is impossible by definition of the term algebra"],
    },
    "C12": {
        "proof_module": "OidcModel.Proofs.C12",
        "theorems": ["C12.c12_registered_wins", "C12.c12_custom_survives", "C12.c12_merge_monitor", "C12.c12_audience_exact",
                     "C12.c12_time_exact", "C12.c12_bool_exact", "C12.c12_seal_roundtrip", "C12.c12_seal_monitor",
                     "Cfb.dec_enc", "Cfb.unseal_seal", "B64.decode_encode"],
        "cases": {"quick": 6000, "thorough": 150000},
        "rule": "(a) 7 claims/response types with random registered fields and custom-claim maps whose keys collide with registered names half of the time: "
                "json.Marshal, top-level comparison with merge(registered, custom), json.Unmarshal back; (b) Audience / Time / Bool decoders on a pool of 36 JSON "
                "documents + random integers; (c) crypto.EncryptAES/DecryptAES for key sizes 16/24/32 and plaintext lengths 0..300 (thorough: ..4096), the model "
                "re-computes the ciphertext from the drawn iv and AES's block evaluations (CFB consistency) and decrypts under a second key; "
                "non-trivial = everything but the modal class; distinct = class x input",
        "trivial_class": r"seal::ok",
        "trusted_base": ["encoding/json (generic decoding, struct tags, omitempty), time.Parse(RFC3339) and AES block encryption are oracles",
                         "the codec is hand-modelled (top-level merge, decoders); tied by this correspondence stream, not regenerated",
                         "'only under the same key' assumes AES is a pseudo-random permutation; it is sampled, not proved (partial)",
                         "Locale(s) and SpaceDelimitedArray decoders are exercised in the C09 stream only"],
        "assumptions": ["block function of fixed output size 16 (any function: the CFB theorem does not use AES)"],
    },
    "C04": {
        "proof_module": "OidcModel.Proofs.C04",
        "theorems": ["C04.authorizeCodeClient_ok", "C04.validateAccessTokenRequest_ok", "C04.legacyCodeExchange_ok",
                     "C04.authorizeCodeChallenge_ok", "C04.validateGrantType_iff"],
        "cases": {"quick": 250, "thorough": 4000},
        "rule": "random histories (4..18 ops quick, ..44 thorough) of authorize / login / callback / code exchange / refresh over 7 clients "
                "(confidential basic x2, public native, client_secret_post, private_key_jwt, without refresh grant, without code grant) on both routers, "
                "with replays, cross-client redemption, wrong / missing redirect_uri and code_verifier, S256 and plain challenges, wrong secrets, forged / expired / "
                "foreign assertions, garbage codes, and an injected DeleteAuthRequest failure; every line is one HTTP request against the real handlers; the "
                "model (regenerated decision functions + hand-written stateful shell) must produce the same response, the reference monitor judges the observed one; "
                "non-trivial = not the modal class; distinct = class x input",
        "trivial_class": r"authorize:login",
        "trusted_base": COMMON_TB + ["the handler skeletons (tokensHandler, withClient, CodeExchange) and the storage effects of CreateTokenResponse are hand-modelled (Model/Flow.lean); tied by this stream",
                                     "reference storage refstore as the meaning of a contract-fulfilling op.Storage",
                                     "history-level single-use follows from the modelled deletion; see Proofs/C04 for what is proved at function level"],
        "assumptions": ["codes and refresh tokens are compared through the harness's symbol table (real string <-> label)"],
    },
    "C07": {
        "proof_module": "OidcModel.Proofs.C07",
        "theorems": ["C07.validateRefreshTokenScopes_ok", "C07.validateRefreshTokenRequest_ok", "C07.legacyRefreshToken_ok", "C07.scope_chain_narrows"],
        "cases": {"quick": 250, "thorough": 4000},
        "rule": "the same histories as C04 with refresh chains favoured: own / foreign client, subset / superset / disjoint / empty scope lists, replayed (rotated) "
                "and unknown refresh tokens, refresh support enabled and disabled, both routers; journal entries of the storage calls are part of the observation",
        "trivial_class": r"authorize:login",
        "trusted_base": COMMON_TB + ["handler skeletons and rotation in the reference storage are hand-modelled; tied by this stream"],
        "assumptions": [],
    },
    "C20": {
        "proof_module": "OidcModel.Proofs.C20",
        "theorems": ["C20.hidden_exact", "C20.undisciplined_exact", "C20.rest_disciplined", "C20.lazy_fields_preinitialised", "C20.provider_read_only",
                     "C20.c20_globals_unchanged_partial", "C20.c20_instances_isolated_partial", "C20.c20_race_free_partial",
                     "C20.c20_model_satisfies_monitor", "C20.c20a_witness", "C20.c20b_witness", "C20.c20c_witness", "C20.c20de_witness",
                     "C20.c20_full_discipline_fails",
                     "Footprint.run_shared_frame", "Footprint.own_cells_of_step", "Footprint.no_race", "Footprint.race_free_of_disciplined"],
        "cases": {"quick": 260, "thorough": 10000},
        "timeout": {"quick": 600, "thorough": 3000},
        "rule": "part 1 (in process, real library): histories of 3-7 steps; a step constructs a provider (4 entry points x 17 options), a relying party (OIDC / OAuth x 11 options), "
                "a resource server, a token exchanger or a remote key set with a random option subset (objects such as the *http.Client, the *oauth2.Config, option and scope slices "
                "are shared between the constructions of one history), or calls one of 45 API operations on an existing instance (RP calls incl. CodeExchange / Userinfo / RefreshTokens / "
                "EndSession / RevokeToken, RS Introspect, token exchange, key-set verification with 6 key-list shapes x 5 token shapes, the provider's HTTP handlers, library functions taking "
                "caller-owned objects); every step is bracketed by deep reflect snapshots (field granularity) of 35 package-level variables, of every caller-supplied object, of every OTHER "
                "instance's observable configuration (getters, discovery document, CORS answer, HTTP client identity) and by behaviour probes (does client.Discover through the client still follow a "
                "redirect; how many JWKS downloads a fixed reference token needs); fixed scenarios of the statement run first. part 2: 17 concurrent mixes (6-8 goroutines) executed by a binary built with "
                "go build -race from the same tree; each data-race report becomes one case naming the library functions of both accesses. The Lean driver recomputes the may-write set / the functions that "
                "may race from the regenerated write-site facts; agree = everything observed is covered by the prediction; the monitor judges the observation alone. "
                "non-trivial = the model predicts a shared write or a race was reported; distinct = class x input",
        "trivial_class": r"(construct|call|mix|inventory)[^+]*",
        "trusted_base": ["factgen's W-fact extraction (go/ast, no type information): roots, aliases through locals, constructor / option / getter shapes, lock regions, name- and interface-based call graph; "
                         "writes performed inside dependencies (net/http, oauth2, go-jose, chi, schema) are outside the model",
                         "footprint semantics (Model/Footprint.lean): option initialisers override constructor initialisers; results of calls other than zero-argument getters are fresh; "
                         "the object under construction is not shared before the constructor returns",
                         "race freedom is derived from the extracted discipline (read-only after construction, eager initialisation, mutex regions) in an interleaving machine; the Go memory model is not modelled (partial)",
                         "the Go race detector and reflect-based snapshots are supporting evidence only; unexported package-level variables (op.defaultCORSOptions, tracers, templates) are covered by the static facts, "
                         "not by the snapshots",
                         "audited sites (Model/C20Known.lean): inflight.done / updateKeys' read of inflight (single-flight ownership, property C13), jsonWebKeySet.UnmarshalJSON (call-local decode target)"],
        "assumptions": ["instances are created by the library's constructors and used only after the constructor returned",
                        "objects of library instance types exist only where a constructor of that type is reachable from the instance's constructor or the running call"],
    },
}
