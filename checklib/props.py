# per-property configuration of ./check
COMMON_TB = [
    "symbolic cryptography (Dolev-Yao term algebra): go-jose signing/verification, SHA-2 are modelled, not verified",
]

PROPS = {
    "C01": {
        "proof_module": "OidcModel.Proofs.C01",
        "theorems": ["C01.c01_holds", "C01.c01_sound", "C01.c01_complete_margin", "C01.c01_sound_all",
                     "C01.c01_complete_all", "C01.rpVerifyAccessToken_ok", "C01.getHashAlgorithm_eq",
                     "C01.tRound_second_bounds"],
        "cases": {"quick": 3000, "thorough": 60000},
        "rule": "ID tokens really signed (RSA/EC/Ed25519) starting from a valid token with 0-3 mutated dimensions out of 12 "
                "(iss, sub, aud shape, azp, exp/iat/auth_time at boundary +-2s, nonce, acr, at_hash variants, untrusted signer) x verifier "
                "configuration (offset, max iat age, max auth age, nonce fn, ACR verifier, allow-list); real rp.VerifyIDToken / rp.VerifyTokens; "
                "non-trivial = outcome class other than the modal one; distinct = outcome class x input with case id and timestamps removed",
        "trivial_class": r"ok\|ok\|ok",
        "trusted_base": COMMON_TB + ["JSON decoding of the payload is taken from the real codec (oracle; see C12)",
                                     "signature validity is symbolic here; key selection is C02's subject"],
        "assumptions": ["instants within years 1..9999 (Go time arithmetic exact)",
                        "a call is compared only through its [t0,t1] clock bracket; every time guard is monotone in now"],
    },
    "C02": {
        "proof_module": "OidcModel.Proofs.C02",
        "theorems": ["C02.c02_rp", "C02.c02_accessToken", "C02.c02_idTokenHint", "C02.c02_assertion",
                     "C02.parse_and_signature_sound", "C02.verifySignature_sound", "C02.findMatchingKey_eq_spec",
                     "C02.findMatchingKey_ok", "C02.findMatchingKey_ambiguous"],
        "cases": {"quick": 4000, "thorough": 40000},
        "rule": "part 1: oidc.FindMatchingKey on key sets of 1-4 keys over (kid in {'',a,b}) x (use in {'',sig,enc}) x (RSA,EC,OKP) x header kid x 6 algs "
                "(thorough: exhaustive for sets of <=2 keys) compared with the statement's selection rule; part 2: genuinely signed tokens with one of 10 "
                "serialisation manipulations (alg swap, HMAC-with-public-key, foreign key, truncated signature, replaced payload, extra segments, flattened / "
                "general JSON JWS, JSON smuggling, re-encoding) through rp.VerifyIDToken (remote JWKS), op.VerifyAccessToken, op.VerifyIDTokenHint (OpenIDKeySet), "
                "op.VerifyJWTAssertion (per-client key registry); non-trivial = outcome class other than the modal one",
        "trivial_class": r"err:ErrKeyNone\|err:ErrKeyNone\|ok",
        "exhaustive": {"thorough": True},
        "trusted_base": COMMON_TB + ["go-jose parsing (which signatures/headers/payload a string contains) is taken from the real library as oracle",
                                     "FindMatchingKey and the three KeySet implementations are hand-modelled; tied by this correspondence stream"],
        "assumptions": ["signature terms are symbolic: forging a signature without the key is impossible by definition of the term algebra"],
    },
    "C12": {
        "proof_module": "OidcModel.Proofs.C12",
        "theorems": ["C12.c12_registered_wins", "C12.c12_custom_survives", "C12.c12_merge_monitor", "C12.c12_audience_exact",
                     "C12.c12_time_exact", "C12.c12_bool_exact", "C12.c12_seal_roundtrip", "C12.c12_seal_monitor",
                     "Cfb.dec_enc", "Cfb.unseal_seal", "B64.decode_encode"],
        "cases": {"quick": 6000, "thorough": 150000},
        "rule": "(a) 7 claims/response types with random registered fields and custom-claim maps whose keys collide with registered names half of the time: "
                "json.Marshal, top-level comparison with merge(registered, custom), json.Unmarshal back; (b) Audience / Time / Bool decoders on a pool of 36 JSON "
                "documents + random integers; (c) crypto.EncryptAES/DecryptAES for key sizes 16/24/32 and plaintext lengths 0..300 (thorough: ..4096), the model "
                "re-computes the ciphertext from the drawn iv and AES's block evaluations (CFB consistency) and decrypts under a second key; "
                "non-trivial = everything but the modal class; distinct = class x input",
        "trivial_class": r"seal::ok",
        "trusted_base": ["encoding/json (generic decoding, struct tags, omitempty), time.Parse(RFC3339) and AES block encryption are oracles",
                         "the codec is hand-modelled (top-level merge, decoders); tied by this correspondence stream, not regenerated",
                         "'only under the same key' assumes AES is a pseudo-random permutation; it is sampled, not proved (partial)",
                         "Locale(s) and SpaceDelimitedArray decoders are exercised in the C09 stream only"],
        "assumptions": ["block function of fixed output size 16 (any function: the CFB theorem does not use AES)"],
    },
    "C04": {
        "proof_module": "OidcModel.Proofs.C04",
        "theorems": ["C04.authorizeCodeClient_ok", "C04.validateAccessTokenRequest_ok", "C04.legacyCodeExchange_ok",
                     "C04.authorizeCodeChallenge_ok", "C04.validateGrantType_iff"],
        "cases": {"quick": 250, "thorough": 4000},
        "rule": "random histories (4..18 ops quick, ..44 thorough) of authorize / login / callback / code exchange / refresh over 7 clients "
                "(confidential basic x2, public native, client_secret_post, private_key_jwt, without refresh grant, without code grant) on both routers, "
                "with replays, cross-client redemption, wrong / missing redirect_uri and code_verifier, S256 and plain challenges, wrong secrets, forged / expired / "
                "foreign assertions, garbage codes, and an injected DeleteAuthRequest failure; every line is one HTTP request against the real handlers; the "
                "model (regenerated decision functions + hand-written stateful shell) must produce the same response, the reference monitor judges the observed one; "
                "non-trivial = not the modal class; distinct = class x input",
        "trivial_class": r"authorize:login",
        "trusted_base": COMMON_TB + ["the handler skeletons (tokensHandler, withClient, CodeExchange) and the storage effects of CreateTokenResponse are hand-modelled (Model/Flow.lean); tied by this stream",
                                     "reference storage refstore as the meaning of a contract-fulfilling op.Storage",
                                     "history-level single-use follows from the modelled deletion; see Proofs/C04 for what is proved at function level"],
        "assumptions": ["codes and refresh tokens are compared through the harness's symbol table (real string <-> label)"],
    },
    "C07": {
        "proof_module": "OidcModel.Proofs.C07",
        "theorems": ["C07.validateRefreshTokenScopes_ok", "C07.validateRefreshTokenRequest_ok", "C07.legacyRefreshToken_ok", "C07.scope_chain_narrows"],
        "cases": {"quick": 250, "thorough": 4000},
        "rule": "the same histories as C04 with refresh chains favoured: own / foreign client, subset / superset / disjoint / empty scope lists, replayed (rotated) "
                "and unknown refresh tokens, refresh support enabled and disabled, both routers; journal entries of the storage calls are part of the observation",
        "trivial_class": r"authorize:login",
        "trusted_base": COMMON_TB + ["handler skeletons and rotation in the reference storage are hand-modelled; tied by this stream"],
        "assumptions": [],
    },
    "C18": {
        "proof_module": "OidcModel.Proofs.C18",
        "theorems": ["C18.c18_redirect_partial", "C18.c18_lossy_witness", "C18.c18_lossy_accepts", "C18.c18_redirect_registered", "C18.c18_hint_rules",
                     "C18.c18_session_identity", "C18.c18_rejected", "C18.c18_no_redirect_without_termination", "C18.c18_time_independent",
                     "C18.c18_state_intact", "C18.validate_eq_ref", "C18.handle_eq", "C18.c18_provider_configured", "C18.uri_sound", "C18.uri_complete", "C18.hint_sound",
                     "Query.unescape_escape", "Query.parse_encode"],
        "cases": {"quick": 2500, "thorough": 20000},
        "rule": "one end_session request per case against the real handlers of both routers (op.EndSession; webServer.endSessionHandler -> LegacyServer.EndSession) on the "
                "reference storage, several requests per provider, static issuer or per-host issuer (two tenants sharing the key set), storage with / without "
                "TerminateSessionFromRequest; id_token_hint in 14 kinds (absent, valid, expired, iat in future, wrong key, foreign issuer, no azp, unknown azp, garbage, "
                "algorithm not allowed, payload swapped under a genuine signature, second published key, no kid, expired+wrong key), really signed; client_id in 4 kinds; "
                "post_logout_redirect_uri in 10 kinds relative to the proven client's registration (exact, near-miss, glob match, glob near-miss, login redirect URI, "
                "login-glob match, other client's URI, unregistered, unparseable); 6 states; 6 clients whose registrations (exact lists, opt-in, both glob lists) are "
                "random from pools containing malformed globs and URIs with queries, fragments, bad escapes; thorough additionally enumerates the finite cross on a "
                "canonical registration exhaustively (14 x 4 x 10 x 2 states x 2 routers x 2 storage capabilities x 2 issuer modes = 8960); "
                "non-trivial = everything but the modal class; distinct = class x input",
        "trivial_class": r"h1\.c0\.p1\.s0:redirect",
        "exhaustive": {"thorough": True},
        "trusted_base": COMMON_TB + ["net/url (Parse, Query, String) and path.Match are oracles: the harness reports what the real libraries answered for the strings of the case",
                                     "the form decode (schema) and http.Redirect (Location = the string handed over, for absolute ASCII URIs) are taken as they are",
                                     "which session the storage was asked to terminate is read from the reference storage (refstore.Terminated)",
                                     "the query codec (QueryEscape/Unescape, Encode/ParseQuery on pairs) is hand-modelled on bytes and proved invertible; tied by comparing the model's "
                                     "redirect string with the observed Location character by character",
                                     "completeness (valid requests are accepted) assumes key selection is complete for genuine hints (HintComplete): C02 proves soundness of key selection only"],
        "assumptions": ["c18_redirect_partial: the URL parser drops no query pairs of the target (otherwise F-C18a: c18_lossy_witness)",
                        "a user agent splits a rendered URL back into the parts it was rendered from (net/url as oracle); the query part is proved (Query.parse_encode)"],
    },
}
