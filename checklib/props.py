# per-property configuration of ./check: one JSON file per property under props.d/
import glob, json, os

PROPS = {}
for _p in sorted(glob.glob(os.path.join(os.path.dirname(os.path.abspath(__file__)), "props.d", "C*.json"))):
    PROPS[os.path.basename(_p)[:-5]] = json.load(open(_p))
