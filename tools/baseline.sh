#!/bin/bash
# runs the repository's test suite (guard off) and checks that every test of BASELINE.json's stable_pass still passes
source /verif/env.sh
cd ${REPO:-/repo} && go test -json -vet=off -count=1 -timeout 25m ./... 2>/dev/null | python3 -c "
import sys,json
ok=set()
for l in sys.stdin:
    try: e=json.loads(l)
    except: continue
    if e.get('Action')=='pass' and e.get('Test'): ok.add(e['Package']+'::'+e['Test'])
want=set(json.load(open('/root/.vp/BASELINE.json'))['stable_pass'])
missing=sorted(want-ok)
print('stable_pass:',len(want),'passing now:',len(want&ok),'missing:',len(missing))
for m in missing[:20]: print('  MISSING',m)
sys.exit(1 if missing else 0)"
