#!/usr/bin/env python3
"""manifest_take.py THEIR_MANIFEST ID...: after `git checkout --ours MANIFEST.json`, copies the named checks' entries
(level_claimed, level_note, technique) from an agent's MANIFEST into ours (adds the entry if we have none)."""
import json, sys
theirs = json.load(open(sys.argv[1])); ids = sys.argv[2:]
ours = json.load(open('MANIFEST.json'))
tm = {c['property_id']: c for c in theirs['checks']}
om = {c['property_id']: c for c in ours['checks']}
for i in ids:
    if i in om:
        for k in ('level_claimed', 'level_note', 'technique'):
            if k in tm[i]: om[i][k] = tm[i][k]
    else:
        ours['checks'].append(tm[i]); ours['checks'].sort(key=lambda c: c['property_id'])
open('MANIFEST.json', 'w').write(json.dumps(ours, indent=1, ensure_ascii=False) + "\n")
print("took", ids)
