#!/usr/bin/env python3
"""design_tables.py: rewrites the two generated tables of DESIGN.md §9 (between the BEGIN/END GENERATED markers)
from the machine-readable state of /verif: MANIFEST.json + checklib/props.d (what each check proves and runs),
known-findings.jsonl (findings), seeded/*/meta.json + seeded/RESULTS.jsonl (which check catches which seeded change)."""
import glob, json, os, re

ROOT = os.path.dirname(os.path.dirname(os.path.abspath(__file__)))
os.chdir(ROOT)


def clip(s, n):
    s = " ".join((s or "").split())
    return s if len(s) <= n else s[:n].rsplit(" ", 1)[0] + " …"


def as_built():
    m = json.load(open("MANIFEST.json"))
    checks = {c["property_id"]: c for c in m["checks"]}
    out = ["| id | technique (MANIFEST) | property theorems audited on every run | correspondence stream (quick / thorough cases) | partial? |",
           "|---|---|---|---|---|"]
    for p in sorted(glob.glob("checklib/props.d/C*.json")):
        pid = os.path.basename(p)[:-5]
        d = json.load(open(p))
        c = checks.get(pid, {})
        ths = [t.split(".", 1)[-1] for t in d["theorems"]]
        show = ", ".join("`" + t + "`" for t in ths[:6]) + (f" … ({len(ths)} in all, list in `checklib/props.d/{pid}.json`)" if len(ths) > 6 else "")
        cases = d.get("cases", {})
        note = str(c.get("level_note", ""))
        partial = "yes" if re.search(r"\bpartial\b", note, re.I) and not re.search(r"not partial", note, re.I) else "–"
        out.append(f"| {pid} | {c.get('technique', '')} | {show} | {cases.get('quick', '?')} / {cases.get('thorough', '?')} | {partial} |")
    na = m.get("not_applicable", [])
    if na:
        out.append("")
        out.append("Not claimed: " + "; ".join(f"{x['property_id']} ({x['reason']})" for x in na))
    return "\n".join(out)


def findings():
    out = ["| finding | property | status | fix commit in /repo | what |", "|---|---|---|---|---|"]
    for l in open("known-findings.jsonl"):
        l = l.strip()
        if not l or l.startswith("#"):
            continue
        e = json.loads(l)
        commit = e.get("commit", "")
        if commit.startswith("fix:"):
            commit = "`" + clip(commit, 60) + "`"
        what = re.sub(r"^fixed: property=\S+ \S+ ", "", e.get("what", ""))
        out.append(f"| {e['id']} | {e['property']} | {e['status']} | {commit} | {clip(what, 230)} |")
    return "\n".join(out)


def seeds():
    res = {}
    if os.path.exists("seeded/RESULTS.jsonl"):
        for l in open("seeded/RESULTS.jsonl"):
            if l.strip():
                e = json.loads(l)
                res[e["seed"]] = e
    out = ["| seeded change | what it does (from its meta.json) | needs to manifest | `./check <id> quick` on it |", "|---|---|---|---|"]
    for d in sorted(glob.glob("seeded/C*-*")):
        name = os.path.basename(d)
        meta = json.load(open(os.path.join(d, "meta.json")))
        r = res.get(name)
        if r is None:
            v = "not run yet"
        elif r.get("rc") == -1:
            v = "no check for this property at that time"
        elif r.get("rc") == 0:
            v = f"**missed** (exit 0) at {r.get('verif_commit', '?')}"
        elif r.get("no_failing_input"):
            v = f"VIOLATION … no-failing-input-found (a theorem about the regenerated model no longer checks; replay names it) at {r.get('verif_commit', '?')}"
        else:
            v = f"VIOLATION with a concrete failing input (monitor on the observed answer, kind `{r.get('kind', '')}`) at {r.get('verif_commit', '?')}"
        out.append(f"| {name} | {clip(meta.get('summary'), 210)} | {clip(meta.get('needs_to_manifest'), 150)} | {v} |")
    return "\n".join(out)


def coverage():
    import subprocess, collections
    subprocess.run(["python3", "tools/coverage_report.py"], stdout=subprocess.DEVNULL, check=True)
    fs = json.load(open("coverage/functions.json"))
    per = collections.OrderedDict()
    for f in fs:
        d = per.setdefault(f["file"], collections.Counter())
        d[f["how"]] += 1
        d[f["how"] + "_lines"] += f["lines"]
    out = ["| file | functions | regenerated as Lean definitions | read by a fact extractor | correspondence only / not reached | lines (regenerated / facts / other) |", "|---|---|---|---|---|---|"]
    tot = collections.Counter()
    for f, d in per.items():
        n = d["translated"] + d["facts"] + d["none"]
        out.append(f"| {f} | {n} | {d['translated']} | {d['facts']} | {d['none']} | {d['translated_lines']} / {d['facts_lines']} / {d['none_lines']} |")
        tot.update(d)
    n = tot["translated"] + tot["facts"] + tot["none"]
    out.append(f"| **total** | {n} | {tot['translated']} | {tot['facts']} | {tot['none']} | {tot['translated_lines']} / {tot['facts_lines']} / {tot['none_lines']} |")
    return "\n".join(out)


def splice(text, tag, body):
    b, e = f"<!-- BEGIN GENERATED: {tag} -->", f"<!-- END GENERATED: {tag} -->"
    if b not in text:
        raise SystemExit(f"marker {tag} missing in DESIGN.md")
    pre, rest = text.split(b, 1)
    _, post = rest.split(e, 1)
    return pre + b + "\n" + body + "\n" + e + post


t = open("DESIGN.md").read()
t = splice(t, "as-built", as_built())
t = splice(t, "findings", findings())
t = splice(t, "seeds", seeds())
if "<!-- BEGIN GENERATED: coverage -->" in t:
    t = splice(t, "coverage", coverage())
open("DESIGN.md", "w").write(t)
print("DESIGN.md tables regenerated")
