#!/usr/bin/env python3
"""manifest_add.py <other MANIFEST.json> <id>: copy the check entry for <id> into /verif/MANIFEST.json and list it under every engine"""
import json,sys
other=json.load(open(sys.argv[1])); pid=sys.argv[2]
m=json.load(open('/verif/MANIFEST.json'))
ent=[c for c in other['checks'] if c['property_id']==pid][0]
m['checks']=[c for c in m['checks'] if c['property_id']!=pid]+[ent]
m['checks'].sort(key=lambda c:c['property_id'])
for e in m['engines']:
    if pid not in e['serves_properties']:
        e['serves_properties']=sorted(e['serves_properties']+[pid])
m['not_applicable']=[n for n in m.get('not_applicable',[]) if n.get('property_id')!=pid]
json.dump(m,open('/verif/MANIFEST.json','w'),indent=1,ensure_ascii=False); open('/verif/MANIFEST.json','a').write('\n')
