#!/bin/bash
# merge_slice.sh <id>: turn the copy /tmp/agents/<id>/verif (made from commit aa7b23a) into a branch and merge it
set -e
id=$1; base=${2:-aa7b23a}
wt=/tmp/merge/$id
rm -rf $wt; git -C /verif worktree prune
if [ -n "$SKIPBUILD" ]; then :; else
git -C /verif branch -D slice-$id 2>/dev/null || true
git -C /verif worktree add -q -b slice-$id $wt $base
rsync -a --exclude .git --exclude /bin --exclude /replays --exclude /work --exclude /lean/.lake --exclude '/evidence/' --exclude '/seeded/' --exclude '*.tmp' /tmp/agents/$id/verif/ $wt/
# evidence: only this property's
cp /tmp/agents/$id/verif/evidence/$id.json $wt/evidence/ 2>/dev/null || true
git -C $wt add -A
git -C $wt commit -qm "slice $id (agent work on base $base)"
git -C /verif worktree remove --force $wt
fi
git -C /verif merge --no-commit slice-$id || true
git -C /verif status --short | grep -E '^(UU|AA|DU|UD)' || echo "no conflicts"
cd /verif
for f in $(git diff --name-only --diff-filter=U | grep '^lean/OidcModel/Generated/'); do git checkout --ours $f; git add $f; done
git checkout --ours MANIFEST.json checklib/props.py 2>/dev/null || true
tools/manifest_add.py /tmp/agents/$id/verif/MANIFEST.json $id
tools/props_add.py /tmp/agents/$id/verif/checklib/props.py $id
for f in lean/Driver/Main.lean lean/Driver/MainMon.lean lean/OidcModel.lean known-findings.jsonl; do tools/union_resolve.py $f; done
git add MANIFEST.json checklib lean/Driver/Main.lean lean/Driver/MainMon.lean lean/OidcModel.lean known-findings.jsonl
echo "--- remaining:"; git diff --name-only --diff-filter=U
