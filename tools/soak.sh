#!/bin/bash
# soak.sh: unchanged-tree sweep - every check, quick tier, seeds 1..N, then the thorough tier once (seed 7).
# Meant for `vp run --with-repo -- tools/soak.sh 6`: runs from a snapshot of /verif against a snapshot of /repo.
N=${1:-5}
export VERIF_REPO=${VP_RUN_REPO:-/repo}
./check --setup > soak_setup.log 2>&1 || { echo "SETUP FAILED"; tail -20 soak_setup.log; exit 1; }
ids=$(ls checklib/props.d | sed 's/.json//')
for s in $(seq 1 $N); do
  for id in $ids; do
    out=$(VERIF_SEED=$s ./check $id quick 2>&1 | grep -v '^KNOWN-FINDING'); rc=$?
    echo "seed=$s $(echo "$out" | tail -1)"
    echo "$out" | grep '^VIOLATION' | sed "s/^/   seed=$s /"
  done
done
for id in $ids; do
  out=$(VERIF_SEED=7 ./check $id thorough 2>&1 | grep -v '^KNOWN-FINDING')
  echo "thorough $(echo "$out" | tail -1)"
  echo "$out" | grep '^VIOLATION' | sed "s/^/   thorough /"
done
echo SOAK-DONE
