#!/bin/bash
# mk_deep_ws.sh <ID>: private workspace for a strengthening agent: /tmp/deep/<ID>/verif (copy of /verif incl. build output)
# and /tmp/deep/<ID>/repo (scratch worktree of /repo HEAD). Prints the base commit.
set -e
ID=$1; D=/tmp/deep/$ID
rm -rf $D/verif; mkdir -p $D
[ -d $D/repo ] && git -C /repo worktree remove --force $D/repo || true
git -C /repo worktree prune
rsync -a --exclude .git --exclude /replays /verif/ $D/verif/
git -C /repo worktree add -q --detach $D/repo HEAD
git -C /verif rev-parse --short HEAD
