#!/bin/bash
# merge_ws.sh <name> <workspace-dir> <base-commit>: turn an agent's private copy of /verif (made from <base-commit>)
# into a branch ws-<name> and merge it into the current branch of /verif (3-way, conflicts left for manual resolution).
# Build output, replays, evidence and the regenerated Lean files are not taken from the copy: they are rewritten by
# the checks (run `./check --setup` and the affected checks afterwards).
set -e
name=$1; ws=$2; base=$3
wt=/tmp/merge/$name
rm -rf $wt; git -C /verif worktree prune
git -C /verif branch -D ws-$name 2>/dev/null || true
git -C /verif worktree add -q -b ws-$name $wt $base
rsync -a --delete --exclude .git --exclude /bin --exclude /replays --exclude /work --exclude /lean/.lake \
  --exclude '/evidence/' --exclude '/seeded/' --exclude '/lean/OidcModel/Generated/' --exclude '*.tmp' \
  --exclude '/harness/go.sum' $ws/ $wt/
# harness/go.mod: the replace directive points at the agent's scratch repo; keep /repo
(cd $wt && git checkout -- harness/go.mod 2>/dev/null || true)
git -C $wt add -A
git -C $wt commit -qm "workspace $name (agent work on base $base)" || echo "nothing to commit"
git -C /verif worktree remove --force $wt
cd /verif
git merge --no-commit --no-ff ws-$name || true
echo "--- conflicts:"; git diff --name-only --diff-filter=U
