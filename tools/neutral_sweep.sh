#!/bin/bash
# neutral_sweep.sh [workers] [glob]: the false-alarm measurement. Every patch under /verif/neutral/ is a semantically
# NEUTRAL rewrite of zitadel/oidc (the property still holds, the repository's suite still passes); the checks named in
# its meta.json should therefore exit 0 on it. Each worker owns a private copy of /verif and a scratch worktree of /repo.
# Results: /verif/neutral/RESULTS.jsonl (one line per patch x check: rc, VIOLATION lines, which theorem broke).
set -u
N=${1:-4}; GLOB=${2:-'N*'}
source /verif/env.sh
OUT=/tmp/nsweep; rm -rf $OUT; mkdir -p $OUT; : > $OUT/results.jsonl
eval ls -d /verif/neutral/$GLOB | sort > $OUT/all.txt
git -C /repo worktree prune
for i in $(seq 1 $N); do
  (
    W=$OUT/w$i; mkdir -p $W
    rsync -a --exclude .git --exclude /replays --exclude /work /verif/ $W/verif/
    git -C /repo worktree add -q --detach $W/repo HEAD
    awk -v n=$N -v i=$i 'NR % n == i % n' $OUT/all.txt | while read d; do
      name=$(basename $d)
      git -C $W/repo apply $d/patch.diff || { echo "{\"patch\":\"$name\",\"check\":\"-\",\"rc\":-2,\"note\":\"patch does not apply\"}" >> $OUT/results.jsonl; continue; }
      (cd $W/repo && go build ./... && go test -vet=off -count=1 ./pkg/op/... ./pkg/oidc/... ./pkg/http/... ./pkg/crypto/... ./pkg/client/rp/... > $OUT/$name.gotest.log 2>&1); t=$?
      if [ $t -ne 0 ]; then echo "{\"patch\":\"$name\",\"check\":\"-\",\"rc\":-3,\"note\":\"repository suite fails with the patch: not neutral\"}" >> $OUT/results.jsonl
      else
        for id in $(python3 -c "import json;print(' '.join(json.load(open('$d/meta.json'))['checks']))"); do
          t0=$(date +%s)
          (cd $W/verif && VERIF_REPO=$W/repo timeout 1500 ./check $id quick) > $OUT/$name.$id.log 2>&1; rc=$?
          t1=$(date +%s)
          broken=$(python3 - <<PY
import json,glob,os
p='$W/verif/replays/$id-1.json'
try:
    r=json.load(open(p)); print(','.join(sorted({b['decl'] for b in r.get('broken',[])}))[:200] or r.get('kind',''))
except Exception: print('')
PY
)
          [ $rc -eq 0 ] && broken=""
          echo "{\"patch\":\"$name\",\"check\":\"$id\",\"rc\":$rc,\"broken\":\"$broken\",\"secs\":$((t1-t0))}" >> $OUT/results.jsonl
          rm -f $W/verif/replays/$id-*.json
        done
      fi
      git -C $W/repo checkout -q -- . ; git -C $W/repo clean -fdq
    done
    git -C /repo worktree remove --force $W/repo
    rm -rf $W
  ) &
done
wait
git -C /repo worktree prune
head=$(git -C /verif rev-parse --short HEAD)
python3 - <<PY
import json
cur={}
p='/verif/neutral/RESULTS.jsonl'
try:
    for l in open(p):
        if l.strip(): e=json.loads(l); cur[(e['patch'],e['check'])]=e
except FileNotFoundError: pass
for l in open('$OUT/results.jsonl'):
    if l.strip():
        e=json.loads(l); e['verif_commit']='$head'; cur[(e['patch'],e['check'])]=e
open(p,'w').write(''.join(json.dumps(cur[k])+'\n' for k in sorted(cur)))
ok=sum(1 for e in cur.values() if e['rc']==0); print(f"neutral rewrites: {ok}/{len(cur)} patch x check pairs stay green")
for e in cur.values():
    if e['rc']!=0: print('  ALARM', e['patch'], e['check'], e.get('broken') or e.get('note'))
PY
