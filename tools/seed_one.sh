#!/bin/bash
# seed_one.sh <seed-name> [tier]: run one seeded change (/verif/seeded/<name>) against its check in a private copy of /verif and a
# scratch worktree of /repo (several invocations may run side by side); prints the result line and merges it into seeded/RESULTS.jsonl.
set -u
name=$1; TIER=${2:-quick}; id=${3:-${name%%-*}}   # optional 3rd argument: run ANOTHER property's check on this seed (result not recorded)
source /verif/env.sh
W=/tmp/sweep1/$name${3:+.$3}; rm -rf $W; mkdir -p $W
rsync -a --exclude .git --exclude /replays --exclude /work /verif/ $W/verif/
git -C /repo worktree prune; git -C /repo worktree add -q --detach $W/repo HEAD
git -C $W/repo apply /verif/seeded/$name/patch.diff || { echo "patch does not apply"; git -C /repo worktree remove --force $W/repo; exit 2; }
t0=$(date +%s)
(cd $W/verif && VERIF_REPO=$W/repo timeout 3000 ./check $id $TIER) > /tmp/sweep1/$name.log 2>&1; rc=$?
t1=$(date +%s)
v=$(grep -c '^VIOLATION' /tmp/sweep1/$name.log); nf=$(grep -c 'no-failing-input-found' /tmp/sweep1/$name.log)
rp=$(grep -m1 '^VIOLATION' /tmp/sweep1/$name.log | sed 's/.*replay=\([^ ]*\).*/\1/')
kind=""; [ -n "$rp" ] && [ -f "$rp" ] && kind=$(python3 -c "import json,sys;print(json.load(open('$rp')).get('kind',''))")
[ -n "$rp" ] && [ -f "$rp" ] && cp "$rp" /tmp/sweep1/$name.replay.json
line="{\"seed\":\"$name\",\"rc\":$rc,\"violations\":$v,\"no_failing_input\":$nf,\"kind\":\"$kind\",\"secs\":$((t1-t0))}"
echo "$line"
git -C /repo worktree remove --force $W/repo; rm -rf $W
[ -n "${3:-}" ] && exit 0
( flock 9; python3 - "$line" "$TIER" <<'PY'
import json,os,subprocess,sys
p='/verif/seeded/RESULTS.jsonl'
cur={}
if os.path.exists(p):
    for l in open(p):
        if l.strip(): e=json.loads(l); cur[e['seed']]=e
head=subprocess.check_output(['git','-C','/verif','rev-parse','--short','HEAD'],text=True).strip()
e=json.loads(sys.argv[1]); e['tier']=sys.argv[2]; e['verif_commit']=head; cur[e['seed']]=e
open(p,'w').write(''.join(json.dumps(cur[k])+'\n' for k in sorted(cur)))
PY
) 9>/tmp/sweep1/.lock
