#!/bin/bash
# seed_sweep.sh [workers] [tier] [seed-dir-glob]: run every seeded change of /verif/seeded/ against the checks.
# Each worker owns a private copy of /verif (with its lake build output) and a scratch worktree of /repo,
# applies one patch at a time, runs `./check <ID> <tier>` against that worktree (VERIF_REPO) and records
# exit status + VIOLATION lines in /tmp/sweep/results.jsonl.  Nothing is ever applied to /repo itself.
set -u
N=${1:-4}; TIER=${2:-quick}; GLOB=${3:-'C*'}
source /verif/env.sh
OUT=/tmp/sweep; mkdir -p $OUT; : > $OUT/results.jsonl
eval ls -d /verif/seeded/$GLOB | sort > $OUT/all.txt
git -C /repo worktree prune
for i in $(seq 1 $N); do
  (
    W=$OUT/w$i; rm -rf $W; mkdir -p $W
    rsync -a --exclude .git --exclude /replays --exclude /work /verif/ $W/verif/
    git -C /repo worktree add -q --detach $W/repo HEAD
    awk -v n=$N -v i=$i 'NR % n == i % n' $OUT/all.txt | while read d; do
      name=$(basename $d); id=${name%%-*}
      [ -f $W/verif/checklib/props.d/$id.json ] || { echo "{\"seed\":\"$name\",\"rc\":-1,\"note\":\"no check\"}" >> $OUT/results.jsonl; continue; }
      git -C $W/repo apply $d/patch.diff || { echo "{\"seed\":\"$name\",\"rc\":-2,\"note\":\"patch does not apply\"}" >> $OUT/results.jsonl; continue; }
      t0=$(date +%s)
      (cd $W/verif && VERIF_REPO=$W/repo timeout 3000 ./check $id $TIER) > $OUT/$name.log 2>&1; rc=$?
      t1=$(date +%s)
      v=$(grep -c '^VIOLATION' $OUT/$name.log); nf=$(grep -c 'no-failing-input-found' $OUT/$name.log)
      rp=$(grep -m1 '^VIOLATION' $OUT/$name.log | sed 's/.*replay=\([^ ]*\).*/\1/')
      kind=""; [ -n "$rp" ] && [ -f "$rp" ] && kind=$(python3 -c "import json,sys;print(json.load(open('$rp')).get('kind',''))")
      echo "{\"seed\":\"$name\",\"rc\":$rc,\"violations\":$v,\"no_failing_input\":$nf,\"kind\":\"$kind\",\"secs\":$((t1-t0))}" >> $OUT/results.jsonl
      git -C $W/repo checkout -q -- . ; git -C $W/repo clean -fdq
    done
    git -C /repo worktree remove --force $W/repo
    rm -rf $W
  ) &
done
wait
git -C /repo worktree prune
sort $OUT/results.jsonl
# keep the latest result per seed in /verif/seeded/RESULTS.jsonl (input of tools/design_tables.py)
python3 - <<PY
import json,os,subprocess
p='/verif/seeded/RESULTS.jsonl'
cur={}
if os.path.exists(p):
    for l in open(p):
        if l.strip(): e=json.loads(l); cur[e['seed']]=e
head=subprocess.check_output(['git','-C','/verif','rev-parse','--short','HEAD'],text=True).strip()
for l in open('$OUT/results.jsonl'):
    if l.strip():
        e=json.loads(l); e['tier']='$TIER'; e['verif_commit']=head; cur[e['seed']]=e
open(p,'w').write(''.join(json.dumps(cur[k])+'\n' for k in sorted(cur)))
PY
