#!/usr/bin/env python3
"""resolve_kf.py P1 P2 ...: resolves merge conflicts in known-findings.jsonl: inside conflict regions the entries of the
named properties are taken from THEIRS (the merged workspace), all others from OURS; new entries of theirs are appended."""
import json, sys
props = set(sys.argv[1:])
lines = open('known-findings.jsonl').read().split('\n')
out, mode, ours, theirs = [], None, [], []
for l in lines:
    if l.startswith('<<<<<<<'): mode = 'o'; continue
    if l.startswith('=======') and mode == 'o': mode = 't'; continue
    if l.startswith('>>>>>>>') and mode == 't':
        tmap = {json.loads(x)['id']: x for x in theirs if x.strip()}
        seen = set()
        for x in ours:
            if not x.strip(): continue
            e = json.loads(x); seen.add(e['id'])
            if e['property'] in props and e['id'] in tmap: out.append(tmap[e['id']])
            else: out.append(x)
        for k, x in tmap.items():
            if k not in seen: out.append(x)
        mode, ours, theirs = None, [], []; continue
    if mode == 'o': ours.append(l)
    elif mode == 't': theirs.append(l)
    else: out.append(l)
open('known-findings.jsonl', 'w').write('\n'.join(out))
ids = [json.loads(l)['id'] for l in out if l.strip() and not l.startswith('#')]
assert len(ids) == len(set(ids)), "duplicate ids"
print(len(ids), "entries")
