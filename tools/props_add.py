#!/usr/bin/env python3
"""props_add.py <other checklib/props.py> <id>: copy PROPS[id] of another copy into checklib/props.d/<id>.json"""
import sys,json,runpy
g=runpy.run_path(sys.argv[1]); pid=sys.argv[2]
json.dump(g['PROPS'][pid],open(f'/verif/checklib/props.d/{pid}.json','w'),indent=1,ensure_ascii=False)
