#!/usr/bin/env python3
"""coverage_report.py: which non-test functions of /repo/pkg are inside the Lean model, and how.
  translated : a Lean definition in lean/OidcModel/Generated is regenerated from the function body on every run
  facts      : the function is read by a fact extractor (handler skeleton C09, error-flow tree C10, write-set C20, tables)
  none       : reached only through the correspondence streams (or not at all)
Writes coverage/functions.json and prints a per-file summary."""
import os, re, json, sys, collections
REPO = os.environ.get("VERIF_REPO", "/repo")
ROOT = os.path.dirname(os.path.dirname(os.path.abspath(__file__)))
GEN = os.path.join(ROOT, "lean", "OidcModel", "Generated")
funcs = []
for base, _, files in os.walk(os.path.join(REPO, "pkg")):
    for f in sorted(files):
        if not f.endswith(".go") or f.endswith("_test.go") or "/mock" in base or f.startswith("verif_"):
            continue
        rel = os.path.relpath(os.path.join(base, f), REPO)
        src = open(os.path.join(base, f)).read().splitlines()
        i = 0
        while i < len(src):
            m = re.match(r"func\s+(\(\s*\w*\s*\*?([\w\.]+)(?:\[[^\]]*\])?\s*\)\s*)?(\w+)\s*[\(\[]", src[i])
            if m:
                # body length: up to the closing brace in column 0
                j = i
                while j < len(src) and not src[j].startswith("}"):
                    j += 1
                oneliner = src[i].rstrip().endswith("}")
                n = 1 if oneliner else j - i + 1
                funcs.append({"file": rel, "line": i + 1, "recv": m.group(2) or "", "name": m.group(3), "lines": n})
            i += 1
translated = collections.defaultdict(list)
for f in sorted(os.listdir(GEN)):
    if f.endswith(".lean"):
        for m in re.finditer(r"translated from ([\w/\.\-]+):(\d+) `([^`]+)`", open(os.path.join(GEN, f)).read()):
            translated[(m.group(1), m.group(3).split(".")[-1])].append(f)
facts_txt = ""
for f in ("C09Facts.lean", "C10Facts.lean", "Footprint.lean", "StorageCalls.lean", "Tables.lean", "AuthzTables.lean", "RPTables.lean", "Discovery.lean"):
    p = os.path.join(GEN, f)
    if os.path.exists(p):
        facts_txt += open(p).read()
per_file = collections.OrderedDict()
for fn in funcs:
    key = (fn["file"], fn["name"])
    how = "translated" if key in translated else ("facts" if re.search(r'"(?:[\w\.\*\(\)]*\.)?' + re.escape(fn["name"]) + r'"', facts_txt) else "none")
    fn["how"] = how
    fn["generated_in"] = translated.get(key, [])
    d = per_file.setdefault(fn["file"], collections.Counter())
    d[how] += 1; d[how + "_lines"] += fn["lines"]
os.makedirs(os.path.join(ROOT, "coverage"), exist_ok=True)
json.dump(funcs, open(os.path.join(ROOT, "coverage", "functions.json"), "w"), indent=0)
tot = collections.Counter()
print(f"{'file':46} {'funcs':>5} {'transl':>6} {'facts':>5} {'none':>5}   lines transl/facts/none")
for f, d in per_file.items():
    n = d["translated"] + d["facts"] + d["none"]
    print(f"{f:46} {n:5} {d['translated']:6} {d['facts']:5} {d['none']:5}   {d['translated_lines']}/{d['facts_lines']}/{d['none_lines']}")
    tot.update(d)
n = tot["translated"] + tot["facts"] + tot["none"]
print(f"{'TOTAL':46} {n:5} {tot['translated']:6} {tot['facts']:5} {tot['none']:5}   {tot['translated_lines']}/{tot['facts_lines']}/{tot['none_lines']}")
if "-v" in sys.argv:
    for fn in funcs:
        if fn["how"] == "none" and fn["lines"] >= 4:
            print("  none:", fn["file"], fn["recv"], fn["name"], fn["lines"])
