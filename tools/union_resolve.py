#!/usr/bin/env python3
"""union_resolve.py FILE...: resolve git conflict hunks by keeping ours then theirs (for purely additive files)"""
import sys,re
for p in sys.argv[1:]:
    out=[]; 
    for line in open(p):
        if line.startswith('<<<<<<< ') or line.startswith('=======') and line.strip()=='=======' or line.startswith('>>>>>>> '): continue
        if line.startswith('||||||| '): raise SystemExit('diff3 style not supported')
        out.append(line)
    open(p,'w').write(''.join(out))
