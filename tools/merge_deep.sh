#!/bin/bash
# merge_deep.sh <ID> <base-commit>: merge the round-3 workspace /tmp/deep/<ID>/verif (copied from <base-commit>) into /verif
# (3-way; MANIFEST.json: ours + the agent's entry for <ID>; additive shared files: union; Generated: ours, regenerated anyway).
# Leaves the merge uncommitted; prints what is still in conflict.
set -e
ID=$1; base=$2; ws=/tmp/deep/$ID/verif
cd /verif
tools/merge_ws.sh deep3$ID $ws $base > /tmp/merge_$ID.log 2>&1 || true
for f in $(git diff --name-only --diff-filter=U | grep '^lean/OidcModel/Generated/' || true); do git checkout --ours $f; git add $f; done
if git diff --name-only --diff-filter=U | grep -q '^MANIFEST.json$'; then
  git checkout --ours MANIFEST.json; tools/manifest_take.py $ws/MANIFEST.json $ID; git add MANIFEST.json
fi
for f in lean/OidcModel/GoTac.lean tools/DEEP_BRIEF.md; do if git diff --name-only --diff-filter=U | grep -qx "$f"; then git checkout --ours $f; git add $f; fi; done
for f in lean/Driver/Main.lean lean/Driver/MainMon.lean lean/OidcModel.lean known-findings.jsonl lean/lakefile.toml; do
  if git diff --name-only --diff-filter=U | grep -qx "$f"; then tools/union_resolve.py $f; git add $f; fi
done
for f in $(git diff --name-only --diff-filter=U | grep -E '^(evidence|coverage)/' || true); do git checkout --ours $f; git add $f; done
echo "--- still in conflict:"; git diff --name-only --diff-filter=U
echo "--- files changed by this merge:"; git diff --cached --stat | tail -1
