#!/bin/bash
# verify_seed.sh <ID> <variant> : confirm a seeded change (from /tmp/seeded_out/<ID>/<variant>) in a scratch
# worktree: demo passes on clean tree, patch compiles, baseline suite passes the same tests, demo fails with patch.
# On success stores it as /verif/seeded/<ID>-<variant>/ .
set -u
ID=$1; V=$2; SRC=/tmp/seeded_out/$ID/$V; WT=/tmp/wtv/$ID-$V
source /verif/env.sh
[ -f $SRC/patch.diff ] || { echo "no patch"; exit 2; }
rm -rf $WT; git -C /repo worktree prune; git -C /repo worktree add -q --detach $WT HEAD || exit 2
cleanup() { git -C /repo worktree remove --force $WT 2>/dev/null; }
trap cleanup EXIT
cd $WT
PKG=$(python3 -c "import json;print(json.load(open('$SRC/meta.json')).get('demo_package_dir','').strip('./'))")
DEMO=$(ls $SRC/*_test.go | head -1)
RACE=""; grep -q -- '-race' $SRC/meta.json && RACE="-race"   # a demonstration that needs the race detector says so in demo_run_cmd
[ -n "$PKG" ] && [ -d "$PKG" ] || { echo "bad demo_package_dir '$PKG'"; exit 2; }
cp $DEMO $PKG/zz_demo_test.go
base() { go test -vet=off -count=1 -json ./pkg/... ./example/... 2>/dev/null | python3 -c "
import sys,json
ok=set()
for l in sys.stdin:
    try: e=json.loads(l)
    except: continue
    if e.get('Action')=='pass' and e.get('Test') and 'Demo' not in e['Test'] and 'demo' not in e['Test'].lower(): ok.add(e['Package']+'::'+e['Test'])
print('\n'.join(sorted(ok)))"; }
go test $RACE -vet=off -count=1 ${RUNFILTER:+-run $RUNFILTER} ./$PKG/ > /tmp/wtv/$ID-$V.clean.log 2>&1; CLEAN=$?
rm $PKG/zz_demo_test.go
base > /tmp/wtv/$ID-$V.base0
git apply $SRC/patch.diff || { echo "patch does not apply"; exit 2; }
go build ./... || { echo "does not build"; exit 2; }
base > /tmp/wtv/$ID-$V.base1
cp $DEMO $PKG/zz_demo_test.go
go test $RACE -vet=off -count=1 ${RUNFILTER:+-run $RUNFILTER} ./$PKG/ > /tmp/wtv/$ID-$V.patched.log 2>&1; PATCHED=$?
LOST=$(comm -23 /tmp/wtv/$ID-$V.base0 /tmp/wtv/$ID-$V.base1 | wc -l)
echo "$ID-$V: demo clean rc=$CLEAN, patched rc=$PATCHED, baseline tests lost=$LOST (of $(wc -l < /tmp/wtv/$ID-$V.base0))"
if [ $CLEAN -eq 0 ] && [ $PATCHED -ne 0 ] && [ $LOST -eq 0 ]; then
  D=/verif/seeded/$ID-$V; mkdir -p $D; cp $SRC/patch.diff $D/; cp $DEMO $D/demo_test.go
  python3 - <<PY
import json
m=json.load(open('$SRC/meta.json'))
out={"property":"$ID","variant":"$V","summary":m.get("summary"),"needs_to_manifest":m.get("needs_to_manifest"),
 "files_changed":m.get("files_changed"),"demo_package_dir":m.get("demo_package_dir"),"demo_run_cmd":m.get("demo_run_cmd"),
 "confirmed":{"by":"tools/verify_seed.sh in a scratch worktree","demo_on_clean_tree":"pass","demo_with_patch":"fail",
   "go_build_with_patch":"ok","baseline_tests_passing_before":$(wc -l < /tmp/wtv/$ID-$V.base0),"baseline_tests_lost_with_patch":0}}
json.dump(out,open('$D/meta.json','w'),indent=1)
PY
  echo "stored $D"
else
  echo "NOT CONFIRMED"; tail -5 /tmp/wtv/$ID-$V.clean.log; comm -23 /tmp/wtv/$ID-$V.base0 /tmp/wtv/$ID-$V.base1 | head
fi
