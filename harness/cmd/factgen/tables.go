package main

import (
	"fmt"
	"go/ast"
	"strings"
)

func leanStrList(xs []string) string {
	q := make([]string, len(xs))
	for i, x := range xs {
		q[i] = leanStr(x)
	}
	return "[" + strings.Join(q, ", ") + "]"
}

// sigAlgTable: the default allow-list of toJoseSignatureAlgorithms
// (`if len(out) == 0 { out = append(out, jose.RS256, jose.ES256, jose.PS256) }`) and a shape
// check of the copy loop.
func sigAlgTable(g *genCtx) string {
	fd := g.findFunc("pkg/oidc/verifier.go", "toJoseSignatureAlgorithms")
	if fd == nil {
		g.unsup["defaultSigAlgs"] = []string{"toJoseSignatureAlgorithms not found"}
		return "def defaultSigAlgs : List String := UNSUPPORTED_not_found\n"
	}
	var defaults []string
	guarded := false
	copies := false
	ast.Inspect(fd.Body, func(n ast.Node) bool {
		switch x := n.(type) {
		case *ast.IfStmt:
			if exprString(x.Cond) == "<*ast.BinaryExpr>" {
				if b, ok := x.Cond.(*ast.BinaryExpr); ok && exprString(b.X) == "len()" && b.Op.String() == "==" && exprString(b.Y) == "<*ast.BasicLit>" {
					ast.Inspect(x.Body, func(m ast.Node) bool {
						if c, ok := m.(*ast.CallExpr); ok && exprString(c.Fun) == "append" {
							guarded = true
							for _, a := range c.Args[1:] {
								s := exprString(a)
								defaults = append(defaults, strings.TrimPrefix(s, "jose."))
							}
						}
						return true
					})
				}
			}
		case *ast.AssignStmt:
			// out[i] = jose.SignatureAlgorithm(algorithms[i])
			if len(x.Lhs) == 1 && len(x.Rhs) == 1 {
				if _, ok := x.Lhs[0].(*ast.IndexExpr); ok {
					if c, ok := x.Rhs[0].(*ast.CallExpr); ok && len(c.Args) == 1 {
						if _, ok := c.Args[0].(*ast.IndexExpr); ok {
							copies = true
						}
					}
				}
			}
		}
		return true
	})
	if !guarded || !copies {
		g.unsup["defaultSigAlgs"] = []string{fmt.Sprintf("toJoseSignatureAlgorithms left the recognised shape (guarded=%v copies=%v)", guarded, copies)}
		return "def defaultSigAlgs : List String := UNSUPPORTED_shape\n"
	}
	g.facts["defaultSigAlgs"] = defaults
	return "/-- default allow-list of `toJoseSignatureAlgorithms` (used when the configured list is empty) -/\ndef defaultSigAlgs : List String := " + leanStrList(defaults) + "\n"
}

// tokenTypeTable: the literal `var AllTokenTypes = []TokenType{...}` resolved through the constants next to it
func tokenTypeTable(g *genCtx) string {
	f := g.file("pkg/oidc/token_request.go")
	if f == nil {
		return "def allTokenTypes : List String := UNSUPPORTED_no_file\n"
	}
	consts := map[string]string{}
	var names []string
	for _, d := range f.Decls {
		gd, ok := d.(*ast.GenDecl)
		if !ok {
			continue
		}
		for _, sp := range gd.Specs {
			vs, ok := sp.(*ast.ValueSpec)
			if !ok {
				continue
			}
			for i, n := range vs.Names {
				if i < len(vs.Values) {
					if lit, ok := vs.Values[i].(*ast.BasicLit); ok {
						consts[n.Name] = strings.Trim(lit.Value, "\"")
					}
					if n.Name == "AllTokenTypes" {
						if cl, ok := vs.Values[i].(*ast.CompositeLit); ok {
							for _, e := range cl.Elts {
								names = append(names, exprString(e))
							}
						}
					}
				}
			}
		}
	}
	var vals []string
	for _, n := range names {
		v, ok := consts[n]
		if !ok {
			g.unsup["allTokenTypes"] = []string{"constant " + n + " not a literal"}
			return "def allTokenTypes : List String := UNSUPPORTED_constant\n"
		}
		vals = append(vals, v)
	}
	if len(names) == 0 {
		g.unsup["allTokenTypes"] = []string{"AllTokenTypes not found"}
		return "def allTokenTypes : List String := UNSUPPORTED_not_found\n"
	}
	g.facts["allTokenTypes"] = vals
	out := "/-- `oidc.AllTokenTypes` -/\ndef allTokenTypes : List String := " + leanStrList(vals) + "\n"
	for _, n := range []string{"AccessTokenType", "RefreshTokenType", "IDTokenType", "JWTTokenType"} {
		if v, ok := consts[n]; ok {
			out += "def " + n + " : String := " + leanStr(v) + "\n"
		}
	}
	return out
}
