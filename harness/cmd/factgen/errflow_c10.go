package main

// C10, kind E: error-flow skeletons (path-sensitive error propagation).
//
// For every function of pkg/op (declaration or function literal; plus oidc.CheckSignature, through which the verifiers reach
// the key storage) that lies on a syntactic call path from an HTTP handler to a call into the pluggable storage, the body is
// regenerated as a TREE of the statements that matter for the question "can an error returned by a callee be dropped?":
//
//	call site callee v k – a call into the storage / to another such function / through a function value; its error (or its
//	                       `ok` flag) goes to variable v
//	kill v k             – v is overwritten by something that is not such a call
//	ifErr v a b          – `if v != nil {a} else {b}` (for an ok flag: `if !v`)
//	ifIs v S a b         – `if errors.Is(v, S)` / `errors.As(v, &S{})`
//	ite a b              – any other condition: both branches possible
//	succ n k             – a success-building step (response / redirect / token / code / payload construction)
//	resp n k             – an error responder (RequestError, AuthRequestError, WriteError, http.Error, non-200 MarshalJSONWithStatus …)
//	ret r                – function exit; r = the class of the value in the error position
//
// in full continuation-passing style: the statements following an `if` are duplicated into both branches, so a tree has no
// joins and every root-to-leaf path is one control-flow path of the function (branches without relevant content collapse).
// The translator only serialises syntax; which paths drop an error is decided in Lean (Model/C10Flow.lean, `drops`).
// No type information is used (go/ast only). Anything outside the statement language is emitted as UNSUPPORTED_… and breaks the
// build visibly.

import (
	"fmt"
	"go/ast"
	"go/token"
	"regexp"
	"sort"
	"strconv"
	"strings"
)

func init() {
	extraGroups = append(extraGroups, Group{Out: "C10Facts.lean", Imports: []string{"OidcModel.Model.C10Flow"}, NS: "GenC10", Extra: c10Facts})
}

// functions outside pkg/op that are extracted too: the call chain verifier -> oidc.CheckSignature -> KeySet.VerifySignature -> Storage.KeySet
var c10ExtraFuncs = [][3]string{{"pkg/oidc/verifier.go", "CheckSignature", "oidc.CheckSignature"}}

// handlers outside the scope of C10
// (round 3: the readiness probe loops are representable now - loops with tracked content become tail-recursive loop functions -
// so nothing is left out; the table stays so that an exclusion would be visible in GenC10.outOfScope)
var c10OutOfScope = map[string]string{}

type efFunc struct {
	name, file  string
	ftype       *ast.FuncType
	body        *ast.BlockStmt
	recv        string
	isLit       bool
	parent      *efFunc
	kind        string // void err bool val
	handler     bool
	leaf        bool // contains a storage call or a call through a function value
	storageLeaf bool
	valueRef    bool // handed on as a function value somewhere (registered as a route, …)
	edges       map[*efFunc]bool
	tracked     bool
	idx         int
	vars        []*ast.Object
	varIdx      map[*ast.Object]int
	nDiscard    int
	sites       []string
	sitePos     map[token.Pos]int
	named       *ast.Object // last named result
	sk          *efNode
	retries     []int   // bounds of the unrolled retry loops
	shareOf     *efFunc // a synthetic loop function: shares the variable and call-site tables of the function the loop is in
	loopDesc    string
	retrySeen   map[token.Pos]bool
	unsup       []string
}

type efProg struct {
	g        *genCtx
	funcs    []*efFunc
	free     map[string]*efFunc
	methods  map[string][]*efFunc
	pkgFuncs map[string]*efFunc
	litOf    map[*ast.FuncLit]*efFunc
	litVar   map[*ast.Object][]*efFunc // local variable -> function literals assigned to it
	errCtx   map[*ast.CallExpr]bool    // the call's last result is bound to an error-like variable
	imports  map[string]bool
	nTracked int       // number of tracked functions of the source; synthetic loop functions get the indices after them
	synth    []*efFunc // synthetic loop functions, in index order
	loopMemo map[string]*efFunc
}

type efCallee struct {
	kind    string // storage dyn op none
	name    string
	targets []*efFunc
}

type efNode struct {
	str string
}

var efErrName = regexp.MustCompile(`(?i)^(err|.*err|.*error)$`)

func efKindOf(ft *ast.FuncType) string {
	if ft.Results == nil || len(ft.Results.List) == 0 {
		return "void"
	}
	l := ft.Results.List[len(ft.Results.List)-1]
	switch exprString(l.Type) {
	case "error":
		return "err"
	case "bool":
		return "bool"
	}
	return "val"
}

func unwrapFun(e ast.Expr) ast.Expr {
	for {
		switch v := e.(type) {
		case *ast.ParenExpr:
			e = v.X
		case *ast.IndexExpr:
			e = v.X
		case *ast.IndexListExpr:
			e = v.X
		default:
			return e
		}
	}
}

func (p *efProg) collect() {
	g := p.g
	addFunc := func(f *efFunc) {
		f.edges = map[*efFunc]bool{}
		f.varIdx = map[*ast.Object]int{}
		f.sitePos = map[token.Pos]int{}
		f.kind = efKindOf(f.ftype)
		f.handler = len(writerParams(f.ftype)) > 0
		if f.ftype.Results != nil && len(f.ftype.Results.List) > 0 {
			l := f.ftype.Results.List[len(f.ftype.Results.List)-1]
			if len(l.Names) > 0 {
				f.named = l.Names[len(l.Names)-1].Obj
			}
		}
		p.funcs = append(p.funcs, f)
	}
	addDecl := func(rel string, fd *ast.FuncDecl, name string) {
		f := &efFunc{name: name, file: rel, ftype: fd.Type, body: fd.Body}
		if fd.Recv != nil && len(fd.Recv.List) == 1 {
			f.recv = strings.TrimPrefix(exprString(fd.Recv.List[0].Type), "*")
		}
		addFunc(f)
		if f.recv == "" {
			if strings.Contains(name, ".") {
				p.pkgFuncs[name] = f
			} else {
				p.free[name] = f
			}
		} else {
			p.methods[fd.Name.Name] = append(p.methods[fd.Name.Name], f)
		}
		n := 0
		ast.Inspect(fd.Body, func(nd ast.Node) bool {
			fl, ok := nd.(*ast.FuncLit)
			if !ok {
				return true
			}
			n++
			lf := &efFunc{name: fmt.Sprintf("%s.func%d", name, n), file: rel, ftype: fl.Type, body: fl.Body, isLit: true, parent: f}
			addFunc(lf)
			p.litOf[fl] = lf
			return true
		})
	}
	for _, rel := range c09GoFiles("pkg/op") {
		af := g.file(rel)
		if af == nil {
			continue
		}
		for _, im := range af.Imports {
			path := strings.Trim(im.Path.Value, `"`)
			nm := path[strings.LastIndex(path, "/")+1:]
			if im.Name != nil {
				nm = im.Name.Name
			}
			p.imports[nm] = true
		}
		for _, d := range af.Decls {
			if fd, ok := d.(*ast.FuncDecl); ok && fd.Body != nil {
				addDecl(rel, fd, declName(fd))
			}
		}
	}
	for _, x := range c10ExtraFuncs {
		if fd := g.findFunc(x[0], x[1]); fd != nil {
			addDecl(x[0], fd, x[2])
		}
	}
	// local variables bound to function literals; calls whose result is bound to an error-like variable
	for _, f := range p.funcs {
		ast.Inspect(f.body, func(nd ast.Node) bool {
			switch v := nd.(type) {
			case *ast.AssignStmt:
				for i, r := range v.Rhs {
					if fl, ok := r.(*ast.FuncLit); ok && i < len(v.Lhs) {
						if id, ok := v.Lhs[i].(*ast.Ident); ok && id.Obj != nil {
							p.litVar[id.Obj] = append(p.litVar[id.Obj], p.litOf[fl])
						}
					}
				}
				if len(v.Rhs) == 1 {
					if c, ok := v.Rhs[0].(*ast.CallExpr); ok {
						if id, ok := v.Lhs[len(v.Lhs)-1].(*ast.Ident); ok && efErrName.MatchString(id.Name) {
							p.errCtx[c] = true
						}
					}
				}
			case *ast.ValueSpec:
				if len(v.Values) == 1 {
					if c, ok := v.Values[0].(*ast.CallExpr); ok && efErrName.MatchString(v.Names[len(v.Names)-1].Name) {
						p.errCtx[c] = true
					}
				}
			}
			return true
		})
	}
}

// efArityFits: the call's argument count fits the parameter list (a call with a single argument may be a forwarded tuple)
func efArityFits(ft *ast.FuncType, n int) bool {
	np, variadic := 0, false
	if ft.Params != nil {
		for _, f := range ft.Params.List {
			k := len(f.Names)
			if k == 0 {
				k = 1
			}
			np += k
			if _, ok := f.Type.(*ast.Ellipsis); ok {
				variadic = true
			}
		}
	}
	if variadic {
		return n >= np-1
	}
	return n == np || (n == 1 && np > 1)
}

// isStorageSel: a selector call of a method of op.Storage / the optional storage interfaces
func efIsStorageSel(sel *ast.SelectorExpr) bool {
	if !storageMethods[sel.Sel.Name] {
		return false
	}
	recv := strings.ToLower(exprString(sel.X))
	return !strings.HasSuffix(recv, ".server")
}

// classify: what a call refers to. tracked=false: every candidate (call graph construction); tracked=true: only the tracked ones
func (p *efProg) classify(f *efFunc, c *ast.CallExpr, writers map[string]bool, onlyTracked bool) efCallee {
	keep := func(fs []*efFunc) []*efFunc {
		var out []*efFunc
		for _, t := range fs {
			if t != nil && (!onlyTracked || t.tracked) && efArityFits(t.ftype, len(c.Args)) {
				out = append(out, t)
			}
		}
		return out
	}
	touches := func() bool {
		x := &skx{fset: p.g.fset, writers: writers}
		return x.touchesW(c)
	}
	fun := unwrapFun(c.Fun)
	switch v := fun.(type) {
	case *ast.Ident:
		if v.Obj != nil && v.Obj.Kind == ast.Var {
			if lits := keep(p.litVar[v.Obj]); len(p.litVar[v.Obj]) > 0 {
				if len(lits) > 0 {
					return efCallee{kind: "op", name: v.Name, targets: lits}
				}
				return efCallee{kind: "none"}
			}
			if p.errCtx[c] {
				return efCallee{kind: "dyn", name: "(" + v.Name + ")"}
			}
			if touches() {
				return efCallee{kind: "delegate", name: "(" + v.Name + ")"}
			}
			return efCallee{kind: "none"}
		}
		if t, ok := p.free[v.Name]; ok {
			if ts := keep([]*efFunc{t}); len(ts) > 0 {
				return efCallee{kind: "op", name: v.Name, targets: ts}
			}
		}
		return efCallee{kind: "none"}
	case *ast.SelectorExpr:
		if id, ok := v.X.(*ast.Ident); ok && id.Obj == nil && p.imports[id.Name] {
			if t, ok := p.pkgFuncs[id.Name+"."+v.Sel.Name]; ok {
				if ts := keep([]*efFunc{t}); len(ts) > 0 {
					return efCallee{kind: "op", name: id.Name + "." + v.Sel.Name, targets: ts}
				}
			}
			return efCallee{kind: "none"}
		}
		if efIsStorageSel(v) {
			return efCallee{kind: "storage", name: v.Sel.Name}
		}
		if ms := keep(p.methods[v.Sel.Name]); len(ms) > 0 {
			return efCallee{kind: "op", name: "." + v.Sel.Name, targets: ms}
		}
		return efCallee{kind: "none"}
	case *ast.CallExpr:
		// `s.withClient(h)(w, r)`: the function literals the inner callee returns
		inner := p.classify(f, v, writers, false)
		var lits []*efFunc
		for _, t := range inner.targets {
			for _, cand := range p.funcs {
				if cand.isLit && cand.parent == t && cand.handler {
					lits = append(lits, cand)
				}
			}
		}
		if ts := keep(lits); len(ts) > 0 {
			return efCallee{kind: "op", name: render(p.g.fset, v), targets: ts}
		}
		return efCallee{kind: "none"}
	}
	return efCallee{kind: "none"}
}

func (p *efProg) callGraph() {
	for _, f := range p.funcs {
		w := writerParams(f.ftype)
		for q := f.parent; q != nil; q = q.parent {
			for k := range writerParams(q.ftype) {
				w[k] = true
			}
		}
		var walk func(n ast.Node)
		walk = func(n ast.Node) {
			ast.Inspect(n, func(nd ast.Node) bool {
				switch v := nd.(type) {
				case *ast.FuncLit:
					return nd == n
				case *ast.CallExpr:
					if ignorableCall(v) {
						return true
					}
					// function values handed on as arguments (`simpleHandler(s, s.server.Keys)`, `s.withClient(s.revocationHandler)`)
					for _, a := range v.Args {
						switch av := a.(type) {
						case *ast.SelectorExpr:
							for _, t := range p.methods[av.Sel.Name] {
								f.edges[t] = true
								t.valueRef = true
							}
						case *ast.Ident:
							if t, ok := p.free[av.Name]; ok && (av.Obj == nil || av.Obj.Kind == ast.Fun) {
								f.edges[t] = true
								t.valueRef = true
							}
						}
					}
					ce := p.classify(f, v, w, false)
					switch ce.kind {
					case "storage":
						f.leaf, f.storageLeaf = true, true
					case "dyn", "delegate":
						f.leaf = true
					case "op":
						for _, t := range ce.targets {
							f.edges[t] = true
						}
					}
				}
				return true
			})
		}
		walk(f.body)
	}
	outOfScope := func(f *efFunc) bool {
		for q := f; q != nil; q = q.parent {
			if _, out := c10OutOfScope[q.name]; out {
				return true
			}
		}
		return false
	}
	// tracked: reaches a leaf
	for changed := true; changed; {
		changed = false
		for _, f := range p.funcs {
			if f.tracked || outOfScope(f) {
				continue
			}
			t := f.leaf
			for e := range f.edges {
				if e.tracked {
					t = true
				}
			}
			if t {
				f.tracked = true
				changed = true
			}
		}
	}
	// restrict to what is reachable from a handler (a function receiving the ResponseWriter) or directly calls the storage
	reach := map[*efFunc]bool{}
	var visit func(f *efFunc)
	visit = func(f *efFunc) {
		if reach[f] {
			return
		}
		reach[f] = true
		for e := range f.edges {
			visit(e)
		}
	}
	for _, f := range p.funcs {
		if f.handler || f.storageLeaf || f.valueRef {
			visit(f)
		}
	}
	for _, f := range p.funcs {
		if !reach[f] {
			f.tracked = false
		}
	}
	sort.SliceStable(p.funcs, func(i, j int) bool { return p.funcs[i].file+"/"+p.funcs[i].name < p.funcs[j].file+"/"+p.funcs[j].name })
	n := 0
	for _, f := range p.funcs {
		f.idx = -1
		if f.tracked {
			f.idx = n
			n++
		}
	}
	p.nTracked = n
}

// ---------------------------------------------------------------- skeleton generation

type efK func() *efNode

func efMemo(k efK) efK {
	var r *efNode
	return func() *efNode {
		if r == nil {
			r = k()
		}
		return r
	}
}

type efCtx struct {
	brk, cont efK
}

type efGen struct {
	p       *efProg
	f       *efFunc
	writers map[string]bool
	tracked map[*ast.Object]bool
}

func nd(format string, args ...any) *efNode { return &efNode{str: fmt.Sprintf(format, args...)} }

func (x *efGen) bad(pos token.Pos, what string) *efNode {
	x.f.unsup = append(x.f.unsup, fmt.Sprintf("%s: %s", x.p.g.fset.Position(pos), what))
	return nd("UNSUPPORTED_%s", sanitizeIdent(what))
}

func (x *efGen) varOf(o *ast.Object) int {
	if i, ok := x.f.varIdx[o]; ok {
		return i
	}
	i := len(x.f.vars)
	x.f.vars = append(x.f.vars, o)
	x.f.varIdx[o] = i
	return i
}

func (x *efGen) discard() int {
	x.f.nDiscard++
	o := ast.NewObj(ast.Var, fmt.Sprintf("_%d", x.f.nDiscard))
	return x.varOf(o)
}

func (x *efGen) siteOf(c *ast.CallExpr, ce efCallee) int {
	if i, ok := x.f.sitePos[c.Pos()]; ok {
		return i
	}
	i := len(x.f.sites)
	nm := ce.name
	if ce.kind == "storage" {
		nm = "Storage." + ce.name
	}
	x.f.sites = append(x.f.sites, nm)
	x.f.sitePos[c.Pos()] = i
	return i
}

func mkIte(kind string, a, b *efNode) *efNode {
	if a.str == b.str {
		return a
	}
	return nd("(%s %s %s)", kind, a.str, b.str)
}

func (x *efGen) callee(c *ast.CallExpr) efCallee {
	if ignorableCall(c) {
		return efCallee{kind: "none"}
	}
	return x.p.classify(x.f, c, x.writers, true)
}

func (x *efGen) calleeLean(ce efCallee) string {
	switch ce.kind {
	case "storage":
		return "(.storage " + leanStr(ce.name) + ")"
	case "dyn":
		return "(.dyn " + leanStr(ce.name) + ")"
	case "delegate":
		return "(.delegate " + leanStr(ce.name) + ")"
	}
	var ids []string
	seen := map[int]bool{}
	for _, t := range ce.targets {
		if !seen[t.idx] {
			ids = append(ids, fmt.Sprint(t.idx))
			seen[t.idx] = true
		}
	}
	return "(.op [" + strings.Join(ids, ", ") + "])"
}

// trackedVar: the identifier is a variable that receives the error / ok flag of a tracked call somewhere in this function
func (x *efGen) trackedVar(e ast.Expr) (int, bool) {
	if p, ok := e.(*ast.ParenExpr); ok {
		return x.trackedVar(p.X)
	}
	id, ok := e.(*ast.Ident)
	if !ok || id.Obj == nil || !x.tracked[id.Obj] {
		return 0, false
	}
	return x.varOf(id.Obj), true
}

func (x *efGen) findTracked() {
	x.tracked = map[*ast.Object]bool{}
	mark := func(lhs ast.Expr, c *ast.CallExpr) {
		if x.callee(c).kind == "none" {
			return
		}
		if id, ok := lhs.(*ast.Ident); ok && id.Obj != nil && id.Name != "_" {
			x.tracked[id.Obj] = true
		}
	}
	var walk func(n ast.Node)
	walk = func(n ast.Node) {
		ast.Inspect(n, func(m ast.Node) bool {
			switch v := m.(type) {
			case *ast.FuncLit:
				return m == n
			case *ast.AssignStmt:
				if len(v.Rhs) == 1 {
					if c, ok := v.Rhs[0].(*ast.CallExpr); ok {
						mark(v.Lhs[len(v.Lhs)-1], c)
					}
				}
			case *ast.ValueSpec:
				if len(v.Values) == 1 {
					if c, ok := v.Values[0].(*ast.CallExpr); ok {
						mark(v.Names[len(v.Names)-1], c)
					}
				}
			}
			return true
		})
	}
	walk(x.f.body)
}

// trackedCalls: the tracked calls inside e in evaluation order (arguments before the call), function literals not entered
func (x *efGen) trackedCalls(e ast.Node) []*ast.CallExpr {
	var out []*ast.CallExpr
	if e == nil {
		return nil
	}
	var walk func(n ast.Node)
	walk = func(n ast.Node) {
		ast.Inspect(n, func(m ast.Node) bool {
			switch v := m.(type) {
			case *ast.FuncLit:
				return false
			case *ast.CallExpr:
				walk(v.Fun)
				for _, a := range v.Args {
					walk(a)
				}
				if x.callee(v).kind != "none" {
					out = append(out, v)
				}
				return false
			}
			return true
		})
	}
	walk(e)
	return out
}

var efResponders = map[string]bool{"RequestError": true, "AuthRequestError": true, "WriteError": true, "RevocationRequestError": true, "http.Error": true,
	"writeError": true}

var efSuccessBuilders = map[string]bool{"NewResponse": true, "NewRedirect": true, "crypto.Sign": true, "CreateBearerToken": true, "BuildAuthRequestCode": true,
	"AuthResponseURL": true}

// leaf: how a call that is not a tracked call counts: resp / succ / "" (irrelevant)
func (x *efGen) leaf(c *ast.CallExpr) (string, string) {
	if ignorableCall(c) {
		return "", ""
	}
	f := exprString(unwrapFun(c.Fun))
	if efResponders[f] {
		return "resp", f
	}
	sx := &skx{fset: x.p.g.fset, writers: x.writers}
	if sx.touchesW(c) {
		if (f == "httphelper.MarshalJSONWithStatus" || f == "MarshalJSONWithStatus") && len(c.Args) == 3 {
			if exprString(c.Args[2]) != "http.StatusOK" {
				return "resp", f
			}
			return "succ", f
		}
		if strings.HasSuffix(f, ".WriteHeader") && len(c.Args) == 1 {
			if a := exprString(c.Args[0]); a != "http.StatusOK" && a != "http.StatusFound" {
				return "resp", "WriteHeader"
			}
			return "succ", "WriteHeader"
		}
		if strings.HasSuffix(f, ".Header().Set") || strings.HasSuffix(f, ".Header().Add") || strings.HasSuffix(f, ".Header") {
			return "", ""
		}
		if _, isCall := c.Fun.(*ast.CallExpr); isCall {
			f = render(x.p.g.fset, c.Fun)
		}
		return "succ", f
	}
	if efSuccessBuilders[f] || strings.HasSuffix(f, ".Encrypt") {
		return "succ", f
	}
	return "", ""
}

// exprSteps: the relevant steps of evaluating the expressions (tracked calls get a discarded result), then k
func (x *efGen) exprSteps(k efK, skip *ast.CallExpr, es ...ast.Node) *efNode {
	type step struct {
		c    *ast.CallExpr
		kind string
		name string
	}
	var steps []step
	for _, e := range es {
		if e == nil {
			continue
		}
		var walk func(n ast.Node)
		walk = func(n ast.Node) {
			ast.Inspect(n, func(m ast.Node) bool {
				switch v := m.(type) {
				case *ast.FuncLit:
					return false
				case *ast.CallExpr:
					walk(v.Fun)
					for _, a := range v.Args {
						walk(a)
					}
					if v == skip {
						return false
					}
					if x.callee(v).kind != "none" {
						steps = append(steps, step{c: v, kind: "call"})
					} else if kd, nm := x.leaf(v); kd != "" {
						steps = append(steps, step{c: v, kind: kd, name: nm})
					}
					return false
				}
				return true
			})
		}
		walk(e)
	}
	var build func(i int) *efNode
	build = func(i int) *efNode {
		if i == len(steps) {
			return k()
		}
		s := steps[i]
		if s.kind == "call" {
			ce := x.callee(s.c)
			return nd("(.call %d %s %d %s)", x.siteOf(s.c, ce), x.calleeLean(ce), x.discard(), build(i+1).str)
		}
		return nd("(.%s %s %s)", s.kind, leanStr(s.name), build(i+1).str)
	}
	return build(0)
}

// assignCall: `lhs… = c(…)` with c tracked: argument steps, the call with its result variable, kills of the other tracked lhs, k
func (x *efGen) assignCall(lhs []ast.Expr, c *ast.CallExpr, k efK) *efNode {
	ce := x.callee(c)
	v := -1
	if len(lhs) > 0 {
		if i, ok := x.trackedVar(lhs[len(lhs)-1]); ok {
			v = i
		}
	}
	if v < 0 {
		v = x.discard()
	}
	site := x.siteOf(c, ce)
	rest := func() *efNode {
		var kills []int
		for i, l := range lhs {
			if i == len(lhs)-1 {
				break
			}
			if j, ok := x.trackedVar(l); ok {
				kills = append(kills, j)
			}
		}
		n := k()
		for i := len(kills) - 1; i >= 0; i-- {
			n = nd("(.kill %d %s)", kills[i], n.str)
		}
		return nd("(.call %d %s %d %s)", site, x.calleeLean(ce), v, n.str)
	}
	var args []ast.Node
	args = append(args, c.Fun)
	for _, a := range c.Args {
		args = append(args, a)
	}
	return x.exprSteps(rest, nil, args...)
}

// assign: any assignment / declaration with values
func (x *efGen) assign(lhs []ast.Expr, rhs []ast.Expr, k efK) *efNode {
	if len(rhs) == 1 {
		if c, ok := rhs[0].(*ast.CallExpr); ok && x.callee(c).kind != "none" {
			return x.assignCall(lhs, c, k)
		}
	}
	// `err = X().WithParent(err)` / `err = fmt.Errorf("…: %w", err)`: an error constructor applied to the variable itself keeps a
	// non-nil value in its class (the cause stays in the chain); from nil it makes something the tree does not follow
	if len(lhs) == 1 && len(rhs) == 1 && (x.f.kind == "err" || x.f.kind == "void" || x.f.kind == "val") {
		if j, ok := x.trackedVar(lhs[0]); ok {
			if i, ok2 := x.mentionsTracked(rhs[0]); ok2 && i == j && efIsErrCtor(wrapName(rhs[0])) && len(x.errTags(rhs[0])) == 0 &&
				len(x.trackedCalls(rhs[0])) == 0 {
				keep := efMemo(k)
				return x.exprSteps(func() *efNode {
					return mkIte(fmt.Sprintf(".ifErr %d", j), keep(), nd("(.kill %d %s)", j, keep().str))
				}, nil, rhs[0])
			}
		}
	}
	rest := func() *efNode {
		n := k()
		for i := len(lhs) - 1; i >= 0; i-- {
			if j, ok := x.trackedVar(lhs[i]); ok {
				n = nd("(.kill %d %s)", j, n.str)
			}
			// `response.Active = true`: the introspection payload turns positive
			if sel, ok := lhs[i].(*ast.SelectorExpr); ok && sel.Sel.Name == "Active" && i < len(rhs) && exprString(rhs[i]) == "true" {
				n = nd("(.succ %s %s)", leanStr("Active=true"), n.str)
			}
		}
		return n
	}
	var es []ast.Node
	for _, r := range rhs {
		es = append(es, r)
	}
	return x.exprSteps(rest, nil, es...)
}

func isNilIdent(e ast.Expr) bool {
	id, ok := e.(*ast.Ident)
	return ok && id.Name == "nil"
}

// sentinelName: X of errors.Is(v, X) / errors.As(v, &X{})
func sentinelName(e ast.Expr) string {
	switch v := e.(type) {
	case *ast.UnaryExpr:
		return sentinelName(v.X)
	case *ast.CompositeLit:
		return exprString(v.Type)
	case *ast.ParenExpr:
		return sentinelName(v.X)
	}
	return exprString(e)
}

func (x *efGen) cond(e ast.Expr, t, f efK) *efNode {
	switch v := e.(type) {
	case *ast.ParenExpr:
		return x.cond(v.X, t, f)
	case *ast.UnaryExpr:
		if v.Op == token.NOT {
			return x.cond(v.X, f, t)
		}
	case *ast.BinaryExpr:
		switch v.Op {
		case token.LAND:
			return x.cond(v.X, efMemo(func() *efNode { return x.cond(v.Y, t, f) }), f)
		case token.LOR:
			return x.cond(v.X, t, efMemo(func() *efNode { return x.cond(v.Y, t, f) }))
		case token.NEQ, token.EQL:
			var id ast.Expr
			if isNilIdent(v.Y) {
				id = v.X
			} else if isNilIdent(v.X) {
				id = v.Y
			}
			if id != nil {
				if i, ok := x.trackedVar(id); ok {
					if v.Op == token.NEQ {
						return mkIte(fmt.Sprintf(".ifErr %d", i), t(), f())
					}
					return mkIte(fmt.Sprintf(".ifErr %d", i), f(), t())
				}
			}
		}
	case *ast.Ident:
		if i, ok := x.trackedVar(v); ok && x.isBoolVar(v) {
			return mkIte(fmt.Sprintf(".ifErr %d", i), f(), t())
		}
	case *ast.CallExpr:
		fn := exprString(v.Fun)
		if (fn == "errors.Is" || fn == "errors.As") && len(v.Args) == 2 {
			if i, ok := x.trackedVar(v.Args[0]); ok {
				return mkIte(fmt.Sprintf(".ifIs %d %s", i, leanStr(sentinelName(v.Args[1]))), t(), f())
			}
		}
	}
	return mkIte(".ite", t(), f())
}

// isBoolVar: a tracked variable used as a condition by itself is an ok flag
func (x *efGen) isBoolVar(id *ast.Ident) bool { return true }

func (x *efGen) block(stmts []ast.Stmt, k efK, cx efCtx) *efNode {
	if len(stmts) == 0 {
		return k()
	}
	rest := efMemo(func() *efNode { return x.block(stmts[1:], k, cx) })
	return x.stmt(stmts[0], rest, cx)
}

// errTags: sentinel-like names mentioned in a returned error expression (not in call position)
func (x *efGen) errTags(e ast.Expr) []string {
	var tags []string
	seen := map[string]bool{}
	add := func(s string) {
		if !seen[s] {
			seen[s] = true
			tags = append(tags, s)
		}
	}
	var walk func(n ast.Node)
	walk = func(n ast.Node) {
		ast.Inspect(n, func(m ast.Node) bool {
			switch v := m.(type) {
			case *ast.FuncLit:
				return false
			case *ast.CallExpr:
				// the function position is a constructor, not a sentinel value; a method chain continues in its receiver
				if s, ok := v.Fun.(*ast.SelectorExpr); ok {
					if _, isCall := s.X.(*ast.CallExpr); isCall {
						walk(s.X)
					}
				}
				for _, a := range v.Args {
					walk(a)
				}
				return false
			case *ast.CompositeLit:
				add(exprString(v.Type))
			case *ast.SelectorExpr:
				if id, ok := v.X.(*ast.Ident); ok && id.Obj == nil && x.p.imports[id.Name] {
					if strings.HasPrefix(v.Sel.Name, "Err") || v.Sel.Name == "DeadlineExceeded" || v.Sel.Name == "Canceled" {
						add(id.Name + "." + v.Sel.Name)
					}
					return false
				}
			case *ast.Ident:
				if strings.HasPrefix(v.Name, "Err") && len(v.Name) > 3 && !(v.Obj != nil && x.tracked[v.Obj]) {
					add(v.Name)
				}
			}
			return true
		})
	}
	walk(e)
	return tags
}

// efIsErrCtor: the outermost constructor of a returned error expression always yields a non-nil error (built from its arguments)
func efIsErrCtor(name string) bool {
	switch name {
	case "errors.New", "fmt.Errorf", "NewStatusError", "AsStatusError", "unimplementedGrantError", "unimplementedError", "oidc.DefaultToServerError",
		"RevocationError", "TryErrorRedirect":
		return true
	}
	return strings.HasPrefix(name, "oidc.Err")
}

func wrapName(e ast.Expr) string {
	for {
		switch v := e.(type) {
		case *ast.ParenExpr:
			e = v.X
			continue
		case *ast.CallExpr:
			if s, ok := v.Fun.(*ast.SelectorExpr); ok {
				if inner, ok := s.X.(*ast.CallExpr); ok {
					e = inner
					continue
				}
			}
			return exprString(unwrapFun(v.Fun))
		case *ast.CompositeLit:
			return exprString(v.Type)
		case *ast.Ident:
			return ""
		}
		return ""
	}
}

func (x *efGen) mentionsTracked(e ast.Expr) (int, bool) {
	res, found := 0, false
	ast.Inspect(e, func(m ast.Node) bool {
		if found {
			return false
		}
		if _, ok := m.(*ast.FuncLit); ok {
			return false
		}
		if id, ok := m.(*ast.Ident); ok && id.Obj != nil && x.tracked[id.Obj] {
			res, found = x.varOf(id.Obj), true
		}
		return true
	})
	return res, found
}

// retClass: the class of the value a return statement puts into the error / ok position
func (x *efGen) retClass(e ast.Expr) string {
	switch x.f.kind {
	case "void", "val":
		return ".nil"
	}
	if e == nil {
		return ".unk"
	}
	if p, ok := e.(*ast.ParenExpr); ok {
		return x.retClass(p.X)
	}
	if id, ok := e.(*ast.Ident); ok {
		switch {
		case id.Name == "nil" && x.f.kind == "err", id.Name == "true" && x.f.kind == "bool":
			return ".nil"
		case id.Name == "false" && x.f.kind == "bool":
			return "(.fresh [] \"false\")"
		}
		if i, ok := x.trackedVar(id); ok {
			return fmt.Sprintf("(.var %d [] \"\")", i)
		}
		if x.f.kind == "err" && strings.HasPrefix(id.Name, "Err") && len(id.Name) > 3 {
			return fmt.Sprintf("(.fresh %s %s)", leanStrList([]string{id.Name}), leanStr(id.Name))
		}
		return ".unk"
	}
	if x.f.kind == "bool" {
		// `err == nil` in an ok position
		if b, ok := e.(*ast.BinaryExpr); ok && b.Op == token.EQL && isNilIdent(b.Y) {
			if i, ok := x.trackedVar(b.X); ok {
				return fmt.Sprintf("(.var %d [] \"\")", i)
			}
		}
		return ".unk"
	}
	tags := x.errTags(e)
	wn := wrapName(e)
	ctor := efIsErrCtor(wn)
	if _, isLit := e.(*ast.CompositeLit); isLit {
		ctor = true
	}
	if sel, ok := e.(*ast.SelectorExpr); ok && len(tags) > 0 {
		// a sentinel of another package: `context.DeadlineExceeded`
		return fmt.Sprintf("(.fresh %s %s)", leanStrList(tags), leanStr(exprString(sel)))
	}
	if !ctor {
		// the error of some other call: may be nil
		return ".unk"
	}
	if i, ok := x.mentionsTracked(e); ok {
		return fmt.Sprintf("(.var %d %s %s)", i, leanStrList(tags), leanStr(wn))
	}
	return fmt.Sprintf("(.fresh %s %s)", leanStrList(tags), leanStr(wn))
}

func (x *efGen) ret(v *ast.ReturnStmt) *efNode {
	if len(v.Results) == 0 {
		if x.f.kind == "void" || x.f.kind == "val" {
			return nd("(.ret .nil)")
		}
		if x.f.named != nil {
			if x.tracked[x.f.named] {
				return nd("(.ret (.var %d [] \"\"))", x.varOf(x.f.named))
			}
			return nd("(.ret .unk)")
		}
		return x.bad(v.Pos(), "naked return without named results")
	}
	// `return F(…)` with F tracked: its error is this function's
	if len(v.Results) == 1 {
		if c, ok := v.Results[0].(*ast.CallExpr); ok && x.callee(c).kind != "none" {
			ce := x.callee(c)
			tv := x.discard()
			retN := "(.ret .nil)"
			if x.f.kind == "err" || x.f.kind == "bool" {
				retN = fmt.Sprintf("(.ret (.var %d [] \"\"))", tv)
			}
			site := x.siteOf(c, ce)
			k := func() *efNode { return nd("(.call %d %s %d %s)", site, x.calleeLean(ce), tv, retN) }
			var args []ast.Node
			args = append(args, c.Fun)
			for _, a := range c.Args {
				args = append(args, a)
			}
			return x.exprSteps(k, nil, args...)
		}
	}
	last := v.Results[len(v.Results)-1]
	cls := x.retClass(last)
	var es []ast.Node
	for _, e := range v.Results {
		es = append(es, e)
	}
	return x.exprSteps(func() *efNode { return nd("(.ret %s)", cls) }, nil, es...)
}

// relevant: does the subtree contain a tracked call, a kill of a tracked variable, a success step (loops must not)
func (x *efGen) loopSafe(body ast.Node) bool {
	safe := true
	ast.Inspect(body, func(m ast.Node) bool {
		switch v := m.(type) {
		case *ast.FuncLit:
			return false
		case *ast.CallExpr:
			if x.callee(v).kind != "none" {
				safe = false
			} else if kd, _ := x.leaf(v); kd == "succ" {
				safe = false
			}
		case *ast.AssignStmt:
			for _, l := range v.Lhs {
				if _, ok := x.trackedVar(l); ok {
					safe = false
				}
			}
		}
		return safe
	})
	return safe
}

func (x *efGen) stmt(s ast.Stmt, k efK, cx efCtx) *efNode {
	switch v := s.(type) {
	case nil:
		return k()
	case *ast.EmptyStmt, *ast.IncDecStmt:
		return k()
	case *ast.ReturnStmt:
		return x.ret(v)
	case *ast.ExprStmt:
		return x.exprSteps(k, nil, v.X)
	case *ast.AssignStmt:
		return x.assign(v.Lhs, v.Rhs, k)
	case *ast.DeclStmt:
		gd, ok := v.Decl.(*ast.GenDecl)
		if !ok {
			return x.bad(v.Pos(), "declaration")
		}
		specs := gd.Specs
		var build func(i int) *efNode
		build = func(i int) *efNode {
			if i == len(specs) {
				return k()
			}
			vs, ok := specs[i].(*ast.ValueSpec)
			if !ok || len(vs.Values) == 0 {
				return build(i + 1)
			}
			var lhs []ast.Expr
			for _, n := range vs.Names {
				lhs = append(lhs, n)
			}
			return x.assign(lhs, vs.Values, func() *efNode { return build(i + 1) })
		}
		return build(0)
	case *ast.BlockStmt:
		return x.block(v.List, k, cx)
	case *ast.DeferStmt:
		if ignorableCall(v.Call) {
			return k()
		}
		if _, isLit := v.Call.Fun.(*ast.FuncLit); isLit {
			if len(x.trackedCalls(v.Call.Fun)) > 0 {
				return x.bad(v.Pos(), "deferred function literal with tracked calls")
			}
			return k()
		}
		// a deferred call runs on every later exit; its error is never examined
		return x.exprSteps(k, nil, v.Call)
	case *ast.GoStmt:
		if len(x.trackedCalls(v.Call)) > 0 {
			return x.bad(v.Pos(), "go statement with tracked calls")
		}
		return k()
	case *ast.IfStmt:
		thenK := efMemo(func() *efNode { return x.block(v.Body.List, k, cx) })
		elseK := k
		switch e := v.Else.(type) {
		case *ast.BlockStmt:
			elseK = efMemo(func() *efNode { return x.block(e.List, k, cx) })
		case *ast.IfStmt:
			elseK = efMemo(func() *efNode { return x.stmt(e, k, cx) })
		}
		condK := efMemo(func() *efNode {
			return x.exprSteps(func() *efNode { return x.cond(v.Cond, thenK, elseK) }, nil, v.Cond)
		})
		if v.Init != nil {
			return x.stmt(v.Init, condK, cx)
		}
		return condK()
	case *ast.SwitchStmt:
		return x.switchLike(v.Init, v.Tag, v.Body, k, cx)
	case *ast.TypeSwitchStmt:
		return x.switchLike(v.Init, v.Assign, v.Body, k, cx)
	case *ast.ForStmt, *ast.RangeStmt:
		var body *ast.BlockStmt
		var hdr []ast.Node
		if f, ok := v.(*ast.ForStmt); ok {
			body = f.Body
			hdr = []ast.Node{f.Init, f.Cond, f.Post}
		} else {
			r := v.(*ast.RangeStmt)
			body = r.Body
			hdr = []ast.Node{r.X}
		}
		for _, h := range hdr {
			if h != nil && !isNilNode(h) && len(x.trackedCalls(h)) > 0 {
				return x.bad(s.Pos(), "loop header with tracked calls")
			}
		}
		if !x.loopSafe(body) {
			// (1) a bounded loop with a constant number N ≤ 5 of iterations (`for i := 0; i < N; i++`, `i := 1; i <= N`, a countdown,
			// `for range N`) is unrolled: attempt 1 … attempt N, then the statements after the loop (the bound is exhausted);
			// `continue` / the end of the body start the next attempt, `break` leaves the loop.  A retry loop must be of this form:
			// a failure that is pending at the end of an attempt may only be followed by the same call again.
			if n, ok := x.constBound(s); ok {
				if x.f.retrySeen == nil {
					x.f.retrySeen = map[token.Pos]bool{}
				}
				if !x.f.retrySeen[s.Pos()] {
					x.f.retrySeen[s.Pos()] = true
					x.f.retries = append(x.f.retries, n)
				}
				var iter func(i int) *efNode
				iter = func(i int) *efNode {
					if i == n {
						return k()
					}
					next := efMemo(func() *efNode { return iter(i + 1) })
					return nd("(.attempt %d %d %s)", i+1, n, x.block(body.List, next, efCtx{brk: k, cont: next}).str)
				}
				return iter(0)
			}
			// (2) every other loop (`range` over a slice / map, `for cond`, `for {}`) becomes a tail-recursive LOOP FUNCTION of the
			// program: `loop = if * { body; loop } else { the statements after the loop … function exit }`, called in tail position.
			// The Lean semantics runs callees along their own trees (recursion included), starts them from an arbitrary environment
			// (the variables are havocked at every iteration) and lets no call follow a pending failure - so a loop is accepted only
			// if no failure is pending at its back edge.
			return x.loopFn(s, body, k)
		}
		// no tracked content: the body runs zero times or - as far as returns and responders go - once
		once := x.block(body.List, k, efCtx{brk: k, cont: k})
		return mkIte(".ite", once, k())
	case *ast.BranchStmt:
		switch v.Tok {
		case token.BREAK:
			if v.Label == nil && cx.brk != nil {
				return cx.brk()
			}
		case token.CONTINUE:
			if v.Label == nil && cx.cont != nil {
				return cx.cont()
			}
		}
		return x.bad(v.Pos(), "branch statement "+v.Tok.String())
	case *ast.LabeledStmt, *ast.SelectStmt, *ast.SendStmt:
		return x.bad(s.Pos(), fmt.Sprintf("statement %T", s))
	}
	return x.bad(s.Pos(), fmt.Sprintf("statement %T", s))
}

// constBound: the number of iterations of a loop with a constant bound, 1 ≤ n ≤ 5:
//
//	for i := A; i < N; i++   for i := A; i <= N; i++   (i++ or i += 1)     n = N-A (+1)
//	for i := N; i > A; i--   for i := N; i >= A; i--   (i-- or i -= 1)     n = N-A (+1)
//	for range N              for i := range N
//
// A, N integer literals or integer constants of pkg/op; the loop variable must not be assigned in the body.
func (x *efGen) constBound(s ast.Stmt) (int, bool) {
	notAssigned := func(body *ast.BlockStmt, obj *ast.Object) bool {
		assigned := false
		ast.Inspect(body, func(m ast.Node) bool {
			switch v := m.(type) {
			case *ast.AssignStmt:
				for _, l := range v.Lhs {
					if id, ok := l.(*ast.Ident); ok && id.Obj == obj {
						assigned = true
					}
				}
			case *ast.IncDecStmt:
				if id, ok := v.X.(*ast.Ident); ok && id.Obj == obj {
					assigned = true
				}
			case *ast.UnaryExpr:
				if id, ok := v.X.(*ast.Ident); ok && v.Op == token.AND && id.Obj == obj {
					assigned = true
				}
			}
			return !assigned
		})
		return !assigned
	}
	inRange := func(n int) (int, bool) { return n, n >= 1 && n <= 5 }
	if rs, ok := s.(*ast.RangeStmt); ok {
		n, ok := x.p.constInt(rs.X)
		if !ok || rs.Value != nil {
			return 0, false
		}
		if rs.Key != nil {
			id, ok := rs.Key.(*ast.Ident)
			if !ok || rs.Tok != token.DEFINE || (id.Obj != nil && !notAssigned(rs.Body, id.Obj)) {
				return 0, false
			}
		}
		return inRange(n)
	}
	fs, ok := s.(*ast.ForStmt)
	if !ok || fs.Init == nil || fs.Cond == nil || fs.Post == nil {
		return 0, false
	}
	as, ok := fs.Init.(*ast.AssignStmt)
	if !ok || as.Tok != token.DEFINE || len(as.Lhs) != 1 || len(as.Rhs) != 1 {
		return 0, false
	}
	iv, ok := as.Lhs[0].(*ast.Ident)
	if !ok || iv.Obj == nil {
		return 0, false
	}
	start, ok := x.p.constInt(as.Rhs[0])
	if !ok {
		return 0, false
	}
	cond, ok := fs.Cond.(*ast.BinaryExpr)
	if !ok {
		return 0, false
	}
	if l, ok := cond.X.(*ast.Ident); !ok || l.Obj != iv.Obj {
		return 0, false
	}
	lim, ok := x.p.constInt(cond.Y)
	if !ok {
		return 0, false
	}
	step := 0
	switch post := fs.Post.(type) {
	case *ast.IncDecStmt:
		if id, ok := post.X.(*ast.Ident); ok && id.Obj == iv.Obj {
			if post.Tok == token.INC {
				step = 1
			} else {
				step = -1
			}
		}
	case *ast.AssignStmt:
		if len(post.Lhs) == 1 && len(post.Rhs) == 1 {
			if id, ok := post.Lhs[0].(*ast.Ident); ok && id.Obj == iv.Obj {
				if one, ok := x.p.constInt(post.Rhs[0]); ok && one == 1 {
					switch post.Tok {
					case token.ADD_ASSIGN:
						step = 1
					case token.SUB_ASSIGN:
						step = -1
					}
				}
			}
		}
	}
	n := -1
	switch {
	case step == 1 && cond.Op == token.LSS:
		n = lim - start
	case step == 1 && cond.Op == token.LEQ:
		n = lim - start + 1
	case step == -1 && cond.Op == token.GTR:
		n = start - lim
	case step == -1 && cond.Op == token.GEQ:
		n = start - lim + 1
	}
	if n < 0 || !notAssigned(fs.Body, iv.Obj) {
		return 0, false
	}
	return inRange(n)
}

// loopFn: the loop as a tail-recursive function of the program (see stmt); k = the statements after the loop up to the function exit
func (x *efGen) loopFn(s ast.Stmt, body *ast.BlockStmt, k efK) *efNode {
	p := x.p
	var init, post ast.Stmt
	if fs, ok := s.(*ast.ForStmt); ok {
		init, post = fs.Init, fs.Post
	}
	tail := func(L *efFunc, site int) *efNode {
		tv := x.discard()
		retN := "(.ret .nil)"
		if x.f.kind == "err" || x.f.kind == "bool" {
			retN = fmt.Sprintf("(.ret (.var %d [] \"\"))", tv)
		}
		return nd("(.call %d (.op [%d]) %d %s)", site, L.idx, tv, retN)
	}
	newSite := func(name string) int {
		x.f.sites = append(x.f.sites, name)
		return len(x.f.sites) - 1
	}
	exit := k()
	if p.loopMemo == nil {
		p.loopMemo = map[string]*efFunc{}
	}
	owner := x.f
	key := fmt.Sprintf("%s@%d@%s", owner.name, s.Pos(), exit.str)
	L := p.loopMemo[key]
	if L == nil {
		nLoops := 0
		for _, q := range p.synth {
			if q.shareOf == owner {
				nLoops++
			}
		}
		L = &efFunc{name: fmt.Sprintf("%s.loop%d", owner.name, nLoops+1), file: owner.file, kind: owner.kind, handler: owner.handler, tracked: true,
			idx: p.nTracked + len(p.synth), shareOf: owner, loopDesc: fmt.Sprintf("%T at %s", s, p.g.fset.Position(s.Pos()))}
		p.synth = append(p.synth, L)
		p.loopMemo[key] = L
		back := newSite(L.name)
		backEdge := efMemo(func() *efNode {
			return x.stmt(post, func() *efNode { return tail(L, back) }, efCtx{})
		})
		once := x.block(body.List, backEdge, efCtx{brk: k, cont: backEdge})
		// the range variables are fresh in every iteration
		if rs, ok := s.(*ast.RangeStmt); ok {
			for _, e := range []ast.Expr{rs.Key, rs.Value} {
				if e != nil {
					if j, ok := x.trackedVar(e); ok {
						once = nd("(.kill %d %s)", j, once.str)
					}
				}
			}
		}
		L.sk = mkIte(".ite", once, exit)
	}
	entry := newSite(L.name)
	return x.stmt(init, func() *efNode { return tail(L, entry) }, efCtx{})
}

// constInt: an integer literal, or an identifier declared as an integer constant in pkg/op
func (p *efProg) constInt(e ast.Expr) (int, bool) {
	switch v := e.(type) {
	case *ast.BasicLit:
		if v.Kind == token.INT {
			n, err := strconv.Atoi(v.Value)
			return n, err == nil
		}
	case *ast.Ident:
		for _, rel := range c09GoFiles("pkg/op") {
			af := p.g.file(rel)
			if af == nil {
				continue
			}
			for _, d := range af.Decls {
				gd, ok := d.(*ast.GenDecl)
				if !ok || gd.Tok != token.CONST {
					continue
				}
				for _, sp := range gd.Specs {
					vs, ok := sp.(*ast.ValueSpec)
					if !ok {
						continue
					}
					for i, nm := range vs.Names {
						if nm.Name == v.Name && i < len(vs.Values) {
							return p.constInt(vs.Values[i])
						}
					}
				}
			}
		}
	}
	return 0, false
}

func isNilNode(n ast.Node) bool {
	switch v := n.(type) {
	case ast.Stmt:
		return v == nil
	case ast.Expr:
		return v == nil
	}
	return n == nil
}

func (x *efGen) switchLike(init ast.Stmt, tag ast.Node, body *ast.BlockStmt, k efK, cx efCtx) *efNode {
	inner := efCtx{brk: k, cont: cx.cont}
	gen := efMemo(func() *efNode {
		var cases []efK
		var caseConds [][]ast.Expr
		var def efK
		var conds []ast.Node
		if tag != nil && !isNilNode(tag) {
			conds = append(conds, tag)
		}
		for _, c := range body.List {
			cc, ok := c.(*ast.CaseClause)
			if !ok {
				return x.bad(c.Pos(), "switch clause")
			}
			for _, st := range cc.Body {
				if b, ok := st.(*ast.BranchStmt); ok && b.Tok == token.FALLTHROUGH {
					return x.bad(b.Pos(), "fallthrough")
				}
			}
			bodyK := efMemo(func() *efNode { return x.block(cc.Body, k, inner) })
			if cc.List == nil {
				def = bodyK
				continue
			}
			for _, e := range cc.List {
				conds = append(conds, e)
			}
			caseConds = append(caseConds, cc.List)
			cases = append(cases, bodyK)
		}
		tail := k
		if def != nil {
			tail = def
		}
		chain := tail()
		_, isTypeSwitch := tag.(*ast.AssignStmt)
		if es, ok := tag.(*ast.ExprStmt); ok && es != nil {
			_, isTypeSwitch = es.X.(*ast.TypeAssertExpr)
		}
		if (tag == nil || isNilNode(tag)) && !isTypeSwitch && len(caseConds) == len(cases) {
			// a tagless switch is an if-chain: `switch { case err != nil: … default: … }`
			for i := len(cases) - 1; i >= 0; i-- {
				next := chain
				var e ast.Expr
				for _, c := range caseConds[i] {
					if e == nil {
						e = c
					} else {
						e = &ast.BinaryExpr{X: e, Op: token.LOR, Y: c}
					}
				}
				chain = x.cond(e, cases[i], func() *efNode { return next })
			}
		} else {
			for i := len(cases) - 1; i >= 0; i-- {
				chain = mkIte(".ite", cases[i](), chain)
			}
		}
		final := chain
		return x.exprSteps(func() *efNode { return final }, nil, conds...)
	})
	if init != nil {
		return x.stmt(init, gen, cx)
	}
	return gen()
}

func (p *efProg) generate(f *efFunc) {
	x := &efGen{p: p, f: f, writers: writerParams(f.ftype)}
	for q := f.parent; q != nil; q = q.parent {
		for k := range writerParams(q.ftype) {
			x.writers[k] = true
		}
	}
	x.findTracked()
	end := func() *efNode {
		if f.kind == "void" || f.kind == "val" {
			return nd("(.ret .nil)")
		}
		return nd("(.ret .unk)")
	}
	f.sk = x.block(f.body.List, end, efCtx{})
}

func c10Facts(g *genCtx) string {
	p := &efProg{g: g, free: map[string]*efFunc{}, methods: map[string][]*efFunc{}, pkgFuncs: map[string]*efFunc{}, litOf: map[*ast.FuncLit]*efFunc{},
		litVar: map[*ast.Object][]*efFunc{}, errCtx: map[*ast.CallExpr]bool{}, imports: map[string]bool{}}
	p.collect()
	p.callGraph()
	var b strings.Builder
	b.WriteString("/-! kind E: one error-flow skeleton per function of pkg/op on a call path from an HTTP handler to the storage -/\n")
	var rows []string
	var facts []map[string]any
	nSites := 0
	for _, f := range p.funcs {
		if !f.tracked {
			continue
		}
		p.generate(f)
		if len(f.unsup) > 0 {
			g.unsup["C10.sk."+f.name] = f.unsup
		}
		id := "sk_" + sanitizeIdent(f.name)
		var vn []string
		for _, o := range f.vars {
			vn = append(vn, o.Name)
		}
		fmt.Fprintf(&b, "/-- `%s` (%s); variables: %s -/\ndef %s : C10.Flow.Sk :=\n  %s\n", f.name, f.file, strings.Join(vn, " "), id, f.sk.str)
		rows = append(rows, fmt.Sprintf("{ name := %s, file := %s, kind := .%s, handler := %s, nvars := %d, sites := %s, sk := %s }",
			leanStr(f.name), leanStr(f.file), f.kind, leanBool(f.handler), len(f.vars), leanStrList(f.sites), id))
		facts = append(facts, map[string]any{"name": f.name, "file": f.file, "kind": f.kind, "handler": f.handler, "sites": f.sites, "size": len(f.sk.str)})
		nSites += len(f.sites)
	}
	var loopRows []string
	for _, L := range p.synth {
		o := L.shareOf
		id := "sk_" + sanitizeIdent(L.name)
		fmt.Fprintf(&b, "/-- `%s`: loop function of `%s` (%s); variables and call sites are those of `%s` -/\ndef %s : C10.Flow.Sk :=\n  %s\n", L.name, o.name, L.loopDesc, o.name, id, L.sk.str)
		rows = append(rows, fmt.Sprintf("{ name := %s, file := %s, kind := .%s, handler := %s, nvars := %d, sites := %s, sk := %s }",
			leanStr(L.name), leanStr(L.file), L.kind, leanBool(L.handler), len(o.vars), leanStrList(o.sites), id))
		facts = append(facts, map[string]any{"name": L.name, "file": L.file, "kind": L.kind, "handler": L.handler, "sites": o.sites, "size": len(L.sk.str), "loopOf": o.name})
		loopRows = append(loopRows, "("+leanStr(L.name)+", "+leanStr(o.name)+")")
	}
	b.WriteString("\ndef fns : List C10.Flow.Fn := [\n  " + strings.Join(rows, ",\n  ") + "]\n\n")
	b.WriteString("/-- loops with tracked content that are not constant-bound: (loop function, function the loop is in) -/\ndef loopFns : List (String × String) := [" + strings.Join(loopRows, ", ") + "]\n\n")
	g.facts["C10.loopFns"] = loopRows
	ifc := c10StorageInterface(g)
	var ifcRows []string
	for _, m := range ifc {
		ifcRows = append(ifcRows, "("+leanStr(m[0])+", "+leanStr(m[1])+")")
	}
	b.WriteString("/-- the methods of the storage interfaces of pkg/op that can report an error (interface, method), from the interface declarations -/\ndef storageInterface : List (String × String) := [" + strings.Join(ifcRows, ", ") + "]\n\n")
	g.facts["C10.storageInterface"] = ifcRows
	var oos []string
	keys := make([]string, 0, len(c10OutOfScope))
	for k := range c10OutOfScope {
		keys = append(keys, k)
	}
	sort.Strings(keys)
	for _, k := range keys {
		oos = append(oos, "("+leanStr(k)+", "+leanStr(c10OutOfScope[k])+")")
	}
	var rl []string
	for _, f := range p.funcs {
		if f.tracked {
			for _, n := range f.retries {
				rl = append(rl, fmt.Sprintf("(%s, %d)", leanStr(f.name), n))
			}
		}
	}
	b.WriteString("/-- bounded retry loops around tracked calls (function, number of attempts): unrolled in the trees -/\ndef retryLoops : List (String × Nat) := [" + strings.Join(rl, ", ") + "]\n\n")
	g.facts["C10.retryLoops"] = rl
	b.WriteString("/-- handlers the extractor leaves out, with the reason -/\ndef outOfScope : List (String × String) := [" + strings.Join(oos, ", ") + "]\n")
	g.facts["C10.flowFunctions"] = facts
	g.facts["C10.flowSites"] = nSites
	return b.String()
}

// c10StorageInterface: (interface, method) for every method with an error (or ok) result of the interface types pkg/op declares for
// the pluggable storage: all interfaces of storage.go, and every interface elsewhere in pkg/op whose name contains "Storage" or
// that a storage.go interface embeds by name (KeyProvider …)
func c10StorageInterface(g *genCtx) [][2]string {
	var out [][2]string
	seen := map[string]bool{}
	for _, rel := range c09GoFiles("pkg/op") {
		af := g.file(rel)
		if af == nil {
			continue
		}
		for _, d := range af.Decls {
			gd, ok := d.(*ast.GenDecl)
			if !ok || gd.Tok != token.TYPE {
				continue
			}
			for _, sp := range gd.Specs {
				ts, ok := sp.(*ast.TypeSpec)
				if !ok {
					continue
				}
				it, ok := ts.Type.(*ast.InterfaceType)
				if !ok || it.Methods == nil {
					continue
				}
				if !(strings.HasSuffix(rel, "/storage.go") || strings.Contains(ts.Name.Name, "Storage") || ts.Name.Name == "KeyProvider") {
					continue
				}
				for _, m := range it.Methods.List {
					ft, ok := m.Type.(*ast.FuncType)
					if !ok || len(m.Names) == 0 {
						continue
					}
					if k := efKindOf(ft); k != "err" && k != "bool" {
						// RevokeToken reports its failure as *oidc.Error
						if ft.Results == nil || len(ft.Results.List) == 0 || exprString(ft.Results.List[len(ft.Results.List)-1].Type) != "*oidc.Error" {
							continue
						}
					}
					for _, nm := range m.Names {
						key := ts.Name.Name + "." + nm.Name
						if !seen[key] {
							seen[key] = true
							out = append(out, [2]string{ts.Name.Name, nm.Name})
						}
					}
				}
			}
		}
	}
	sort.Slice(out, func(i, j int) bool { return out[i][0]+"."+out[i][1] < out[j][0]+"."+out[j][1] })
	return out
}
