package main

// C02: key selection (pkg/oidc/keyset.go) and the KeySet implementations that select a key by
// oidc.GetKeyIDAndAlg: op.OpenIDKeySet (access token, id_token_hint), op.jwtProfileKeySet (assertions, request
// objects) and the sequential path of rp.remoteKeySet.  Own namespace GenC02: the hand-written twins in
// Model/KeySet.lean (which the regenerated CheckSignature calls and the C02 / C13 theorems speak about) are
// proved equal to these regenerated definitions in Proofs/C02.lean (`*_bridge`), so an edit of the Go functions
// changes a definition a theorem is about.
//
// The two loops (`for _, sig := range jws.Signatures { ..; break }`, FindMatchingKey's filter loop with
// `continue`, an early `return` and `append`) update variables AND leave early: LoopStyle "ctl".

func init() {
	const keyset = "pkg/oidc/keyset.go"
	ren := map[string]string{
		"algToKeyType()":                    "algToKeyType now",
		"jose.EdDSA":                        "Const.EdDSA",
		"oidc.GetKeyIDAndAlg()":             "GetKeyIDAndAlg now",
		"oidc.FindMatchingKey()":            "FindMatchingKey now",
		"oidc.KeyUseSignature":              "Const.KeyUseSignature",
		"jws.Verify()":                      "Hand.jwsVerify jws",
		"o.Storage.KeySet()":                "Hand.c02StorageKeySet o",
		"jsonWebKeySet()":                   "Hand.c02JSONWebKeySet",
		"k.storage.GetKeyByIDAndClientID()": "Hand.c02GetKeyByIDAndClientID (k).storage",
	}
	pairRen := map[string]string{
		"r.keysFromCache()":         "cachedKeys",
		"r.keysFromRemote()":        "remote",
		"oidc.FindMatchingKey()":    "Hand.c02Pair (FindMatchingKey now)",
		"oidc.GetKeyIDAndAlg()":     "GetKeyIDAndAlg now",
		"jws.Verify()":              "Hand.jwksVerify jws",
		"r.exactMatch()":            "remoteExactMatch now r",
		"r.verifySignatureCached()": "remoteVerifySignatureCached now r cachedKeys",
		"r.verifySignatureRemote()": "remote",
	}
	extraGroups = append(extraGroups, Group{
		Out:     "KeySetC02.lean",
		NS:      "GenC02",
		Imports: []string{"OidcModel.Model.KeySetC02"},
		Opens:   []string{"Go", "Hand", "Const", "Jwks"},
		Funcs: []FuncSpec{
			{File: keyset, Name: "GetKeyIDAndAlg", Lean: "GetKeyIDAndAlg",
				Params: []string{"(jws : JWS)"}, Ret: RetVal, RetType: "(String × String)", LoopStyle: "ctl", Rename: ren},
			{File: keyset, Name: "algToKeyType", Lean: "algToKeyType",
				Params: []string{"(key : KeyType)", "(alg : String)"}, Ret: RetVal, RetType: "Bool", Imperative: true, Rename: ren,
				TypeAsserts: map[string]string{"*rsa.PublicKey": "Hand.c02AsRSA", "*ecdsa.PublicKey": "Hand.c02AsECDSA", "ed25519.PublicKey": "Hand.c02AsEd25519"}},
			{File: keyset, Name: "FindMatchingKey", Lean: "FindMatchingKey",
				Params: []string{"(keyID use expectedAlg : String)", "(keys : List JWK)"}, Ret: RetValErr, RetType: "JWK",
				NilValue: []string{"key"}, LoopStyle: "ctl", SliceVars: true, Rename: ren},
			{File: "pkg/op/op.go", Name: "OpenIDKeySet.VerifySignature", Lean: "OpenIDKeySetVerifySignature",
				Params: []string{"(o : C02KeyStorage)", "(jws : JWS)"}, Ret: RetValErr, RetType: "Payload", NilValue: []string{"nil"}, Rename: ren},
			{File: "pkg/op/verifier_jwt_profile.go", Name: "jwtProfileKeySet.VerifySignature", Lean: "JwtProfileKeySetVerifySignature",
				Params: []string{"(k : C02JwtProfileKeySet)", "(jws : JWS)"}, Ret: RetValErr, RetType: "Payload", NilValue: []string{"nil"}, Rename: ren},
			// rp.remoteKeySet, sequential path (the concurrent part is C13's): the same four functions as Generated/Jwks.lean,
			// but over the regenerated GetKeyIDAndAlg / FindMatchingKey
			{File: jwksFile, Name: "remoteKeySet.exactMatch", Lean: "remoteExactMatch",
				Params: []string{"(r : JwksSet)", "(jwkID jwsID : String)"}, Ret: RetVal, RetType: "Bool", Rename: pairRen},
			{File: jwksFile, Name: "remoteKeySet.verifySignatureCached", Lean: "remoteVerifySignatureCached",
				Params: []string{"(r : JwksSet)", "(cachedKeys : List JWK)", "(jws : JWS)", "(keyID alg : String)"},
				Ret:    RetVal, RetType: "GoPair", PairStyle: true, Rename: pairRen},
			{File: jwksFile, Name: "remoteKeySet.verifySignatureRemote", Lean: "remoteVerifySignatureRemote",
				Params: []string{"(r : JwksSet)", "(remote : List JWK × Option String)", "(jws : JWS)", "(keyID alg : String)"},
				Ret:    RetVal, RetType: "GoPair", PairStyle: true, Rename: pairRen},
			{File: jwksFile, Name: "remoteKeySet.VerifySignature", Lean: "remoteVerifySignature",
				Params: []string{"(r : JwksSet)", "(cachedKeys : List JWK)", "(remote : JWS → String → String → GoPair)", "(jws : JWS)"},
				Ret:    RetVal, RetType: "GoPair", PairStyle: true, Rename: pairRen},
		},
	})
}
