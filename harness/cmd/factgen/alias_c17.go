package main

// alias_c17.go (C17): aliasing facts of the option slices of rp.AuthURLHandler / rp.CodeExchangeHandler.
//
// Both functions return ONE http.HandlerFunc closure that serves every request. The closure builds a slice of
// functional options (`opts` / `codeOpts`), appends the request's own options to it (code challenge, code verifier,
// client assertion) and hands it to AuthURL / CodeExchange. Whether two requests that are served at the same time can
// see each other's options depends on ONE thing: where the backing array of that slice comes from.
//   - allocated inside the closure (make / composite literal / the make+copy loop) -> a fresh array per request
//   - a variable of the enclosing function (captured), a parameter slice, a sub-slice of those -> ONE array for all
//     requests; `append` writes into it in place whenever it has spare capacity
// The extractor follows every slice variable that the closure appends to, writes through an index, or spreads into
// the sink call and emits where its backing array originates:
//     def <Handler>_optsOrigin : RPAlias.SliceOrigin         -- the slice spread into AuthURL(...)/CodeExchange(...)
//     def <Handler>_sliceSites : List RPAlias.SliceSite       -- every append / index write in the closure, in order
// Proofs/C17Iso.lean proves request isolation for EVERY interleaving from `_optsOrigin = .perRequest` and all sites
// being per-request; the facts are regenerated on every run.

import (
	"fmt"
	"go/ast"
	"go/token"
	"strconv"
	"strings"
)

func init() {
	extraGroups = append(extraGroups, Group{
		Out: "RPAlias.lean", Imports: []string{"OidcModel.Model.RPAlias"}, NS: "GenAlias", Extra: rpAliasFacts,
	})
}

type c17Origin struct {
	perRequest bool
	spare      string // Lean `Option Nat` when captured
	why        string
}

func (o c17Origin) lean() string {
	if o.perRequest {
		return ".perRequest"
	}
	return ".captured " + o.spare
}

type c17AliasWalk struct {
	g      *genCtx
	outer  map[string]c17Origin // variables of the enclosing function (incl. parameters): what a closure-local alias of them is
	local  map[string]c17Origin // closure-local slice variables
	sites  []string
	sinks  map[string]bool
	sinkOf *c17Origin
}

// spareOfMake: make([]T, n) -> 0; make([]T, n, n) -> 0; make([]T, n, n+k) / (k+n) -> k; anything else unknown
func spareOfMake(c *ast.CallExpr) string {
	if len(c.Args) == 2 {
		return "(some 0)"
	}
	if len(c.Args) == 3 {
		ln, cp := exprString(c.Args[1]), c.Args[2]
		if goSrcEq(c.Args[1], cp) {
			return "(some 0)"
		}
		if b, ok := cp.(*ast.BinaryExpr); ok && b.Op == token.ADD {
			if goSrcEq(b.X, c.Args[1]) {
				if lit, ok := b.Y.(*ast.BasicLit); ok && lit.Kind == token.INT {
					if n, err := strconv.Atoi(lit.Value); err == nil {
						return fmt.Sprintf("(some %d)", n)
					}
				}
			}
			if goSrcEq(b.Y, c.Args[1]) {
				if lit, ok := b.X.(*ast.BasicLit); ok && lit.Kind == token.INT {
					if n, err := strconv.Atoi(lit.Value); err == nil {
						return fmt.Sprintf("(some %d)", n)
					}
				}
			}
		}
		_ = ln
	}
	return "none"
}

func goSrcEq(a, b ast.Expr) bool { return astString(a) == astString(b) }

// astString: a structural rendering that distinguishes what exprString lumps together
func astString(e ast.Expr) string {
	switch x := e.(type) {
	case *ast.Ident:
		return x.Name
	case *ast.BasicLit:
		return x.Value
	case *ast.CallExpr:
		var as []string
		for _, a := range x.Args {
			as = append(as, astString(a))
		}
		return astString(x.Fun) + "(" + strings.Join(as, ",") + ")"
	case *ast.SelectorExpr:
		return astString(x.X) + "." + x.Sel.Name
	case *ast.BinaryExpr:
		return "(" + astString(x.X) + x.Op.String() + astString(x.Y) + ")"
	case *ast.ParenExpr:
		return astString(x.X)
	}
	return fmt.Sprintf("<%T@%d>", e, e.Pos())
}

// originOfExpr: where does the backing array of the slice value `e` come from, seen from inside the closure?
func (w *c17AliasWalk) originOfExpr(e ast.Expr, inClosure bool) (c17Origin, bool) {
	switch x := e.(type) {
	case *ast.ParenExpr:
		return w.originOfExpr(x.X, inClosure)
	case *ast.CompositeLit:
		if _, ok := x.Type.(*ast.ArrayType); ok {
			return c17Origin{perRequest: inClosure, spare: "(some 0)", why: "composite literal"}, true
		}
	case *ast.CallExpr:
		switch exprString(x.Fun) {
		case "make":
			if len(x.Args) >= 1 {
				if _, ok := x.Args[0].(*ast.ArrayType); ok {
					return c17Origin{perRequest: inClosure, spare: spareOfMake(x), why: "make"}, true
				}
			}
		case "append":
			if len(x.Args) >= 1 {
				// the result may be the argument's array (spare capacity) or a new one: as shared as the argument
				return w.originOfExpr(x.Args[0], inClosure)
			}
		case "slices.Clone":
			return c17Origin{perRequest: inClosure, spare: "none", why: "slices.Clone"}, true
		}
	case *ast.SliceExpr:
		o, ok := w.originOfExpr(x.X, inClosure)
		if ok && !o.perRequest {
			o.spare = "none" // re-slicing changes what is spare
		}
		return o, ok
	case *ast.Ident:
		if inClosure {
			if o, ok := w.local[x.Name]; ok {
				return o, true
			}
		}
		if o, ok := w.outer[x.Name]; ok {
			return o, true
		}
	}
	return c17Origin{}, false
}

func (w *c17AliasWalk) site(kind, v string, pos token.Pos, o c17Origin, val string) {
	p := w.g.fset.Position(pos)
	w.sites = append(w.sites, fmt.Sprintf("{ kind := %s, var := %s, line := %d, origin := %s, value := %s }",
		leanStr(kind), leanStr(v), p.Line, o.lean(), leanStr(val)))
}

func (w *c17AliasWalk) assign(lhs, rhs ast.Expr, inClosure bool) {
	id, ok := lhs.(*ast.Ident)
	if !ok {
		return
	}
	o, isSlice := w.originOfExpr(rhs, inClosure)
	if !isSlice {
		if inClosure {
			delete(w.local, id.Name)
		}
		return
	}
	if inClosure {
		w.local[id.Name] = o
	} else {
		o.perRequest = false
		w.outer[id.Name] = o
	}
}

func (w *c17AliasWalk) stmts(list []ast.Stmt, inClosure bool) {
	for _, s := range list {
		w.stmt(s, inClosure)
	}
}

func (w *c17AliasWalk) stmt(s ast.Stmt, inClosure bool) {
	switch x := s.(type) {
	case *ast.AssignStmt:
		// calls on the right-hand side first (append sites, sink calls)
		for _, r := range x.Rhs {
			w.expr(r, inClosure)
		}
		for i, l := range x.Lhs {
			if ix, ok := l.(*ast.IndexExpr); ok && inClosure {
				if id, ok := ix.X.(*ast.Ident); ok {
					if o, ok := w.originOfExpr(id, true); ok {
						if !o.perRequest {
							o.spare = "none" // an index write hits the shared array whatever its capacity
						}
						w.site("index", id.Name, l.Pos(), o, goSrc(w.g.fset, x.Rhs[min(i, len(x.Rhs)-1)]))
					}
				}
			}
		}
		if len(x.Lhs) == len(x.Rhs) {
			for i := range x.Lhs {
				w.assign(x.Lhs[i], x.Rhs[i], inClosure)
			}
		}
	case *ast.DeclStmt:
		if gd, ok := x.Decl.(*ast.GenDecl); ok {
			for _, sp := range gd.Specs {
				if vs, ok := sp.(*ast.ValueSpec); ok {
					for i, n := range vs.Names {
						if i < len(vs.Values) {
							w.expr(vs.Values[i], inClosure)
							w.assign(n, vs.Values[i], inClosure)
						} else if _, isSlice := vs.Type.(*ast.ArrayType); isSlice {
							// var x []T: the nil slice, nothing shared
							o := c17Origin{perRequest: inClosure, spare: "(some 0)", why: "nil slice"}
							if inClosure {
								w.local[n.Name] = o
							} else {
								w.outer[n.Name] = o
							}
						}
					}
				}
			}
		}
	case *ast.ExprStmt:
		w.expr(x.X, inClosure)
	case *ast.IfStmt:
		if x.Init != nil {
			w.stmt(x.Init, inClosure)
		}
		w.expr(x.Cond, inClosure)
		w.stmts(x.Body.List, inClosure)
		if x.Else != nil {
			w.stmt(x.Else, inClosure)
		}
	case *ast.BlockStmt:
		w.stmts(x.List, inClosure)
	case *ast.ForStmt:
		if x.Init != nil {
			w.stmt(x.Init, inClosure)
		}
		w.stmts(x.Body.List, inClosure)
	case *ast.RangeStmt:
		w.stmts(x.Body.List, inClosure)
	case *ast.SwitchStmt:
		for _, c := range x.Body.List {
			if cc, ok := c.(*ast.CaseClause); ok {
				w.stmts(cc.Body, inClosure)
			}
		}
	case *ast.ReturnStmt:
		for _, r := range x.Results {
			if fl, ok := r.(*ast.FuncLit); ok && !inClosure {
				w.stmts(fl.Body.List, true) // the handler closure
			} else {
				w.expr(r, inClosure)
			}
		}
	case *ast.DeferStmt:
		w.expr(x.Call, inClosure)
	case *ast.GoStmt:
		w.expr(x.Call, inClosure)
	}
}

func (w *c17AliasWalk) expr(e ast.Expr, inClosure bool) {
	ast.Inspect(e, func(n ast.Node) bool {
		c, ok := n.(*ast.CallExpr)
		if !ok {
			return true
		}
		if !inClosure {
			return true
		}
		name := exprString(c.Fun)
		if ix, ok := c.Fun.(*ast.IndexExpr); ok { // generic instantiation: CodeExchange[C](...)
			name = exprString(ix.X)
		}
		if name == "append" && len(c.Args) >= 1 {
			if id, ok := c.Args[0].(*ast.Ident); ok {
				if o, ok := w.originOfExpr(id, true); ok {
					val := ""
					if len(c.Args) > 1 {
						val = goSrc(w.g.fset, c.Args[1])
					}
					w.site("append", id.Name, c.Pos(), o, val)
				}
			} else if o, ok := w.originOfExpr(c.Args[0], true); ok {
				w.site("append", goSrc(w.g.fset, c.Args[0]), c.Pos(), o, "")
			}
		}
		if w.sinks[name] && c.Ellipsis.IsValid() && len(c.Args) > 0 {
			last := c.Args[len(c.Args)-1]
			if o, ok := w.originOfExpr(last, true); ok {
				if w.sinkOf == nil || !o.perRequest {
					oo := o
					w.sinkOf = &oo
				}
				w.site("use:"+name, goSrc(w.g.fset, last), c.Pos(), o, "")
			}
		}
		return true
	})
}

func rpAliasFacts(g *genCtx) string {
	var b strings.Builder
	const file = "pkg/client/rp/relying_party.go"
	for _, h := range []struct {
		fn   string
		sink string
	}{{"AuthURLHandler", "AuthURL"}, {"CodeExchangeHandler", "CodeExchange"}} {
		fd := g.findFunc(file, h.fn)
		if fd == nil || fd.Body == nil {
			g.unsup[h.fn+"_alias"] = []string{"function not found in " + file}
			fmt.Fprintf(&b, "def %s_optsOrigin : RPAlias.SliceOrigin := UNSUPPORTED_function_not_found\n\n", h.fn)
			continue
		}
		w := &c17AliasWalk{g: g, outer: map[string]c17Origin{}, local: map[string]c17Origin{}, sinks: map[string]bool{h.sink: true}}
		for _, f := range fd.Type.Params.List {
			_, isSlice := f.Type.(*ast.ArrayType)
			_, isVariadic := f.Type.(*ast.Ellipsis)
			if isSlice || isVariadic {
				for _, n := range f.Names {
					w.outer[n.Name] = c17Origin{perRequest: false, spare: "none", why: "parameter"}
				}
			}
		}
		w.stmts(fd.Body.List, false)
		pos := g.fset.Position(fd.Pos())
		if w.sinkOf == nil {
			g.unsup[h.fn+"_alias"] = []string{"no call of " + h.sink + "(..., opts...) with a slice of known origin inside the handler closure"}
			fmt.Fprintf(&b, "def %s_optsOrigin : RPAlias.SliceOrigin := UNSUPPORTED_no_sink_call_with_known_slice\n\n", h.fn)
			continue
		}
		g.facts[h.fn+"_optsOrigin"] = w.sinkOf.lean()
		g.facts[h.fn+"_sliceSites"] = w.sites
		fmt.Fprintf(&b, "/-- %s:%d `%s`: where the backing array of the option slice handed to `%s` comes from -/\n", relPath(pos.Filename), pos.Line, h.fn, h.sink)
		fmt.Fprintf(&b, "def %s_optsOrigin : RPAlias.SliceOrigin := %s\n\n", h.fn, w.sinkOf.lean())
		fmt.Fprintf(&b, "/-- every append to / index write through / use of a slice inside the handler closure of `%s`, in source order -/\n", h.fn)
		fmt.Fprintf(&b, "def %s_sliceSites : List RPAlias.SliceSite := [\n  %s]\n\n", h.fn, strings.Join(w.sites, ",\n  "))
	}
	return b.String()
}
