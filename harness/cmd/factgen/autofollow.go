// autofollow.go: "extract function" is the most common harmless rewrite, and it used to break every slice whose
// translated function gained a call to the new helper (`Unknown identifier`). When a translated function calls a
// same-package function that is neither translated by any spec nor defined by hand in the Lean model, factgen now
// translates that helper as well (transitively, a few levels deep), with a spec inferred from its signature, and emits
// it in front of its caller as a `@[simp] def`, so that the characterisation lemmas (which close their goals with
// simp / grind) see through it. Only helpers with simple signatures qualify (strings, bools, string lists, durations,
// times, and named types that have a Lean twin of the same name); anything else stays an unknown identifier, i.e. the
// old, visible failure.
package main

import (
	"go/ast"
	"os"
	"path/filepath"
	"regexp"
	"strings"
)

var leanDefined map[string]bool // every name defined in the hand-written Lean sources (last component)
var leanTypes map[string]bool   // structures / inductives / abbrevs of the hand-written Lean sources

var goBuiltins = map[string]bool{"len": true, "cap": true, "append": true, "make": true, "new": true, "panic": true, "copy": true,
	"delete": true, "min": true, "max": true, "string": true, "int": true, "int64": true, "uint": true, "uint64": true, "byte": true,
	"bool": true, "float64": true, "rune": true, "error": true, "any": true, "recover": true, "print": true, "println": true, "clear": true}

func scanLeanModel(leanRoot string) {
	leanDefined, leanTypes = map[string]bool{}, map[string]bool{}
	defRe := regexp.MustCompile(`(?m)^\s*(?:@\[[^\]]*\]\s*)?(?:private\s+|protected\s+|partial\s+|noncomputable\s+)*(?:def|abbrev|theorem|instance|opaque)\s+([\w\.']+)`)
	typRe := regexp.MustCompile(`(?m)^\s*(?:@\[[^\]]*\]\s*)?(?:structure|inductive|abbrev|class)\s+([\w\.']+)`)
	filepath.Walk(leanRoot, func(p string, info os.FileInfo, err error) error {
		if err != nil || info.IsDir() || !strings.HasSuffix(p, ".lean") {
			return nil
		}
		if strings.Contains(p, string(filepath.Separator)+"Generated"+string(filepath.Separator)) || strings.Contains(p, ".lake") {
			return nil
		}
		// definitions of proof modules and drivers are never in scope of a generated file (which they import): a proof-side
		// `def signClaims` must not hide a Go helper of the same name from autofollow
		if strings.Contains(p, string(filepath.Separator)+"Proofs"+string(filepath.Separator)) || strings.Contains(p, string(filepath.Separator)+"Driver"+string(filepath.Separator)) {
			return nil
		}
		src, err := os.ReadFile(p)
		if err != nil {
			return nil
		}
		for _, m := range defRe.FindAllStringSubmatch(string(src), -1) {
			n := m[1]
			if i := strings.LastIndex(n, "."); i >= 0 {
				n = n[i+1:]
			}
			leanDefined[n] = true
		}
		for _, m := range typRe.FindAllStringSubmatch(string(src), -1) {
			n := m[1]
			if i := strings.LastIndex(n, "."); i >= 0 {
				n = n[i+1:]
			}
			leanTypes[n] = true
		}
		return nil
	})
}

// leanTypeOf maps the source text of a Go type onto a Lean type, or "" when the helper does not qualify.
func leanTypeOf(e ast.Expr) string {
	if at, ok := e.(*ast.ArrayType); ok && at.Len == nil {
		if id, ok := at.Elt.(*ast.Ident); ok && id.Name == "string" {
			return "(List String)"
		}
		return ""
	}
	s := exprString(e)
	switch s {
	case "string":
		return "String"
	case "bool":
		return "Bool"
	case "[]string":
		return "(List String)"
	case "time.Duration", "time.Time":
		return "Int"
	}
	s = strings.TrimPrefix(s, "*")
	if i := strings.LastIndex(s, "."); i >= 0 {
		s = s[i+1:]
	}
	if leanTypes[s] {
		return s
	}
	return ""
}

// packageFunc finds a top-level function (no receiver) of the package directory of rel.
func (g *genCtx) packageFunc(rel, name string) (*ast.FuncDecl, string) {
	dir := filepath.Dir(rel)
	ents, err := os.ReadDir(filepath.Join(repoRoot, dir))
	if err != nil {
		return nil, ""
	}
	for _, e := range ents {
		n := e.Name()
		if !strings.HasSuffix(n, ".go") || strings.HasSuffix(n, "_test.go") {
			continue
		}
		f := g.file(filepath.Join(dir, n))
		if f == nil {
			continue
		}
		for _, d := range f.Decls {
			if fd, ok := d.(*ast.FuncDecl); ok && fd.Recv == nil && fd.Body != nil && fd.Name.Name == name {
				return fd, filepath.Join(dir, n)
			}
		}
	}
	return nil, ""
}

// inferSpec builds a FuncSpec for a helper from its signature (style flags are inherited from the caller's spec).
func inferSpec(fd *ast.FuncDecl, file string, caller *FuncSpec) (FuncSpec, bool) {
	sp := *caller
	sp.File, sp.Name, sp.Lean = file, fd.Name.Name, fd.Name.Name
	sp.Params, sp.RetType, sp.RetParam, sp.Writer, sp.WrapOk, sp.WrapBoth = nil, "", "", "", "", ""
	// context parameters of the model that are not parameters of the Go function (oracle records the caller's Rename
	// table refers to, e.g. `(o : SessOracles)`): the helper inherits them, its call sites pass them on (autoCtxPatch)
	sp.Params = append(sp.Params, caller.AutoCtx...)
	if fd.Type.TypeParams != nil {
		return sp, false
	}
	for _, f := range fd.Type.Params.List {
		ts := exprString(f.Type)
		if ts == "context.Context" {
			continue
		}
		lt := leanTypeOf(f.Type)
		if lt == "" {
			lt = caller.AutoTypes[ts] // (C03) the caller's spec names the Lean twin of this Go type
		}
		if lt == "" || len(f.Names) == 0 {
			return sp, false
		}
		var ns []string
		for _, n := range f.Names {
			ns = append(ns, n.Name)
		}
		sp.Params = append(sp.Params, "("+strings.Join(ns, " ")+" : "+lt+")")
	}
	var res []ast.Expr
	if fd.Type.Results != nil {
		for _, f := range fd.Type.Results.List {
			k := len(f.Names)
			if k == 0 {
				k = 1
			}
			for i := 0; i < k; i++ {
				res = append(res, f.Type)
			}
		}
	}
	switch {
	case len(res) == 1 && exprString(res[0]) == "error":
		sp.Ret = RetErr
	case len(res) == 1:
		sp.Ret, sp.RetType = RetVal, leanTypeOf(res[0])
	case len(res) == 2 && exprString(res[1]) == "error":
		sp.Ret, sp.RetType = RetValErr, leanTypeOf(res[0])
	default:
		return sp, false
	}
	if sp.Ret != RetErr && sp.RetType == "" {
		sp.RetType = caller.AutoTypes[exprString(res[0])]
	}
	if sp.Ret != RetErr && sp.RetType == "" {
		return sp, false
	}
	return sp, true
}

// A helper found by autoHelpers is emitted into the namespace of the group that needed it. A second group with ANOTHER namespace
// that translates the same caller (a second model of the same Go function, e.g. GenJwks / GenKeySetC02) needs its own copy:
// autoNS remembers where each auto-translated helper has been emitted, curNS is the namespace being generated.
var autoNS = map[string][]string{}
var curNS string

// autoElsewhere: the name was auto-translated, but only into namespaces other than the current one
func autoElsewhere(name string) bool {
	nss, ok := autoNS[name]
	if !ok {
		return false
	}
	for _, n := range nss {
		if n == curNS {
			return false
		}
	}
	return true
}

var autoCallRe = regexp.MustCompile(`\(([A-Za-z_]\w*) now\b`)

// autoHelpers: Lean text of the helpers that the translation `src` of spec `sp` refers to but that nobody defines:
// same-package functions with a simple signature whose own translation is free of unsupported constructs.
func (g *genCtx) autoHelpers(sp *FuncSpec, src string, depth int) string {
	if depth > 3 {
		return ""
	}
	var out strings.Builder
	for _, m := range autoCallRe.FindAllStringSubmatch(src, -1) {
		name := m[1]
		if (translatedFuncs[name] && !(sp.AutoOwn && autoElsewhere(name))) || leanDefined[name] || goBuiltins[name] {
			continue
		}
		hfd, hfile := g.packageFunc(sp.File, name)
		if hfd == nil {
			if os.Getenv("FACTGEN_AUTODEBUG") != "" {
				println("autofollow:", name, "not a function of the package of", sp.File)
			}
			continue
		}
		hsp, ok := inferSpec(hfd, hfile, sp)
		if !ok {
			if os.Getenv("FACTGEN_AUTODEBUG") != "" {
				println("autofollow: signature of", name, "does not qualify")
			}
			continue
		}
		hsp.Auto = true
		hsrc, unsup := translateFunc(g.fset, hfd, &hsp)
		if len(unsup) > 0 || strings.Contains(hsrc, "UNSUPPORTED") {
			if os.Getenv("FACTGEN_AUTODEBUG") != "" {
				println("autofollow:", name, "does not translate:", strings.Join(unsup, "; "), "\n"+hsrc)
			}
			continue
		}
		translatedFuncs[name] = true
		autoNS[name] = append(autoNS[name], curNS)
		if len(sp.AutoCtx) > 0 {
			autoCtxArgs[name] = autoCtxNames(sp.AutoCtx)
		}
		out.WriteString(g.autoHelpers(&hsp, hsrc, depth+1))
		out.WriteString(autoCtxPatch(hsrc) + "\n")
	}
	return out.String()
}

// autoCtxArgs: auto-translated helper -> the context arguments (FuncSpec.AutoCtx of the caller) its call sites pass after `now`.
var autoCtxArgs = map[string]string{}

var autoCtxNameRe = regexp.MustCompile(`^\(([^:]+):`)

func autoCtxNames(ps []string) string {
	var ns []string
	for _, p := range ps {
		if m := autoCtxNameRe.FindStringSubmatch(p); m != nil {
			ns = append(ns, strings.Fields(m[1])...)
		}
	}
	return strings.Join(ns, " ")
}

// autoCtxPatch rewrites the call sites `(helper now …` of helpers that take context arguments to `(helper now <ctx> …`.
// A no-op unless some spec of the run sets AutoCtx (the regenerated files of all other groups stay byte-identical).
func autoCtxPatch(src string) string {
	if len(autoCtxArgs) == 0 {
		return src
	}
	return autoCallRe.ReplaceAllStringFunc(src, func(m string) string {
		name := autoCallRe.FindStringSubmatch(m)[1]
		if a, ok := autoCtxArgs[name]; ok && a != "" {
			return m + " " + a
		}
		return m
	})
}
