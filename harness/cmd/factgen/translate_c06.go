package main

// Value-threading extensions of the shallow translator, added for the issuance functions of pkg/op/token.go (C06).
// Every rule here is reached only through a FuncSpec flag that defaults to off (JoinIf, Mutators, InOutVal, AlsoRet), so the
// output for every other spec is unchanged.
//
//   - JoinIf:   `if C { ..assignments.., error returns.. } [else ..]`  ->  the branches are JOINED on the variables they assign
//               instead of duplicating the continuation into each branch (CreateIDToken has seven such statements in a row)
//   - Mutators: `recv.M(a)` as a statement, M changing its receiver      ->  let recv := (recv).M a
//   - InOutVal: `x := f(h, a)` where f also changes the state behind h   ->  let (x, h) := f h a     (a stateful hash.Hash as a VALUE)
//   - AlsoRet:  the callee side of InOutVal: `return e`                   ->  (e, h)
//   - `f(a)(b)`: the call of a returned function value (client.RestrictAdditionalIdTokenScopes()(scopes))   (in translate.go)

import (
	"go/ast"
	"go/token"
	"strings"
)

// inOutCall: a call of an InOutVal callee in expression position
func (t *tr) inOutCall(c *ast.CallExpr, full string) string {
	head := full
	if i := strings.LastIndex(head, "."); i >= 0 {
		head = head[i+1:]
	}
	if r, ok := t.spec.Rename[full+"()"]; ok {
		head = r
	} else {
		head = head + " now"
	}
	app := "(" + head + " " + t.args(c.Args) + ")"
	switch t.inOutCtx {
	case 1:
		return app
	case 2:
		return app + ".1" // the function returns: the changed state of the argument is not observable any more
	}
	return t.bad("call of "+full+" (changes the state of an argument) in expression position", c)
}

// retC06: `return` under InOutVal / AlsoRet / inside a joined branch
func (t *tr) retC06(r *ast.ReturnStmt) string {
	saved := t.inOutCtx
	t.inOutCtx = 2
	out := t.ret1(r)
	t.inOutCtx = saved
	if t.joinDepth > 0 && !strings.HasPrefix(out, "(.error ") {
		return t.bad("return of a value inside a joined if (only error returns can be joined)", r)
	}
	if t.spec.AlsoRet != "" && t.joinDepth == 0 {
		return "(" + out + ", " + t.ident(t.spec.AlsoRet) + ")"
	}
	return out
}

// mutatorStmt: recv.M(args) for a method listed in FuncSpec.Mutators
func (t *tr) mutatorStmt(c *ast.CallExpr, rest cont) (string, bool) {
	if len(t.spec.Mutators) == 0 {
		return "", false
	}
	sel, ok := c.Fun.(*ast.SelectorExpr)
	if !ok {
		return "", false
	}
	id, ok := sel.X.(*ast.Ident)
	if !ok {
		return t.fieldMutatorStmt(c, sel, rest) // (C19) `x.F.M(a)`; translate_c19op.go
	}
	full := exprString(c.Fun)
	for _, m := range t.spec.Mutators {
		if m == full {
			v := t.ident(id.Name)
			return "let " + v + " := (" + v + ")." + sel.Sel.Name + " " + t.args(c.Args) + ";\n" + t.pad() + rest(), true
		}
	}
	return "", false
}

// inOutAssign: x := f(h, a) / x = f(h, a) / v.F = f(h, a)   for an InOutVal callee f   ->   let (x, h) := f h a
func (t *tr) inOutAssign(x *ast.AssignStmt, rest cont) (string, bool) {
	if len(x.Lhs) != 1 || len(x.Rhs) != 1 {
		return "", false
	}
	c, ok := x.Rhs[0].(*ast.CallExpr)
	if !ok {
		return "", false
	}
	pos, ok := t.spec.InOutVal[exprString(c.Fun)]
	if !ok {
		return "", false
	}
	if pos >= len(c.Args) {
		return t.bad("in-out argument position", c), true
	}
	h, isIdent := c.Args[pos].(*ast.Ident)
	if !isIdent {
		return t.bad("in-out argument is not a variable", c), true
	}
	if id, ok := x.Lhs[0].(*ast.Ident); ok && id.Name != "_" {
		if x.Tok == token.DEFINE {
			t.declared[id.Name] = true
		} else if !t.declared[id.Name] {
			return t.bad("assignment to a variable declared outside the function", x), true
		}
	}
	b, post := t.bindTarget(x.Lhs[0])
	saved := t.inOutCtx
	t.inOutCtx = 1
	call := t.expr(c)
	t.inOutCtx = saved
	return "let (" + b + ", " + t.ident(h.Name) + ") := " + call + ";\n" + t.pad() + post + rest(), true
}

// joinState: the variables of the enclosing function that the branches of an if statement assign (x = e, x.F = e, *x = e, x[k] = e),
// mutate (recv.SetX(..), FuncSpec.Mutators) or hand to a callee that writes through them (out-parameters, InOutVal), in order of
// first occurrence.  Variables declared inside the branches are local to them; `err` is never part of the state (an assignment to
// it is followed by its check inside the branch - a branch that ENDS with an open `err = f()` is left to the existing rule).
func (t *tr) joinState(x *ast.IfStmt) []string {
	var out []string
	seen := map[string]bool{}
	local := map[string]bool{}
	add := func(name string) {
		if name == "" || name == "_" || name == "err" || local[name] || seen[name] || !t.declared[name] {
			return
		}
		seen[name] = true
		out = append(out, name)
	}
	var walk func(n ast.Node)
	walk = func(n ast.Node) {
		ast.Inspect(n, func(m ast.Node) bool {
			switch y := m.(type) {
			case *ast.FuncLit:
				return false
			case *ast.DeclStmt:
				if gd, ok := y.Decl.(*ast.GenDecl); ok {
					for _, sp := range gd.Specs {
						if vs, ok := sp.(*ast.ValueSpec); ok {
							for _, nm := range vs.Names {
								local[nm.Name] = true
							}
						}
					}
				}
			case *ast.AssignStmt:
				// the right-hand sides first (they may hand a variable to a writing callee)
				for _, r := range y.Rhs {
					walk(r)
				}
				for _, l := range y.Lhs {
					switch z := l.(type) {
					case *ast.Ident:
						if y.Tok == token.DEFINE {
							local[z.Name] = true
						} else {
							add(z.Name)
						}
					case *ast.SelectorExpr:
						if id, ok := z.X.(*ast.Ident); ok {
							add(id.Name)
						} else if mid, ok := z.X.(*ast.SelectorExpr); ok {
							if id, ok := mid.X.(*ast.Ident); ok {
								add(id.Name)
							}
						}
					case *ast.StarExpr:
						add(exprString(z.X))
					case *ast.IndexExpr:
						add(exprString(z.X))
					}
				}
				return false
			case *ast.ExprStmt:
				// statement-level mutator of a model value: recv.SetX(a) (see block) or a method listed in FuncSpec.Mutators
				if c, ok := y.X.(*ast.CallExpr); ok {
					if sel, ok := c.Fun.(*ast.SelectorExpr); ok {
						if id, ok := sel.X.(*ast.Ident); ok {
							mut := strings.HasPrefix(sel.Sel.Name, "Set")
							for _, m := range t.spec.Mutators {
								if m == exprString(c.Fun) {
									mut = true
								}
							}
							if mut {
								add(id.Name)
							}
						}
					}
				}
			case *ast.CallExpr:
				fun := y.Fun
				if ix, ok := fun.(*ast.IndexExpr); ok {
					fun = ix.X
				}
				full := exprString(fun)
				if op, ok := t.lookupOutParam(full); ok && op.Index < len(y.Args) {
					add(strings.TrimPrefix(exprString(y.Args[op.Index]), "&"))
				}
				if root, _ := t.oracleCall(y); root != "" {
					add(root) // (OracleVars) the call advances the oracle's state
				}
				if pos, ok := t.spec.InOutVal[full]; ok && pos < len(y.Args) {
					add(exprString(y.Args[pos]))
				}
			}
			return true
		})
	}
	walk(x.Body)
	if x.Else != nil {
		walk(x.Else)
	}
	return out
}

// joinIf (FuncSpec.JoinIf): see the file comment.  ok = false: nothing to join (no assigned state) - the general rule applies.
func (t *tr) joinIf(x *ast.IfStmt, rest cont) (string, bool) {
	state := t.joinState(x)
	if len(state) == 0 {
		return "", false
	}
	returns := hasReturn(x.Body) || (x.Else != nil && hasReturn(x.Else))
	if returns && t.spec.Ret != RetValErr && t.spec.Ret != RetErr {
		return "", false
	}
	if t.loop > 0 || t.loopDepth > 0 || t.collect > 0 || t.spec.Writer != "" {
		return "", false
	}
	var ss []string
	for _, s := range state {
		ss = append(ss, t.ident(s))
	}
	st := ss[0]
	if len(ss) > 1 {
		st = "(" + strings.Join(ss, ", ") + ")"
	}
	k := func() string {
		if returns {
			return "(.ok " + st + ")"
		}
		return st
	}
	t.indent++
	t.joinDepth++
	savedBreak := t.breakK
	t.breakK = nil
	thenB := t.block(x.Body.List, k)
	var elseB string
	if x.Else != nil {
		elseB = t.elseBranch(x.Else, k)
	} else {
		elseB = k()
	}
	t.breakK = savedBreak
	t.joinDepth--
	t.indent--
	ite := "(if " + t.expr(x.Cond) + " then\n" + t.pad() + "  " + thenB + "\n" + t.pad() + "else\n" + t.pad() + "  " + elseB + ")"
	if !returns {
		return "let " + st + " := " + ite + ";\n" + t.pad() + rest(), true
	}
	return "(match (" + ite + " : Go.R _) with\n" + t.pad() + "| .error err => (.error err)\n" + t.pad() + "| .ok " + st + " =>\n" + t.pad() + rest() + ")", true
}

// hasInOutCall: does n contain a call of an InOutVal callee?  (such a call must be bound by an assignment STATEMENT)
func (t *tr) hasInOutCall(n ast.Node) bool {
	if len(t.spec.InOutVal) == 0 {
		return false
	}
	found := false
	ast.Inspect(n, func(m ast.Node) bool {
		if c, ok := m.(*ast.CallExpr); ok {
			if _, ok := t.spec.InOutVal[exprString(c.Fun)]; ok {
				found = true
			}
		}
		return !found
	})
	return found
}
