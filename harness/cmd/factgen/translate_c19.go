package main

// Translator rules added for C19 (discovery document per request): function literals as values, `if v, ok := f(..); ok`,
// statement-level calls a spec declares decision-free. All of them either sit behind a FuncSpec flag (Closures, Ignore)
// or replace output that was `UNSUPPORTED_…` before, so the generated text of every other group is unchanged.

import (
	"go/ast"
	"go/token"
	"strings"
)

// specIgnores: a statement-level call the spec declares to carry no decision (FuncSpec.Ignore)
func (t *tr) specIgnores(c *ast.CallExpr) bool {
	s := exprString(c.Fun)
	for _, ig := range t.spec.Ignore {
		if ig == s {
			return true
		}
	}
	return false
}

// closure: `func(p1 T1, ..) R { body }` in value position  ->  (fun p1 .. => body)
//
// The result kind of the body is read off the literal's signature (`error` -> Go.R Unit, `(T, error)` -> Go.R T, `T` -> T, no result
// -> the threaded writer, which must be one of its parameters). The literal gets its OWN set of declared variables: an assignment
// to a variable of the enclosing function (`cached = …`, state shared between the calls of the closure) is not a `let` and comes
// out as UNSUPPORTED_assignment_to_a_variable_declared_outside_the_function; so does everything else the functional reading cannot
// express (`once.Do(func() {..})`, `mu.Lock()`, `var once sync.Once`).
func (t *tr) closure(fl *ast.FuncLit) string {
	var names []string
	hasWriter := false
	sp := *t.spec
	for _, f := range fl.Type.Params.List {
		if len(f.Names) == 0 {
			return t.bad("closure with unnamed parameters", fl)
		}
		if t.spec.CaptureOut != "" && !t.spec.KeepCtx && exprString(f.Type) == "context.Context" {
			continue // (C03) contexts are not modelled: the call sites drop the argument, the lambda drops the parameter
		}
		for _, n := range f.Names {
			if bt, typed := sp.ClosureBinderTypes[exprString(f.Type)]; typed {
				nm := "_"
				if n.Name != "_" {
					nm = t.ident(n.Name)
				}
				names = append(names, "("+nm+" : "+bt+")")
				continue
			}
			if n.Name == "_" {
				names = append(names, "_")
				continue
			}
			if lt, ok := t.spec.AutoTypes[exprString(f.Type)]; ok && t.spec.CaptureOut != "" {
				names = append(names, "("+t.ident(n.Name)+" : "+lt+")") // (C03) a lambda bound by `let` needs its binder types
			} else {
				names = append(names, t.ident(n.Name))
			}
			if (sp.Writer != "" && n.Name == sp.Writer) || (sp.Writer == "" && exprString(f.Type) == "http.ResponseWriter") {
				sp.Writer = n.Name // the handler closure's response writer is threaded as a value
				hasWriter = true
			}
		}
	}
	var k cont
	var results []*ast.Field
	if fl.Type.Results != nil {
		results = fl.Type.Results.List
	}
	isErr := func(f *ast.Field) bool { return exprString(f.Type) == "error" && len(f.Names) <= 1 }
	optParam := "" // OptionClosures: the single pointer parameter of a functional option
	if t.spec.OptionClosures && !hasWriter && len(fl.Type.Params.List) == 1 && len(fl.Type.Params.List[0].Names) == 1 {
		if _, isPtr := fl.Type.Params.List[0].Type.(*ast.StarExpr); isPtr && fl.Type.Params.List[0].Names[0].Name != "_" {
			optParam = fl.Type.Params.List[0].Names[0].Name
		}
	}
	switch {
	case optParam != "" && len(results) == 0:
		sp.Ret, sp.RetParam, sp.PlainUpdate = RetVal, t.ident(optParam), true
	case optParam != "" && len(results) == 1 && isErr(results[0]):
		sp.Ret, sp.RetParam, sp.PlainUpdate = RetErr, t.ident(optParam), true
	case len(results) == 0 && !hasWriter && sp.ClosureState != "" && containsStr(names, t.ident(sp.ClosureState)):
		// (C14) the closure's effect is the final value of the parameter it mutates
		st := t.ident(sp.ClosureState)
		sp.Ret, sp.RetParam = RetVal, sp.ClosureState
		k = func() string { return st }
	case len(results) == 0:
		if !hasWriter {
			return t.bad("closure without result and without the response writer", fl)
		}
		w := sp.Writer
		sp.Ret = RetVoid
		k = func() string { return w }
	case len(results) == 1 && isErr(results[0]):
		sp.Ret, sp.RetParam = RetErr, ""
	case len(results) == 1 && len(results[0].Names) <= 1:
		sp.Ret, sp.RetParam = RetVal, ""
	case len(results) == 2 && isErr(results[1]) && len(results[0].Names) <= 1:
		sp.Ret = RetValErr
	default:
		return t.bad("closure result list", fl)
	}
	if !hasWriter {
		sp.Writer = "" // the closure does not get the response writer: nothing to thread
	}
	sp.WrapOk, sp.WrapBoth, sp.InitResults = "", "", false
	savedSpec, savedDecl, savedIn, savedErr := t.spec, t.declared, t.inClosure, t.errInScope
	savedLoop, savedDepth, savedCollect, savedBreak := t.loop, t.loopDepth, t.collect, t.breakK
	t.spec = &sp
	t.declared = map[string]bool{} // captured variables are read-only for the functional reading
	if t.spec.CaptureOut != "" && len(results) > 0 {
		// (C03) ... except the ONE variable the spec names: the lambda returns its final value next to the result (AlsoRet)
		t.declared[t.spec.CaptureOut] = true
		sp.AlsoRet = t.spec.CaptureOut
		t.declareFields(fl.Type.Results) // named results (`err`) are the literal's own variables
	}
	t.declareFields(fl.Type.Params)
	t.inClosure = hasWriter
	t.errInScope = false
	t.loop, t.loopDepth, t.collect, t.breakK = 0, 0, 0, nil
	t.indent++
	body := t.block(fl.Body.List, k)
	t.indent--
	t.spec, t.declared, t.inClosure, t.errInScope = savedSpec, savedDecl, savedIn, savedErr
	t.loop, t.loopDepth, t.collect, t.breakK = savedLoop, savedDepth, savedCollect, savedBreak
	if t.spec.CaptureOut != "" && t.spec.CaptureType != "" && sp.AlsoRet == t.spec.CaptureOut && len(results) > 0 {
		// (C03) the lambda is bound by `let`: its result type (`.error ..` needs one) is spelled out
		lt := func(e ast.Expr) string {
			if s := leanTypeOf(e); s != "" {
				return s
			}
			return t.spec.AutoTypes[exprString(e)]
		}
		res := ""
		switch sp.Ret {
		case RetErr:
			res = "Go.R Unit"
		case RetVal:
			res = lt(results[0].Type)
		case RetValErr:
			if v := lt(results[0].Type); v != "" {
				res = "Go.R " + v
			}
		}
		if res != "" {
			body = "((" + body + ") : (" + res + " × " + t.spec.CaptureType + "))"
		}
	}
	return "(fun " + strings.Join(names, " ") + " =>\n" + t.pad() + "  " + body + ")"
}

// ifCommaOk:  if v, ok := f(..); ok { body }   (f a call with two plain results, no else)
//
//	->  let (v, ok) := f ..; if ok then body else rest
func (t *tr) ifCommaOk(x *ast.IfStmt, cont cont) (string, bool) {
	as, ok := x.Init.(*ast.AssignStmt)
	if !ok || as.Tok != token.DEFINE || len(as.Lhs) != 2 || len(as.Rhs) != 1 || x.Else != nil {
		return "", false
	}
	call, isCall := as.Rhs[0].(*ast.CallExpr)
	if !isCall || ignorableCall(call) || t.isWriterCall(call) {
		return "", false
	}
	v, okv := exprString(as.Lhs[0]), exprString(as.Lhs[1])
	if okv == "err" || okv == "_" || exprString(x.Cond) != okv {
		return "", false
	}
	t.declared[v], t.declared[okv] = true, true
	bind := "let (" + t.identOrBlank(as.Lhs[0]) + ", " + t.ident(okv) + ") := " + t.expr(call) + ";\n" + t.pad()
	t.indent++
	thenB := t.block(x.Body.List, cont)
	t.indent--
	return bind + "(if " + t.ident(okv) + " then\n" + t.pad() + "  " + thenB + "\n" + t.pad() + "else\n" + t.pad() + cont() + ")", true
}

func containsStr(l []string, x string) bool {
	for _, y := range l {
		if y == x {
			return true
		}
	}
	return false
}
