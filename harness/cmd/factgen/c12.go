package main

import (
	"go/ast"
	"go/token"
	"sort"
	"strconv"
	"strings"
)

// c12Consts: the string constants of type `Display` (pkg/oidc/authorization.go) that Display.UnmarshalText accepts
func c12Consts(g *genCtx) string {
	f := g.file("pkg/oidc/authorization.go")
	if f == nil {
		return "def DisplayPage : String := UNSUPPORTED_no_file\n"
	}
	consts := map[string]string{}
	for _, d := range f.Decls {
		gd, ok := d.(*ast.GenDecl)
		if !ok || gd.Tok != token.CONST {
			continue
		}
		for _, sp := range gd.Specs {
			vs, ok := sp.(*ast.ValueSpec)
			if !ok || vs.Type == nil || exprString(vs.Type) != "Display" {
				continue
			}
			for i, n := range vs.Names {
				if i < len(vs.Values) {
					if lit, ok := vs.Values[i].(*ast.BasicLit); ok && lit.Kind == token.STRING {
						if s, err := strconv.Unquote(lit.Value); err == nil {
							consts[n.Name] = s
						}
					}
				}
			}
		}
	}
	names := make([]string, 0, len(consts))
	for n := range consts {
		names = append(names, n)
	}
	sort.Strings(names)
	var b strings.Builder
	b.WriteString("/-! constants of type `Display` (pkg/oidc/authorization.go) -/\n")
	for _, n := range names {
		b.WriteString("def " + n + " : String := " + leanStr(consts[n]) + "\n")
	}
	g.facts["displayConsts"] = consts
	return b.String()
}
