package main

// C08: the resource-facing endpoints (userinfo, introspection, revocation) of both routers, the three
// `getTokenIDAnd…` readers of a presented access-token string and the provider's per-request access-token
// verifier.  Model types: lean/OidcModel/Model/Resource.lean (prefix `Res`).  Own namespace `GenRes`.
//
// Not translated (hand-written in Model/Resource.lean, named in the trusted base of C08):
//   * the reference storage's methods (GetRefreshTokenInfo, RevokeToken, SetUserinfoFromToken, SetIntrospectionFromToken, …),
//   * client authentication at the introspection / revocation endpoints (ParseTokenRevocationRequest, ClientIDFromRequest,
//     LegacyServer.authenticateResourceClient): the authenticated caller is an input of the model (C05's subject),
//   * GetTokenIDAndSubjectFromToken (a `switch` with `break`s; its access-token arm is the regenerated getTokenIDAndClaims),
//   * what Decrypt / go-jose make of a presented string (oracles, universally quantified in the theorems).

func init() {
	style := func(f FuncSpec) FuncSpec {
		f.PlainUpdate, f.TupleAssign, f.ErrNilFirst, f.ErrElse, f.NestedUpdate = true, true, true, true, true
		f.LoopStyle = "forFirst"
		if f.Rename == nil {
			f.Rename = map[string]string{}
		}
		for k, v := range map[string]string{
			"strings.Split()":         "Hand.resSplit",
			"errors.Is()":             "Hand.resErrorsIs",
			"VerifyAccessToken()":     "Hand.resVerifyAccessToken userinfoProvider (Gen.OPVerifyAccessToken now)",
			"http.StatusUnauthorized": "(401 : Int)", "http.StatusForbidden": "(403 : Int)",
			"getTokenIDAndSubject()":              "getTokenIDAndSubject now",
			"getTokenIDAndSubjectForRevocation()": "getTokenIDAndSubjectForRevocation now",
			"NewStatusError()":                    "Hand.resNewStatusError",
			"RevocationError()":                   "Hand.resRevocationError",
			"new(oidc.IntrospectionResponse)":     "(default : ResIntrospection)",
			"nil":                                 "ResBody.empty",
		} {
			if _, ok := f.Rename[k]; !ok {
				f.Rename[k] = v
			}
		}
		return f
	}
	const pUP = "(userinfoProvider : ResProvider)"
	reader := func(file, name, ret string) FuncSpec {
		return style(FuncSpec{File: file, Name: name, Lean: name, Params: []string{pUP, "(accessToken : String)"}, Ret: RetVal, RetType: ret,
			Rename: map[string]string{"nil": "ResATClaims.none"}}) // the nil *oidc.AccessTokenClaims of an opaque token
	}
	funcs := []FuncSpec{
		// which verifier checks a JWT access token: built per request from the issuer in the request context
		style(FuncSpec{File: "pkg/op/op.go", Name: "Provider.AccessTokenVerifier", Lean: "ProviderAccessTokenVerifier",
			Params: []string{"(reqIssuer : String)", "(o : ResATProvider)"}, Ret: RetVal, RetType: "Verifier",
			Rename: map[string]string{"IssuerFromContext()": "reqIssuer", "NewAccessTokenVerifier()": "Hand.resNewAccessTokenVerifier"}}),
		// decrypt (opaque) / verify (JWT) / neither
		reader("pkg/op/userinfo.go", "getTokenIDAndSubject", "(String × String × Bool)"),
		// the verifier the revocation reader checks a JWT with: the provider's verifier for the request, its key set wrapped by the
		// recorder (the recorder verifies exactly as the key set it wraps: `Coe ResRevocationKeys KeySet`)
		func() FuncSpec {
			f := style(FuncSpec{File: "pkg/op/token_revocation.go", Name: "revocationKeySet.verifier", Lean: "revocationKeySetVerifier",
				Params: []string{"(k : ResRevocationKeys)", "(v : Verifier)"}, Ret: RetVal, RetType: "Verifier",
				Rename: map[string]string{"*v": "v", "&verifier": "verifier", "NewAccessTokenVerifier()": "Hand.resNewAccessTokenVerifier"}})
			f.PlainUpdate = false // field updates keep the type of the updated variable (`k` is later used where a KeySet is expected)
			return f
		}(),
		// (returns an error only when the KEYS could not be obtained, which this model - a storage that answers - does not have:
		// the key-set recorder never holds an error)
		func() FuncSpec {
			f := reader("pkg/op/token_revocation.go", "getTokenIDAndSubjectForRevocation", "(String × String × Bool)")
			f.Ret = RetValErr
			f.Rename["new(revocationKeySet)"] = "(default : ResRevocationKeys)"
			f.Rename["keys.verifier()"] = "revocationKeySetVerifier now keys"
			return f
		}(),
		reader("pkg/op/token_exchange.go", "getTokenIDAndClaims", "(String × String × ResATClaims × Bool)"),
		// userinfo
		style(FuncSpec{File: "pkg/op/userinfo.go", Name: "Userinfo", Lean: "Userinfo",
			Params: []string{"(rq : Go.R String)", pUP}, Ret: RetResp, RetType: "ResResp",
			DropArgs:  []string{"w", "r", "r.Header.Get()"},
			Writers:   map[string]string{"http.Error": "ResResp.httpError", "httphelper.MarshalJSONWithStatus": "ResResp.jsonError", "httphelper.MarshalJSON": "ResResp.userinfo"},
			OutParams: map[string]OutParam{"userinfoProvider.Storage().SetUserinfoFromToken": {1, false}},
			Rename:    map[string]string{"ParseUserinfoRequest()": "Hand.resParseUserinfoRequest rq"}}),
		style(FuncSpec{File: "pkg/op/server_legacy.go", Name: "LegacyServer.UserInfo", Lean: "LegacyUserInfo",
			Params: []string{"(s : ResLegacyServer)", "(r : ResRequest)"}, Ret: RetValErr, RetType: "ResUserInfo",
			DropArgs:  []string{"r.Header.Get()"},
			OutParams: map[string]OutParam{"s.provider.Storage().SetUserinfoFromToken": {1, false}}}),
		// introspection
		style(FuncSpec{File: "pkg/op/token_intospection.go", Name: "Introspect", Lean: "Introspect",
			Params: []string{"(rq : Go.R (String × String))", "(introspector : ResProvider)"}, Ret: RetResp, RetType: "ResResp",
			DropArgs:  []string{"w", "r"},
			Writers:   map[string]string{"http.Error": "ResResp.httpError", "httphelper.MarshalJSON": "ResResp.introspection"},
			OutParams: map[string]OutParam{"introspector.Storage().SetIntrospectionFromToken": {1, true}},
			Rename:    map[string]string{"ParseTokenIntrospectionRequest()": "Hand.resParseTokenIntrospectionRequest rq"}}),
		style(FuncSpec{File: "pkg/op/server_legacy.go", Name: "LegacyServer.Introspect", Lean: "LegacyIntrospect",
			Params: []string{"(s : ResLegacyServer)", "(r : ResRequest)"}, Ret: RetValErr, RetType: "ResIntrospection",
			OutParams: map[string]OutParam{"s.provider.Storage().SetIntrospectionFromToken": {1, true}},
			Rename:    map[string]string{"s.authenticateResourceClient()": "Hand.resAuthenticateResourceClient s"}}),
		// who may ask: the request parsers of the introspection and revocation endpoints (Provider router). Library calls
		// (ParseForm, the schema decoder, BasicAuth, url.QueryUnescape, ClientIDFromRequest, go-jose on the assertion) are inputs of `r`.
		style(FuncSpec{File: "pkg/op/token_intospection.go", Name: "ParseTokenIntrospectionRequest", Lean: "ParseTokenIntrospectionRequest",
			Params: []string{"(r : ResHttpReq)", "(introspector : ResProvider)"}, Ret: RetValErr, RetType: "(String × String)",
			Rename: map[string]string{"ClientIDFromRequest()": "Hand.resClientIDFromRequest"}}),
		// the two registration checks of the parsers (pkg/op/client.go): an assertion needs a private_key_jwt client, a
		// client_secret_post client needs the method to be enabled
		style(FuncSpec{File: "pkg/op/client.go", Name: "checkPrivateKeyJWTClient", Lean: "checkPrivateKeyJWTClient",
			Params: []string{"(clientID : String)", "(storage : Store)"}, Ret: RetErr}),
		style(FuncSpec{File: "pkg/op/client.go", Name: "checkAuthMethodPost", Lean: "checkAuthMethodPost",
			Params: []string{"(clientID : String)", "(p : ResProvider)"}, Ret: RetErr,
			Rename: map[string]string{"p.Storage()": "(p).clientStore"}}),
		style(FuncSpec{File: "pkg/op/token_revocation.go", Name: "ParseTokenRevocationRequest", Lean: "ParseTokenRevocationRequest",
			Params: []string{"(r : ResHttpReq)", "(revoker : ResProvider)"}, Ret: RetValErr, RetType: "(String × String × String)",
			Rename: map[string]string{"VerifyJWTAssertion()": "Hand.resVerifyJWTAssertion r (Gen.VerifyJWTAssertion now)", "url.QueryUnescape()": "(r).queryUnescape",
				"AuthorizeClientIDSecret()": "Gen.AuthorizeClientIDSecret now", "revoker.Storage()": "(revoker).clientStore"}}),
		// revocation: the storage (and what is written) is threaded as the world `w`
		style(FuncSpec{File: "pkg/op/token_revocation.go", Name: "Revoke", Lean: "Revoke", Writer: "w",
			Params: []string{"(rq : Go.R (String × String × String))", "(w : ResWorld)", "(revoker : ResProvider)"}, Ret: RetVoid, RetType: "ResWorld",
			DropArgs:  []string{"r"},
			Effectful: []string{"revoker.Storage().RevokeToken"},
			Rename: map[string]string{"ParseTokenRevocationRequest()": "Hand.resParseTokenRevocationRequest rq",
				"revoker.Storage().GetRefreshTokenInfo()": "(w).GetRefreshTokenInfo", "revoker.Storage().RevokeToken()": "(w).RevokeToken",
				"RevocationRequestError()": "Hand.resRevocationRequestError", "httphelper.MarshalJSON()": "Hand.resMarshalJSON"}}),
		style(FuncSpec{File: "pkg/op/server_legacy.go", Name: "LegacyServer.Revocation", Lean: "LegacyRevocation", Writer: "w", WorldType: "ResWorld",
			Params: []string{"(w : ResWorld)", "(s : ResLegacyServer)", "(r : ResClientRequest)"}, Ret: RetValErr, RetType: "ResBody",
			Effectful: []string{"s.provider.Storage().RevokeToken"},
			Rename: map[string]string{"s.provider.Storage().GetRefreshTokenInfo()": "(w).GetRefreshTokenInfo",
				"s.provider.Storage().RevokeToken()": "(w).RevokeToken"}}),
	}
	// token exchange: how the storage policy (TokenExchangeStorage.ValidateTokenExchangeRequest) reads the verified subject / actor token
	// of a request - the getters of op.tokenExchangeRequest over the request record of Model/ExchangeTE.lean (fields named as in Go)
	var getters []FuncSpec
	for _, g := range []string{"GetExchangeSubject", "GetExchangeSubjectTokenType", "GetExchangeSubjectTokenIDOrToken",
		"GetExchangeActor", "GetExchangeActorTokenType", "GetExchangeActorTokenIDOrToken"} {
		getters = append(getters, FuncSpec{File: "pkg/op/token_exchange.go", Name: "tokenExchangeRequest." + g, Lean: g,
			Params: []string{"(r : TEReq)"}, Ret: RetVal, RetType: "String"})
	}
	extraGroups = append(extraGroups, Group{
		Out:     "ResourceTE.lean",
		NS:      "GenRes",
		Imports: []string{"OidcModel.Model.ExchangeTE"},
		Opens:   []string{"Go", "Hand", "Const"},
		Funcs:   getters,
	})
	extraGroups = append(extraGroups, Group{
		Out:     "Resource.lean",
		NS:      "GenRes",
		Imports: []string{"OidcModel.Model.Resource", "OidcModel.Generated.RPVerifier", "OidcModel.Generated.TokenEndpoint"},
		Opens:   []string{"Go", "Hand", "Const"},
		Funcs:   funcs,
	})
}
