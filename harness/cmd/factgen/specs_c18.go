package main

// http status constants as plain integers (the C18 model's responses carry the number)
var c18Status = map[string]string{
	"oidc.DefaultToServerError()": "Hand.sessDefaultToServerError now", "NewRedirect()": "Hand.sessNewRedirect now", "mergeQueryParams()": "Hand.sessMergeQueryParams now",
	"http.StatusInternalServerError": "(500 : Int)", "http.StatusFound": "(302 : Int)", "http.StatusBadRequest": "(400 : Int)",
}

func init() {
	g := []Group{
		{
			// C18: RP-initiated logout (decision functions and the two routers' handlers)
			Out:     "Session.lean",
			Imports: []string{"OidcModel.Model.Session", "OidcModel.Generated.RPVerifier"},
			Opens:   []string{"Go", "Hand", "Const"},
			Funcs: []FuncSpec{
				{File: "pkg/op/op.go", Name: "Provider.IDTokenHintVerifier", Lean: "ProviderIDTokenHintVerifier",
					Params: []string{"(reqIssuer : String)", "(o : HintProvider)"}, Ret: RetVal, PlainUpdate: true, LoopStyle: "forFirst", RetType: "Verifier",
					Rename: map[string]string{"IssuerFromContext()": "reqIssuer", "NewIDTokenHintVerifier()": "Hand.newIDTokenHintVerifier"}},
				{File: "pkg/op/session.go", Name: "ValidateEndSessionPostLogoutRedirectURI", Lean: "ValidateEndSessionPostLogoutRedirectURI",
					Params: []string{"(o : SessOracles)", "(postLogoutRedirectURI : String)", "(client : OPClient)"}, Ret: RetErr, PlainUpdate: true, LoopStyle: "forFirst",
					AutoCtx: []string{"(o : SessOracles)"},
					Rename: map[string]string{"path.Match()": "(o).pathMatch"}},
				{File: "pkg/op/session.go", Name: "ValidateEndSessionRequest", Lean: "ValidateEndSessionRequest",
					Params: []string{"(o : SessOracles)", "(req : EndSessionReq)", "(ender : SessionEnder)"}, Ret: RetValErr, PlainUpdate: true, LoopStyle: "forFirst", RetType: "EndSessionRequest",
					AutoCtx: []string{"(o : SessOracles)"},
					SoftErr: map[string]string{"IDTokenHintExpiredError": "Hand.hintClaims"},
					Rename: map[string]string{"VerifyIDTokenHint()": "Hand.viaToken (o).tokenOf (VerifyIDTokenHint now)", "url.Parse()": "(o).urlParse",
						"ValidateEndSessionPostLogoutRedirectURI()": "ValidateEndSessionPostLogoutRedirectURI now o"}},
				{File: "pkg/op/session.go", Name: "EndSession", Lean: "EndSession",
					Params: []string{"(o : SessOracles)", "(rq : Go.R EndSessionReq)", "(ender : SessionEnder)"}, Ret: RetResp, PlainUpdate: true, LoopStyle: "forFirst", RetType: "SessResp",
					DropArgs: []string{"w", "r", "ender.Logger()"},
					Writers:  map[string]string{"http.Error": "SessResp.httpError", "RequestError": "SessResp.requestError", "http.Redirect": "SessResp.redirect"},
					Rename: map[string]string{"ParseEndSessionRequest()": "Hand.parseEndSessionRequest rq",
						"ValidateEndSessionRequest()": "ValidateEndSessionRequest now o"}},
				{File: "pkg/op/server_legacy.go", Name: "LegacyServer.EndSession", Lean: "LegacyEndSession",
					Params: []string{"(o : SessOracles)", "(s : SessLegacyServer)", "(r : Request EndSessionReq)"}, Ret: RetValErr, PlainUpdate: true, LoopStyle: "forFirst", RetType: "SessRedirect",
					Rename: map[string]string{"ValidateEndSessionRequest()": "ValidateEndSessionRequest now o"}},
				{File: "pkg/op/server_http.go", Name: "webServer.endSessionHandler", Lean: "LegacyEndSessionHandler",
					Params: []string{"(o : SessOracles)", "(rq : Go.R EndSessionReq)", "(s : SessWebServer)"}, Ret: RetResp, PlainUpdate: true, LoopStyle: "forFirst", RetType: "SessResp",
					DropArgs: []string{"w", "r", "s.getLogger()"},
					Writers:  map[string]string{"WriteError": "SessResp.writeError", "resp.writeOut": "SessResp.writeOut resp"},
					Rename:   map[string]string{"decodeRequest()": "Hand.decodeEndSession rq", "s.server.EndSession()": "LegacyEndSession now o (s).legacy"}},
			},
		},
	}
	for i := range g {
		for j := range g[i].Funcs {
			if g[i].Funcs[j].Rename == nil {
				g[i].Funcs[j].Rename = map[string]string{}
			}
			for k, v := range c18Status {
				g[i].Funcs[j].Rename[k] = v
			}
		}
	}
	extraGroups = append(extraGroups, g...)
}
