package main

// C19 (discovery is truthful): the translated functions and the table facts of discovery, routing
// and grant dispatch.  Everything here reads the CURRENT source; whatever leaves the recognised
// shape is emitted as UNSUPPORTED_… so that the Lean build (and the C19 theorems) break visibly.

import (
	"fmt"
	"go/ast"
	"go/token"
	"os"
	"path/filepath"
	"sort"
	"strconv"
	"strings"
)

const (
	pCfg  = "(c : Configuration)"
	pProv = "(o : OpProvider)"
)

var discoveryKeep = []string{"Issuer", "AuthorizationEndpoint", "TokenEndpoint", "IntrospectionEndpoint", "UserinfoEndpoint",
	"RevocationEndpoint", "EndSessionEndpoint", "JwksURI", "DeviceAuthorizationEndpoint", "CheckSessionIframe",
	"GrantTypesSupported", "TokenEndpointAuthMethodsSupported", "CodeChallengeMethodsSupported", "RequestParameterSupported"}

// the methods of op.Configuration / op.Exchanger the model's `Configuration` carries, with their Lean type
var providerGetters = [][2]string{
	{"AuthorizationEndpoint", "Endpoint"}, {"TokenEndpoint", "Endpoint"}, {"IntrospectionEndpoint", "Endpoint"},
	{"UserinfoEndpoint", "Endpoint"}, {"RevocationEndpoint", "Endpoint"}, {"EndSessionEndpoint", "Endpoint"},
	{"KeysEndpoint", "Endpoint"}, {"DeviceAuthorizationEndpoint", "Endpoint"}, {"CheckSessionIframe", "Endpoint"},
	{"AuthMethodPostSupported", "Bool"}, {"CodeMethodS256Supported", "Bool"}, {"AuthMethodPrivateKeyJWTSupported", "Bool"},
	{"GrantTypeRefreshTokenSupported", "Bool"}, {"GrantTypeTokenExchangeSupported", "Bool"}, {"GrantTypeJWTAuthorizationSupported", "Bool"},
	{"GrantTypeClientCredentialsSupported", "Bool"}, {"GrantTypeDeviceCodeSupported", "Bool"}, {"RequestObjectSupported", "Bool"},
}

func c19Groups() []Group {
	var getters []FuncSpec
	for _, gt := range providerGetters {
		getters = append(getters, FuncSpec{File: "pkg/op/op.go", Name: "Provider." + gt[0], Lean: "Provider_" + gt[0],
			Params: []string{pProv}, Ret: RetVal, RetType: gt[1]})
	}
	getters = append(getters, FuncSpec{File: "pkg/op/op.go", Name: "Provider.Insecure", Lean: "Provider_Insecure", Params: []string{pProv}, Ret: RetVal, RetType: "Bool"})
	disco := map[string]StructLit{"oidc.DiscoveryConfiguration{}": {Lean: "DiscoveryConfiguration", Keep: discoveryKeep}}
	issuerRename := map[string]string{"IssuerFromContext()": "ctxIssuer"}
	funcs := []FuncSpec{
		{File: "pkg/op/endpoint.go", Name: "relativeEndpoint", Lean: "relativeEndpoint", Params: []string{"(endpoint : String)"}, Ret: RetVal, RetType: "String"},
		{File: "pkg/op/endpoint.go", Name: "absoluteEndpoint", Lean: "absoluteEndpoint", Params: []string{"(host endpoint : String)"}, Ret: RetVal, RetType: "String"},
		{File: "pkg/op/endpoint.go", Name: "Endpoint.Relative", Lean: "Endpoint_Relative", Params: []string{"(e : Endpoint)"}, Ret: RetVal, RetType: "String"},
		{File: "pkg/op/endpoint.go", Name: "Endpoint.Absolute", Lean: "Endpoint_Absolute", Params: []string{"(e : Endpoint)", "(host : String)"}, Ret: RetVal, RetType: "String"},
	}
	funcs = append(funcs, getters...)
	funcs = append(funcs,
		FuncSpec{File: "pkg/op/discovery.go", Name: "GrantTypes", Lean: "GrantTypes", Params: []string{pCfg}, Ret: RetVal, RetType: "List String"},
		FuncSpec{File: "pkg/op/discovery.go", Name: "CodeChallengeMethods", Lean: "CodeChallengeMethods", Params: []string{pCfg}, Ret: RetVal, RetType: "List String"},
		FuncSpec{File: "pkg/op/discovery.go", Name: "AuthMethodsTokenEndpoint", Lean: "AuthMethodsTokenEndpoint", Params: []string{pCfg}, Ret: RetVal, RetType: "List String"},
		FuncSpec{File: "pkg/op/discovery.go", Name: "CreateDiscoveryConfig", Lean: "CreateDiscoveryConfig",
			Params: []string{"(ctxIssuer : String)", "(config : Configuration)"}, Ret: RetVal, RetType: "DiscoveryConfiguration",
			Rename: issuerRename, StructLits: disco},
		FuncSpec{File: "pkg/op/discovery.go", Name: "createDiscoveryConfigV2", Lean: "createDiscoveryConfigV2",
			Params: []string{"(ctxIssuer : String)", "(config : Configuration)", "(endpoints : Endpoints)"}, Ret: RetVal, RetType: "DiscoveryConfiguration",
			Rename: issuerRename, StructLits: disco},
		FuncSpec{File: "pkg/op/op.go", Name: "authCallbackPath", Lean: "authCallbackPath", Params: []string{"(o : Configuration)"}, Ret: RetVal, RetType: "String"},
		FuncSpec{File: "pkg/op/config.go", Name: "ValidateIssuerPath", Lean: "ValidateIssuerPath", Params: []string{"(issuer : DiscURL)"}, Ret: RetErr},
		FuncSpec{File: "pkg/op/config.go", Name: "devLocalAllowed", Lean: "devLocalAllowed", Params: []string{"(url : DiscURL)", "(allowInsecure : Bool)"}, Ret: RetVal, RetType: "Bool"},
		FuncSpec{File: "pkg/op/config.go", Name: "ValidateIssuer", Lean: "ValidateIssuer",
			Params: []string{"(urlParse : String → Go.R DiscURL)", "(issuer : String)", "(allowInsecure : Bool)"}, Ret: RetErr,
			Rename: map[string]string{"url.Parse()": "urlParse"}, TailCalls: []string{"ValidateIssuerPath"}},
		FuncSpec{File: "pkg/op/config.go", Name: "dynamicIssuer", Lean: "dynamicIssuer", Params: []string{"(issuer path : String)", "(allowInsecure : Bool)"}, Ret: RetVal, RetType: "String"},
		FuncSpec{File: "pkg/op/token_request.go", Name: "Exchange", Lean: "Exchange", Params: []string{"(r : DiscHttpReq)", "(exchanger : Configuration)"}, Ret: RetHandled},
		FuncSpec{File: "pkg/op/server_http.go", Name: "webServer.tokensHandler", Lean: "tokensHandler", Params: []string{"(r : DiscHttpReq)"}, Ret: RetHandled,
			Rename: map[string]string{"unimplementedGrantError()": "Hand.unimplementedGrantErrorH"}},
		FuncSpec{File: "pkg/client/client.go", Name: "Discover", Lean: "Discover",
			Params: []string{"(newRequest : String → String → Option Unit → Go.R String)", "(HttpRequest : Int → Unit → String → Go.R DiscoveryConfiguration)",
				"(issuer : String)", "(httpClient : Unit)", "(wellKnownUrl : List String)"},
			Ret: RetValErr, RetType: "DiscoveryConfiguration",
			Rename: map[string]string{"http.NewRequestWithContext()": "newRequest", "http.MethodGet": "\"GET\""}},
	)
	return []Group{
		{Out: "OpConsts.lean", Extra: opConsts},
		{Out: "Discovery.lean", Imports: []string{"OidcModel.Model.Discovery", "OidcModel.Generated.OpConsts"}, Opens: []string{"Go", "Hand", "Const"},
			Funcs: funcs, Extra: c19Tables},
	}
}

// ---------------------------------------------------------------- constants

// opConsts: the string constants of pkg/op/op.go (route names, default endpoint paths) and the table
// of the pkg/oidc string constants the C19 model refers to through `Const.*`.
func opConsts(g *genCtx) string {
	var b strings.Builder
	f := g.file("pkg/op/op.go")
	n := 0
	if f != nil {
		for _, d := range f.Decls {
			gd, ok := d.(*ast.GenDecl)
			if !ok || gd.Tok != token.CONST {
				continue
			}
			for _, sp := range gd.Specs {
				vs := sp.(*ast.ValueSpec)
				for i, name := range vs.Names {
					if i < len(vs.Values) {
						if lit, ok := vs.Values[i].(*ast.BasicLit); ok && lit.Kind == token.STRING {
							s, _ := strconv.Unquote(lit.Value)
							fmt.Fprintf(&b, "def %s : String := %s\n", name.Name, leanStr(s))
							n++
						}
					}
				}
			}
		}
	}
	if n == 0 {
		g.unsup["opConsts"] = []string{"no string constants found in pkg/op/op.go"}
		b.WriteString("def opConsts_missing := UNSUPPORTED_no_constants\n")
	}
	// pkg/oidc constants: name -> value
	want := map[string]bool{}
	for _, n := range []string{"GrantTypeCode", "GrantTypeRefreshToken", "GrantTypeClientCredentials", "GrantTypeBearer", "GrantTypeTokenExchange",
		"GrantTypeImplicit", "GrantTypeDeviceCode", "CodeChallengeMethodPlain", "CodeChallengeMethodS256", "DiscoveryEndpoint",
		"AuthMethodBasic", "AuthMethodPost", "AuthMethodNone", "AuthMethodPrivateKeyJWT"} {
		want[n] = true
	}
	var rows []string
	for _, rel := range []string{"pkg/oidc/token_request.go", "pkg/oidc/code_challenge.go", "pkg/oidc/discovery.go"} {
		f := g.file(rel)
		if f == nil {
			continue
		}
		for _, d := range f.Decls {
			gd, ok := d.(*ast.GenDecl)
			if !ok || gd.Tok != token.CONST {
				continue
			}
			for _, sp := range gd.Specs {
				vs := sp.(*ast.ValueSpec)
				for i, name := range vs.Names {
					if !want[name.Name] || i >= len(vs.Values) {
						continue
					}
					if lit, ok := vs.Values[i].(*ast.BasicLit); ok && lit.Kind == token.STRING {
						s, _ := strconv.Unquote(lit.Value)
						rows = append(rows, "("+leanStr(name.Name)+", "+leanStr(s)+")")
					}
				}
			}
		}
	}
	sort.Strings(rows)
	g.facts["oidcConstTable"] = rows
	b.WriteString("/-- values of the pkg/oidc constants the model reaches through `Const.*` (cross-checked in Proofs/C19) -/\n")
	b.WriteString("def oidcConstTable : List (String × String) := [" + strings.Join(rows, ", ") + "]\n")
	return b.String()
}

// ---------------------------------------------------------------- routes, glue, guards

type routeCollector struct {
	t    *tr
	g    *genCtx
	name string
}

func containsHandleFunc(n ast.Node) bool {
	found := false
	ast.Inspect(n, func(m ast.Node) bool {
		if c, ok := m.(*ast.CallExpr); ok {
			if sel, ok := c.Fun.(*ast.SelectorExpr); ok && (sel.Sel.Name == "HandleFunc" || sel.Sel.Name == "Handle" || sel.Sel.Name == "endpointRoute") {
				found = true
			}
		}
		return !found
	})
	return found
}

// collect: the routes a statement list registers, as Lean list expressions (to be appended in order)
func (rc *routeCollector) collect(stmts []ast.Stmt) []string {
	var out []string
	for _, s := range stmts {
		switch x := s.(type) {
		case *ast.ExprStmt:
			c, ok := x.X.(*ast.CallExpr)
			if !ok {
				continue
			}
			sel, ok := c.Fun.(*ast.SelectorExpr)
			if !ok {
				if containsHandleFunc(c) {
					out = append(out, rc.t.bad("route registration inside a call", c))
				}
				continue
			}
			switch sel.Sel.Name {
			case "HandleFunc", "Handle":
				if len(c.Args) >= 1 {
					out = append(out, "["+rc.t.expr(c.Args[0])+"]")
				}
			case "endpointRoute":
				if len(c.Args) >= 1 {
					out = append(out, "(webServer_endpointRoute_routes now s "+rc.t.expr(c.Args[0])+")")
				}
			default:
				for _, a := range c.Args {
					if containsHandleFunc(a) {
						out = append(out, rc.t.bad("route registration inside a call argument", c))
					}
				}
			}
		case *ast.IfStmt:
			if !containsHandleFunc(x) {
				continue
			}
			if x.Init != nil || x.Else != nil {
				out = append(out, rc.t.bad("conditional route registration of unknown shape", x))
				continue
			}
			inner := rc.collect(x.Body.List)
			out = append(out, "(if "+rc.t.expr(x.Cond)+" then "+strings.Join(inner, " ++ ")+" else [])")
		default:
			if containsHandleFunc(s) {
				out = append(out, rc.t.bad(fmt.Sprintf("route registration inside %T", s), s))
			}
		}
	}
	return out
}

func (g *genCtx) routesDef(b *strings.Builder, rel, fn, lean, params string, anywhere bool) {
	fd := g.findFunc(rel, fn)
	if fd == nil {
		g.unsup[lean] = []string{"function not found: " + rel + " " + fn}
		fmt.Fprintf(b, "def %s := UNSUPPORTED_function_not_found\n\n", lean)
		return
	}
	sp := &FuncSpec{Lean: lean}
	t := &tr{spec: sp, fset: g.fset, indent: 1}
	rc := &routeCollector{t: t, g: g, name: lean}
	var parts []string
	if anywhere {
		// routes registered anywhere inside the function (closures passed as options)
		ast.Inspect(fd.Body, func(n ast.Node) bool {
			if c, ok := n.(*ast.CallExpr); ok {
				if sel, ok := c.Fun.(*ast.SelectorExpr); ok && (sel.Sel.Name == "HandleFunc" || sel.Sel.Name == "Handle") && len(c.Args) >= 1 {
					parts = append(parts, "["+t.expr(c.Args[0])+"]")
				}
			}
			return true
		})
	} else {
		parts = rc.collect(fd.Body.List)
	}
	if len(parts) == 0 {
		parts = []string{"[]"}
	}
	if len(t.unsup) > 0 {
		g.unsup[lean] = t.unsup
	}
	pos := g.fset.Position(fd.Pos())
	fmt.Fprintf(b, "/-- the route patterns registered by %s:%d `%s`, in order -/\n", relPath(pos.Filename), pos.Line, fn)
	fmt.Fprintf(b, "def %s (now : Int) %s : List String :=\n  %s\n\n", lean, params, strings.Join(parts, " ++\n  "))
}

// leadingGuards: the early `return nil, unimplementedGrantError(..)` / ErrUnsupportedGrantType exits at the top of a
// LegacyServer grant method, as (guard atom, error) pairs; `rest` says whether the remainder mentions the error again.
func leadingGuards(g *genCtx, fd *ast.FuncDecl) (guards [][2]string, clean bool) {
	clean = true
	isUnsup := func(n ast.Node) bool {
		src := goSrc(g.fset, n)
		return strings.Contains(src, "unimplementedGrantError") || strings.Contains(src, "ErrUnsupportedGrantType")
	}
	stmts := fd.Body.List
	i := 0
	assertAtom := map[string]string{} // ok-variable -> atom of the type assertion that defined it
	for ; i < len(stmts); i++ {
		switch x := stmts[i].(type) {
		case *ast.AssignStmt:
			if len(x.Rhs) == 1 {
				if c, ok := x.Rhs[0].(*ast.CallExpr); ok && ignorableCall(c) {
					continue
				}
				if ta, ok := x.Rhs[0].(*ast.TypeAssertExpr); ok && ta.Type != nil && len(x.Lhs) == 2 {
					tn := exprString(ta.Type)
					if j := strings.LastIndex(tn, "."); j >= 0 {
						tn = tn[j+1:]
					}
					recv := goSrc(g.fset, ta.X)
					atom := "is_" + tn
					if strings.HasSuffix(recv, ".Storage()") {
						atom = "Storage.is_" + tn
					}
					assertAtom[exprString(x.Lhs[1])] = atom
					continue
				}
			}
		case *ast.DeferStmt:
			if ignorableCall(x.Call) {
				continue
			}
		case *ast.IfStmt:
			if x.Init == nil && x.Else == nil && len(x.Body.List) == 1 {
				if ret, ok := x.Body.List[0].(*ast.ReturnStmt); ok && isUnsup(ret) {
					if u, ok := x.Cond.(*ast.UnaryExpr); ok && u.Op == token.NOT {
						switch y := u.X.(type) {
						case *ast.Ident:
							if a, ok := assertAtom[y.Name]; ok {
								guards = append(guards, [2]string{a, "ErrUnsupportedGrantType"})
								continue
							}
						case *ast.CallExpr:
							if sel, ok := y.Fun.(*ast.SelectorExpr); ok && len(y.Args) == 0 && strings.HasSuffix(goSrc(g.fset, sel.X), ".provider") {
								guards = append(guards, [2]string{sel.Sel.Name, "ErrUnsupportedGrantType"})
								continue
							}
						}
					}
					clean = false // an unsupported-grant exit under a condition we cannot name
					continue
				}
			}
		}
		break
	}
	for ; i < len(stmts); i++ {
		if isUnsup(stmts[i]) {
			clean = false
		}
	}
	return guards, clean
}

func c19Tables(g *genCtx) string {
	var b strings.Builder

	// (1) *Provider seen through the Configuration interface: every method is the translated getter
	b.WriteString("/-- interface dispatch: a `*Provider` used as `op.Configuration` / `op.Exchanger` answers with its own methods;\n    `JWTProfileVerifier` exists on `*Provider` iff it satisfies `JWTAuthorizationGrantExchanger` -/\n")
	b.WriteString("def Provider_asConfiguration (o : OpProvider) : Configuration :=\n  { ")
	var fs []string
	for _, gt := range providerGetters {
		fs = append(fs, gt[0]+" := Provider_"+gt[0]+" 0 o")
	}
	fs = append(fs, "Storage := o.storage")
	if g.findFunc("pkg/op/op.go", "Provider.JWTProfileVerifier") != nil && g.findFunc("pkg/op/op.go", "Provider.Storage") != nil {
		fs = append(fs, "is_JWTAuthorizationGrantExchanger := true")
	} else {
		fs = append(fs, "is_JWTAuthorizationGrantExchanger := false")
	}
	b.WriteString(strings.Join(fs, ",\n    ") + " }\n\n")

	// (2) route registrations
	g.routesDef(&b, "pkg/op/op.go", "CreateRouter", "CreateRouter_routes", "(o : Configuration)", false)
	g.routesDef(&b, "pkg/op/server_http.go", "webServer.endpointRoute", "webServer_endpointRoute_routes", "(s : WebServer) (e : Endpoint)", false)
	g.routesDef(&b, "pkg/op/server_http.go", "webServer.createRouter", "webServer_createRouter_routes", "(s : WebServer)", false)
	g.routesDef(&b, "pkg/op/server_legacy.go", "RegisterLegacyServer", "RegisterLegacyServer_routes", "(s : LegacySrv)", true)

	// (3) which Server method each webServer handler delegates to
	var rows []string
	if f := g.file("pkg/op/server_http.go"); f != nil {
		for _, d := range f.Decls {
			fd, ok := d.(*ast.FuncDecl)
			if !ok || fd.Recv == nil || fd.Body == nil || !strings.HasSuffix(fd.Name.Name, "Handler") {
				continue
			}
			var calls []string
			ast.Inspect(fd.Body, func(n ast.Node) bool {
				if c, ok := n.(*ast.CallExpr); ok {
					if sel, ok := c.Fun.(*ast.SelectorExpr); ok && goSrc(g.fset, sel.X) == "s.server" {
						calls = append(calls, sel.Sel.Name)
					}
				}
				return true
			})
			if len(calls) > 0 {
				rows = append(rows, "("+leanStr(fd.Name.Name)+", "+leanStrList(calls)+")")
			}
		}
	}
	sort.Strings(rows)
	if len(rows) == 0 {
		g.unsup["webServer_serverCalls"] = []string{"no handler delegating to s.server found"}
	}
	b.WriteString("/-- `s.server.X(..)` calls inside each `webServer.*Handler` -/\n")
	b.WriteString("def webServer_serverCalls : List (String × List String) := [" + strings.Join(rows, ", ") + "]\n\n")

	// (4) leading unsupported-grant guards of the LegacyServer grant methods
	rows = nil
	for _, m := range []string{"CodeExchange", "RefreshToken", "JWTProfile", "TokenExchange", "ClientCredentialsExchange", "DeviceToken"} {
		fd := g.findFunc("pkg/op/server_legacy.go", "LegacyServer."+m)
		if fd == nil {
			g.unsup["legacyGrantGuards."+m] = []string{"method not found"}
			rows = append(rows, "("+leanStr(m)+", UNSUPPORTED_method_not_found)")
			continue
		}
		gs, clean := leadingGuards(g, fd)
		if !clean {
			g.unsup["legacyGrantGuards."+m] = []string{"unsupported_grant_type exit outside the leading guards"}
			rows = append(rows, "("+leanStr(m)+", UNSUPPORTED_unsupported_grant_exit_of_unknown_shape)")
			continue
		}
		var ps []string
		for _, gd := range gs {
			ps = append(ps, "("+leanStr(gd[0])+", "+leanStr(gd[1])+")")
		}
		rows = append(rows, "("+leanStr(m)+", ["+strings.Join(ps, ", ")+"])")
	}
	b.WriteString("/-- per LegacyServer grant method: the conditions (must hold) guarding its leading `unsupported_grant_type` exits -/\n")
	b.WriteString("def legacyGrantGuards : List (String × List (String × String)) := [" + strings.Join(rows, ", ") + "]\n\n")

	// (5) every function of pkg/op that can produce unsupported_grant_type
	rows = nil
	ents, _ := os.ReadDir(filepath.Join(repoRoot, "pkg/op"))
	for _, e := range ents {
		if !strings.HasSuffix(e.Name(), ".go") || strings.HasSuffix(e.Name(), "_test.go") {
			continue
		}
		f := g.file("pkg/op/" + e.Name())
		if f == nil {
			continue
		}
		for _, d := range f.Decls {
			fd, ok := d.(*ast.FuncDecl)
			if !ok || fd.Body == nil {
				continue
			}
			src := goSrc(g.fset, fd.Body)
			if strings.Contains(src, "ErrUnsupportedGrantType") || strings.Contains(src, "unimplementedGrantError") {
				name := fd.Name.Name
				if fd.Recv != nil && len(fd.Recv.List) == 1 {
					name = strings.TrimPrefix(exprString(fd.Recv.List[0].Type), "*") + "." + name
				}
				rows = append(rows, "("+leanStr(e.Name())+", "+leanStr(name)+")")
			}
		}
	}
	sort.Strings(rows)
	g.facts["unsupportedGrantSites"] = rows
	b.WriteString("/-- every function of pkg/op whose body mentions ErrUnsupportedGrantType / unimplementedGrantError -/\n")
	b.WriteString("def unsupportedGrantSites : List (String × String) := [" + strings.Join(rows, ",\n  ") + "]\n")
	return b.String()
}

func init() { extraGroups = append(extraGroups, c19Groups()...) }
