package main

import (
	"fmt"
	"go/ast"
	"go/token"
)

// hashStringFact: pkg/crypto/hash.go `HashString` works on a hash.Hash (Write / Size / Sum) and is outside the
// translated subset; its decision content - which prefix of the digest is kept - is extracted structurally:
//
//	if hash == nil { return s }
//	hash.Write([]byte(s))
//	size := hash.Size()
//	if firstHalf { size = size / <D> }
//	sum := hash.Sum(nil)[:size]
//	return base64.RawURLEncoding.EncodeToString(sum)
//
// and emitted as a Lean definition over the symbolic digest `Hand.digestPrefix` (Model/Token.lean). Anything
// that does not have exactly this shape comes out as UNSUPPORTED_… and breaks the build visibly.
func hashStringFact(g *genCtx) string {
	const lean = "HashString"
	fail := func(why string) string {
		g.unsup[lean] = append(g.unsup[lean], why)
		return "def HashString := UNSUPPORTED_HashString_shape -- " + why + "\n"
	}
	fd := g.findFunc("pkg/crypto/hash.go", "HashString")
	if fd == nil {
		return fail("function not found")
	}
	if fd.Type.Params == nil || len(fd.Type.Params.List) != 3 {
		return fail("parameters")
	}
	pname := func(i int) string {
		if len(fd.Type.Params.List[i].Names) != 1 {
			return ""
		}
		return fd.Type.Params.List[i].Names[0].Name
	}
	hashP, sP, halfP := pname(0), pname(1), pname(2)
	st := fd.Body.List
	if len(st) != 6 {
		return fail(fmt.Sprintf("expected 6 statements, found %d", len(st)))
	}
	isIdent := func(e ast.Expr, n string) bool { id, ok := e.(*ast.Ident); return ok && id.Name == n }
	isCallOn := func(e ast.Expr, recv, meth string) (*ast.CallExpr, bool) {
		c, ok := e.(*ast.CallExpr)
		if !ok {
			return nil, false
		}
		sel, ok := c.Fun.(*ast.SelectorExpr)
		if !ok || sel.Sel.Name != meth || !isIdent(sel.X, recv) {
			return nil, false
		}
		return c, true
	}
	// 1: if hash == nil { return s }
	if0, ok := st[0].(*ast.IfStmt)
	if !ok || if0.Else != nil || if0.Init != nil || len(if0.Body.List) != 1 {
		return fail("statement 1 is not `if hash == nil { return s }`")
	}
	if b, ok := if0.Cond.(*ast.BinaryExpr); !ok || b.Op != token.EQL || !isIdent(b.X, hashP) || !isIdent(b.Y, "nil") {
		return fail("statement 1: condition")
	}
	if r, ok := if0.Body.List[0].(*ast.ReturnStmt); !ok || len(r.Results) != 1 || !isIdent(r.Results[0], sP) {
		return fail("statement 1: result")
	}
	// 2: hash.Write([]byte(s))
	es, ok := st[1].(*ast.ExprStmt)
	if !ok {
		return fail("statement 2 is not hash.Write(..)")
	}
	if c, ok := isCallOn(es.X, hashP, "Write"); !ok || len(c.Args) != 1 {
		return fail("statement 2 is not hash.Write([]byte(s))")
	} else if conv, ok := c.Args[0].(*ast.CallExpr); !ok || len(conv.Args) != 1 || !isIdent(conv.Args[0], sP) {
		return fail("statement 2 does not hash exactly s")
	}
	// 3: size := hash.Size()
	as3, ok := st[2].(*ast.AssignStmt)
	if !ok || as3.Tok != token.DEFINE || len(as3.Lhs) != 1 || len(as3.Rhs) != 1 {
		return fail("statement 3 is not size := hash.Size()")
	}
	sizeV, ok := as3.Lhs[0].(*ast.Ident)
	if !ok {
		return fail("statement 3: target")
	}
	if c, ok := isCallOn(as3.Rhs[0], hashP, "Size"); !ok || len(c.Args) != 0 {
		return fail("statement 3 is not size := hash.Size()")
	}
	// 4: if firstHalf { size = size / D }
	if4, ok := st[3].(*ast.IfStmt)
	if !ok || if4.Else != nil || if4.Init != nil || !isIdent(if4.Cond, halfP) || len(if4.Body.List) != 1 {
		return fail("statement 4 is not `if firstHalf { size = size / D }`")
	}
	as4, ok := if4.Body.List[0].(*ast.AssignStmt)
	if !ok || as4.Tok != token.ASSIGN || len(as4.Lhs) != 1 || len(as4.Rhs) != 1 || !isIdent(as4.Lhs[0], sizeV.Name) {
		return fail("statement 4: assignment")
	}
	div, ok := as4.Rhs[0].(*ast.BinaryExpr)
	if !ok || div.Op != token.QUO || !isIdent(div.X, sizeV.Name) {
		return fail("statement 4: size is not divided")
	}
	lit, ok := div.Y.(*ast.BasicLit)
	if !ok || lit.Kind != token.INT {
		return fail("statement 4: divisor is not an integer literal")
	}
	// 5: sum := hash.Sum(nil)[:size]
	as5, ok := st[4].(*ast.AssignStmt)
	if !ok || len(as5.Lhs) != 1 || len(as5.Rhs) != 1 {
		return fail("statement 5")
	}
	sumV, ok := as5.Lhs[0].(*ast.Ident)
	if !ok {
		return fail("statement 5: target")
	}
	sl, ok := as5.Rhs[0].(*ast.SliceExpr)
	if !ok || sl.Low != nil || sl.Max != nil || sl.High == nil || !isIdent(sl.High, sizeV.Name) {
		return fail("statement 5 is not hash.Sum(nil)[:size]")
	}
	if c, ok := isCallOn(sl.X, hashP, "Sum"); !ok || len(c.Args) != 1 || !isIdent(c.Args[0], "nil") {
		return fail("statement 5 is not hash.Sum(nil)[:size]")
	}
	// 6: return base64.RawURLEncoding.EncodeToString(sum)
	r6, ok := st[5].(*ast.ReturnStmt)
	if !ok || len(r6.Results) != 1 {
		return fail("statement 6")
	}
	c6, ok := r6.Results[0].(*ast.CallExpr)
	if !ok || len(c6.Args) != 1 || !isIdent(c6.Args[0], sumV.Name) || exprString(c6.Fun) != "base64.RawURLEncoding.EncodeToString" {
		return fail("statement 6 is not base64.RawURLEncoding.EncodeToString(sum)")
	}
	g.facts["hashString_halfDivisor"] = lit.Value
	pos := g.fset.Position(fd.Pos())
	return fmt.Sprintf(`/-- extracted from %s:%d `+"`HashString`"+`: base64url of the first `+"`size`"+` bytes of the digest of `+"`s`"+`,
    `+"`size = hash.Size()`"+`, divided by %s when `+"`firstHalf`"+` (the hash is never nil here: `+"`GetHashAlgorithm`"+` returned it) -/
def HashString (now : Int) (hash : HashAlg) (s : String) (firstHalf : Bool) : String :=
  Hand.digestPrefix hash (if firstHalf then hash.size / %s else hash.size) s

`, relPath(pos.Filename), pos.Line, lit.Value, lit.Value)
}
