package main

import (
	"go/ast"
	"strings"
)

// C05: the endpoint layer (request parsing, credential extraction, grant dispatch, status mapping) of both routers.
// Two generated files in their own namespace `GenEP` (ClientIDFromRequest, ParseDeviceCodeRequest, ... are modelled a second
// time, on the abstract request of Model/EndpointReq.lean, beside the C16 models in `Gen`):
//   EndpointCaps.lean  - the provider's capability getters (which grants / authentication methods are switched on)
//   Endpoint.lean      - parsing, client authentication at the request level, the handlers and the grant switch

const (
	epO  = "(o : EPOracles)"
	epR  = "(r : EPRequest)"
	epX  = "(exchanger : EPProvider)"
	epS  = "(s : EPWebServer)"
	epLS = "(s : EPLegacyServer)"
	epCl = "(client : OPClient)"
)

// renames shared by every function of Endpoint.lean
var epRename = map[string]string{
	"url.QueryUnescape()":            "(o).unescape",
	"errors.Is()":                    "Hand.epErrorsIs",
	"http.StatusBadRequest":          "(400 : Int)",
	"http.StatusUnauthorized":        "(401 : Int)",
	"http.StatusInternalServerError": "(500 : Int)",
	"oidc.DefaultToServerError()":    "Hand.epDefaultToServerError",
	"unimplementedGrantError()":      "Hand.unimplementedGrantError",
	"VerifyJWTAssertion()":           "Hand.epVerifyJWTAssertion now o",
	"getTokenIDAndSubject()":         "Hand.epGetTokenIDAndSubject",
	"NewStatusError()":               "EPStatusError.mk",
	"AsStatusError()":                "Hand.epAsStatusError",
	"e.ErrorType":                    "(Hand.epErrorType e)",
	"ClientJWTAuth()":                "ClientJWTAuth now o",
	"ClientBasicAuth()":              "ClientBasicAuth now o",
	"ClientIDFromRequest()":          "ClientIDFromRequest now o",
	"decodeRequest()":                "decodeRequest now",
	"newRequest()":                   "Hand.epNewRequest",
	"newClientRequest()":             "Hand.epNewClientRequest",
}

// the capability getters of EndpointCaps.lean, called as methods everywhere else
var epGenMethods = map[string]string{
	"AuthMethodPostSupported":             "AuthMethodPostSupported",
	"AuthMethodPrivateKeyJWTSupported":    "AuthMethodPrivateKeyJWTSupported",
	"GrantTypeRefreshTokenSupported":      "GrantTypeRefreshTokenSupported",
	"GrantTypeTokenExchangeSupported":     "GrantTypeTokenExchangeSupported",
	"GrantTypeJWTAuthorizationSupported":  "GrantTypeJWTAuthorizationSupported",
	"GrantTypeClientCredentialsSupported": "GrantTypeClientCredentialsSupported",
	"GrantTypeDeviceCodeSupported":        "GrantTypeDeviceCodeSupported",
}

var epParents = []string{"ErrNoClientCredentials", "ErrInvalidAuthHeader", "ErrMissingClientID"}

// epRouteTables: which handler expression each router registers per endpoint (CreateRouter / webServer.createRouter)
func epRouteTables(g *genCtx) string {
	table := func(rel, fn, lean, doc string) string {
		var rows []string
		if fd := g.findFunc(rel, fn); fd != nil {
			ast.Inspect(fd.Body, func(n ast.Node) bool {
				c, ok := n.(*ast.CallExpr)
				if !ok || len(c.Args) != 2 {
					return true
				}
				if sel, ok := c.Fun.(*ast.SelectorExpr); ok && (sel.Sel.Name == "HandleFunc" || sel.Sel.Name == "Handle" || sel.Sel.Name == "endpointRoute") {
					rows = append(rows, "("+leanStr(goSrc(g.fset, c.Args[0]))+", "+leanStr(goSrc(g.fset, c.Args[1]))+")")
				}
				return true
			})
		} else {
			g.unsup[lean] = append(g.unsup[lean], "function not found: "+rel+" "+fn)
		}
		return "/-- " + doc + " -/\ndef " + lean + " : List (String × String) := [\n  " + strings.Join(rows, ",\n  ") + "]\n\n"
	}
	return table("pkg/op/op.go", "CreateRouter", "providerRoutes", "route registrations of `CreateRouter` (pkg/op/op.go): (path expression, handler expression)") +
		table("pkg/op/server_http.go", "webServer.createRouter", "serverRoutes", "route registrations of `webServer.createRouter` (pkg/op/server_http.go): (endpoint expression, handler expression)")
}

func init() {
	capGetter := func(name string) FuncSpec {
		return FuncSpec{File: "pkg/op/op.go", Name: "Provider." + name, Lean: name, Params: []string{"(o : EPProvider)"}, Ret: RetVal, RetType: "Bool", PlainUpdate: true}
	}
	caps := Group{
		Out: "EndpointCaps.lean", NS: "GenEP",
		Imports: []string{"OidcModel.Model.EndpointReq"},
		Opens:   []string{"Go", "Const"},
		Funcs: []FuncSpec{
			capGetter("AuthMethodPostSupported"), capGetter("AuthMethodPrivateKeyJWTSupported"), capGetter("GrantTypeRefreshTokenSupported"),
			capGetter("GrantTypeTokenExchangeSupported"), capGetter("GrantTypeJWTAuthorizationSupported"),
			capGetter("GrantTypeDeviceCodeSupported"), capGetter("GrantTypeClientCredentialsSupported"),
		},
	}

	jsonStatus := map[string]string{"httphelper.MarshalJSONWithStatus": "EPResp.json", "writeError": "writeError now"}
	pHandlerWriters := func(extra map[string]string) map[string]string {
		m := map[string]string{"RequestError": "RequestError now", "httphelper.MarshalJSON": "EPResp.ok"}
		for k, v := range extra {
			m[k] = v
		}
		return m
	}
	lHandlerWriters := func(extra map[string]string) map[string]string {
		m := map[string]string{"WriteError": "WriteError now", "resp.writeOut": "EPResp.ok resp"}
		for k, v := range extra {
			m[k] = v
		}
		return m
	}
	pDrop := []string{"w", "exchanger.Logger()", "o.Logger()", "logger"}
	lDrop := []string{"w", "s.getLogger()"}

	fs := []FuncSpec{
		// ---- status mapping (pkg/op/error.go, token_revocation.go)
		{File: "pkg/op/error.go", Name: "RequestError", Lean: "RequestError", Params: []string{epR, "(err : String)"}, Ret: RetResp, RetType: "EPResp",
			DropArgs: []string{"w", "logger"}, Writers: jsonStatus},
		{File: "pkg/op/error.go", Name: "writeError", Lean: "writeError", Params: []string{epR, "(err : String)", "(statusCode : Int)"}, Ret: RetResp, RetType: "EPResp",
			DropArgs: []string{"w", "logger"}, Writers: jsonStatus},
		{File: "pkg/op/error.go", Name: "WriteError", Lean: "WriteError", Params: []string{epR, "(err : String)"}, Ret: RetResp, RetType: "EPResp",
			DropArgs: []string{"w", "logger"}, Writers: jsonStatus,
			Rename: map[string]string{"statusError": "(Hand.epStatusErrorOf err)", "errors.As()": "Hand.epIsStatusError"}},
		{File: "pkg/op/token_revocation.go", Name: "RevocationError", Lean: "RevocationError", Params: []string{"(err : String)"}, Ret: RetVal, RetType: "EPStatusError"},
		{File: "pkg/op/token_revocation.go", Name: "RevocationRequestError", Lean: "RevocationRequestError", Params: []string{epR, "(err : String)"}, Ret: RetResp, RetType: "EPResp",
			DropArgs: []string{"w"}, Writers: jsonStatus, Rename: map[string]string{"RevocationError()": "RevocationError now"}},

		// ---- request-level client authentication (pkg/op/token_request.go, client.go)
		{File: "pkg/op/token_request.go", Name: "AuthorizeClientIDSecret", Lean: "AuthorizeClientIDSecret",
			Params: []string{"(clientID clientSecret : String)", "(storage : EPStorage)"}, Ret: RetErr},
		{File: "pkg/op/client.go", Name: "ClientJWTAuth", Lean: "ClientJWTAuth", Params: []string{epO, "(ca : EPForm)", "(verifier : EPProvider)"}, Ret: RetValErr, RetType: "String"},
		{File: "pkg/op/client.go", Name: "checkPrivateKeyJWTClient", Lean: "checkPrivateKeyJWTClient", Params: []string{"(clientID : String)", "(storage : EPStorage)"}, Ret: RetErr},
		{File: "pkg/op/client.go", Name: "checkAuthMethodPost", Lean: "checkAuthMethodPost", Params: []string{"(clientID : String)", "(p : EPProvider)"}, Ret: RetErr},
		{File: "pkg/op/client.go", Name: "ClientBasicAuth", Lean: "ClientBasicAuth", Params: []string{epO, epR, "(storage : EPStorage)"}, Ret: RetValErr, RetType: "String"},
		{File: "pkg/op/client.go", Name: "ClientIDFromRequest", Lean: "ClientIDFromRequest", Params: []string{epO, epR, "(p : EPProvider)"}, Ret: RetValErr, RetType: "(String × Bool)"},
		{File: "pkg/op/token_request.go", Name: "ParseAuthenticatedTokenRequest", Lean: "ParseAuthenticatedTokenRequest",
			Params: []string{epO, epR, "(decoder : EPDecoder)", "(request : EPForm)"}, Ret: RetErr, RetParam: "request", RetType: "EPForm",
			OutParams: map[string]OutParam{"decoder.Decode": {0, false}}},

		// ---- Provider router: introspection, revocation, device authorization, device token
		{File: "pkg/op/token_intospection.go", Name: "ParseTokenIntrospectionRequest", Lean: "ParseTokenIntrospectionRequest",
			Params: []string{epO, epR, "(introspector : EPProvider)"}, Ret: RetValErr, RetType: "(String × String)"},
		{File: "pkg/op/token_intospection.go", Name: "Introspect", Lean: "Introspect", Params: []string{epO, epR, "(introspector : EPProvider)"}, Ret: RetResp, RetType: "EPResp",
			DropArgs: []string{"w"}, Writers: map[string]string{"http.Error": "EPResp.text", "httphelper.MarshalJSON": "Hand.epIntrospected"},
			OutParams: map[string]OutParam{"introspector.Storage().SetIntrospectionFromToken": {1, true}},
			Rename:    map[string]string{"ParseTokenIntrospectionRequest()": "ParseTokenIntrospectionRequest now o", "new(oidc.IntrospectionResponse)": "(default : EPIntrospection)"}},
		{File: "pkg/op/token_revocation.go", Name: "ParseTokenRevocationRequest", Lean: "ParseTokenRevocationRequest",
			Params: []string{epO, epR, "(revoker : EPProvider)"}, Ret: RetValErr, RetType: "(String × String × String)"},
		{File: "pkg/op/token_revocation.go", Name: "Revoke", Lean: "Revoke", Params: []string{epO, epR, "(revoker : EPProvider)"}, Ret: RetResp, RetType: "EPResp",
			DropArgs: []string{"w"}, Writers: map[string]string{"RevocationRequestError": "RevocationRequestError now", "httphelper.MarshalJSON": "Hand.epRevoked clientID"},
			Rename: map[string]string{"ParseTokenRevocationRequest()": "ParseTokenRevocationRequest now o", "getTokenIDAndSubjectForRevocation()": "Hand.epGetTokenIDAndSubjectForRevocation"}},
		{File: "pkg/op/device.go", Name: "ParseDeviceCodeRequest", Lean: "ParseDeviceCodeRequest", Params: []string{epO, epR, "(o_ : EPProvider)"}, Ret: RetValErr, RetType: "EPForm",
			Rename: map[string]string{"o": "o_"}},
		{File: "pkg/op/device.go", Name: "DeviceAuthorization", Lean: "DeviceAuthorization", Params: []string{epO, epR, "(o_ : EPProvider)"}, Ret: RetErr, RetParam: "written", RetType: "EPDone",
			Rename: map[string]string{"o": "o_", "createDeviceAuthorization()": "Hand.epCreateDeviceAuthorization now", "ParseDeviceCodeRequest()": "ParseDeviceCodeRequest now o"}},
		{File: "pkg/op/device.go", Name: "ParseDeviceAccessTokenRequest", Lean: "ParseDeviceAccessTokenRequest", Params: []string{epR, epX}, Ret: RetValErr, RetType: "EPForm"},
		{File: "pkg/op/device.go", Name: "deviceAccessToken", Lean: "deviceAccessToken", Params: []string{epO, epR, epX}, Ret: RetErr, RetParam: "written", RetType: "EPDone",
			Rename: map[string]string{"CreateDeviceTokenResponse()": "Hand.epCreateDeviceTokenResponse now", "CheckDeviceAuthorizationState()": "Hand.epCheckDeviceState now"}},

		// ---- Provider router: the grant handlers of the token endpoint and the grant switch
		{File: "pkg/op/token_code.go", Name: "ParseAccessTokenRequest", Lean: "ParseAccessTokenRequest", Params: []string{epO, epR, "(decoder : EPDecoder)"}, Ret: RetValErr, RetType: "EPForm",
			OutParams: map[string]OutParam{"ParseAuthenticatedTokenRequest": {2, true}},
			Rename:    map[string]string{"ParseAuthenticatedTokenRequest()": "ParseAuthenticatedTokenRequest now o", "new(oidc.AccessTokenRequest)": "(default : EPForm)"}},
		{File: "pkg/op/token_code.go", Name: "CodeExchange", Lean: "CodeExchange", Params: []string{epO, epR, epX}, Ret: RetResp, RetType: "EPResp",
			DropArgs: pDrop, Writers: pHandlerWriters(nil),
			Rename: map[string]string{"ParseAccessTokenRequest()": "ParseAccessTokenRequest now o", "ValidateAccessTokenRequest()": "Hand.epValidateAccessTokenRequest now o",
				"CreateTokenResponse()": "Hand.epCreateTokenResponse now"}},
		{File: "pkg/op/token_refresh.go", Name: "ParseRefreshTokenRequest", Lean: "ParseRefreshTokenRequest", Params: []string{epO, epR, "(decoder : EPDecoder)"}, Ret: RetValErr, RetType: "EPForm",
			OutParams: map[string]OutParam{"ParseAuthenticatedTokenRequest": {2, true}},
			Rename:    map[string]string{"ParseAuthenticatedTokenRequest()": "ParseAuthenticatedTokenRequest now o", "new(oidc.RefreshTokenRequest)": "(default : EPForm)"}},
		{File: "pkg/op/token_refresh.go", Name: "RefreshTokenExchange", Lean: "RefreshTokenExchange", Params: []string{epO, epR, epX}, Ret: RetResp, RetType: "EPResp",
			DropArgs: pDrop, Writers: pHandlerWriters(nil),
			Rename: map[string]string{"ParseRefreshTokenRequest()": "ParseRefreshTokenRequest now o", "ValidateRefreshTokenRequest()": "Hand.epValidateRefreshTokenRequest now o",
				"CreateTokenResponse()": "Hand.epCreateRefreshResponse now"}},
		{File: "pkg/op/token_client_credentials.go", Name: "ParseClientCredentialsRequest", Lean: "ParseClientCredentialsRequest", Params: []string{epO, epR, "(decoder : EPDecoder)"}, Ret: RetValErr, RetType: "EPForm",
			OutParams: map[string]OutParam{"decoder.Decode": {0, false}}},
		{File: "pkg/op/token_client_credentials.go", Name: "ValidateClientCredentialsRequest", Lean: "ValidateClientCredentialsRequest", Params: []string{"(request : EPForm)", epX},
			Ret: RetValErr, RetType: "(String × OPClient)", Rename: map[string]string{"AuthorizeClientCredentialsClient()": "Hand.epAuthorizeClientCredentialsClient now"}},
		{File: "pkg/op/token_client_credentials.go", Name: "ClientCredentialsExchange", Lean: "ClientCredentialsExchange", Params: []string{epO, epR, epX}, Ret: RetResp, RetType: "EPResp",
			DropArgs: pDrop, Writers: pHandlerWriters(nil),
			Rename: map[string]string{"ParseClientCredentialsRequest()": "ParseClientCredentialsRequest now o", "CreateClientCredentialsTokenResponse()": "Hand.epCreateClientCredentialsTokenResponse now"}},
		{File: "pkg/op/token_exchange.go", Name: "ParseTokenExchangeRequest", Lean: "ParseTokenExchangeRequest", Params: []string{epO, epR, "(decoder : EPDecoder)"}, Ret: RetValErr, RetType: "(EPForm × String × String)",
			OutParams: map[string]OutParam{"decoder.Decode": {0, false}}},
		{File: "pkg/op/token_exchange.go", Name: "AuthorizeTokenExchangeClient", Lean: "AuthorizeTokenExchangeClient", Params: []string{"(clientID clientSecret : String)", epX}, Ret: RetValErr, RetType: "OPClient"},
		{File: "pkg/op/token_exchange.go", Name: "ValidateTokenExchangeRequest", Lean: "ValidateTokenExchangeRequest",
			Params: []string{"(oidcTokenExchangeRequest : EPForm)", "(clientID clientSecret : String)", epX}, Ret: RetValErr, RetType: "(EPExchangeReq × OPClient)",
			Rename: map[string]string{"CreateTokenExchangeRequest()": "Hand.epCreateTokenExchangeRequest now",
				"oidcTokenExchangeRequest.RequestedTokenType.IsSupported()": "(Hand.epTokenTypeSupported (oidcTokenExchangeRequest).RequestedTokenType)",
				"oidcTokenExchangeRequest.SubjectTokenType.IsSupported()":   "(Hand.epTokenTypeSupported (oidcTokenExchangeRequest).SubjectTokenType)",
				"oidcTokenExchangeRequest.ActorTokenType.IsSupported()":     "(Hand.epTokenTypeSupported (oidcTokenExchangeRequest).ActorTokenType)"}},
		{File: "pkg/op/token_exchange.go", Name: "TokenExchange", Lean: "TokenExchange", Params: []string{epO, epR, epX}, Ret: RetResp, RetType: "EPResp",
			DropArgs: pDrop, Writers: pHandlerWriters(nil),
			Rename: map[string]string{"ParseTokenExchangeRequest()": "ParseTokenExchangeRequest now o", "CreateTokenExchangeResponse()": "Hand.epCreateTokenExchangeResponse now"}},
		{File: "pkg/op/token_jwt_profile.go", Name: "ParseJWTProfileGrantRequest", Lean: "ParseJWTProfileGrantRequest", Params: []string{epR, "(decoder : EPDecoder)"}, Ret: RetValErr, RetType: "EPForm",
			OutParams: map[string]OutParam{"decoder.Decode": {0, false}}},
		{File: "pkg/op/token_jwt_profile.go", Name: "JWTProfile", Lean: "JWTProfile", Params: []string{epO, epR, epX}, Ret: RetResp, RetType: "EPResp",
			DropArgs: pDrop, Writers: pHandlerWriters(nil),
			Rename: map[string]string{"CreateJWTTokenResponse()": "Hand.epCreateJWTTokenResponse now"}},
		{File: "pkg/op/device.go", Name: "DeviceAccessToken", Lean: "DeviceAccessToken", Params: []string{epO, epR, epX}, Ret: RetResp, RetType: "EPResp",
			DropArgs: pDrop, Writers: pHandlerWriters(nil), OkWrites: map[string]string{"deviceAccessToken": "EPResp.ok"},
			Rename: map[string]string{"deviceAccessToken()": "deviceAccessToken now o"}},
		{File: "pkg/op/device.go", Name: "DeviceAuthorizationHandler", Lean: "DeviceAuthorizationHandler", Params: []string{epO, "(o_ : EPProvider)", epR}, Ret: RetResp, RetType: "EPResp",
			DropArgs: pDrop, Writers: pHandlerWriters(nil), OkWrites: map[string]string{"DeviceAuthorization": "EPResp.ok"},
			Rename: map[string]string{"o": "o_", "DeviceAuthorization()": "DeviceAuthorization now o"}},
		{File: "pkg/op/token_request.go", Name: "Exchange", Lean: "Exchange", Params: []string{epO, epR, epX}, Ret: RetResp, RetType: "EPResp",
			DropArgs: pDrop,
			Writers: map[string]string{"RequestError": "RequestError now", "CodeExchange": "CodeExchange now o", "RefreshTokenExchange": "RefreshTokenExchange now o",
				"JWTProfile": "JWTProfile now o", "TokenExchange": "TokenExchange now o", "ClientCredentialsExchange": "ClientCredentialsExchange now o",
				"DeviceAccessToken": "DeviceAccessToken now o"}},

		{File: "pkg/op/token_request.go", Name: "tokenHandler", Lean: "tokenHandler", Params: []string{epO, epX, epR}, Ret: RetResp, RetType: "EPResp",
			DropArgs: pDrop, Writers: map[string]string{"Exchange": "Exchange now o"}},
		{File: "pkg/op/token_intospection.go", Name: "introspectionHandler", Lean: "providerIntrospectionHandler", Params: []string{epO, "(introspector : EPProvider)", epR}, Ret: RetResp, RetType: "EPResp",
			DropArgs: pDrop, Writers: map[string]string{"Introspect": "Introspect now o"}},
		{File: "pkg/op/token_revocation.go", Name: "revocationHandler", Lean: "providerRevocationHandler", Params: []string{epO, "(revoker : EPProvider)", epR}, Ret: RetResp, RetType: "EPResp",
			DropArgs: pDrop, Writers: map[string]string{"Revoke": "Revoke now o"}},

		// ---- Server router (pkg/op/server_http.go, server_legacy.go)
		{File: "pkg/op/server_http.go", Name: "decodeRequest", Lean: "decodeRequest", Params: []string{"(decoder : EPDecoder)", epR, "(postOnly : Bool)"}, Ret: RetValErr, RetType: "EPForm",
			OutParams: map[string]OutParam{"decoder.Decode": {0, false}}},
		{File: "pkg/op/server_http.go", Name: "webServer.parseClientCredentials", Lean: "parseClientCredentials", Params: []string{epO, epS, epR}, Ret: RetValErr, RetType: "EPForm",
			OutParams: map[string]OutParam{"s.decoder.Decode": {0, false}}},
		{File: "pkg/op/server_http.go", Name: "webServer.verifyRequestClient", Lean: "verifyRequestClient", Params: []string{epO, epS, epR}, Ret: RetValErr, RetType: "OPClient",
			StructLits: map[string]StructLit{"Request{}": {Lean: "EPVerifyRequest", Keep: []string{"Form", "Data"}}},
			Rename:     map[string]string{"s.parseClientCredentials()": "parseClientCredentials now o s", "s.server.VerifyClient()": "Hand.epVerifyClient now o (s).server"}},
		{File: "pkg/op/server_http.go", Name: "webServer.withClient", Lean: "withClient", Params: []string{epO, epS, "(handler : EPRequest → OPClient → EPResp)", epR}, Ret: RetResp, RetType: "EPResp",
			DropArgs: lDrop, Writers: lHandlerWriters(map[string]string{"handler": "handler"}),
			Rename: map[string]string{"s.verifyRequestClient()": "verifyRequestClient now o s"}},

		{File: "pkg/op/server_legacy.go", Name: "LegacyServer.authenticateResourceClient", Lean: "authenticateResourceClient", Params: []string{epO, epLS, "(cc : EPForm)"}, Ret: RetValErr, RetType: "String",
			StructLits: map[string]StructLit{"oidc.ClientAssertionParams{}": {Lean: "EPForm", Keep: []string{"ClientAssertion"}}}},
		{File: "pkg/op/server_legacy.go", Name: "LegacyServer.Introspect", Lean: "LegacyIntrospect", Params: []string{epO, epLS, "(r : EPServerRequest EPIntrospectionRequest)"}, Ret: RetValErr, RetType: "EPIntrospection",
			OutParams: map[string]OutParam{"s.provider.Storage().SetIntrospectionFromToken": {1, true}},
			Rename:    map[string]string{"s.authenticateResourceClient()": "authenticateResourceClient now o s", "new(oidc.IntrospectionResponse)": "(default : EPIntrospection)"}},
		{File: "pkg/op/server_legacy.go", Name: "LegacyServer.TokenExchange", Lean: "LegacyTokenExchange", Params: []string{epLS, "(r : ClientRequest EPForm)"}, Ret: RetValErr, RetType: "EPDone",
			Rename: map[string]string{"CreateTokenExchangeRequest()": "Hand.epCreateTokenExchangeRequest now", "CreateTokenExchangeResponse()": "Hand.epCreateTokenExchangeResponse now"}},
		{File: "pkg/op/server_legacy.go", Name: "LegacyServer.ClientCredentialsExchange", Lean: "LegacyClientCredentialsExchange", Params: []string{epLS, "(r : ClientRequest EPForm)"}, Ret: RetValErr, RetType: "EPDone",
			Rename: map[string]string{"CreateClientCredentialsTokenResponse()": "Hand.epCreateClientCredentialsTokenResponse now"}},
		{File: "pkg/op/server_legacy.go", Name: "LegacyServer.JWTProfile", Lean: "LegacyJWTProfile", Params: []string{epO, epLS, "(r : EPServerRequest EPForm)"}, Ret: RetValErr, RetType: "EPDone",
			Rename: map[string]string{"CreateJWTTokenResponse()": "Hand.epCreateJWTTokenResponse now"}},
		{File: "pkg/op/server_legacy.go", Name: "LegacyServer.DeviceToken", Lean: "LegacyDeviceToken", Params: []string{epLS, "(r : ClientRequest EPForm)"}, Ret: RetValErr, RetType: "EPDone",
			Rename: map[string]string{"CreateDeviceTokenResponse()": "Hand.epCreateDeviceTokenResponse now", "CheckDeviceAuthorizationState()": "Hand.epCheckDeviceState now"}},
		{File: "pkg/op/server_legacy.go", Name: "LegacyServer.DeviceAuthorization", Lean: "LegacyDeviceAuthorization", Params: []string{epLS, "(r : ClientRequest EPForm)"}, Ret: RetValErr, RetType: "EPDone",
			Rename: map[string]string{"createDeviceAuthorization()": "Hand.epCreateDeviceAuthorization now"}},

		{File: "pkg/op/server_legacy.go", Name: "LegacyServer.Revocation", Lean: "LegacyRevocation", Params: []string{epLS, "(r : ClientRequest EPForm)"}, Ret: RetValErr, RetType: "EPDone",
			Rename: map[string]string{"RevocationError()": "Hand.epEncodeStatusError (RevocationError now)", "getTokenIDAndSubjectForRevocation()": "Hand.epGetTokenIDAndSubjectForRevocation",
				"NewResponse()": "Hand.epRevokedFor (r).Client"}},
		{File: "pkg/op/server_http.go", Name: "webServer.codeExchangeHandler", Lean: "codeExchangeHandler", Params: []string{epO, epS, epR, epCl}, Ret: RetResp, RetType: "EPResp",
			DropArgs: lDrop, Writers: lHandlerWriters(nil), Rename: map[string]string{"s.server.CodeExchange()": "Hand.epLegacyCodeExchange now o (s).server"}},
		{File: "pkg/op/server_http.go", Name: "webServer.refreshTokenHandler", Lean: "refreshTokenHandler", Params: []string{epO, epS, epR, epCl}, Ret: RetResp, RetType: "EPResp",
			DropArgs: lDrop, Writers: lHandlerWriters(nil), Rename: map[string]string{"s.server.RefreshToken()": "Hand.epLegacyRefreshToken now o (s).server"}},
		{File: "pkg/op/server_http.go", Name: "webServer.tokenExchangeHandler", Lean: "tokenExchangeHandler", Params: []string{epO, epS, epR, epCl}, Ret: RetResp, RetType: "EPResp",
			DropArgs: lDrop, Writers: lHandlerWriters(nil),
			Rename: map[string]string{"s.server.TokenExchange()": "LegacyTokenExchange now (s).server",
				"request.SubjectTokenType.IsSupported()":   "(Hand.epTokenTypeSupported (request).SubjectTokenType)",
				"request.RequestedTokenType.IsSupported()": "(Hand.epTokenTypeSupported (request).RequestedTokenType)",
				"request.ActorTokenType.IsSupported()":     "(Hand.epTokenTypeSupported (request).ActorTokenType)"}},
		{File: "pkg/op/server_http.go", Name: "webServer.clientCredentialsHandler", Lean: "clientCredentialsHandler", Params: []string{epO, epS, epR, epCl}, Ret: RetResp, RetType: "EPResp",
			DropArgs: lDrop, Writers: lHandlerWriters(nil), Rename: map[string]string{"s.server.ClientCredentialsExchange()": "LegacyClientCredentialsExchange now (s).server"}},
		{File: "pkg/op/server_http.go", Name: "webServer.deviceTokenHandler", Lean: "deviceTokenHandler", Params: []string{epO, epS, epR, epCl}, Ret: RetResp, RetType: "EPResp",
			DropArgs: lDrop, Writers: lHandlerWriters(nil), Rename: map[string]string{"s.server.DeviceToken()": "LegacyDeviceToken now (s).server"}},
		{File: "pkg/op/server_http.go", Name: "webServer.jwtProfileHandler", Lean: "jwtProfileHandler", Params: []string{epO, epS, epR}, Ret: RetResp, RetType: "EPResp",
			DropArgs: lDrop, Writers: lHandlerWriters(nil), Rename: map[string]string{"s.server.JWTProfile()": "LegacyJWTProfile now o (s).server"}},
		{File: "pkg/op/server_http.go", Name: "webServer.deviceAuthorizationHandler", Lean: "deviceAuthorizationHandler", Params: []string{epO, epS, epR, epCl}, Ret: RetResp, RetType: "EPResp",
			DropArgs: lDrop, Writers: lHandlerWriters(nil), Rename: map[string]string{"s.server.DeviceAuthorization()": "LegacyDeviceAuthorization now (s).server"}},
		{File: "pkg/op/server_http.go", Name: "webServer.introspectionHandler", Lean: "introspectionHandler", Params: []string{epO, epS, epR}, Ret: RetResp, RetType: "EPResp",
			DropArgs: lDrop, Writers: lHandlerWriters(map[string]string{"resp.writeOut": "Hand.epIntrospected resp"}),
			Rename: map[string]string{"s.parseClientCredentials()": "parseClientCredentials now o s", "s.server.Introspect()": "LegacyIntrospect now o (s).server",
				"IntrospectionRequest{}": "EPIntrospectionRequest.mk"}},
		{File: "pkg/op/server_http.go", Name: "webServer.revocationHandler", Lean: "revocationHandler", Params: []string{epO, epS, epR, epCl}, Ret: RetResp, RetType: "EPResp",
			DropArgs: lDrop, Writers: lHandlerWriters(nil), Rename: map[string]string{"s.server.Revocation()": "LegacyRevocation now (s).server"}},
		{File: "pkg/op/server_http.go", Name: "webServer.tokensHandler", Lean: "tokensHandler", Params: []string{epO, epS, epR}, Ret: RetResp, RetType: "EPResp",
			DropArgs: lDrop,
			Writers:  lHandlerWriters(map[string]string{"s.withClient()": "withClient now o s", "s.jwtProfileHandler": "jwtProfileHandler now o s"}),
			Rename: map[string]string{"s.codeExchangeHandler": "(codeExchangeHandler now o s)", "s.refreshTokenHandler": "(refreshTokenHandler now o s)",
				"s.clientCredentialsHandler": "(clientCredentialsHandler now o s)", "s.tokenExchangeHandler": "(tokenExchangeHandler now o s)",
				"s.deviceTokenHandler": "(deviceTokenHandler now o s)"}},
	}
	for i := range fs {
		f := &fs[i]
		f.PlainUpdate, f.LetIf = true, true
		// TupleAssign / ErrNilFirst / ErrElse / NestedUpdate: the rules of the resource-endpoint group (C08); the rest are C05's own
		f.TupleAssign, f.ErrNilFirst, f.ErrElse, f.NestedUpdate = true, true, true, true
		f.TupleInit, f.ErrNilConst, f.HandlerEnd = true, true, true
		f.KeepParents = epParents
		f.GenMethods = epGenMethods
		if f.Rename == nil {
			f.Rename = map[string]string{}
		}
		for k, v := range epRename {
			if _, own := f.Rename[k]; !own {
				f.Rename[k] = v
			}
		}
	}
	// a function does not rename the call of itself
	for i := range fs {
		switch fs[i].Lean {
		case "ClientJWTAuth", "ClientBasicAuth", "ClientIDFromRequest":
			delete(fs[i].Rename, fs[i].Lean+"()")
		}
	}
	ep := Group{
		Out: "Endpoint.lean", NS: "GenEP",
		Imports: []string{"OidcModel.Model.Endpoint"},
		Opens:   []string{"Go", "Hand", "Const", "Gen"},
		Funcs:   fs,
		Extra:   epRouteTables,
	}
	extraGroups = append(extraGroups, caps, ep)
}
