package main

// C02 (round 4): WHICH key set and WHICH option list each derived verifier of a provider gets - `op.NewProvider` as far as it
// wires the key sets and the verifier options into the provider (namespace GenC02P, Generated/ProviderC02.lean).

func init() {
	const opgo = "pkg/op/op.go"
	extraGroups = append(extraGroups, Group{
		Out:     "ProviderC02.lean",
		NS:      "GenC02P",
		Imports: []string{"OidcModel.Model.ProviderC02"},
		Opens:   []string{"Go", "Hand", "Const"},
		Funcs: []FuncSpec{
			{File: opgo, Name: "NewProvider", Lean: "NewProvider",
				Params: []string{"(config : C02PConfig)", "(storage : C02KeyStorage)", "(issuer : Bool → Go.R C02PIssuer)", "(opOpts : List C02Option)"},
				Ret:    RetValErr, RetType: "C02Provider", NilValue: []string{"nil"},
				PlainUpdate: true, LoopStyle: "ctl", OutCallInit: true,
				SkipFields: []string{"Handler", "decoder", "encoder"}, Ignore: []string{"o.decoder.IgnoreUnknownKeys"},
				StructLits: map[string]StructLit{"Provider{}": {Lean: "C02Provider", Keep: []string{"storage", "accessTokenKeySet", "idTokenHinKeySet"}}},
				LocalOut:   map[string]OutParam{"optFunc": {0, true}},
				Rename: map[string]string{"optFunc()": "optFunc", "issuer()": "issuer", "OpenIDKeySet{}": "Hand.c02pOpenIDKeySet",
					"DefaultEndpoints": "()", "NewAESCrypto()": "Hand.c02pNewAESCrypto"},
			},
		},
	})
}
