package main

func init() {
	extraGroups = append(extraGroups, []Group{
		{Out: "AuthzTables.lean", Extra: authzTables},
		{
			Out:     "Authorize.lean",
			Imports: []string{"OidcModel.Model.Authz"},
			Opens:   []string{"Go", "Hand", "Const"},
			Funcs:   authzFuncs(),
		},
	}...)
}
