package main

func init() {
	extraGroups = append(extraGroups, []Group{
		{Out: "AuthzTables.lean", Extra: authzTables},
		{
			Out:     "Authorize.lean",
			Imports: []string{"OidcModel.Model.Authz"},
			Opens:   []string{"Go", "Hand", "Const"},
			Funcs:   authzFuncs(),
		},
		// (round 3) the handler shells around the decision functions: request parsing, request objects, the Server
		// router's handler with its error writer, the Provider router's handler.  Own namespace: `Gen.ParseRequestObject`
		// is C14's model of the same Go function on its own types.
		{
			Out:     "AuthorizeShell.lean",
			Imports: []string{"OidcModel.Generated.Authorize"},
			Opens:   []string{"Go", "Hand", "Const", "Gen"},
			NS:      "GenAz",
			Funcs:   authzShellFuncs(),
		},
	}...)
}

func authzShellFuncs() []FuncSpec {
	const ar = "pkg/op/auth_request.go"
	ren := map[string]string{}
	for k, v := range azRename {
		ren[k] = v
	}
	for k, v := range map[string]string{
		"oidc.ParseToken()":                  "(ro).ParseToken",
		"oidc.CheckSignature()":              "(ro).CheckSignature",
		"jwtProfileKeySet{}":                 "Hand.azKeySet",
		"CopyRequestObjectToAuthRequest()":   "CopyRequestObjectToAuthRequest now",
		"ParseRequestObject()":               "ParseRequestObject now ro",
		"ParseAuthorizeRequest()":            "ParseAuthorizeRequest now",
		"decodeRequest[oidc.AuthRequest]()":  "decodeRequest now",
		"decodeRequest()":                    "decodeRequest now",
		"newRequest()":                       "Hand.azNewRequest",
		"s.authorize()":                      "WebAuthorize now o d s",
		"WriteError()":                       "WriteError now",
		"writeError()":                       "writeError now",
		"redirect.writeOut()":                "RedirectWriteOut now redirect",
		"httphelper.MarshalJSONWithStatus()": "Hand.marshalJSONWithStatus",
		"errors.As()":                        "Hand.azErrorsAs",
		"oidc.ServerError":                   "\"server_error\"",
		"oidc.DefaultToServerError()":        "DefaultToServerError now",
		"http.StatusInternalServerError":     "(500 : Int)",
		"s.getLogger()":                      "(s).logger",
	} {
		ren[k] = v
	}
	pRo := "(ro : AzRoOracle)"
	fs := []FuncSpec{
		{File: ar, Name: "ParseAuthorizeRequest", Lean: "ParseAuthorizeRequest", Params: []string{"(r : AzHttpReq)", "(decoder : AzDecoder)"},
			Ret: RetValErr, RetType: "AuthRequestData", Rename: ren, OutParams: map[string]OutParam{"decoder.Decode": {0, false}}},
		{File: ar, Name: "CopyRequestObjectToAuthRequest", Lean: "CopyRequestObjectToAuthRequest",
			Params: []string{"(authReq : AuthRequestData)", "(requestObject : AzRequestObject)"}, Ret: RetVal, RetParam: "authReq", RetType: "AuthRequestData", Rename: ren, LetIf: true},
		{File: ar, Name: "ParseRequestObject", Lean: "ParseRequestObject",
			Params: []string{pRo, "(authReq : AuthRequestData)", "(storage : AzStorage)", "(issuer : String)"}, Ret: RetErr, RetParam: "authReq", RetType: "AuthRequestData", Rename: ren, RenameDropsOut: true},
		{File: "pkg/op/server_http.go", Name: "decodeRequest", Lean: "decodeRequest", Params: []string{"(decoder : AzDecoder)", "(r : AzHttpReq)", "(postOnly : Bool)"},
			Ret: RetValErr, RetType: "AuthRequestData", Rename: ren, OutParams: map[string]OutParam{"decoder.Decode": {0, false}}},
		{File: "pkg/op/error.go", Name: "writeError", Lean: "writeError", Params: []string{"(err : OidcError)", "(statusCode : Int)", "(logger : Unit)"}, Ret: RetWrites, Rename: ren},
		{File: "pkg/op/error.go", Name: "WriteError", Lean: "WriteError", Params: []string{"(err : String)", "(logger : Unit)"}, Ret: RetWrites, Rename: ren,
			ErrorsAsBind: true, ZeroOf: map[string]string{"StatusError": "({} : AzStatusError)"}},
		{File: "pkg/op/server.go", Name: "Redirect.writeOut", Lean: "RedirectWriteOut", Params: []string{"(red : Redirect)"}, Ret: RetWrites, Rename: ren, Ignore: []string{"gu.MapMerge"}},
		{File: "pkg/op/server_http.go", Name: "webServer.authorizeHandler", Lean: "WebAuthorizeHandler",
			Params: []string{pO, pD, "(s : AzWebServer)", "(r : AzHttpReq)"}, Ret: RetWrites, Rename: ren},
	}
	// op.Authorize: the validation closure assigns to the captured variable `client` (CaptureOut): the Lean lambda returns the
	// variable's final value next to its result, the call binds it again
	fs = append(fs, FuncSpec{File: ar, Name: "Authorize", Lean: "Authorize", Params: []string{pO, pD, "(r : AzHttpReq)", "(authorizer : AzProvider)"},
		Ret: RetWrites, Closures: true, CaptureOut: "client", CaptureType: "OPClient", ZeroOf: map[string]string{"Client": "(default : OPClient)"},
		TypeAsserts: map[string]string{"AuthorizeValidator": "Hand.asAuthorizeValidator"},
		Rename: renWith(ren, map[string]string{"validator.ValidateAuthRequest": "(Hand.azCustomValidation validator client)", "validation()": "validation", "ValidateAuthRequestClient()": "ValidateAuthRequestClient now o d",
			"ParseRequestObject()": "(d).ParseRequestObject"})})
	for i := range fs {
		fs[i].AutoTypes = azAutoTypes
	}
	return fs
}

func renWith(base, extra map[string]string) map[string]string {
	m := map[string]string{}
	for k, v := range base {
		m[k] = v
	}
	for k, v := range extra {
		m[k] = v
	}
	return m
}

// AuthResponseFormPost (round 3): the response writer is threaded as the list of writes; executing the html/template is an ORACLE
// (`AzFormTemplate`: which action attribute the rendered page carries), so the URL filter of html/template is visible to the theorems
func formPostSpec() FuncSpec {
	const ar = "pkg/op/auth_request.go"
	ren := azRename
	return FuncSpec{File: ar, Name: "AuthResponseFormPost", Lean: "AuthResponseFormPost",
		Params: []string{"(tm : AzFormTemplate)", "(res : List Write)", "(redirectURI : String)", "(response : RespParams)", "(encoder : Encoder)"},
		Ret:    RetErr, Writer: "res", WorldType: "List Write", Rename: renWith(ren, map[string]string{
			"<*ast.StructType>{}": "Hand.formPostParams", "formPostTmpl": "tm", "res.WriteHeader()": "Hand.resWriteHeader res", "buf.WriteTo()": "Hand.bufWriteTo buf",
		}),
		MakeMapZero: "({} : RespParams)",
		Effectful:   []string{"res.WriteHeader"},
		Imperative:  true, LocalOut: map[string]OutParam{"encoder.Encode": {1, false}, "formPostTmpl.Execute": {0, false}},
		Ignore: []string{"res.Header().Set"}}
}
