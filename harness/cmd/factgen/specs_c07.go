package main

// C07 (shared with C04): the WIRE level of the token endpoint of both routers - grant dispatch, client extraction, the
// registered-grant check of the Server router, request decoding - regenerated into Generated/TokenWire.lean (namespace GenTok) on
// the request record of Model/C07WireTypes.lean, which says WHERE every parameter travels (`r.Form` = body pairs then query pairs,
// `r.PostForm` = body pairs).  The typed decision functions behind them (Gen.LegacyVerifyClient, Gen.LegacyRefreshToken,
// Gen.ValidateRefreshTokenRequest, ...) are those of specs.go; the seams are Hand.tok* of Model/C07WireHand.lean.

const (
	tkO = "(o : TokOracles)"
	tkR = "(r : TokRequest)"
	tkX = "(exchanger : TokExchanger)"
	tkS = "(s : TokWebServer)"
	tkC = "(client : OPClient)"
)

func init() {
	rename := map[string]string{
		"url.QueryUnescape()":       "(o).unescape",
		"unimplementedGrantError()": "Hand.unimplementedGrantError",
		"decodeRequest()":           "decodeRequest now",
		"newClientRequest()":        "Hand.tokNewClientRequest",
	}
	pWriters := func(extra map[string]string) map[string]string {
		m := map[string]string{"RequestError": "Hand.tokError now", "httphelper.MarshalJSON": "TokResp.issue"}
		for k, v := range extra {
			m[k] = v
		}
		return m
	}
	lWriters := func(extra map[string]string) map[string]string {
		m := map[string]string{"WriteError": "Hand.tokError now", "resp.writeOut": "TokResp.issue resp"}
		for k, v := range extra {
			m[k] = v
		}
		return m
	}
	pDrop := []string{"w", "exchanger.Logger()"}
	lDrop := []string{"w", "s.getLogger()"}
	fs := []FuncSpec{
		// ---- Provider router (pkg/op/token_request.go, token_refresh.go, token_code.go)
		{File: "pkg/op/token_request.go", Name: "ParseAuthenticatedTokenRequest", Lean: "ParseAuthenticatedTokenRequest",
			Params: []string{tkO, tkR, "(decoder : TokDecoder)", "(request : TokForm)"}, Ret: RetErr, RetParam: "request", RetType: "TokForm",
			OutParams: map[string]OutParam{"decoder.Decode": {0, false}}},
		{File: "pkg/op/token_refresh.go", Name: "ParseRefreshTokenRequest", Lean: "ParseRefreshTokenRequest", Params: []string{tkO, tkR, "(decoder : TokDecoder)"}, Ret: RetValErr, RetType: "TokForm",
			OutParams: map[string]OutParam{"ParseAuthenticatedTokenRequest": {2, true}},
			Rename:    map[string]string{"ParseAuthenticatedTokenRequest()": "ParseAuthenticatedTokenRequest now o", "new(oidc.RefreshTokenRequest)": "(default : TokForm)"}},
		{File: "pkg/op/token_refresh.go", Name: "RefreshTokenExchange", Lean: "RefreshTokenExchange", Params: []string{tkO, tkR, tkX}, Ret: RetResp, RetType: "TokResp",
			DropArgs: pDrop, Writers: pWriters(nil),
			Rename: map[string]string{"ParseRefreshTokenRequest()": "ParseRefreshTokenRequest now o", "ValidateRefreshTokenRequest()": "Hand.tokValidateRefreshTokenRequest now o",
				"CreateTokenResponse()": "Hand.tokIssueForRefresh now"}},
		{File: "pkg/op/token_code.go", Name: "ParseAccessTokenRequest", Lean: "ParseAccessTokenRequest", Params: []string{tkO, tkR, "(decoder : TokDecoder)"}, Ret: RetValErr, RetType: "TokForm",
			OutParams: map[string]OutParam{"ParseAuthenticatedTokenRequest": {2, true}},
			Rename:    map[string]string{"ParseAuthenticatedTokenRequest()": "ParseAuthenticatedTokenRequest now o", "new(oidc.AccessTokenRequest)": "(default : TokForm)"}},
		{File: "pkg/op/token_code.go", Name: "CodeExchange", Lean: "CodeExchange", Params: []string{tkO, tkR, tkX}, Ret: RetResp, RetType: "TokResp",
			DropArgs: pDrop, Writers: pWriters(nil),
			Rename: map[string]string{"ParseAccessTokenRequest()": "ParseAccessTokenRequest now o", "ValidateAccessTokenRequest()": "Hand.tokValidateAccessTokenRequest now o",
				"CreateTokenResponse()": "Hand.tokIssueForCode now"}},
		{File: "pkg/op/token_request.go", Name: "Exchange", Lean: "Exchange", Params: []string{tkO, tkR, tkX}, Ret: RetResp, RetType: "TokResp",
			DropArgs: pDrop,
			Writers: map[string]string{"RequestError": "Hand.tokError now", "CodeExchange": "CodeExchange now o", "RefreshTokenExchange": "RefreshTokenExchange now o",
				"JWTProfile": "Hand.tokOther \"JWTProfile\"", "TokenExchange": "Hand.tokOther \"TokenExchange\"",
				"ClientCredentialsExchange": "Hand.tokOther \"ClientCredentialsExchange\"", "DeviceAccessToken": "Hand.tokOther \"DeviceAccessToken\""}},

		// ---- Server router (pkg/op/server_http.go)
		{File: "pkg/op/server_http.go", Name: "decodeRequest", Lean: "decodeRequest", Params: []string{"(decoder : TokDecoder)", tkR, "(postOnly : Bool)"}, Ret: RetValErr, RetType: "TokForm",
			OutParams: map[string]OutParam{"decoder.Decode": {0, false}}},
		{File: "pkg/op/server_http.go", Name: "webServer.parseClientCredentials", Lean: "parseClientCredentials", Params: []string{tkO, tkS, tkR}, Ret: RetValErr, RetType: "TokForm",
			OutParams: map[string]OutParam{"s.decoder.Decode": {0, false}}},
		{File: "pkg/op/server_http.go", Name: "webServer.verifyRequestClient", Lean: "verifyRequestClient", Params: []string{tkO, tkS, tkR}, Ret: RetValErr, RetType: "OPClient",
			StructLits: map[string]StructLit{"Request{}": {Lean: "TokVerifyRequest", Keep: []string{"Form", "Data"}}},
			Rename:     map[string]string{"s.parseClientCredentials()": "parseClientCredentials now o s", "s.server.VerifyClient()": "Hand.tokVerifyClient now o (s).server"}},
		{File: "pkg/op/server_http.go", Name: "webServer.withClient", Lean: "withClient", Params: []string{tkO, tkS, "(handler : TokRequest → OPClient → TokResp)", tkR}, Ret: RetResp, RetType: "TokResp",
			DropArgs: lDrop, Writers: lWriters(map[string]string{"handler": "handler"}),
			Rename: map[string]string{"s.verifyRequestClient()": "verifyRequestClient now o s"}},
		{File: "pkg/op/server_http.go", Name: "webServer.codeExchangeHandler", Lean: "codeExchangeHandler", Params: []string{tkO, tkS, tkR, tkC}, Ret: RetResp, RetType: "TokResp",
			DropArgs: lDrop, Writers: lWriters(nil), Rename: map[string]string{"s.server.CodeExchange()": "Hand.tokLegacyCodeExchange now o (s).server"}},
		{File: "pkg/op/server_http.go", Name: "webServer.refreshTokenHandler", Lean: "refreshTokenHandler", Params: []string{tkO, tkS, tkR, tkC}, Ret: RetResp, RetType: "TokResp",
			DropArgs: lDrop, Writers: lWriters(nil), Rename: map[string]string{"s.server.RefreshToken()": "Hand.tokLegacyRefreshToken now o (s).server"}},
		{File: "pkg/op/server_http.go", Name: "webServer.tokensHandler", Lean: "tokensHandler", Params: []string{tkO, tkS, tkR}, Ret: RetResp, RetType: "TokResp",
			DropArgs: lDrop,
			Writers:  lWriters(map[string]string{"s.withClient()": "withClient now o s", "s.jwtProfileHandler": "Hand.tokOther \"jwtProfileHandler\" s"}),
			Rename: map[string]string{"s.codeExchangeHandler": "(codeExchangeHandler now o s)", "s.refreshTokenHandler": "(refreshTokenHandler now o s)",
				"s.clientCredentialsHandler": "(Hand.tokOtherHandler \"clientCredentialsHandler\")", "s.tokenExchangeHandler": "(Hand.tokOtherHandler \"tokenExchangeHandler\")",
				"s.deviceTokenHandler": "(Hand.tokOtherHandler \"deviceTokenHandler\")"}},
	}
	for i := range fs {
		f := &fs[i]
		// the style flags of the endpoint layer (C05 / C08): the Go functions are the same ones
		f.PlainUpdate, f.LetIf = true, true
		f.TupleAssign, f.ErrNilFirst, f.ErrElse, f.NestedUpdate = true, true, true, true
		f.TupleInit, f.ErrNilConst, f.HandlerEnd = true, true, true
		if f.Rename == nil {
			f.Rename = map[string]string{}
		}
		for k, v := range rename {
			if _, own := f.Rename[k]; !own {
				f.Rename[k] = v
			}
		}
	}
	extraGroups = append(extraGroups, Group{
		Out: "TokenWire.lean", NS: "GenTok",
		Imports: []string{"OidcModel.Model.C07WireHand"},
		Opens:   []string{"Go", "Hand", "Const", "Gen"},
		Funcs:   fs,
	})
}
