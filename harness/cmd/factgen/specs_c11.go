package main

func init() {
	extraGroups = append(extraGroups, []Group{
		{
			// C11: how an authorization response is put on the wire
			Out:     "AuthResponse.lean",
			NS:      "GenWire", // the byte-level model of the same functions the C03 slice models abstractly (Generated/Authorize.lean)
			Imports: []string{"OidcModel.Model.AuthResponse"},
			Opens:   []string{"Go"},
			Funcs: []FuncSpec{
				{File: "pkg/op/auth_request.go", Name: "setFragment", Lean: "setFragment",
					Params: []string{"(uri : AR.URL)", "(params : AR.Values)"}, Ret: RetVal, PlainUpdate: true, LoopStyle: "fold", RetType: "AR.Bytes",
					Rename: map[string]string{"uri.String()": "(uri).String", "url.PathUnescape()": "AR.PathUnescape"}},
				{File: "pkg/op/auth_request.go", Name: "mergeQueryParams", Lean: "mergeQueryParams",
					Params: []string{"(uri : AR.URL)", "(params : AR.Values)"}, Ret: RetVal, PlainUpdate: true, LoopStyle: "fold", RetType: "AR.Bytes",
					Rename: map[string]string{"uri.String()": "(uri).String"}},
				{File: "pkg/op/auth_request.go", Name: "AuthResponseURL", Lean: "AuthResponseURL",
					Params: []string{"(urlParse : AR.Bytes → Go.R AR.URL)", "(redirectURI : AR.Bytes)", "(responseType responseMode : String)", "(response : AR.Values)", "(encoder : Unit)"},
					Ret:    RetValErr, PlainUpdate: true, LoopStyle: "fold", RetType: "AR.Bytes",
					Rename: map[string]string{"url.Parse()": "urlParse", "httphelper.URLEncodeParams()": "AR.URLEncodeParams",
						"oidc.ResponseModeQuery": "AR.ResponseModeQuery", "oidc.ResponseModeFragment": "AR.ResponseModeFragment",
						"oidc.ResponseTypeIDToken": "AR.ResponseTypeIDToken", "oidc.ResponseTypeIDTokenOnly": "AR.ResponseTypeIDTokenOnly"}},
			},
			Extra: c11Facts,
		},
	}...)
}
