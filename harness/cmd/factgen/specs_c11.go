package main

func init() {
	extraGroups = append(extraGroups, []Group{
		{
			// C11: how an authorization response is put on the wire
			Out:     "AuthResponse.lean",
			NS:      "GenWire", // the byte-level model of the same functions the C03 slice models abstractly (Generated/Authorize.lean)
			Imports: []string{"OidcModel.Model.AuthResponse", "OidcModel.Model.FormPost"},
			Opens:   []string{"Go"},
			Funcs: []FuncSpec{
				{File: "pkg/op/auth_request.go", Name: "setFragment", Lean: "setFragment",
					Params: []string{"(uri : AR.URL)", "(params : AR.Values)"}, Ret: RetVal, PlainUpdate: true, LoopStyle: "fold", RetType: "AR.Bytes",
					Rename: map[string]string{"uri.String()": "(uri).String", "url.PathUnescape()": "AR.PathUnescape"}},
				{File: "pkg/op/auth_request.go", Name: "mergeQueryParams", Lean: "mergeQueryParams",
					Params: []string{"(uri : AR.URL)", "(params : AR.Values)"}, Ret: RetVal, PlainUpdate: true, LoopStyle: "fold", RetType: "AR.Bytes",
					Rename: map[string]string{"uri.String()": "(uri).String"}},
				{File: "pkg/op/auth_request.go", Name: "AuthResponseURL", Lean: "AuthResponseURL",
					Params: []string{"(urlParse : AR.Bytes → Go.R AR.URL)", "(redirectURI : AR.Bytes)", "(responseType responseMode : String)", "(response : AR.Values)", "(encoder : Unit)"},
					Ret:    RetValErr, PlainUpdate: true, LoopStyle: "fold", RetType: "AR.Bytes",
					Rename: map[string]string{"url.Parse()": "urlParse", "httphelper.URLEncodeParams()": "AR.URLEncodeParams",
						"oidc.ResponseModeQuery": "AR.ResponseModeQuery", "oidc.ResponseModeFragment": "AR.ResponseModeFragment",
						"oidc.ResponseTypeIDToken": "AR.ResponseTypeIDToken", "oidc.ResponseTypeIDTokenOnly": "AR.ResponseTypeIDTokenOnly"}},
			},
			Extra: c11Facts,
		},
		{
			// C11, the error side: how the description / state of an error answer come about before they are put on the wire
			Out:     "AuthError.lean",
			NS:      "GenErr",
			Imports: []string{"OidcModel.Model.AuthError", "OidcModel.Model.ErrPar", "OidcModel.Generated.AuthResponse"},
			Opens:   []string{"Go", "AR.Err"},
			Funcs: []FuncSpec{
				{File: "pkg/oidc/error.go", Name: "Error.WithDescription", Lean: "WithDescription",
					Params: []string{"(e : AR.OidcError)", "(desc : AR.Bytes)", "(args : List AR.FmtArg := [])"}, Ret: RetVal, RetType: "AR.OidcError", PlainUpdate: true,
					Rename: map[string]string{"fmt.Sprintf()": "AR.Sprintf"}},
				{File: "pkg/oidc/error.go", Name: "DefaultToServerError", Lean: "DefaultToServerError",
					Params: []string{"(err : AR.GoErr)", "(description : AR.Bytes)"}, Ret: RetVal, RetType: "AR.OidcError", PlainUpdate: true, ErrStruct: true, ErrorsAsBind: true,
					ZeroOf: map[string]string{"*Error": "(default : AR.OidcError)"},
					Rename: map[string]string{"new(Error)": "(default : AR.OidcError)", "errors.As()": "AR.errorsAs", "ServerError": "AR.ServerError",
						"ErrServerError()": "AR.ErrServerError", ".WithDescription()": "WithDescription now", ".WithParent()": "AR.OidcError.WithParent"}},
				{File: "pkg/op/error.go", Name: "AuthRequestError", Lean: "AuthRequestError",
					Params: []string{"(urlParse : AR.Bytes → Go.R AR.URL)", "(authReq : AR.ErrReq)", "(err : AR.GoErr)", "(authorizer : AR.ErrAuthorizer)"}, Ret: RetWrites,
					Rename: c11ErrRename},
				{File: "pkg/op/error.go", Name: "TryErrorRedirect", Lean: "TryErrorRedirect",
					Params: []string{"(urlParse : AR.Bytes → Go.R AR.URL)", "(authReq : AR.ErrReq)", "(parent : AR.GoErr)", "(encoder : Unit)", "(logger : Unit)"}, Ret: RetValErr, RetType: "AR.Redirect",
					Rename: c11ErrRename},
			},
			Extra: func(g *genCtx) string { return c11SharedErrors(g) + c11ErrPrograms(g) },
		},
		{
			// C11: the same two statement lists once more in a file of their own that imports no translated function, so that a
			// change factgen's function translator cannot follow (a new helper) still leaves the theorem about the LISTS standing
			// and failing by name (Proofs/C11ErrVal.lean: c11_error_only_request_fields_written)
			Out:     "AuthErrorProg.lean",
			NS:      "GenErrProg",
			Imports: []string{"OidcModel.Model.ErrPar"},
			Extra:   func(g *genCtx) string { return c11ErrPrograms(g) },
		},
	}...)
}

var c11ErrRename = map[string]string{
	"http.StatusBadRequest": "(400 : Int)", "http.StatusFound": "(302 : Int)",
	"http.Error()": "AR.httpError", "http.Redirect()": "AR.httpRedirect",
	"err.Error()": "(AR.errText err)", "parent.Error()": "(AR.errText parent)",
	"AuthResponseURL()": "GenWire.AuthResponseURL now urlParse", "AsStatusError()": "AR.AsStatusError", "NewRedirect()": "AR.NewRedirect",
}
