package main

func init() {
	extraGroups = append(extraGroups, []Group{
		{
			// C16: device authorization grant (both routers)
			Out:     "Device.lean",
			Imports: []string{"OidcModel.Model.Device", "OidcModel.Generated.TokenEndpoint"},
			Opens:   []string{"Go", "Hand", "Const"},
			Funcs: []FuncSpec{
				{File: "pkg/op/storage.go", Name: "assertDeviceStorage", Lean: "assertDeviceStorage",
					Params: []string{"(s : DevStore)"}, Ret: RetValErr, PlainUpdate: true, RetType: "DevStore"},
				{File: "pkg/op/device.go", Name: "CheckDeviceAuthorizationState", Lean: "CheckDeviceAuthorizationState",
					Params: []string{"(clientID deviceCode : String)", "(exchanger : DevProvider)"}, Ret: RetValErr, PlainUpdate: true, RetType: "DeviceAuthorizationState", ErrWins: true},
				{File: "pkg/op/device.go", Name: "ParseDeviceAccessTokenRequest", Lean: "ParseDeviceAccessTokenRequest",
					Params: []string{"(r : DevHttpRequest)", "(exchanger : DevProvider)"}, Ret: RetValErr, PlainUpdate: true, RetType: "DevFormData"},
				{File: "pkg/op/device.go", Name: "deviceAccessToken", Lean: "deviceAccessToken",
					Params: []string{"(r : DevHttpRequest)", "(exchanger : DevProvider)"}, Ret: RetErr, PlainUpdate: true, RetParam: "written", RetType: "DevIssue",
					Rename: map[string]string{"CreateDeviceTokenResponse()": "Hand.issueForDevice now", "ClientIDFromRequest()": "Hand.ClientIDFromRequest now"}},
				{File: "pkg/op/server_legacy.go", Name: "LegacyServer.DeviceToken", Lean: "LegacyDeviceToken",
					Params: []string{"(s : DevLegacyServer)", "(r : ClientRequest DevFormData)"}, Ret: RetValErr, PlainUpdate: true, RetType: "DevIssue",
					Rename: map[string]string{"CreateDeviceTokenResponse()": "Hand.issueForDevice now", "unimplementedGrantError()": "Hand.unimplementedGrantError"}},
				{File: "pkg/op/device.go", Name: "ParseDeviceCodeRequest", Lean: "ParseDeviceCodeRequest",
					Params: []string{"(r : DevHttpRequest)", "(o : DevProvider)"}, Ret: RetValErr, PlainUpdate: true, RetType: "DevFormData",
					Rename: map[string]string{"ClientIDFromRequest()": "Hand.ClientIDFromRequest now"}},
				{File: "pkg/op/device.go", Name: "DeviceAuthorization", Lean: "DeviceAuthorization",
					Params: []string{"(r : DevHttpRequest)", "(o : DevProvider)"}, Ret: RetErr, PlainUpdate: true, RetParam: "written", RetType: "DeviceAuthorizationResponse",
					Rename: map[string]string{"createDeviceAuthorization()": "Hand.createDeviceAuthorization now"}},
				{File: "pkg/op/server_legacy.go", Name: "LegacyServer.DeviceAuthorization", Lean: "LegacyDeviceAuthorization",
					Params: []string{"(s : DevLegacyServer)", "(r : ClientRequest DevFormData)"}, Ret: RetValErr, PlainUpdate: true, RetType: "DeviceAuthorizationResponse",
					Rename: map[string]string{"createDeviceAuthorization()": "Hand.createDeviceAuthorization now", "AsStatusError()": "Hand.asStatusError",
						"http.StatusInternalServerError": "(500 : Int)"}},
			},
		},
	}...)
}
