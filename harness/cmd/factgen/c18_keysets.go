package main

// C18 (logout: "a hint validly signed BY THE OP"): which key set does each verifier of the provider use under
// which option combination.  Read off pkg/op/op.go on every run, emitted as DATA (Generated/SessionKeys.lean,
// namespace GenSessKeys); the semantics (what a provider constructed with a list of options ends up with) is the
// interpreter `SessKeys.run` in Model/SessionKeys.lean, the claim is `C18.c18_hint_keyset` (Proofs/C18.lean).
//
//   keySetFields               fields of `Provider` of type `oidc.KeySet`
//   newProvider_keysets        what `NewProvider` does to those fields, in source order: locals bound to the
//                              storage-backed key set (`&OpenIDKeySet{storage}`), the fields of the `&Provider{…}`
//                              literal (an absent field is nil), the loop that applies the options, assignments
//                              `o.f = e` and defaults `if o.c == nil { o.f = e }` before or after that loop
//   optionEffects              per option function (`func WithX(p T) Option { return func(o *Provider) error {…} }`)
//                              that touches such a field: its assignments
//   verifierKeySets            per `Provider` method returning `New…Verifier(…, o.<field>, …)`: the field it hands over
//   openIDKeySet_storageCalls  the storage methods `OpenIDKeySet.VerifySignature` takes its keys from
//
// Anything that touches a key-set field and is not of these shapes comes out as UNSUPPORTED_… (the build breaks).

import (
	"fmt"
	"go/ast"
	"go/token"
	"sort"
	"strings"
)

func init() {
	extraGroups = append(extraGroups, Group{
		Out:     "SessionKeys.lean",
		NS:      "GenSessKeys",
		Imports: []string{"OidcModel.Model.SessionKeys"},
		Opens:   []string{"SessKeys"},
		Extra:   c18KeySets,
	})
}

type ksX struct {
	g       *genCtx
	tracked map[string]bool // key-set fields of Provider
	locals  map[string]bool // locals of the function under translation that hold a key set
	recv    string          // the variable that is the provider
	storage string          // NewProvider's storage parameter
	arg     string          // the option function's parameter ("" in NewProvider)
	bad     []string
}

func (x *ksX) unsupported(what string, n ast.Node) string {
	msg := fmt.Sprintf("%s: %s (%s)", what, strings.Join(strings.Fields(goSrc(x.g.fset, n)), " "), relPath(x.g.fset.Position(n.Pos()).String()))
	x.bad = append(x.bad, msg)
	return "UNSUPPORTED_" + strings.Map(func(r rune) rune {
		if r >= 'a' && r <= 'z' || r >= 'A' && r <= 'Z' || r >= '0' && r <= '9' {
			return r
		}
		return '_'
	}, what)
}

// mentions: does the node refer to a key-set field, a key-set local or the storage-backed key-set type
func (x *ksX) mentions(n ast.Node) bool {
	hit := false
	ast.Inspect(n, func(m ast.Node) bool {
		switch e := m.(type) {
		case *ast.SelectorExpr:
			if x.tracked[e.Sel.Name] {
				hit = true
			}
		case *ast.KeyValueExpr:
			if id, ok := e.Key.(*ast.Ident); ok && x.tracked[id.Name] {
				hit = true
			}
		case *ast.Ident:
			if x.locals[e.Name] || e.Name == "OpenIDKeySet" {
				hit = true
			}
		}
		return !hit
	})
	return hit
}

// isStorageKeySet: `&OpenIDKeySet{storage}` / `&OpenIDKeySet{Storage: storage}`
func (x *ksX) isStorageKeySet(e ast.Expr) bool {
	if u, ok := e.(*ast.UnaryExpr); ok && u.Op == token.AND {
		e = u.X
	}
	cl, ok := e.(*ast.CompositeLit)
	if !ok || exprString(cl.Type) != "OpenIDKeySet" || len(cl.Elts) != 1 {
		return false
	}
	el := cl.Elts[0]
	if kv, ok := el.(*ast.KeyValueExpr); ok {
		if exprString(kv.Key) != "Storage" {
			return false
		}
		el = kv.Value
	}
	return x.storage != "" && exprString(el) == x.storage
}

func (x *ksX) expr(e ast.Expr) string {
	if p, ok := e.(*ast.ParenExpr); ok {
		return x.expr(p.X)
	}
	if x.isStorageKeySet(e) {
		return "Expr.storage"
	}
	switch v := e.(type) {
	case *ast.Ident:
		switch {
		case v.Name == "nil":
			return "Expr.nil"
		case x.arg != "" && v.Name == x.arg:
			return "Expr.arg"
		case x.locals[v.Name]:
			return "(Expr.var " + leanStr(v.Name) + ")"
		}
	case *ast.SelectorExpr:
		if exprString(v.X) == x.recv && x.tracked[v.Sel.Name] {
			return "(Expr.field " + leanStr(v.Sel.Name) + ")"
		}
	}
	return x.unsupported("key-set expression", e)
}

// trackedField: `o.f` with f a key-set field
func (x *ksX) trackedField(e ast.Expr) (string, bool) {
	s, ok := e.(*ast.SelectorExpr)
	if !ok || exprString(s.X) != x.recv || !x.tracked[s.Sel.Name] {
		return "", false
	}
	return s.Sel.Name, true
}

// fieldAssign: `o.f = e`
func (x *ksX) fieldAssign(s ast.Stmt) (f, e string, ok bool) {
	as, isAs := s.(*ast.AssignStmt)
	if !isAs || as.Tok != token.ASSIGN || len(as.Lhs) != 1 || len(as.Rhs) != 1 {
		return "", "", false
	}
	f, ok = x.trackedField(as.Lhs[0])
	if !ok {
		return "", "", false
	}
	return f, x.expr(as.Rhs[0]), true
}

// stmts translates a statement list; `optsParam` is the variadic option parameter ("" inside an option function)
func (x *ksX) stmts(list []ast.Stmt, optsParam string) []string {
	var out []string
	for _, s := range list {
		switch st := s.(type) {
		case *ast.AssignStmt:
			if f, e, ok := x.fieldAssign(st); ok {
				out = append(out, fmt.Sprintf("Step.set %s %s", leanStr(f), e))
				continue
			}
			if st.Tok == token.DEFINE && len(st.Lhs) == 1 && len(st.Rhs) == 1 {
				name := exprString(st.Lhs[0])
				rhs := st.Rhs[0]
				if u, ok := rhs.(*ast.UnaryExpr); ok && u.Op == token.AND {
					rhs = u.X
				}
				if cl, ok := rhs.(*ast.CompositeLit); ok && exprString(cl.Type) == "Provider" && optsParam != "" {
					// o := &Provider{…}: every key-set field is set, an absent one to nil
					x.recv = name
					given := map[string]string{}
					for _, el := range cl.Elts {
						kv, ok := el.(*ast.KeyValueExpr)
						if !ok {
							out = append(out, "Step.set \"?\" "+x.unsupported("positional Provider literal", el))
							continue
						}
						if k := exprString(kv.Key); x.tracked[k] {
							given[k] = x.expr(kv.Value)
						}
					}
					fields := make([]string, 0, len(x.tracked))
					for f := range x.tracked {
						fields = append(fields, f)
					}
					sort.Strings(fields)
					for _, f := range fields {
						e, ok := given[f]
						if !ok {
							e = "Expr.nil"
						}
						out = append(out, fmt.Sprintf("Step.set %s %s", leanStr(f), e))
					}
					continue
				}
				if x.mentions(st.Rhs[0]) {
					e := x.expr(st.Rhs[0])
					x.locals[name] = true
					out = append(out, fmt.Sprintf("Step.bind %s %s", leanStr(name), e))
					continue
				}
				if x.locals[name] { // a key-set local is redefined with something else
					out = append(out, "Step.bind "+leanStr(name)+" "+x.unsupported("key-set local redefined", st))
				}
				continue
			}
			if x.mentions(st) {
				out = append(out, "Step.set \"?\" "+x.unsupported("assignment touching a key set", st))
			}
		case *ast.RangeStmt:
			if optsParam != "" && exprString(st.X) == optsParam && st.Value != nil {
				// for _, optFunc := range opOpts { if err := optFunc(o); err != nil { return nil, err } }
				v, applied := exprString(st.Value), false
				ast.Inspect(st.Body, func(m ast.Node) bool {
					if c, ok := m.(*ast.CallExpr); ok && exprString(c.Fun) == v && len(c.Args) == 1 && exprString(c.Args[0]) == x.recv {
						applied = true
					}
					return true
				})
				if applied && !x.mentions(st.Body) {
					out = append(out, "Step.applyOptions")
					continue
				}
				out = append(out, "Step.set \"?\" "+x.unsupported("option loop left the recognised shape", st))
				continue
			}
			if x.mentions(st) {
				out = append(out, "Step.set \"?\" "+x.unsupported("loop touching a key set", st))
			}
		case *ast.IfStmt:
			if !x.mentions(st) {
				continue
			}
			// if o.c == nil { o.f = e }
			if b, ok := st.Cond.(*ast.BinaryExpr); ok && st.Init == nil && st.Else == nil && b.Op == token.EQL && exprString(b.Y) == "nil" && len(st.Body.List) == 1 {
				if c, ok := x.trackedField(b.X); ok {
					if f, e, ok := x.fieldAssign(st.Body.List[0]); ok {
						out = append(out, fmt.Sprintf("Step.setIfNil %s %s %s", leanStr(c), leanStr(f), e))
						continue
					}
				}
			}
			out = append(out, "Step.set \"?\" "+x.unsupported("conditional touching a key set", st))
		case *ast.ReturnStmt:
			if x.mentions(st) {
				out = append(out, "Step.set \"?\" "+x.unsupported("return touching a key set", st))
			}
		default:
			if x.mentions(s) {
				out = append(out, "Step.set \"?\" "+x.unsupported("statement touching a key set", s))
			}
		}
	}
	return out
}

func ksLeanList(items []string, indent string) string {
	if len(items) == 0 {
		return "[]"
	}
	return "[\n" + indent + strings.Join(items, ",\n"+indent) + "]"
}

func c18KeySets(g *genCtx) string {
	const file = "pkg/op/op.go"
	var b strings.Builder
	fail := func(name, ty, why string) string {
		g.unsup["c18_keysets"] = append(g.unsup["c18_keysets"], why)
		return fmt.Sprintf("def %s : %s := UNSUPPORTED_%s\n", name, ty, strings.ReplaceAll(why, " ", "_"))
	}
	f := g.file(file)
	if f == nil {
		return fail("newProvider_keysets", "List Step", "no file")
	}
	x := &ksX{g: g, tracked: map[string]bool{}, locals: map[string]bool{}}
	// ---- the key-set fields of Provider
	var fields []string
	for _, d := range f.Decls {
		gd, ok := d.(*ast.GenDecl)
		if !ok || gd.Tok != token.TYPE {
			continue
		}
		for _, sp := range gd.Specs {
			ts := sp.(*ast.TypeSpec)
			st, ok := ts.Type.(*ast.StructType)
			if !ok || ts.Name.Name != "Provider" {
				continue
			}
			for _, fl := range st.Fields.List {
				if exprString(fl.Type) == "oidc.KeySet" {
					for _, n := range fl.Names {
						x.tracked[n.Name] = true
						fields = append(fields, n.Name)
					}
				}
			}
		}
	}
	if len(fields) == 0 {
		return fail("keySetFields", "List String", "Provider has no oidc.KeySet field")
	}
	b.WriteString("/-- the fields of `op.Provider` of type `oidc.KeySet` -/\ndef keySetFields : List String := " + leanStrList(fields) + "\n\n")

	// ---- NewProvider
	np := g.findFunc(file, "NewProvider")
	if np == nil {
		return b.String() + fail("newProvider_keysets", "List Step", "NewProvider not found")
	}
	optsParam := ""
	for _, p := range np.Type.Params.List {
		switch t := p.Type.(type) {
		case *ast.Ellipsis:
			if exprString(t.Elt) == "Option" && len(p.Names) == 1 {
				optsParam = p.Names[0].Name
			}
		default:
			if exprString(p.Type) == "Storage" && len(p.Names) == 1 {
				x.storage = p.Names[0].Name
			}
		}
	}
	if optsParam == "" || x.storage == "" {
		return b.String() + fail("newProvider_keysets", "List Step", "NewProvider parameters left the recognised shape")
	}
	steps := x.stmts(np.Body.List, optsParam)
	hasLoop := false
	for _, s := range steps {
		if s == "Step.applyOptions" {
			hasLoop = true
		}
	}
	if !hasLoop {
		steps = append(steps, "Step.set \"?\" "+x.unsupported("NewProvider does not apply its options", np.Type))
	}
	fmt.Fprintf(&b, "/-- extracted from %s:%d `NewProvider`: what happens to the key-set fields, in source order -/\ndef newProvider_keysets : List Step := %s\n\n",
		file, g.fset.Position(np.Pos()).Line, ksLeanList(steps, "  "))
	g.facts["c18_newProvider_keysets"] = steps

	// ---- option functions
	var effects []string
	factEffects := map[string][]string{}
	for _, d := range f.Decls {
		fd, ok := d.(*ast.FuncDecl)
		if !ok || fd.Recv != nil || fd.Body == nil || fd.Type.Results == nil || len(fd.Type.Results.List) != 1 || exprString(fd.Type.Results.List[0].Type) != "Option" {
			continue
		}
		y := &ksX{g: g, tracked: x.tracked, locals: map[string]bool{}}
		if !y.mentions(fd.Body) {
			continue
		}
		var st []string
		var lit *ast.FuncLit
		if len(fd.Body.List) == 1 {
			if r, ok := fd.Body.List[0].(*ast.ReturnStmt); ok && len(r.Results) == 1 {
				lit, _ = r.Results[0].(*ast.FuncLit)
			}
		}
		nparams := 0
		for _, p := range fd.Type.Params.List {
			nparams += len(p.Names)
			if len(p.Names) == 1 {
				y.arg = p.Names[0].Name
			}
		}
		if lit == nil || nparams != 1 || len(lit.Type.Params.List) != 1 || len(lit.Type.Params.List[0].Names) != 1 {
			st = []string{"Step.set \"?\" " + y.unsupported("option function left the recognised shape", fd.Type)}
		} else {
			y.recv = lit.Type.Params.List[0].Names[0].Name
			st = y.stmts(lit.Body.List, "")
		}
		x.bad = append(x.bad, y.bad...)
		effects = append(effects, fmt.Sprintf("(%s, %s)", leanStr(fd.Name.Name), ksLeanList(st, "    ")))
		factEffects[fd.Name.Name] = st
	}
	fmt.Fprintf(&b, "/-- extracted from %s: the option functions that touch a key-set field, with what they do to the provider (`Expr.arg` = their parameter) -/\ndef optionEffects : List (String × List Step) := %s\n\n",
		file, ksLeanList(effects, "  "))
	g.facts["c18_optionEffects"] = factEffects

	// ---- verifier getters: Provider methods returning New…Verifier(…, o.<key-set field>, …)
	var getters []string
	factGetters := map[string]string{}
	for _, d := range f.Decls {
		fd, ok := d.(*ast.FuncDecl)
		if !ok || fd.Recv == nil || fd.Body == nil || len(fd.Recv.List) != 1 || strings.TrimPrefix(exprString(fd.Recv.List[0].Type), "*") != "Provider" {
			continue
		}
		y := &ksX{g: g, tracked: x.tracked, locals: map[string]bool{}}
		if len(fd.Recv.List[0].Names) == 1 {
			y.recv = fd.Recv.List[0].Names[0].Name
		}
		if !y.mentions(fd.Body) {
			continue
		}
		e := ""
		if len(fd.Body.List) == 1 {
			if r, ok := fd.Body.List[0].(*ast.ReturnStmt); ok && len(r.Results) == 1 {
				if c, ok := r.Results[0].(*ast.CallExpr); ok && strings.HasPrefix(exprString(c.Fun), "New") && strings.HasSuffix(exprString(c.Fun), "Verifier") {
					n := 0
					for _, a := range c.Args {
						if y.mentions(a) {
							e = y.expr(a)
							n++
						}
					}
					if n != 1 {
						e = ""
					}
				}
			}
		}
		if e == "" {
			e = y.unsupported("Provider method touching a key set left the recognised shape", fd.Type)
		}
		x.bad = append(x.bad, y.bad...)
		getters = append(getters, fmt.Sprintf("(%s, %s)", leanStr(fd.Name.Name), e))
		factGetters[fd.Name.Name] = e
	}
	fmt.Fprintf(&b, "/-- extracted from %s: the `Provider` methods that build a verifier, with the key set they hand to it -/\ndef verifierKeySets : List (String × Expr) := %s\n\n",
		file, ksLeanList(getters, "  "))
	g.facts["c18_verifierKeySets"] = factGetters

	// ---- OpenIDKeySet.VerifySignature: where the storage-backed key set takes its keys from
	var calls []string
	if vs := g.findFunc(file, "OpenIDKeySet.VerifySignature"); vs != nil && len(vs.Recv.List[0].Names) == 1 {
		r := vs.Recv.List[0].Names[0].Name
		ast.Inspect(vs.Body, func(m ast.Node) bool {
			if c, ok := m.(*ast.CallExpr); ok {
				if s, ok := c.Fun.(*ast.SelectorExpr); ok && (exprString(s.X) == r+".Storage" || exprString(s.X) == r) {
					calls = append(calls, s.Sel.Name)
				}
			}
			return true
		})
	}
	if len(calls) == 0 {
		b.WriteString(fail("openIDKeySet_storageCalls", "List String", "OpenIDKeySet.VerifySignature left the recognised shape"))
	} else {
		b.WriteString("/-- the storage methods `OpenIDKeySet.VerifySignature` takes its keys from -/\ndef openIDKeySet_storageCalls : List String := " + leanStrList(calls) + "\n")
	}
	g.facts["c18_openIDKeySet_storageCalls"] = calls
	if len(x.bad) > 0 {
		g.unsup["c18_keysets"] = append(g.unsup["c18_keysets"], x.bad...)
	}
	return b.String()
}
