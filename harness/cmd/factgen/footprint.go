package main

// W facts (property C20): the write-set / footprint of the library, extracted syntactically (go/ast only).
//
//   writeSites  every assignment (also op-assign, ++/--, element write, append, delete/copy/clear) whose target is
//               a package-level variable, or is reached from a receiver / parameter / captured parameter / the result of a
//               zero-argument method call on such an object (x.HttpClient().F = …), together with
//               the phase in which it runs (constructor, option closure, method, plain function) and its guard
//               (`if X == nil {…}` lazy initialisation, enclosing mutex).
//   aliasInits  which fields of a library instance are initialised from a package-level variable or from a parameter
//               (composite literal of a constructor, `x.f = param` in constructors and option closures): this is what lets
//               the model resolve a write such as `o.endpoints.Authorization = e` to `op.DefaultEndpoints.Authorization`
//               when a constructor stores the package-level pointer (F-C20a, repaired: NewProvider now stores a copy).
//   ctors       constructors (function that builds a struct of its package with a composite literal and returns it) and the
//               methods they call unconditionally on the new object ("avoid races by calling these early").
//   getters     methods whose body is `return recv.field`.
//   reads       reads of fields that are written under a mutex (lock discipline needs the readers too).
//   reach       for every function: the site-bearing functions / constructors it may reach (name-based call graph).
//   globals     package-level variables of the scanned packages.
//   captured    (general rule for closures) a write whose target is a variable - or a field / element reached from a
//               variable - that belongs to an ENCLOSING function and is captured by a function literal that escapes
//               (it is returned, stored, or passed on as option / callback: everything except `func(){…}()`, `defer` and
//               `go` of the literal itself).  Such a cell outlives the call that created the closure and is shared by every
//               invocation of it: root `.captured owner var depth` (owner = the function whose activation holds the
//               variable, depth 0 = the declared function itself, >0 = a function literal inside it).  The same holds
//               for a method value `v.M` that escapes: the receiver writes of M land in the captured variable v.
//               Sites that the older rules already report (package-level variables, objects of instance types, anchor
//               files, element writes into a caller's slice) keep their root; the rule only ADDS sites.
//
// Scope: the anchor files completely; every other non-test file of the scanned packages for writes to package-level
// variables, to objects of an instance type (a type with a constructor in an anchor file), through getter results, and for
// receiver writes inside getter-named methods (Get*/Is*/Has*).

import (
	"fmt"
	"go/ast"
	"go/parser"
	"go/token"
	"go/types"
	"os"
	"path/filepath"
	"sort"
	"strings"
)

var fpAnchors = []string{
	"pkg/op/op.go", "pkg/client/client.go", "pkg/client/rp/relying_party.go", "pkg/http/http.go", "pkg/op/device.go",
	"pkg/client/rs/resource_server.go", "pkg/client/tokenexchange/tokenexchange.go",
	"pkg/client/rp/jwks.go", "pkg/oidc/keyset.go",
	"pkg/client/profile/jwt_profile.go", // deep round 4: the JWT profile token source (a client-side instance shared between goroutines)
}
var fpDirs = []string{"pkg/op", "pkg/client", "pkg/client/rp", "pkg/client/rs", "pkg/client/tokenexchange", "pkg/http", "pkg/oidc", "pkg/client/profile"}

const fpModule = "github.com/zitadel/oidc/v3/"

type fpRoot struct {
	Kind, Name, Type, Method string // Kind: global | recv | param | fresh | via | captured (Name = owner function, Method = variable)
	Depth                    int    // captured: 0 = variable of the declared function, >0 = of a function literal inside it
}

// a variable of an enclosing function that an escaping function literal captures
type fpCapture struct {
	Owner, Var, Type string
	Depth            int
}

// a captured variable handed to another function: as the receiver of an escaping method value `v.M`, or as receiver /
// argument of a call made by an escaping closure.  The callee's writes through that receiver / parameter land in the
// captured variable (one call level is followed).
type fpMethodVal struct {
	Cap    fpCapture
	Method string // qualified callee: pkg.T.M or pkg.F
	Param  string // "" = the receiver, otherwise the name of the parameter that receives the captured variable
}

type fpDecl struct {
	depth int
	fn    string
}

func (r fpRoot) lean() string {
	switch r.Kind {
	case "global":
		return ".global " + leanStr(r.Name)
	case "recv":
		return ".recv " + leanStr(r.Type)
	case "param":
		return ".param " + leanStr(r.Name) + " " + leanStr(r.Type)
	case "via":
		return ".via " + leanStr(r.Type) + " " + leanStr(r.Method)
	case "captured":
		return ".captured " + leanStr(r.Name) + " " + leanStr(r.Method) + " " + fmt.Sprint(r.Depth)
	}
	return ".fresh " + leanStr(r.Type)
}

type fpProv struct {
	Root fpRoot
	Path []string
}

func fresh(t string) fpProv { return fpProv{Root: fpRoot{Kind: "fresh", Type: t}} }

type fpSite struct {
	File, Func, Lhs         string
	Line                    int
	Root                    fpRoot
	Path                    []string
	Op, Phase, Guard, Mutex string
	anchor                  bool
	method                  string
	cap                     *fpCapture
}
type fpAlias struct {
	Func, Type, Field string
	Src               fpRoot
}
type fpCtor struct {
	Name, Type, File string
	Eager            []string
}
type fpGetter struct{ Type, Method, Field string }
type fpRead struct {
	Func, Type, Field, Mutex string
	Line                     int
}

type fpPkg struct {
	short   string
	files   map[string]*ast.File // rel path -> file
	vars    map[string]bool
	types   map[string]bool
	funcs   map[string]bool
	methods map[string][]string // method name -> receiver types
	ifaces  map[string]*fpIface
	embeds  map[string]bool              // struct type has an embedded field (its method set is not known syntactically)
	mset    map[string]map[string]bool   // type -> declared methods
	fields  map[string]map[string]string // struct type -> field -> type (qualified, star stripped)
	rets    map[string]string            // "F" / "T.M" -> first result type
}

type fpIface struct {
	methods []string
	embeds  []string // qualified names of embedded interfaces
	opaque  bool     // embeds something that is not an interface of the scanned packages
}

type fpGen struct {
	g             *genCtx
	fset          *token.FileSet
	pkgs          map[string]*fpPkg // by dir
	byShort       map[string]*fpPkg
	anchors       map[string]bool
	inst          map[string]bool // qualified instance types (have a constructor in an anchor file)
	sites         []fpSite
	aliases       []fpAlias
	ctors         []fpCtor
	getters       []fpGetter
	reads         []fpRead
	calls         map[string]map[string]bool // qualified function -> callees (qualified, or "?.M" for methods)
	allFn         map[string]bool
	methodsByName map[string][]string // M -> qualified "pkg.T.M"
	exported      map[string]bool
	fieldUses     []fpRead // every read of recv.field inside methods (filtered later)
	mvals         []fpMethodVal
	paramNames    map[string][]string // qualified function -> parameter names in order
	heap          *fpHeap             // objects written but not created by the writer (footprint_c20heap.go)
}

func shortOf(importPath string) string {
	p := strings.TrimPrefix(importPath, fpModule)
	if i := strings.LastIndex(p, "/"); i >= 0 {
		p = p[i+1:]
	}
	// versioned module paths: .../v4 -> previous element
	if len(p) >= 2 && p[0] == 'v' && p[1] >= '0' && p[1] <= '9' {
		q := strings.TrimSuffix(importPath, "/"+p)
		if i := strings.LastIndex(q, "/"); i >= 0 {
			return q[i+1:]
		}
	}
	return p
}

var fpBuiltinTypes = map[string]bool{"string": true, "int": true, "int64": true, "int32": true, "uint": true, "uint64": true, "bool": true,
	"byte": true, "rune": true, "error": true, "any": true, "float64": true, "uint8": true, "uint32": true, "int8": true, "int16": true, "uint16": true, "float32": true}

type fpFile struct {
	gen     *fpGen
	pkg     *fpPkg
	rel     string
	imports map[string]string // alias -> short
	full    map[string]string // alias -> name used for package-level variables (short for scanned packages, import path otherwise)
}

func (f *fpFile) typeStr(e ast.Expr) string {
	switch x := e.(type) {
	case nil:
		return ""
	case *ast.Ident:
		if fpBuiltinTypes[x.Name] {
			return x.Name
		}
		return f.pkg.short + "." + x.Name
	case *ast.SelectorExpr:
		if id, ok := x.X.(*ast.Ident); ok {
			if s, ok := f.imports[id.Name]; ok {
				return s + "." + x.Sel.Name
			}
			return id.Name + "." + x.Sel.Name
		}
	case *ast.StarExpr:
		return f.typeStr(x.X)
	case *ast.ArrayType:
		return "[]" + f.typeStr(x.Elt)
	case *ast.Ellipsis:
		return "[]" + f.typeStr(x.Elt)
	case *ast.MapType:
		return "map[" + f.typeStr(x.Key) + "]" + f.typeStr(x.Value)
	case *ast.FuncType:
		return "func"
	case *ast.InterfaceType:
		return "interface"
	case *ast.IndexExpr:
		return f.typeStr(x.X)
	case *ast.IndexListExpr:
		return f.typeStr(x.X)
	case *ast.ParenExpr:
		return f.typeStr(x.X)
	case *ast.ChanType:
		return "chan"
	}
	return "?"
}

// ---------------------------------------------------------------- per-function walk

type fpWalk struct {
	f        *fpFile
	fn       string // qualified name of the enclosing FuncDecl
	method   string // bare method / function name
	recvT    string
	phase    string
	env      map[string]fpProv
	conds    []ast.Expr
	held     []string
	ctorVar  string // in constructors: the variable holding the new object
	ctorT    string
	tenv     map[string]string // identifier -> static type (qualified, star stripped) where it is syntactically evident
	tparams  map[string]string // type parameter -> constraint
	returned bool              // the function literal being entered is a direct operand of `return`
	inAssign bool              // walking the right-hand side of an assignment whose top-level append is reported by write()
	depth    int               // nesting depth of function literals (0 = the declared function)
	decl     map[string]fpDecl // variable -> where it was declared
	escapes  []bool            // escapes[d-1]: the literal at depth d escapes (is not called / deferred / started on the spot)
	direct   map[ast.Node]bool // function literals / selectors that are the callee of a call expression
	valueUse map[string]bool   // identifiers of the declared function that are used as a value (not only called / assigned to)
	resEnv   map[string]map[string]bool // local variable -> origins of the object it refers to when this function did not create it
	capAlias map[string]*fpCapture      // local variable -> the captured variable of an enclosing function it aliases
}

// static type of an expression where it is syntactically evident ("" = unknown)
func (w *fpWalk) typeOf(e ast.Expr) string {
	g := w.f.gen
	switch x := e.(type) {
	case *ast.Ident:
		t := w.tenv[x.Name]
		if c, ok := w.tparams[t]; ok {
			return c
		}
		return t
	case *ast.ParenExpr:
		return w.typeOf(x.X)
	case *ast.StarExpr:
		return w.typeOf(x.X)
	case *ast.UnaryExpr:
		if x.Op == token.AND {
			return w.typeOf(x.X)
		}
	case *ast.CompositeLit:
		return w.f.typeStr(x.Type)
	case *ast.TypeAssertExpr:
		if x.Type != nil {
			return w.f.typeStr(x.Type)
		}
	case *ast.SelectorExpr:
		if id, ok := x.X.(*ast.Ident); ok {
			if _, imp := w.isImport(id); imp {
				return ""
			}
		}
		bt := w.typeOf(x.X)
		ps, n := splitQual(bt)
		if p := g.byShort[ps]; p != nil && !strings.HasPrefix(bt, "[]") {
			if fm, ok := p.fields[n]; ok {
				return fm[x.Sel.Name]
			}
		}
	case *ast.CallExpr:
		fun := x.Fun
		if ix, ok := fun.(*ast.IndexExpr); ok {
			fun = ix.X
		}
		switch f := fun.(type) {
		case *ast.Ident:
			if f.Name == "new" && len(x.Args) == 1 {
				return w.f.typeStr(x.Args[0])
			}
			if _, local := w.env[f.Name]; !local && w.f.pkg.funcs[f.Name] {
				return w.f.pkg.rets[f.Name]
			}
		case *ast.SelectorExpr:
			if id, ok := f.X.(*ast.Ident); ok {
				if s, imp := w.isImport(id); imp {
					if p := g.byShort[s]; p != nil {
						return p.rets[f.Sel.Name]
					}
					return ""
				}
			}
			bt := w.typeOf(f.X)
			if fns, ok := g.resolveMethod(bt, f.Sel.Name); ok && len(fns) == 1 {
				ps, rest := splitQual(strings.TrimSuffix(fns[0], "."+f.Sel.Name))
				_ = ps
				q, tn := splitQual(strings.TrimSuffix(fns[0], "."+f.Sel.Name))
				_ = rest
				if p := g.byShort[q]; p != nil {
					return p.rets[tn+"."+f.Sel.Name]
				}
			}
		}
	}
	return ""
}

func (w *fpWalk) lookupGlobal(name string) (fpProv, bool) {
	if w.f.pkg.vars[name] {
		return fpProv{Root: fpRoot{Kind: "global", Name: w.f.pkg.short + "." + name}}, true
	}
	return fpProv{}, false
}

func (w *fpWalk) isImport(id *ast.Ident) (string, bool) {
	if _, shadow := w.env[id.Name]; shadow {
		return "", false
	}
	s, ok := w.f.imports[id.Name]
	return s, ok
}

func (w *fpWalk) isTypeName(e ast.Expr) bool {
	switch x := e.(type) {
	case *ast.Ident:
		if _, local := w.env[x.Name]; local {
			return false
		}
		return fpBuiltinTypes[x.Name] || w.f.pkg.types[x.Name]
	case *ast.SelectorExpr:
		if id, ok := x.X.(*ast.Ident); ok {
			if s, ok := w.isImport(id); ok {
				if p := w.f.gen.byShort[s]; p != nil {
					return p.types[x.Sel.Name]
				}
				// external package: capitalised selector that is called with one argument is treated as conversion
				// only for the well-known named types used in this code base
				return false
			}
		}
	case *ast.ArrayType, *ast.MapType, *ast.FuncType, *ast.InterfaceType, *ast.ChanType:
		return true
	case *ast.ParenExpr:
		return w.isTypeName(x.X)
	case *ast.StarExpr:
		return w.isTypeName(x.X)
	}
	return false
}

func (w *fpWalk) provOf(e ast.Expr) fpProv {
	switch x := e.(type) {
	case *ast.Ident:
		if p, ok := w.env[x.Name]; ok {
			return p
		}
		if p, ok := w.lookupGlobal(x.Name); ok {
			return p
		}
		return fresh("")
	case *ast.SelectorExpr:
		if id, ok := x.X.(*ast.Ident); ok {
			if _, ok := w.isImport(id); ok {
				return fpProv{Root: fpRoot{Kind: "global", Name: w.f.full[id.Name] + "." + x.Sel.Name}}
			}
		}
		b := w.provOf(x.X)
		return fpProv{Root: b.Root, Path: append(append([]string{}, b.Path...), x.Sel.Name)}
	case *ast.IndexExpr:
		b := w.provOf(x.X)
		return fpProv{Root: b.Root, Path: append(append([]string{}, b.Path...), "[]")}
	case *ast.SliceExpr:
		return w.provOf(x.X)
	case *ast.StarExpr:
		return w.provOf(x.X)
	case *ast.ParenExpr:
		return w.provOf(x.X)
	case *ast.TypeAssertExpr:
		return w.provOf(x.X)
	case *ast.UnaryExpr:
		if x.Op == token.AND {
			return w.provOf(x.X)
		}
		return fresh("")
	case *ast.CompositeLit:
		return fresh(w.f.typeStr(x.Type))
	case *ast.CallExpr:
		fun := x.Fun
		if ix, ok := fun.(*ast.IndexExpr); ok {
			fun = ix.X
		}
		if id, ok := fun.(*ast.Ident); ok {
			switch id.Name {
			case "append":
				if len(x.Args) > 0 {
					return w.provOf(x.Args[0])
				}
			case "new":
				if len(x.Args) == 1 {
					return fresh(w.f.typeStr(x.Args[0]))
				}
			case "make":
				return fresh("")
			}
		}
		if len(x.Args) == 1 && w.isTypeName(fun) {
			return w.provOf(x.Args[0]) // conversion T(x)
		}
		if sel, ok := fun.(*ast.SelectorExpr); ok && len(x.Args) == 0 {
			if id, ok := sel.X.(*ast.Ident); ok {
				if _, imp := w.isImport(id); imp {
					return fresh("")
				}
			}
			b := w.provOf(sel.X)
			if b.Root.Kind != "fresh" {
				bt := "?"
				if len(b.Path) == 0 {
					bt = b.Root.Type
					if b.Root.Kind == "global" {
						bt = b.Root.Name
					}
				}
				return fpProv{Root: fpRoot{Kind: "via", Type: bt, Method: sel.Sel.Name}}
			}
		}
		return fresh("")
	}
	return fresh("")
}

func (w *fpWalk) bindType(name string, rhs ast.Expr) {
	if name == "_" || rhs == nil {
		return
	}
	if t := w.typeOf(rhs); t != "" {
		w.tenv[name] = t
	} else {
		delete(w.tenv, name)
	}
}

func (w *fpWalk) bind(name string, p fpProv) {
	if name == "_" {
		return
	}
	if old, ok := w.env[name]; ok && old.Root.Kind != "fresh" && p.Root.Kind == "fresh" {
		return // join: keep the aliasing provenance
	}
	w.env[name] = p
}

func (w *fpWalk) guard(lhs ast.Expr) (string, string) {
	if len(w.held) > 0 {
		m := w.held[len(w.held)-1]
		if i := strings.Index(m, "."); i >= 0 {
			m = m[i+1:]
		}
		return "locked", m
	}
	txt := types.ExprString(lhs)
	for _, c := range w.conds {
		if b, ok := c.(*ast.BinaryExpr); ok && b.Op == token.EQL {
			if id, ok := b.Y.(*ast.Ident); ok && id.Name == "nil" && types.ExprString(b.X) == txt {
				return "ifNil", ""
			}
		}
	}
	return "none", ""
}

// valueUses: identifiers that occur in the body other than as the callee of a call or as the target of an assignment
func valueUses(body *ast.BlockStmt) map[string]bool {
	skip := map[*ast.Ident]bool{}
	out := map[string]bool{}
	ast.Inspect(body, func(n ast.Node) bool {
		switch x := n.(type) {
		case *ast.CallExpr:
			if id, ok := ast.Unparen(x.Fun).(*ast.Ident); ok {
				skip[id] = true
			}
		case *ast.AssignStmt:
			for _, l := range x.Lhs {
				if id, ok := l.(*ast.Ident); ok {
					skip[id] = true
				}
			}
		case *ast.ValueSpec:
			for _, id := range x.Names {
				skip[id] = true
			}
		case *ast.Ident:
			if !skip[x] {
				out[x.Name] = true
			}
		}
		return true
	})
	return out
}

// the variable an lvalue starts from
func baseIdent(e ast.Expr) *ast.Ident {
	for {
		switch x := e.(type) {
		case *ast.Ident:
			return x
		case *ast.SelectorExpr:
			e = x.X
		case *ast.IndexExpr:
			e = x.X
		case *ast.SliceExpr:
			e = x.X
		case *ast.StarExpr:
			e = x.X
		case *ast.ParenExpr:
			e = x.X
		case *ast.TypeAssertExpr:
			e = x.X
		case *ast.UnaryExpr:
			e = x.X
		default:
			return nil
		}
	}
}

func (w *fpWalk) declare(name string) {
	if name == "_" || name == "" {
		return
	}
	w.decl[name] = fpDecl{depth: w.depth, fn: w.fn}
}

// captureOf: is `name` a variable of an enclosing function that the current (escaping) function literal captures?
func (w *fpWalk) captureOf(name string) *fpCapture {
	if _, local := w.env[name]; !local {
		return nil
	}
	d, ok := w.decl[name]
	if !ok || d.depth >= w.depth {
		return nil
	}
	esc := false
	for k := d.depth; k < w.depth && k < len(w.escapes); k++ {
		esc = esc || w.escapes[k]
	}
	if !esc {
		return nil
	}
	return &fpCapture{Owner: d.fn, Var: name, Type: w.tenv[name], Depth: d.depth}
}

func (w *fpWalk) emit(pos token.Pos, lhs ast.Expr, p fpProv, op string) {
	g := w.f.gen
	guard, mu := w.guard(lhs)
	var cap *fpCapture
	if id := baseIdent(lhs); id != nil {
		cap = w.captureOf(id.Name)
	}
	g.sites = append(g.sites, fpSite{File: w.f.rel, Func: w.fn, Lhs: types.ExprString(lhs), Line: g.fset.Position(pos).Line,
		Root: p.Root, Path: p.Path, Op: op, Phase: w.phase, Guard: guard, Mutex: mu, anchor: g.anchors[w.f.rel], method: w.method, cap: cap})
}

// emitCaptured reports a write that only the closure rule sees (a local of an enclosing function)
func (w *fpWalk) emitCaptured(pos token.Pos, lhs ast.Expr, path []string, op string) bool {
	id := baseIdent(lhs)
	if id == nil {
		return false
	}
	cap := w.captureOf(id.Name)
	if cap == nil {
		return false
	}
	g := w.f.gen
	guard, mu := w.guard(lhs)
	g.sites = append(g.sites, fpSite{File: w.f.rel, Func: w.fn, Lhs: types.ExprString(lhs), Line: g.fset.Position(pos).Line,
		Root: fpRoot{Kind: "fresh"}, Path: path, Op: op, Phase: w.phase, Guard: guard, Mutex: mu, anchor: false, method: w.method, cap: cap})
	return true
}

func isAppend(e ast.Expr) (*ast.CallExpr, bool) {
	c, ok := e.(*ast.CallExpr)
	if !ok {
		return nil, false
	}
	id, ok := c.Fun.(*ast.Ident)
	return c, ok && id.Name == "append" && len(c.Args) > 0
}

// write to lvalue `lhs` (rhs may be nil)
func (w *fpWalk) write(pos token.Pos, lhs ast.Expr, rhs ast.Expr, define bool) {
	op := "assign"
	var app *ast.CallExpr
	if rhs != nil {
		if c, ok := isAppend(rhs); ok {
			op, app = "append", c
		}
	}
	if id, ok := lhs.(*ast.Ident); ok {
		// plain identifier: local rebinding, or a package-level variable
		_, local := w.env[id.Name]
		if !define && !local {
			if p, ok := w.lookupGlobal(id.Name); ok {
				w.emit(pos, lhs, p, op)
				return
			}
		}
		if app != nil {
			// x = append(y, …): may write into y's backing array
			src := w.provOf(app.Args[0])
			if src.Root.Kind != "fresh" {
				p := fpProv{Root: src.Root, Path: append(append([]string{}, src.Path...), "[]")}
				w.emit(pos, app.Args[0], p, "append")
			} else if !w.emitCapturedAlias(pos, app.Args[0], append(append([]string{}, src.Path...), "[]"), "append") {
				// append into a slice that this function received from somewhere else
				w.heapWrite(pos, app.Args[0], fpProv{Root: src.Root, Path: append(append([]string{}, src.Path...), "[]")}, "append")
			}
		}
		w.aliasBind(id.Name, rhs)
		if define {
			if d, ok := w.decl[id.Name]; !ok || d.depth != w.depth {
				w.declare(id.Name)
			}
		} else if local && id.Name != "_" {
			w.emitCaptured(pos, lhs, nil, op) // assignment to a variable of an enclosing function
		}
		if rhs != nil {
			p := w.provOf(rhs)
			if u, ok := rhs.(*ast.StarExpr); ok {
				_ = u
				p = fresh("") // x := *y copies the value
			}
			w.bindType(id.Name, rhs)
			w.heapBind(id.Name, rhs, 0)
			if p.Root.Kind == "fresh" {
				// the result of a function that hands out a package-level cell (pointer, slice, map) IS that cell
				if gl := w.handedOutCell(id.Name); gl != "" {
					p = fpProv{Root: fpRoot{Kind: "global", Name: gl}}
				}
			}
			w.bind(id.Name, p)
		} else {
			w.heapBind(id.Name, nil, 0)
			w.bind(id.Name, fresh(""))
		}
		return
	}
	p := w.provOf(lhs)
	if _, ok := lhs.(*ast.IndexExpr); ok && op == "assign" {
		op = "elem"
	}
	if _, ok := lhs.(*ast.StarExpr); ok {
		p.Path = append(append([]string{}, p.Path...), "*") // *x = v overwrites the whole object x points to
	}
	if p.Root.Kind == "fresh" {
		// object under construction: remember where its fields come from, report deep writes / appends through them
		if w.ctorVar != "" && len(p.Path) >= 1 && p.Root.Type == w.ctorT {
			if len(p.Path) == 1 && rhs != nil && op == "assign" {
				w.alias(p.Path[0], rhs)
			}
			if len(p.Path) >= 2 || op == "append" {
				w.emit(pos, lhs, p, op)
			}
			return
		}
		if !w.emitCaptured(pos, lhs, p.Path, op) { // object created by an enclosing function, written by an escaping closure
			if !w.emitCapturedAlias(pos, lhs, p.Path, op) {
				w.heapWrite(pos, lhs, p, op) // object received from somewhere else
			}
		}
		return
	}
	if len(p.Path) == 1 && rhs != nil && op == "assign" && (p.Root.Kind == "param" || p.Root.Kind == "recv") {
		if w.phase == "option" || w.phase == "ctor" {
			w.aliasT(p.Root.Type, p.Path[0], rhs)
		}
	}
	w.emit(pos, lhs, p, op)
}

func (w *fpWalk) alias(field string, rhs ast.Expr) { w.aliasT(w.ctorT, field, rhs) }
func (w *fpWalk) aliasT(t, field string, rhs ast.Expr) {
	src := w.provOf(rhs)
	if _, ok := rhs.(*ast.StarExpr); ok {
		return
	}
	if src.Root.Kind == "param" && (fpBuiltinTypes[src.Root.Type] || src.Root.Type == "func") {
		return // immutable value
	}
	if src.Root.Kind == "global" && strings.Contains(src.Root.Name, "/") {
		return // constant / variable of a package outside the scanned ones: cannot be told apart syntactically, never written through here
	}
	if len(src.Path) == 0 && (src.Root.Kind == "global" || src.Root.Kind == "param") {
		w.f.gen.aliases = append(w.f.gen.aliases, fpAlias{Func: w.fn, Type: t, Field: field, Src: src.Root})
	}
}

// methodValue: `v.M` used as a value (not called) where v is a variable of non-instance type: the method value escapes
// with v bound, so the receiver writes of M are writes to what v refers to for as long as the value lives.
func (w *fpWalk) methodValue(sel *ast.SelectorExpr) {
	if w.direct[sel] {
		return
	}
	id, ok := sel.X.(*ast.Ident)
	if !ok {
		return
	}
	if _, local := w.env[id.Name]; !local {
		return
	}
	g := w.f.gen
	t := w.typeOf(id)
	if t == "" || g.inst[t] {
		return
	}
	fns, ok := g.resolveMethod(t, sel.Sel.Name)
	if !ok || len(fns) == 0 {
		return
	}
	d, ok := w.decl[id.Name]
	if !ok {
		return
	}
	for _, f := range fns {
		g.mvals = append(g.mvals, fpMethodVal{Cap: fpCapture{Owner: d.fn, Var: id.Name, Type: t, Depth: d.depth}, Method: f})
	}
}

func (w *fpWalk) lockCall(c *ast.CallExpr) {
	sel, ok := c.Fun.(*ast.SelectorExpr)
	if !ok || len(c.Args) != 0 {
		return
	}
	m := types.ExprString(sel.X)
	switch sel.Sel.Name {
	case "Lock", "RLock":
		w.held = append(w.held, m)
	case "Unlock", "RUnlock":
		for i := len(w.held) - 1; i >= 0; i-- {
			if w.held[i] == m {
				w.held = append(w.held[:i], w.held[i+1:]...)
				break
			}
		}
	}
}

func (w *fpWalk) callee(c *ast.CallExpr) {
	g := w.f.gen
	fun := c.Fun
	switch x := fun.(type) {
	case *ast.IndexExpr:
		fun = x.X
	case *ast.IndexListExpr:
		fun = x.X
	}
	add := func(k string) {
		if g.calls[w.fn] == nil {
			g.calls[w.fn] = map[string]bool{}
		}
		g.calls[w.fn][k] = true
		g.allFn[w.fn] = true
	}
	bindArgs := func(q string) {
		names := g.paramNames[q]
		for i, a := range c.Args {
			if i >= len(names) {
				break
			}
			if id := baseIdent(a); id != nil {
				if cap := w.captureOf(id.Name); cap != nil && !g.inst[cap.Type] {
					g.mvals = append(g.mvals, fpMethodVal{Cap: *cap, Method: q, Param: names[i]})
				}
			}
		}
	}
	switch x := fun.(type) {
	case *ast.Ident:
		if _, local := w.env[x.Name]; !local && w.f.pkg.funcs[x.Name] {
			add(w.f.pkg.short + "." + x.Name)
			bindArgs(w.f.pkg.short + "." + x.Name)
		}
		// builtins that write through their first argument
		if (x.Name == "delete" || x.Name == "copy" || x.Name == "clear") && len(c.Args) > 0 {
			p := w.provOf(c.Args[0])
			if p.Root.Kind != "fresh" {
				p.Path = append(append([]string{}, p.Path...), "[]")
				w.emit(c.Pos(), c.Args[0], p, "elem")
			}
		}
	case *ast.SelectorExpr:
		if id, ok := x.X.(*ast.Ident); ok {
			if s, ok := w.isImport(id); ok {
				if p := g.byShort[s]; p != nil && p.funcs[x.Sel.Name] {
					add(s + "." + x.Sel.Name)
					bindArgs(s + "." + x.Sel.Name)
				}
				return
			}
		}
		if fns, ok := g.resolveMethod(w.typeOf(x.X), x.Sel.Name); ok {
			for _, f := range fns {
				add(f)
				bindArgs(f)
				if id := baseIdent(x.X); id != nil {
					if cap := w.captureOf(id.Name); cap != nil && !g.inst[cap.Type] {
						g.mvals = append(g.mvals, fpMethodVal{Cap: *cap, Method: f}) // method call on a captured variable
					}
				}
			}
			return
		}
		add("?." + x.Sel.Name)
	}
}

// expressions: nested function literals, calls, reads of receiver fields
func (w *fpWalk) exprs(es ...ast.Expr) {
	for _, e := range es {
		if e == nil {
			continue
		}
		ast.Inspect(e, func(n ast.Node) bool {
			switch x := n.(type) {
			case *ast.FuncLit:
				w.funcLit(x, false)
				return false
			case *ast.CallExpr:
				w.direct[ast.Unparen(x.Fun)] = true
				w.callee(x)
				w.heapErrorsAs(x)
				w.heapMutatorCall(x)
				if c, ok := isAppend(x); ok && !w.inAssign {
					src := w.provOf(c.Args[0])
					if src.Root.Kind != "fresh" {
						p := fpProv{Root: src.Root, Path: append(append([]string{}, src.Path...), "[]")}
						w.emit(c.Pos(), c.Args[0], p, "append")
					} else if !w.emitCapturedAny(c.Pos(), c.Args[0], append(append([]string{}, src.Path...), "[]"), "append") {
						w.heapWrite(c.Pos(), c.Args[0], fpProv{Root: src.Root, Path: append(append([]string{}, src.Path...), "[]")}, "append")
					}
				}
			case *ast.SelectorExpr:
				w.methodValue(x)
				w.heapMutatorValue(x)
				if id, ok := x.X.(*ast.Ident); ok && w.recvT != "" {
					if p, ok := w.env[id.Name]; ok && p.Root.Kind == "recv" && len(p.Path) == 0 {
						_, mu := w.guard(x)
						g := w.f.gen
						g.fieldUses = append(g.fieldUses, fpRead{Func: w.fn, Type: w.recvT, Field: x.Sel.Name, Mutex: mu, Line: g.fset.Position(x.Pos()).Line})
					}
				}
			}
			return true
		})
	}
}

func (w *fpWalk) funcLit(fl *ast.FuncLit, option bool) {
	saveEnv, saveHeld, savePhase, saveConds, saveCtor := w.env, w.held, w.phase, w.conds, w.ctorVar
	saveFn, saveT := w.fn, w.tenv
	w.tenv = map[string]string{}
	for k, v := range saveT {
		w.tenv[k] = v
	}
	saveRes, saveAlias := w.resEnv, w.capAlias
	w.resEnv, w.capAlias = map[string]map[string]bool{}, map[string]*fpCapture{}
	for k, v := range saveRes {
		w.resEnv[k] = v
	}
	defer func() { w.resEnv, w.capAlias = saveRes, saveAlias }()
	saveDecl, saveDepth, saveEsc := w.decl, w.depth, w.escapes
	w.decl = map[string]fpDecl{}
	for k, v := range saveDecl {
		w.decl[k] = v
	}
	w.escapes = append(append([]bool{}, saveEsc...), !w.direct[fl])
	w.depth++
	defer func() { w.fn, w.tenv, w.decl, w.depth, w.escapes = saveFn, saveT, saveDecl, saveDepth, saveEsc }()
	if w.returned && !option && !strings.HasSuffix(w.fn, "$ret") {
		w.fn += "$ret"
		if w.phase == "ctor" {
			w.phase = "func"
		}
	}
	w.returned = false
	w.env = map[string]fpProv{}
	for k, v := range saveEnv {
		w.env[k] = v
	}
	w.held, w.conds = nil, nil
	if option {
		w.phase = "option"
	}
	w.ctorVar = ""
	w.params(fl.Type)
	w.block(fl.Body.List)
	w.env, w.held, w.phase, w.conds, w.ctorVar = saveEnv, saveHeld, savePhase, saveConds, saveCtor
}

func (w *fpWalk) params(ft *ast.FuncType) {
	if ft.Params != nil {
		for _, fld := range ft.Params.List {
			t := w.f.typeStr(fld.Type)
			for _, n := range fld.Names {
				if n.Name != "_" {
					w.env[n.Name] = fpProv{Root: fpRoot{Kind: "param", Name: n.Name, Type: t}}
					w.tenv[n.Name] = t
					w.declare(n.Name)
				}
			}
		}
	}
	if ft.Results != nil {
		for _, fld := range ft.Results.List {
			for _, n := range fld.Names {
				if n.Name != "_" {
					w.env[n.Name] = fresh(w.f.typeStr(fld.Type))
					w.declare(n.Name)
				}
			}
		}
	}
}

func (w *fpWalk) block(stmts []ast.Stmt) {
	for _, s := range stmts {
		w.stmt(s)
	}
}

func (w *fpWalk) optionLit(e ast.Expr) *ast.FuncLit {
	fl, ok := e.(*ast.FuncLit)
	if !ok || fl.Type.Params == nil || len(fl.Type.Params.List) == 0 {
		return nil
	}
	t := w.f.typeStr(fl.Type.Params.List[0].Type)
	if w.f.gen.inst[t] {
		return fl
	}
	return nil
}

func (w *fpWalk) stmt(s ast.Stmt) {
	switch x := s.(type) {
	case nil:
	case *ast.BlockStmt:
		w.block(x.List)
	case *ast.LabeledStmt:
		w.stmt(x.Stmt)
	case *ast.ExprStmt:
		if c, ok := x.X.(*ast.CallExpr); ok {
			w.lockCall(c)
		}
		w.exprs(x.X)
	case *ast.DeferStmt:
		// deferred Unlock keeps the mutex held until the function returns
		if sel, ok := x.Call.Fun.(*ast.SelectorExpr); ok && (sel.Sel.Name == "Unlock" || sel.Sel.Name == "RUnlock") {
			return
		}
		w.direct[ast.Unparen(x.Call.Fun)] = true
		w.exprs(x.Call)
	case *ast.GoStmt:
		saveHeld := w.held
		w.held = nil
		w.direct[ast.Unparen(x.Call.Fun)] = true
		w.exprs(x.Call)
		w.held = saveHeld
	case *ast.ReturnStmt:
		if w.f.gen.heap.collect {
			w.heapReturn(x)
		}
		for _, r := range x.Results {
			if w.phase != "option" && w.recvT == "" {
				if fl := w.optionLit(r); fl != nil {
					w.funcLit(fl, true)
					continue
				}
			}
			if fl, ok := r.(*ast.FuncLit); ok {
				if w.depth == 0 {
					w.f.gen.heap.factories[w.fn] = true
				}
				w.returned = true
				w.funcLit(fl, false)
				continue
			}
			w.exprs(r)
		}
	case *ast.IncDecStmt:
		w.exprs(x.X)
		w.write(x.Pos(), x.X, nil, false)
	case *ast.AssignStmt:
		if len(x.Lhs) == len(x.Rhs) {
			for i, r := range x.Rhs {
				// f := func(){…} where f is only ever called in this function: the literal does not leave the activation
				if fl, ok := r.(*ast.FuncLit); ok {
					if id, ok := x.Lhs[i].(*ast.Ident); ok && !w.valueUse[id.Name] && !w.f.pkg.vars[id.Name] {
						w.direct[fl] = true
					}
				}
			}
		}
		for _, r := range x.Rhs {
			if c, ok := isAppend(r); ok {
				// the append itself is reported by write(); its arguments are ordinary expressions
				w.exprs(c.Args...)
			} else {
				w.exprs(r)
			}
		}
		for _, l := range x.Lhs {
			if _, ok := l.(*ast.Ident); !ok {
				w.exprsNoRead(l)
			}
		}
		for i, l := range x.Lhs {
			var r ast.Expr
			if len(x.Rhs) == len(x.Lhs) {
				r = x.Rhs[i]
			} else if len(x.Rhs) == 1 && i == 0 {
				r = x.Rhs[0] // v, ok := f() / x.(T) / m[k]
			}
			if x.Tok != token.ASSIGN && x.Tok != token.DEFINE {
				r = nil // op-assign
			}
			w.write(x.Pos(), l, r, x.Tok == token.DEFINE)
			if i > 0 && len(x.Rhs) == 1 && len(x.Lhs) > 1 {
				if id, ok := l.(*ast.Ident); ok {
					w.heapBind(id.Name, x.Rhs[0], i) // x, err := f(): result i
				}
			}
		}
	case *ast.DeclStmt:
		if gd, ok := x.Decl.(*ast.GenDecl); ok {
			for _, sp := range gd.Specs {
				if vs, ok := sp.(*ast.ValueSpec); ok {
					w.exprs(vs.Values...)
					for i, n := range vs.Names {
						if i < len(vs.Values) {
							w.write(n.Pos(), n, vs.Values[i], true)
						} else {
							w.env[n.Name] = fresh(w.f.typeStr(vs.Type))
							w.declare(n.Name)
						}
						if vs.Type != nil {
							w.tenv[n.Name] = w.f.typeStr(vs.Type)
						}
					}
				}
			}
		}
	case *ast.IfStmt:
		asPre := w.heapAsTargets(x) // footprint_c20heap.go: what the targets of an errors.As in this `if` referred to before it
		w.stmt(x.Init)
		w.exprs(x.Cond)
		w.conds = append(w.conds, x.Cond)
		asPost := w.heapAsFailed(x, asPre) // inside `if !errors.As(err, &t) {…}` t still is what it was
		w.block(x.Body.List)
		w.heapAsRestore(asPost)
		w.conds = w.conds[:len(w.conds)-1]
		w.stmt(x.Else)
	case *ast.ForStmt:
		w.stmt(x.Init)
		w.exprs(x.Cond)
		w.block(x.Body.List)
		w.stmt(x.Post)
	case *ast.RangeStmt:
		w.exprs(x.X)
		src := w.provOf(x.X)
		if id, ok := x.Key.(*ast.Ident); ok {
			w.bind(id.Name, fresh(""))
			if x.Tok == token.DEFINE {
				w.declare(id.Name)
			}
		}
		if id, ok := x.Value.(*ast.Ident); ok {
			w.bind(id.Name, fpProv{Root: src.Root, Path: append(append([]string{}, src.Path...), "[]")})
			if x.Tok == token.DEFINE {
				w.declare(id.Name)
			}
		}
		w.block(x.Body.List)
	case *ast.SwitchStmt:
		w.stmt(x.Init)
		w.exprs(x.Tag)
		w.block(x.Body.List)
	case *ast.TypeSwitchStmt:
		w.stmt(x.Init)
		w.stmt(x.Assign)
		w.block(x.Body.List)
	case *ast.CaseClause:
		w.exprs(x.List...)
		w.block(x.Body)
	case *ast.SelectStmt:
		w.block(x.Body.List)
	case *ast.CommClause:
		w.stmt(x.Comm)
		w.block(x.Body)
	case *ast.SendStmt:
		w.exprs(x.Chan, x.Value)
	}
}

// the left-hand side of an assignment: calls and literals inside it, but not a read of the assigned field itself
func (w *fpWalk) exprsNoRead(e ast.Expr) {
	if sel, ok := e.(*ast.SelectorExpr); ok {
		if _, ok := sel.X.(*ast.Ident); ok {
			return
		}
		w.exprs(sel.X)
		return
	}
	w.exprs(e)
}

// ---------------------------------------------------------------- package scan

func (g *fpGen) load() []string {
	var problems []string
	for _, dir := range fpDirs {
		p := &fpPkg{short: shortOf(dir), files: map[string]*ast.File{}, vars: map[string]bool{}, types: map[string]bool{}, funcs: map[string]bool{}, methods: map[string][]string{},
			ifaces: map[string]*fpIface{}, embeds: map[string]bool{}, mset: map[string]map[string]bool{}, fields: map[string]map[string]string{}, rets: map[string]string{}}
		g.pkgs[dir] = p
		g.byShort[p.short] = p
		ents, err := os.ReadDir(filepath.Join(repoRoot, dir))
		if err != nil {
			problems = append(problems, "cannot read "+dir+": "+err.Error())
			continue
		}
		for _, e := range ents {
			n := e.Name()
			if e.IsDir() || !strings.HasSuffix(n, ".go") || strings.HasSuffix(n, "_test.go") {
				continue
			}
			rel := dir + "/" + n
			f, err := parser.ParseFile(g.fset, filepath.Join(repoRoot, rel), nil, 0)
			if err != nil {
				problems = append(problems, "parse error "+rel+": "+err.Error())
				continue
			}
			p.files[rel] = f
			for _, d := range f.Decls {
				switch x := d.(type) {
				case *ast.GenDecl:
					for _, sp := range x.Specs {
						switch s := sp.(type) {
						case *ast.ValueSpec:
							if x.Tok == token.VAR {
								for _, n := range s.Names {
									p.vars[n.Name] = true
								}
							}
						case *ast.TypeSpec:
							p.types[s.Name.Name] = true
						}
					}
				case *ast.FuncDecl:
					if x.Recv == nil {
						p.funcs[x.Name.Name] = true
					} else if len(x.Recv.List) == 1 {
						t := strings.TrimPrefix(exprString(x.Recv.List[0].Type), "*")
						p.methods[x.Name.Name] = append(p.methods[x.Name.Name], t)
						if p.mset[t] == nil {
							p.mset[t] = map[string]bool{}
						}
						p.mset[t][x.Name.Name] = true
					}
				}
			}
		}
	}
	// second pass (needs the import tables): interfaces, struct fields, result types
	for _, dir := range fpDirs {
		p := g.pkgs[dir]
		for rel, f := range p.files {
			ff := g.fileCtx(dir, rel)
			for _, d := range f.Decls {
				switch x := d.(type) {
				case *ast.GenDecl:
					for _, sp := range x.Specs {
						ts, ok := sp.(*ast.TypeSpec)
						if !ok {
							continue
						}
						switch t := ts.Type.(type) {
						case *ast.InterfaceType:
							it := &fpIface{}
							for _, m := range t.Methods.List {
								if len(m.Names) > 0 {
									for _, n := range m.Names {
										it.methods = append(it.methods, n.Name)
									}
									continue
								}
								switch m.Type.(type) {
								case *ast.Ident, *ast.SelectorExpr:
									it.embeds = append(it.embeds, ff.typeStr(m.Type))
								default:
									it.opaque = true
								}
							}
							p.ifaces[ts.Name.Name] = it
						case *ast.StructType:
							fm := map[string]string{}
							for _, fld := range t.Fields.List {
								if len(fld.Names) == 0 {
									p.embeds[ts.Name.Name] = true
									continue
								}
								for _, n := range fld.Names {
									fm[n.Name] = ff.typeStr(fld.Type)
								}
							}
							p.fields[ts.Name.Name] = fm
						}
					}
				case *ast.FuncDecl:
					if x.Type.Results != nil && len(x.Type.Results.List) > 0 {
						k := x.Name.Name
						if _, t := recvOf(x); t != "" {
							k = t + "." + k
						}
						p.rets[k] = ff.typeStr(x.Type.Results.List[0].Type)
					}
				}
			}
		}
	}
	for _, a := range fpAnchors {
		g.anchors[a] = true
		if g.pkgs[filepath.Dir(a)] == nil || g.pkgs[filepath.Dir(a)].files[a] == nil {
			problems = append(problems, "anchor file missing: "+a)
		}
	}
	return problems
}

func splitQual(t string) (string, string) {
	t = strings.TrimPrefix(t, "[]")
	if i := strings.LastIndex(t, "."); i >= 0 {
		return t[:i], t[i+1:]
	}
	return "", t
}

// flatten the method names an interface demands; ok=false when it cannot be determined syntactically
func (g *fpGen) ifaceMethods(qual string, depth int) ([]string, bool) {
	ps, n := splitQual(qual)
	p := g.byShort[ps]
	if p == nil || p.ifaces[n] == nil || depth > 6 {
		return nil, false
	}
	it := p.ifaces[n]
	if it.opaque {
		return nil, false
	}
	out := append([]string{}, it.methods...)
	for _, e := range it.embeds {
		m, ok := g.ifaceMethods(e, depth+1)
		if !ok {
			return nil, false
		}
		out = append(out, m...)
	}
	return out, true
}

// resolveMethod: the functions `x.m()` may denote when x has static type recvType; ok=false: unknown (name-based fallback)
func (g *fpGen) resolveMethod(recvType, m string) ([]string, bool) {
	ps, n := splitQual(recvType)
	p := g.byShort[ps]
	if p == nil || strings.HasPrefix(recvType, "[]") || strings.HasPrefix(recvType, "map[") {
		return nil, false
	}
	if p.ifaces[n] != nil {
		req, ok := g.ifaceMethods(recvType, 0)
		if !ok {
			return nil, false
		}
		has := false
		for _, r := range req {
			has = has || r == m
		}
		if !has {
			return nil, false
		}
		var out []string
		for _, dir := range fpDirs {
			q := g.pkgs[dir]
			for _, t := range q.methods[m] {
				okT := q.embeds[t]
				if !okT {
					okT = true
					for _, r := range req {
						if !q.mset[t][r] {
							okT = false
							break
						}
					}
				}
				if okT {
					out = append(out, q.short+"."+t+"."+m)
				}
			}
		}
		return out, true
	}
	if p.types[n] && !p.embeds[n] {
		if p.mset[n][m] {
			return []string{p.short + "." + n + "." + m}, true
		}
		if _, isStruct := p.fields[n]; isStruct {
			return nil, true // a field of function type, not a method
		}
	}
	return nil, false
}

func (g *fpGen) fileCtx(dir, rel string) *fpFile {
	p := g.pkgs[dir]
	ff := &fpFile{gen: g, pkg: p, rel: rel, imports: map[string]string{}, full: map[string]string{}}
	for _, im := range p.files[rel].Imports {
		path := strings.Trim(im.Path.Value, "\"")
		alias := shortOf(path)
		if im.Name != nil {
			alias = im.Name.Name
		}
		ff.imports[alias] = shortOf(path)
		if im.Name != nil && !strings.HasPrefix(path, fpModule) {
			ff.imports[alias] = alias // an explicit import name is (by convention here) the package name: jose "github.com/go-jose/go-jose/v4"
		}
		ff.full[alias] = path
		if strings.HasPrefix(path, fpModule) && g.byShort[shortOf(path)] != nil {
			ff.full[alias] = shortOf(path)
		}
	}
	return ff
}

func recvOf(fd *ast.FuncDecl) (name, typ string) {
	if fd.Recv == nil || len(fd.Recv.List) != 1 {
		return "", ""
	}
	typ = strings.TrimPrefix(exprString(fd.Recv.List[0].Type), "*")
	if len(fd.Recv.List[0].Names) == 1 {
		name = fd.Recv.List[0].Names[0].Name
	}
	return
}

// constructor shape: `v := &T{…}` (or T{…} / new(T)) with T a struct type of the package … `return v[, …]`, or `return &T{…}`
func (g *fpGen) ctorOf(ff *fpFile, fd *ast.FuncDecl) (varName, typ string, lit *ast.CompositeLit) {
	if fd.Recv != nil || fd.Body == nil || !(strings.HasPrefix(fd.Name.Name, "New") || strings.HasPrefix(fd.Name.Name, "new")) {
		return
	}
	unwrap := func(e ast.Expr) (string, *ast.CompositeLit) {
		if u, ok := e.(*ast.UnaryExpr); ok && u.Op == token.AND {
			e = u.X
		}
		if cl, ok := e.(*ast.CompositeLit); ok {
			if id, ok := cl.Type.(*ast.Ident); ok && ff.pkg.types[id.Name] {
				return id.Name, cl
			}
		}
		if c, ok := e.(*ast.CallExpr); ok {
			if id, ok := c.Fun.(*ast.Ident); ok && id.Name == "new" && len(c.Args) == 1 {
				if t, ok := c.Args[0].(*ast.Ident); ok && ff.pkg.types[t.Name] {
					return t.Name, nil
				}
			}
		}
		return "", nil
	}
	cands := map[string]string{}
	lits := map[string]*ast.CompositeLit{}
	for _, s := range fd.Body.List {
		switch x := s.(type) {
		case *ast.AssignStmt:
			if x.Tok == token.DEFINE && len(x.Lhs) == 1 && len(x.Rhs) == 1 {
				if id, ok := x.Lhs[0].(*ast.Ident); ok {
					if t, cl := unwrap(x.Rhs[0]); t != "" {
						cands[id.Name], lits[id.Name] = t, cl
					}
				}
			}
		case *ast.ReturnStmt:
			if len(x.Results) >= 1 {
				if id, ok := x.Results[0].(*ast.Ident); ok && cands[id.Name] != "" {
					return id.Name, cands[id.Name], lits[id.Name]
				}
				if t, cl := unwrap(x.Results[0]); t != "" {
					return "", t, cl
				}
			}
		}
	}
	return
}

func (g *fpGen) scan() {
	type job struct {
		ff *fpFile
		fd *ast.FuncDecl
	}
	var jobs []job
	dirs := append([]string{}, fpDirs...)
	sort.Strings(dirs)
	// pass 1: constructors of the anchor files determine the instance types
	ctorInfo := map[*ast.FuncDecl][3]string{}
	ctorLit := map[*ast.FuncDecl]*ast.CompositeLit{}
	for _, dir := range dirs {
		p := g.pkgs[dir]
		rels := make([]string, 0, len(p.files))
		for r := range p.files {
			rels = append(rels, r)
		}
		sort.Strings(rels)
		for _, rel := range rels {
			ff := g.fileCtx(dir, rel)
			for _, d := range p.files[rel].Decls {
				fd, ok := d.(*ast.FuncDecl)
				if !ok || fd.Body == nil {
					continue
				}
				jobs = append(jobs, job{ff, fd})
				q := p.short + "." + fd.Name.Name
				if _, t := recvOf(fd); t != "" {
					q = p.short + "." + t + "." + fd.Name.Name
					g.methodsByName[fd.Name.Name] = append(g.methodsByName[fd.Name.Name], q)
				}
				g.allFn[q] = true
				if fd.Type.Params != nil {
					for _, fld := range fd.Type.Params.List {
						for _, n := range fld.Names {
							g.paramNames[q] = append(g.paramNames[q], n.Name)
						}
						if len(fld.Names) == 0 {
							g.paramNames[q] = append(g.paramNames[q], "_")
						}
					}
				}
				if ast.IsExported(fd.Name.Name) {
					g.exported[q] = true
				}
				if g.anchors[rel] {
					if v, t, lit := g.ctorOf(ff, fd); t != "" {
						ctorInfo[fd] = [3]string{v, p.short + "." + t, rel}
						ctorLit[fd] = lit
						g.inst[p.short+"."+t] = true
					}
				}
			}
		}
	}
	// pass 2: walk every function
	for _, j := range jobs {
		fd, ff := j.fd, j.ff
		rn, rt := recvOf(fd)
		w := &fpWalk{f: ff, method: fd.Name.Name, env: map[string]fpProv{}, phase: "func", tenv: map[string]string{}, tparams: map[string]string{},
			decl: map[string]fpDecl{}, direct: map[ast.Node]bool{}, resEnv: map[string]map[string]bool{}, capAlias: map[string]*fpCapture{}}
		if fd.Type.TypeParams != nil {
			for _, tp := range fd.Type.TypeParams.List {
				for _, n := range tp.Names {
					w.tparams[ff.pkg.short+"."+n.Name] = ff.typeStr(tp.Type)
				}
			}
		}
		w.fn = ff.pkg.short + "." + fd.Name.Name
		if rt != "" {
			w.fn = ff.pkg.short + "." + rt + "." + fd.Name.Name
			w.recvT = ff.pkg.short + "." + rt
			w.phase = "method"
			if rn != "" && rn != "_" {
				w.env[rn] = fpProv{Root: fpRoot{Kind: "recv", Type: w.recvT}}
				w.tenv[rn] = w.recvT
				w.declare(rn)
			}
		}
		w.params(fd.Type)
		w.valueUse = valueUses(fd.Body)
		if ci, ok := ctorInfo[fd]; ok {
			w.phase = "ctor"
			w.ctorVar, w.ctorT = ci[0], ci[1]
			c := fpCtor{Name: w.fn, Type: ci[1], File: ci[2]}
			if w.ctorVar != "" {
				w.env[w.ctorVar] = fresh(w.ctorT)
				w.declare(w.ctorVar)
			}
			if lit := ctorLit[fd]; lit != nil {
				for _, el := range lit.Elts {
					if kv, ok := el.(*ast.KeyValueExpr); ok {
						if k, ok := kv.Key.(*ast.Ident); ok {
							w.alias(k.Name, kv.Value)
						}
					}
				}
			}
			// unconditional calls of the new object's methods
			for _, s := range fd.Body.List {
				var call ast.Expr
				switch x := s.(type) {
				case *ast.ExprStmt:
					call = x.X
				case *ast.AssignStmt:
					if len(x.Rhs) == 1 {
						call = x.Rhs[0]
					}
				}
				if ce, ok := call.(*ast.CallExpr); ok {
					if sel, ok := ce.Fun.(*ast.SelectorExpr); ok {
						if id, ok := sel.X.(*ast.Ident); ok && id.Name == w.ctorVar && w.ctorVar != "" {
							c.Eager = append(c.Eager, sel.Sel.Name)
						}
					}
				}
			}
			g.ctors = append(g.ctors, c)
		}
		// getter shape
		if rt != "" && rn != "" && len(fd.Body.List) == 1 {
			if r, ok := fd.Body.List[0].(*ast.ReturnStmt); ok && len(r.Results) == 1 {
				if sel, ok := r.Results[0].(*ast.SelectorExpr); ok {
					if id, ok := sel.X.(*ast.Ident); ok && id.Name == rn {
						g.getters = append(g.getters, fpGetter{Type: w.recvT, Method: fd.Name.Name, Field: sel.Sel.Name})
					}
				}
			}
		}
		w.block(fd.Body.List)
	}
}

// ---------------------------------------------------------------- emission

func getterNamed(m string) bool {
	return strings.HasPrefix(m, "Get") || strings.HasPrefix(m, "Is") || strings.HasPrefix(m, "Has")
}

func (g *fpGen) keep(s fpSite) bool {
	if s.Root.Kind == "fresh" {
		return g.inst[s.Root.Type]
	}
	if s.anchor {
		return true
	}
	switch s.Root.Kind {
	case "global", "via":
		return true
	case "recv":
		return g.inst[s.Root.Type] || getterNamed(s.method)
	case "param":
		// objects of instance types, and element writes / appends into a slice the caller handed in
		return g.inst[s.Root.Type] || ((s.Op == "append" || s.Op == "elem") && strings.HasPrefix(s.Root.Type, "[]"))
	}
	return false
}

func leanList(xs []string) string { return "[" + strings.Join(xs, ", ") + "]" }

func (g *fpGen) reach(siteFns map[string]bool) map[string][]string {
	// resolve "?.M" edges by name, then transitive closure
	adj := map[string][]string{}
	for f, cs := range g.calls {
		seen := map[string]bool{}
		for c := range cs {
			if strings.HasPrefix(c, "?.") {
				for _, q := range g.methodsByName[c[2:]] {
					seen[q] = true
				}
			} else if g.allFn[c] {
				seen[c] = true
			}
		}
		for c := range seen {
			adj[f] = append(adj[f], c)
		}
	}
	out := map[string][]string{}
	for f := range siteFns {
		g.allFn[f] = true // closures returned by a function ("F$ret") exist only through their sites / calls
	}
	for f := range g.allFn {
		seen := map[string]bool{f: true}
		stack := []string{f}
		for len(stack) > 0 {
			x := stack[len(stack)-1]
			stack = stack[:len(stack)-1]
			for _, y := range adj[x] {
				if !seen[y] {
					seen[y] = true
					stack = append(stack, y)
				}
			}
		}
		var r []string
		for x := range seen {
			if siteFns[x] {
				r = append(r, x)
			}
		}
		sort.Strings(r)
		if len(r) > 0 {
			out[f] = r
		}
	}
	return out
}

func footprintFacts(gc *genCtx) string {
	mk := func() *fpGen {
		return &fpGen{g: gc, fset: token.NewFileSet(), pkgs: map[string]*fpPkg{}, byShort: map[string]*fpPkg{}, anchors: map[string]bool{},
			inst: map[string]bool{}, calls: map[string]map[string]bool{}, allFn: map[string]bool{}, methodsByName: map[string][]string{}, exported: map[string]bool{},
			paramNames: map[string][]string{}, heap: newFpHeap()}
	}
	g := mk()
	if problems := g.load(); len(problems) > 0 {
		gc.unsup["footprint"] = problems
		return "def facts : Footprint.Facts := UNSUPPORTED_footprint_scan_failed\n"
	}
	g.heapLoad()
	g.heapCells()
	// which function results may be a package-level cell / an object handed through: scan to a fixpoint, then the real scan
	handsOut := heapFixpoint(func() *fpGen {
		a := mk()
		a.load()
		a.heapLoad()
		a.heapCells()
		return a
	})
	g.heap.ret = handsOut
	g.heap.mutators = c11ErrorMutators(gc)
	g.scan()
	g.heapInitCalls()

	var b strings.Builder
	var sites []fpSite
	capOwners := map[string]bool{}
	captured := func(s fpSite, c fpCapture) fpSite {
		// the closure runs whenever somebody calls it: after the constructing call has returned
		s.Root = fpRoot{Kind: "captured", Name: c.Owner, Method: c.Var, Type: c.Type, Depth: c.Depth}
		if s.Phase == "ctor" {
			s.Phase = "func"
		}
		capOwners[c.Owner] = true
		return s
	}
	for _, s := range g.sites {
		switch {
		case g.keep(s) && !(s.cap != nil && s.Root.Kind == "fresh" && s.Root.Type == ""):
			sites = append(sites, s)
		case s.cap != nil:
			// only the closure rule sees this write: a variable of an enclosing function, captured by an escaping literal
			sites = append(sites, captured(s, *s.cap))
		case s.Root.Kind == "recv" || s.Root.Kind == "param":
			// write through the receiver / a parameter of a function that an escaping closure (or method value) hands a
			// captured variable to
			followed := false
			for _, mv := range g.mvals {
				if mv.Method == s.Func && ((s.Root.Kind == "recv" && mv.Param == "") || (s.Root.Kind == "param" && mv.Param == s.Root.Name)) {
					sites = append(sites, captured(s, mv.Cap))
					followed = true
					break
				}
			}
			if !followed {
				g.heapDropped(s)
			}
		}
	}
	// foreign writes that may hit a package-level pointer cell of the same pointee type (footprint_c20heap.go)
	sites = append(sites, g.heapExpansion()...)
	sort.SliceStable(sites, func(i, j int) bool {
		if sites[i].File != sites[j].File {
			return sites[i].File < sites[j].File
		}
		return sites[i].Line < sites[j].Line
	})
	siteFns := map[string]bool{}
	for o := range capOwners {
		siteFns[o] = true // the function whose activation holds a captured variable: whoever reaches it can obtain the closure
	}
	b.WriteString("/-- every write whose target is not a local, freshly created object (see harness/cmd/factgen/footprint.go) -/\n")
	b.WriteString("def writeSites : List Footprint.WriteSite := [\n")
	var js []map[string]any
	for i, s := range sites {
		siteFns[s.Func] = true
		path := make([]string, len(s.Path))
		for k, p := range s.Path {
			path[k] = leanStr(p)
		}
		guard := ".none"
		switch s.Guard {
		case "ifNil":
			guard = ".ifNil"
		case "locked":
			guard = ".locked " + leanStr(s.Mutex)
		}
		sep := ","
		if i == len(sites)-1 {
			sep = ""
		}
		fmt.Fprintf(&b, "  { file := %s, fn := %s, meth := %s, line := %d, lhs := %s, root := %s, path := %s, op := .%s, phase := .%s, guard := %s }%s\n",
			leanStr(s.File), leanStr(s.Func), leanStr(s.method), s.Line, leanStr(s.Lhs), s.Root.lean(), leanList(path), s.Op, s.Phase, guard, sep)
		js = append(js, map[string]any{"fn": s.Func, "lhs": s.Lhs, "root": s.Root.Kind + ":" + s.Root.Name + s.Root.Type + ":" + s.Root.Method,
			"path": strings.Join(s.Path, "."), "op": s.Op, "phase": s.Phase, "guard": s.Guard + s.Mutex})
	}
	b.WriteString("]\n\n")
	gc.facts["writeSites"] = js

	b.WriteString("/-- fields of library instances that are initialised from a package-level variable or from a parameter -/\n")
	b.WriteString("def aliasInits : List Footprint.AliasInit := [\n")
	var al []string
	seenAl := map[string]bool{}
	for _, a := range g.aliases {
		if !g.inst[a.Type] {
			continue
		}
		l := fmt.Sprintf("  { fn := %s, ty := %s, field := %s, src := %s }", leanStr(a.Func), leanStr(a.Type), leanStr(a.Field), a.Src.lean())
		if !seenAl[l] {
			seenAl[l] = true
			al = append(al, l)
			siteFns[a.Func] = true
		}
	}
	b.WriteString(strings.Join(al, ",\n") + "\n]\n\n")
	gc.facts["aliasInits"] = al

	b.WriteString("/-- constructors of the anchor files and the methods they call unconditionally on the new object -/\n")
	b.WriteString("def ctors : List Footprint.Ctor := [\n")
	var cs []string
	for _, c := range g.ctors {
		e := make([]string, len(c.Eager))
		for i, x := range c.Eager {
			e[i] = leanStr(x)
		}
		cs = append(cs, fmt.Sprintf("  { name := %s, ty := %s, eager := %s }", leanStr(c.Name), leanStr(c.Type), leanList(e)))
		siteFns[c.Name] = true
	}
	b.WriteString(strings.Join(cs, ",\n") + "\n]\n\n")
	gc.facts["ctors"] = cs

	b.WriteString("/-- methods of instance types whose body is `return recv.field` -/\n")
	b.WriteString("def getters : List Footprint.Getter := [\n")
	var gs []string
	for _, x := range g.getters {
		if g.inst[x.Type] {
			gs = append(gs, fmt.Sprintf("  { ty := %s, method := %s, field := %s }", leanStr(x.Type), leanStr(x.Method), leanStr(x.Field)))
		}
	}
	b.WriteString(strings.Join(gs, ",\n") + "\n]\n\n")

	// reads of fields that have a write under a mutex
	locked := map[string]bool{}
	for _, s := range sites {
		if s.Guard == "locked" && (s.Root.Kind == "recv") && len(s.Path) >= 1 {
			locked[s.Root.Type+"/"+s.Path[0]] = true
		}
	}
	b.WriteString("/-- every read of a receiver field that is somewhere written under a mutex, with the mutex held at the read (\"\" = none) -/\n")
	b.WriteString("def reads : List Footprint.ReadSite := [\n")
	var rs []string
	for _, r := range g.fieldUses {
		if locked[r.Type+"/"+r.Field] {
			rs = append(rs, fmt.Sprintf("  { fn := %s, ty := %s, field := %s, line := %d, mutex := %s }", leanStr(r.Func), leanStr(r.Type), leanStr(r.Field), r.Line, leanStr(r.Mutex)))
		}
	}
	b.WriteString(strings.Join(rs, ",\n") + "\n]\n\n")
	gc.facts["lockedFieldReads"] = rs

	// reach: only functions that reach something
	re := g.reach(siteFns)
	keys := make([]string, 0, len(re))
	for k := range re {
		keys = append(keys, k)
	}
	sort.Strings(keys)
	b.WriteString("/-- name-based call graph, closed transitively: function ↦ the site-bearing functions / constructors it may run -/\n")
	b.WriteString("def reach : List (String × List String) := [\n")
	var rl []string
	for _, k := range keys {
		q := make([]string, len(re[k]))
		for i, x := range re[k] {
			q[i] = leanStr(x)
		}
		rl = append(rl, fmt.Sprintf("  (%s, %s)", leanStr(k), leanList(q)))
	}
	b.WriteString(strings.Join(rl, ",\n") + "\n]\n\n")

	// package-level variables
	var gv []string
	for _, dir := range fpDirs {
		p := g.pkgs[dir]
		var ns []string
		for n := range p.vars {
			ns = append(ns, n)
		}
		sort.Strings(ns)
		for _, n := range ns {
			gv = append(gv, leanStr(p.short+"."+n))
		}
	}
	b.WriteString("/-- package-level variables of the scanned packages -/\n")
	b.WriteString("def globalVars : List String := " + leanList(gv) + "\n\n")
	gc.facts["globalVars"] = gv

	b.WriteString(g.heapFacts(handsOut))
	b.WriteString("def facts : Footprint.Facts :=\n  { sites := writeSites, aliases := aliasInits, ctors := ctors, getters := getters, reads := reads, reach := reach, globals := globalVars }\n")
	return b.String()
}
