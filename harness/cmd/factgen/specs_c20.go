package main

func init() {
	// C20: W facts (footprint.go)
	extraGroups = append(extraGroups, Group{Out: "Footprint.lean", Imports: []string{"OidcModel.Model.Footprint"}, Extra: footprintFacts})
}
