package main

// C11, error side: WHICH `*oidc.Error` object AuthRequestError / TryErrorRedirect (pkg/op/error.go) complete and encode
// (`GenErr.authRequestErrorProgram`, `GenErr.tryErrorRedirectProgram` : List ErrPar.Op, in source order).
// The functions obtain the error with oidc.DefaultToServerError — through errors.As that is the CALLER'S object whenever the
// error they were handed contains one (`handed`).  A statement pair `c := *e` … `e = &c` (unconditional, at the top level of
// the function body) makes `e` an object allocated in this call (`own`); so do `e = new(oidc.Error)` / `e = &oidc.Error{…}`.
// Every assignment `e.<field> = …` / mutator method call `e.With…(…)` and every `AuthResponseURL(…, e, …)` is listed with the
// object it addresses.  What is not understood comes out as `.unsupported "<source>"` and blocks the theorems.
// WHAT is assigned is not recorded here: that is the subject of the translated functions themselves (GenErr.AuthRequestError).
// stdlib only (go/ast).

import (
	"go/ast"
	"go/token"
	"strings"
)

type c11ErrProg struct {
	g        *genCtx
	kind     map[string]string // pointer variables that refer to an *oidc.Error: "handed" | "own"
	vals     map[string]bool   // local variables that ARE an oidc.Error (a struct value declared in this call)
	mutators map[string]bool   // methods of *oidc.Error that assign to a field of their receiver
	ops      []string
}

func (p *c11ErrProg) emit(op string) { p.ops = append(p.ops, op) }

func (p *c11ErrProg) unsupported(n ast.Node, why string) {
	p.emit(".unsupported " + leanStr(why+": "+goSrc(p.g.fset, n)))
}

func c11IsDefaultToServerError(e ast.Expr) bool {
	c, ok := ast.Unparen(e).(*ast.CallExpr)
	if !ok {
		return false
	}
	f := exprString(c.Fun)
	return f == "oidc.DefaultToServerError" || f == "DefaultToServerError"
}

// c11IsNewError: new(oidc.Error) / &oidc.Error{…}
func c11IsNewError(e ast.Expr) bool {
	switch x := ast.Unparen(e).(type) {
	case *ast.CallExpr:
		if exprString(x.Fun) == "new" && len(x.Args) == 1 {
			t := exprString(x.Args[0])
			return t == "oidc.Error" || t == "Error"
		}
	case *ast.UnaryExpr:
		if cl, ok := x.X.(*ast.CompositeLit); ok && x.Op == token.AND {
			t := exprString(cl.Type)
			return t == "oidc.Error" || t == "Error"
		}
	}
	return false
}

// target of an expression that denotes an error object: a tracked pointer, or the address of a local value
func (p *c11ErrProg) target(e ast.Expr) (string, bool) {
	switch x := ast.Unparen(e).(type) {
	case *ast.Ident:
		if k, ok := p.kind[x.Name]; ok {
			return k, true
		}
		if p.vals[x.Name] {
			return "own", true
		}
	case *ast.UnaryExpr:
		if id, ok := x.X.(*ast.Ident); ok && x.Op == token.AND && p.vals[id.Name] {
			return "own", true
		}
	case *ast.StarExpr:
		return p.target(x.X)
	}
	return "", false
}

func (p *c11ErrProg) exprs(depth int, es ...ast.Expr) {
	for _, e := range es {
		if e == nil {
			continue
		}
		ast.Inspect(e, func(n ast.Node) bool {
			switch x := n.(type) {
			case *ast.FuncLit:
				p.block(depth+1, x.Body.List)
				return false
			case *ast.CallExpr:
				fun := exprString(x.Fun)
				if fun == "errors.As" && len(x.Args) == 2 {
					if u, ok := ast.Unparen(x.Args[1]).(*ast.UnaryExpr); ok && u.Op == token.AND {
						if id, ok := u.X.(*ast.Ident); ok {
							if _, tracked := p.kind[id.Name]; tracked {
								p.kind[id.Name] = "handed"
							}
						}
					}
				}
				if fun == "AuthResponseURL" || strings.HasSuffix(fun, ".AuthResponseURL") {
					for _, a := range x.Args {
						if t, ok := p.target(a); ok {
							p.emit(".encode ." + t)
						}
					}
				}
				if sel, ok := x.Fun.(*ast.SelectorExpr); ok && p.mutators[sel.Sel.Name] {
					if t, ok := p.target(sel.X); ok {
						// arguments first (Go evaluates them before the call)
						p.exprs(depth, x.Args...)
						p.emit(".set ." + t + " " + leanStr(sel.Sel.Name))
						return false
					}
				}
			}
			return true
		})
	}
}

func (p *c11ErrProg) assign(depth int, st ast.Stmt, lhs, rhs ast.Expr) {
	switch l := ast.Unparen(lhs).(type) {
	case *ast.Ident:
		_, tracked := p.kind[l.Name]
		switch {
		case rhs == nil:
			return
		case c11IsDefaultToServerError(rhs):
			if depth > 0 && tracked && p.kind[l.Name] != "handed" {
				p.unsupported(st, "conditional rebinding of the error variable")
			}
			p.kind[l.Name] = "handed"
		case c11IsNewError(rhs):
			if depth > 0 {
				p.unsupported(st, "conditional rebinding of the error variable")
				return
			}
			p.kind[l.Name] = "own"
			p.emit(".fresh")
		default:
			r := ast.Unparen(rhs)
			if s, ok := r.(*ast.StarExpr); ok {
				if t, ok := p.target(s.X); ok { // c := *e : a struct value of this call, initialised from e's object
					p.vals[l.Name] = true
					delete(p.kind, l.Name)
					if t == "handed" {
						p.emit(".copy")
					}
					return
				}
			}
			if t, ok := p.target(r); ok { // e = &c / y := e
				if depth > 0 && tracked && p.kind[l.Name] != t {
					p.unsupported(st, "conditional rebinding of the error variable")
					return
				}
				p.kind[l.Name] = t
				delete(p.vals, l.Name)
				return
			}
			if tracked || p.vals[l.Name] {
				p.unsupported(st, "the error variable is bound to something else")
			}
		}
	case *ast.SelectorExpr:
		if t, ok := p.target(l.X); ok {
			p.emit(".set ." + t + " " + leanStr(l.Sel.Name))
		}
	case *ast.StarExpr:
		if t, ok := p.target(l.X); ok {
			p.emit(".set ." + t + " " + leanStr("*"))
		}
	}
}

func (p *c11ErrProg) stmt(depth int, st ast.Stmt) {
	switch x := st.(type) {
	case nil:
	case *ast.AssignStmt:
		p.exprs(depth, x.Rhs...)
		if len(x.Lhs) == len(x.Rhs) {
			for i := range x.Lhs {
				p.assign(depth, x, x.Lhs[i], x.Rhs[i])
			}
		} else {
			for _, l := range x.Lhs {
				if id, ok := l.(*ast.Ident); ok {
					if _, tracked := p.kind[id.Name]; tracked || p.vals[id.Name] {
						p.unsupported(x, "the error variable is bound to a call result")
					}
				}
			}
		}
	case *ast.DeclStmt:
		if gd, ok := x.Decl.(*ast.GenDecl); ok {
			for _, sp := range gd.Specs {
				if vs, ok := sp.(*ast.ValueSpec); ok {
					p.exprs(depth, vs.Values...)
					for i, n := range vs.Names {
						if i < len(vs.Values) {
							p.assign(depth, x, n, vs.Values[i])
						} else if vs.Type != nil {
							if t := exprString(vs.Type); t == "oidc.Error" || t == "Error" {
								p.vals[n.Name] = true
								if depth == 0 {
									p.emit(".fresh")
								}
							}
						}
					}
				}
			}
		}
	case *ast.ExprStmt:
		p.exprs(depth, x.X)
	case *ast.ReturnStmt:
		p.exprs(depth, x.Results...)
	case *ast.DeferStmt:
		p.exprs(depth+1, x.Call)
	case *ast.GoStmt:
		p.exprs(depth+1, x.Call)
	case *ast.BlockStmt:
		p.block(depth, x.List)
	case *ast.IfStmt:
		p.stmt(depth, x.Init)
		p.exprs(depth, x.Cond)
		p.block(depth+1, x.Body.List)
		if x.Else != nil {
			p.stmt(depth+1, x.Else)
		}
	case *ast.ForStmt:
		p.stmt(depth+1, x.Init)
		p.exprs(depth+1, x.Cond)
		p.block(depth+1, x.Body.List)
		p.stmt(depth+1, x.Post)
	case *ast.RangeStmt:
		p.exprs(depth, x.X)
		p.block(depth+1, x.Body.List)
	case *ast.SwitchStmt:
		p.stmt(depth, x.Init)
		p.exprs(depth, x.Tag)
		p.block(depth+1, x.Body.List)
	case *ast.TypeSwitchStmt:
		p.stmt(depth, x.Init)
		p.stmt(depth, x.Assign)
		p.block(depth+1, x.Body.List)
	case *ast.CaseClause:
		p.exprs(depth, x.List...)
		p.block(depth, x.Body)
	case *ast.LabeledStmt:
		p.stmt(depth, x.Stmt)
	case *ast.IncDecStmt, *ast.BranchStmt, *ast.EmptyStmt, *ast.SendStmt, *ast.SelectStmt, *ast.CommClause:
	default:
		p.unsupported(st, "statement")
	}
}

func (p *c11ErrProg) block(depth int, sts []ast.Stmt) {
	for _, s := range sts {
		p.stmt(depth, s)
	}
}

// c11ErrorMutators: the methods of *oidc.Error that assign to a field of their receiver (pkg/oidc/error.go)
func c11ErrorMutators(g *genCtx) map[string]bool {
	out := map[string]bool{}
	f := g.file("pkg/oidc/error.go")
	if f == nil {
		return out
	}
	for _, d := range f.Decls {
		fd, ok := d.(*ast.FuncDecl)
		if !ok || fd.Recv == nil || len(fd.Recv.List) != 1 || fd.Body == nil || len(fd.Recv.List[0].Names) != 1 {
			continue
		}
		if exprString(fd.Recv.List[0].Type) != "*Error" {
			continue
		}
		recv := fd.Recv.List[0].Names[0].Name
		ast.Inspect(fd.Body, func(n ast.Node) bool {
			if as, ok := n.(*ast.AssignStmt); ok {
				for _, l := range as.Lhs {
					if sel, ok := l.(*ast.SelectorExpr); ok {
						if id, ok := sel.X.(*ast.Ident); ok && id.Name == recv {
							out[fd.Name.Name] = true
						}
					}
				}
			}
			return true
		})
	}
	return out
}

func c11ErrPrograms(g *genCtx) string {
	var b strings.Builder
	mut := c11ErrorMutators(g)
	progs := map[string][]string{}
	for _, fn := range []struct{ goName, lean, errParam string }{
		{"AuthRequestError", "authRequestErrorProgram", "err"},
		{"TryErrorRedirect", "tryErrorRedirectProgram", "parent"},
	} {
		p := &c11ErrProg{g: g, kind: map[string]string{}, vals: map[string]bool{}, mutators: mut}
		fd := g.findFunc("pkg/op/error.go", fn.goName)
		if fd == nil {
			p.emit(".unsupported " + leanStr("function not found: "+fn.goName))
		} else {
			// a parameter of type *oidc.Error is a handed-in object as well
			for _, fl := range fd.Type.Params.List {
				if exprString(fl.Type) == "*oidc.Error" {
					for _, n := range fl.Names {
						p.kind[n.Name] = "handed"
					}
				}
			}
			p.block(0, fd.Body.List)
		}
		b.WriteString("/-- the statements of `" + fn.goName + "` (pkg/op/error.go) that concern the `*oidc.Error` it answers with, in source order, each with the\n" +
			"    object it addresses: `.handed` = the object oidc.DefaultToServerError found (errors.As) in the error the function was handed,\n" +
			"    `.own` = an object allocated in this call (`c := *e; e = &c` = `.copy`) -/\n")
		b.WriteString("def " + fn.lean + " : List ErrPar.Op := [" + strings.Join(p.ops, ", ") + "]\n\n")
		progs[fn.goName] = p.ops
	}
	g.facts["errorAnswerPrograms"] = progs
	return b.String()
}
