package main

// W facts, part 2 (property C20, deep round 3): objects that a function writes but did not create.
//
//   sharedCells    every package-level variable of the scanned packages with the KIND of value it holds
//                  (ptr / slice / map: a shared memory cell that anybody who obtains the value can write through;
//                  func / value / ext: nothing of the library can be written through it) and the pointee / element type.
//   handsOut       which function results may BE such a cell (`return errShared`, `return x` with x bound to it, a result of
//                  a callee that hands it out, a parameter / receiver handed through), closed over the call graph by iterating
//                  the scan to a fixpoint (origins.go style: a result is described by the set of its possible origins).
//   foreignWrites  every write `x.f = v`, `x[i] = v`, `*x = v`, `append(x, …)` whose target object the writing function did NOT
//                  create: it was received as the result of a call that is not known to return a fresh object, extracted from an
//                  error chain with errors.As, or is the receiver / a parameter of a function outside the anchor files (those
//                  sites are dropped from `writeSites` by the older `keep` rule).  Each one carries the static pointee type.
//   expansion      a foreign write of pointee type T may hit every shared cell of kind ptr whose pointee type is T (may-alias
//                  by type: error values travel through `error` interfaces, function-typed variables and errors.As, where a
//                  syntactic flow analysis loses them).  For every such pair factgen ADDS a write site with root `.global g`
//                  to `writeSites`, so the footprint model, `hidden_exact`, the frame theorems and the driver's prediction see
//                  it; `Proofs/C20Heap.lean` recomputes the pairs in Lean from the two fact lists and proves that none exists
//                  in the current source (and that factgen's expansion is the same list).
//   closure slices a local variable that ALIASES a variable captured from an enclosing function (`opts := urlOpts`,
//                  `o := cfg.opts[:n]`) inherits the capture: `opts = append(opts, x)`, `opts[i] = x`, `o.f = x` inside an escaping
//                  function literal are captured-cell sites (spare-capacity aliasing of a slice built once per factory call).
//   factories      functions that return a function literal (handler factories) — every `F$ret`.

import (
	"fmt"
	"go/ast"
	"go/token"
	"go/types"
	"sort"
	"strings"
)

type fpHeapWrite struct {
	File, Func, Lhs string
	Line            int
	Via, Type       string
	Path            []string
	Op, Phase       string
}

type fpSharedCell struct{ Name, Kind, Type string }

type fpHeap struct {
	collect   bool
	ret       map[string]map[string]bool // "fn#i" -> origin atoms of result i (from the previous iteration)
	newRet    map[string]map[string]bool
	writes    []fpHeapWrite
	cellKind  map[string]fpSharedCell // qualified variable -> cell
	factories map[string]bool
	vrets     map[string]string // "pkg.Var" of function type -> first result type (star stripped)
	retKind   map[string]string // "pkg.F" / "pkg.T.M" / "pkg.Var" -> kind of result 0: ptr | slice | map | func | value | named
	mutators  map[string]bool   // methods of *oidc.Error that assign to a field of their receiver (c11errprog.go: c11ErrorMutators)
	mutCalls  []fpMutCall       // every call of one of them, with the origins of the receiver
	initCalls []fpMutCall       // … inside the initialiser expression of a package-level variable (runs once, at package initialisation)
}

// fpMutCall: `x.WithDescription(…)` — a write into the object x refers to, made by the method (a `recv` foreign write)
type fpMutCall struct {
	File, Func, Method string
	Line               int
	Origins            []string
}

func newFpHeap() *fpHeap {
	return &fpHeap{ret: map[string]map[string]bool{}, newRet: map[string]map[string]bool{}, cellKind: map[string]fpSharedCell{},
		factories: map[string]bool{}, vrets: map[string]string{}, retKind: map[string]string{}}
}

func kindOfTypeExpr(e ast.Expr) string {
	switch x := e.(type) {
	case *ast.StarExpr:
		return "ptr"
	case *ast.ArrayType:
		if x.Len == nil {
			return "slice"
		}
		return "value"
	case *ast.MapType:
		return "map"
	case *ast.FuncType:
		return "func"
	case *ast.ChanType:
		return "ptr"
	case *ast.Ident:
		if fpBuiltinTypes[x.Name] && x.Name != "error" && x.Name != "any" {
			return "value"
		}
		return "named"
	case *ast.ParenExpr:
		return kindOfTypeExpr(x.X)
	}
	return "named"
}

// declared kinds of results and of package-level variables (needs the import tables: called after load)
func (g *fpGen) heapLoad() {
	h := g.heap
	for _, dir := range fpDirs {
		p := g.pkgs[dir]
		for rel, f := range p.files {
			ff := g.fileCtx(dir, rel)
			for _, d := range f.Decls {
				switch x := d.(type) {
				case *ast.FuncDecl:
					if x.Type.Results != nil && len(x.Type.Results.List) > 0 {
						k := p.short + "." + x.Name.Name
						if _, t := recvOf(x); t != "" {
							k = p.short + "." + t + "." + x.Name.Name
						}
						h.retKind[k] = kindOfTypeExpr(x.Type.Results.List[0].Type)
					}
				case *ast.GenDecl:
					if x.Tok != token.VAR {
						continue
					}
					for _, sp := range x.Specs {
						vs, ok := sp.(*ast.ValueSpec)
						if !ok {
							continue
						}
						for i, n := range vs.Names {
							if n.Name == "_" {
								continue
							}
							q := p.short + "." + n.Name
							c := fpSharedCell{Name: q, Kind: "value"}
							var init ast.Expr
							if i < len(vs.Values) {
								init = vs.Values[i]
							}
							if fl, ok := init.(*ast.FuncLit); ok && fl.Type.Results != nil && len(fl.Type.Results.List) > 0 {
								h.vrets[q] = ff.typeStr(fl.Type.Results.List[0].Type)
								h.retKind[q] = kindOfTypeExpr(fl.Type.Results.List[0].Type)
							}
							if vs.Type != nil {
								c.Kind, c.Type = kindOfTypeExpr(vs.Type), ff.typeStr(vs.Type)
								if c.Kind == "named" {
									if _, isFn := init.(*ast.FuncLit); isFn {
										c.Kind = "func"
									}
								}
							}
							h.cellKind[q] = c
						}
					}
				}
			}
		}
	}
}

// kind / type of a package-level variable from its initialiser (second step: result kinds are known)
func (g *fpGen) heapCells() {
	h := g.heap
	for _, dir := range fpDirs {
		p := g.pkgs[dir]
		for rel, f := range p.files {
			ff := g.fileCtx(dir, rel)
			w := &fpWalk{f: ff, env: map[string]fpProv{}, tenv: map[string]string{}, tparams: map[string]string{}, decl: map[string]fpDecl{}, direct: map[ast.Node]bool{}}
			for _, d := range f.Decls {
				x, ok := d.(*ast.GenDecl)
				if !ok || x.Tok != token.VAR {
					continue
				}
				for _, sp := range x.Specs {
					vs, ok := sp.(*ast.ValueSpec)
					if !ok || vs.Type != nil {
						continue
					}
					for i, n := range vs.Names {
						if n.Name == "_" || i >= len(vs.Values) {
							continue
						}
						q := p.short + "." + n.Name
						k, t := w.heapKindOf(vs.Values[i])
						h.cellKind[q] = fpSharedCell{Name: q, Kind: k, Type: t}
					}
				}
			}
		}
	}
}

// kind and pointee / element type of the value of an expression (package-level initialisers)
func (w *fpWalk) heapKindOf(e ast.Expr) (string, string) {
	switch x := e.(type) {
	case *ast.ParenExpr:
		return w.heapKindOf(x.X)
	case *ast.UnaryExpr:
		if x.Op == token.AND {
			return "ptr", w.hTypeOf(x.X)
		}
		return "value", ""
	case *ast.CompositeLit:
		k := kindOfTypeExpr(x.Type)
		if k == "named" {
			k = "value" // a struct / named value: assignment copies it
		}
		return k, w.f.typeStr(x.Type)
	case *ast.FuncLit:
		return "func", ""
	case *ast.BasicLit, *ast.BinaryExpr:
		return "value", ""
	case *ast.Ident:
		if c, ok := w.f.gen.heap.cellKind[w.f.pkg.short+"."+x.Name]; ok && !fpBuiltinTypes[x.Name] {
			return c.Kind, c.Type
		}
		return "value", ""
	case *ast.CallExpr:
		fun := x.Fun
		if ix, ok := fun.(*ast.IndexExpr); ok {
			fun = ix.X
		}
		if id, ok := fun.(*ast.Ident); ok {
			switch id.Name {
			case "new":
				if len(x.Args) == 1 {
					return "ptr", w.f.typeStr(x.Args[0])
				}
			case "make":
				if len(x.Args) >= 1 {
					return kindOfTypeExpr(x.Args[0]), w.f.typeStr(x.Args[0])
				}
			}
		}
		if len(x.Args) == 1 && w.isTypeName(fun) {
			return w.heapKindOf(x.Args[0])
		}
		fns, known := w.heapCallees(x)
		if known && len(fns) > 0 {
			k := w.f.gen.heap.retKind[fns[0]]
			if k == "" {
				k = "named"
			}
			return k, w.hTypeOf(x)
		}
		return "ext", "" // result of a function outside the scanned packages (errors.New, template.Must, otel.Tracer)
	}
	return "value", ""
}

// static type, also through calls of function-typed package-level variables (oidc.ErrInvalidRequest())
func (w *fpWalk) hTypeOf(e ast.Expr) string {
	if t := w.typeOf(e); t != "" {
		return t
	}
	g := w.f.gen
	switch x := e.(type) {
	case *ast.ParenExpr:
		return w.hTypeOf(x.X)
	case *ast.UnaryExpr:
		if x.Op == token.AND {
			return w.hTypeOf(x.X)
		}
	case *ast.CallExpr:
		switch f := x.Fun.(type) {
		case *ast.Ident:
			if _, local := w.env[f.Name]; !local {
				return g.heap.vrets[w.f.pkg.short+"."+f.Name]
			}
		case *ast.SelectorExpr:
			if id, ok := f.X.(*ast.Ident); ok {
				if s, imp := w.isImport(id); imp {
					return g.heap.vrets[s+"."+f.Sel.Name]
				}
			}
			bt := w.hTypeOf(f.X)
			if fns, ok := g.resolveMethod(bt, f.Sel.Name); ok && len(fns) == 1 {
				q, tn := splitQual(strings.TrimSuffix(fns[0], "."+f.Sel.Name))
				if p := g.byShort[q]; p != nil {
					return p.rets[tn+"."+f.Sel.Name]
				}
			}
		}
	}
	return ""
}

// the declared functions a call may run; known=false: not a function of the scanned packages / not resolvable
func (w *fpWalk) heapCallees(c *ast.CallExpr) ([]string, bool) {
	g := w.f.gen
	fun := c.Fun
	switch x := fun.(type) {
	case *ast.IndexExpr:
		fun = x.X
	case *ast.IndexListExpr:
		fun = x.X
	}
	switch x := fun.(type) {
	case *ast.Ident:
		if _, local := w.env[x.Name]; local {
			return nil, false
		}
		q := w.f.pkg.short + "." + x.Name
		if w.f.pkg.funcs[x.Name] {
			return []string{q}, true
		}
		if _, ok := g.heap.vrets[q]; ok {
			return []string{q}, true
		}
	case *ast.SelectorExpr:
		if id, ok := x.X.(*ast.Ident); ok {
			if s, ok := w.isImport(id); ok {
				q := s + "." + x.Sel.Name
				if p := g.byShort[s]; p != nil {
					if p.funcs[x.Sel.Name] {
						return []string{q}, true
					}
					if _, ok := g.heap.vrets[q]; ok {
						return []string{q}, true
					}
				}
				return []string{q}, false
			}
		}
		if fns, ok := g.resolveMethod(w.hTypeOf(x.X), x.Sel.Name); ok && len(fns) > 0 {
			return fns, true
		}
	}
	return nil, false
}

func (w *fpWalk) declFn() string { return strings.TrimSuffix(w.fn, "$ret") }

func atomsOf(xs ...string) map[string]bool {
	m := map[string]bool{}
	for _, x := range xs {
		m[x] = true
	}
	return m
}

func union(a, b map[string]bool) map[string]bool {
	for k := range b {
		a[k] = true
	}
	return a
}

var fpFreshExt = map[string]bool{"errors.New": true, "fmt.Errorf": true, "fmt.Sprintf": true, "errors.Join": true, "strings.Split": true, "strings.Fields": true}

// origins of the value of e: "fresh", "global:<cell>", "param:<i>", "recv", "foreign:<why>"
func (w *fpWalk) origins(e ast.Expr, idx int) map[string]bool {
	g := w.f.gen
	switch x := e.(type) {
	case nil:
		return atomsOf("fresh")
	case *ast.Ident:
		if r, ok := w.resEnv[x.Name]; ok {
			return union(map[string]bool{}, r)
		}
		if p, ok := w.env[x.Name]; ok {
			switch p.Root.Kind {
			case "global":
				return atomsOf("global:" + p.Root.Name)
			case "param":
				if d, ok := w.decl[x.Name]; ok && d.depth == 0 {
					for i, n := range g.paramNames[w.declFn()] {
						if n == p.Root.Name {
							return atomsOf(fmt.Sprint("param:", i))
						}
					}
				}
				return atomsOf("foreign:param")
			case "recv":
				return atomsOf("recv")
			case "via":
				return atomsOf("foreign:via." + p.Root.Method)
			}
			if w.capOrAlias(x.Name) != nil {
				return atomsOf("foreign:captured")
			}
			return atomsOf("fresh")
		}
		if p, ok := w.lookupGlobal(x.Name); ok {
			return atomsOf("global:" + p.Root.Name)
		}
		return atomsOf("fresh")
	case *ast.SelectorExpr:
		if id, ok := x.X.(*ast.Ident); ok {
			if s, ok := w.isImport(id); ok {
				if p := g.byShort[s]; p != nil && p.vars[x.Sel.Name] {
					return atomsOf("global:" + s + "." + x.Sel.Name)
				}
				return atomsOf("fresh")
			}
		}
		return w.origins(x.X, 0)
	case *ast.ParenExpr:
		return w.origins(x.X, idx)
	case *ast.StarExpr:
		return w.origins(x.X, 0)
	case *ast.TypeAssertExpr:
		return w.origins(x.X, 0)
	case *ast.SliceExpr:
		return w.origins(x.X, 0)
	case *ast.IndexExpr:
		return w.origins(x.X, 0)
	case *ast.UnaryExpr:
		if x.Op == token.AND {
			return w.origins(x.X, 0)
		}
		return atomsOf("fresh")
	case *ast.CallExpr:
		fun := x.Fun
		if ix, ok := fun.(*ast.IndexExpr); ok {
			fun = ix.X
		}
		if id, ok := fun.(*ast.Ident); ok {
			switch id.Name {
			case "append":
				if len(x.Args) > 0 {
					return union(atomsOf("fresh"), w.origins(x.Args[0], 0))
				}
			case "new", "make", "len", "cap", "string", "copy":
				return atomsOf("fresh")
			}
		}
		if len(x.Args) == 1 && w.isTypeName(fun) {
			return w.origins(x.Args[0], 0)
		}
		fns, known := w.heapCallees(x)
		if !known {
			if len(fns) == 1 && fpFreshExt[fns[0]] {
				return atomsOf("fresh")
			}
			name := "?"
			if len(fns) == 1 {
				name = fns[0]
			} else if sel, ok := fun.(*ast.SelectorExpr); ok {
				name = "?." + sel.Sel.Name
			} else if id, ok := fun.(*ast.Ident); ok {
				name = "?" + id.Name
			}
			return atomsOf("foreign:result:" + name)
		}
		out := map[string]bool{}
		for _, f := range fns {
			at, ok := g.heap.ret[fmt.Sprint(f, "#", idx)]
			if !ok || len(at) == 0 {
				if _, isVar := g.heap.vrets[f]; isVar {
					// function-typed package-level variable: its literal is walked as part of no declared function; the error
					// constructors of pkg/oidc all return a new object
					out["fresh"] = true
					continue
				}
				out["fresh"] = true // nothing returned yet (first iteration) / no result
				continue
			}
			for a := range at {
				switch {
				case a == "recv":
					if sel, ok := fun.(*ast.SelectorExpr); ok {
						union(out, w.origins(sel.X, 0))
					} else {
						out["foreign:result:"+f] = true
					}
				case strings.HasPrefix(a, "param:"):
					var j int
					fmt.Sscanf(a, "param:%d", &j)
					if j < len(x.Args) {
						union(out, w.origins(x.Args[j], 0))
					} else {
						out["foreign:result:"+f] = true
					}
				case strings.HasPrefix(a, "foreign:"):
					out["foreign:result:"+f] = true
				default:
					out[a] = true
				}
			}
		}
		return out
	}
	return atomsOf("fresh") // literals, composite literals, function literals, arithmetic
}

// heapBind: remember where the object a local variable refers to came from, when this function did not create it
func (w *fpWalk) heapBind(name string, rhs ast.Expr, idx int) {
	if name == "_" || w.resEnv == nil {
		return
	}
	delete(w.resEnv, name)
	if rhs == nil {
		return
	}
	if _, isCall := ast.Unparen(rhs).(*ast.CallExpr); !isCall {
		if _, isAssert := ast.Unparen(rhs).(*ast.TypeAssertExpr); !isAssert {
			return // plain aliases keep the provenance of the older rules (env)
		}
	}
	at := w.origins(rhs, idx)
	foreign := false
	for a := range at {
		if a != "fresh" {
			foreign = true
		}
	}
	if foreign {
		w.resEnv[name] = at
	}
}

// capOrAlias: the captured variable that `name` is, or that the local `name` aliases
func (w *fpWalk) capOrAlias(name string) *fpCapture {
	if c := w.captureOf(name); c != nil {
		return c
	}
	if w.capAlias != nil {
		if c, ok := w.capAlias[name]; ok {
			if d, ok := w.decl[name]; ok && d.depth == w.depth {
				return c
			}
		}
	}
	return nil
}

// aliasBind: `name := <lvalue-like expression starting at a captured variable>` / `name = append(captured, …)`
func (w *fpWalk) aliasBind(name string, rhs ast.Expr) {
	if w.capAlias == nil || name == "_" {
		return
	}
	old := w.capAlias[name]
	delete(w.capAlias, name)
	if rhs == nil {
		return
	}
	e := ast.Unparen(rhs)
	if c, ok := isAppend(e); ok {
		e = ast.Unparen(c.Args[0])
	}
	if c, ok := e.(*ast.CallExpr); ok && len(c.Args) == 1 && w.isTypeName(c.Fun) {
		e = ast.Unparen(c.Args[0]) // conversion
	}
	switch e.(type) {
	case *ast.StarExpr, *ast.IndexExpr, *ast.CallExpr, *ast.BinaryExpr, *ast.BasicLit, *ast.CompositeLit, *ast.FuncLit:
		return // copies a value / an element / creates something
	}
	id := baseIdent(e)
	if id == nil || id.Name == name {
		if id != nil && id.Name == name {
			// x = append(x, …) / x = x[:n]: keeps what it aliased
			if old != nil {
				w.capAlias[name] = old
			}
		}
		return
	}
	if c := w.capOrAlias(id.Name); c != nil {
		w.capAlias[name] = c
	}
}

// heapWrite: a write through a local variable whose object this function did not create
func (w *fpWalk) heapWrite(pos token.Pos, lhs ast.Expr, p fpProv, op string) {
	g := w.f.gen
	id := baseIdent(lhs)
	if id == nil || w.resEnv == nil {
		return
	}
	at, ok := w.resEnv[id.Name]
	if !ok {
		return
	}
	var via []string
	for a := range at {
		if a != "fresh" {
			via = append(via, a)
		}
	}
	sort.Strings(via)
	t := w.tenv[id.Name]
	g.heap.writes = append(g.heap.writes, fpHeapWrite{File: w.f.rel, Func: w.fn, Lhs: types.ExprString(lhs), Line: g.fset.Position(pos).Line,
		Via: strings.Join(via, "|"), Type: t, Path: p.Path, Op: op, Phase: w.phase})
}

// errors.As(err, &target): target now refers to an object found in err's chain
func (w *fpWalk) heapErrorsAs(c *ast.CallExpr) {
	sel, ok := c.Fun.(*ast.SelectorExpr)
	if !ok || len(c.Args) != 2 || w.resEnv == nil {
		return
	}
	id, ok := sel.X.(*ast.Ident)
	if !ok || id.Name != "errors" || sel.Sel.Name != "As" {
		return
	}
	if _, imp := w.isImport(id); !imp {
		return
	}
	u, ok := ast.Unparen(c.Args[1]).(*ast.UnaryExpr)
	if !ok || u.Op != token.AND {
		return
	}
	t, ok := u.X.(*ast.Ident)
	if !ok {
		return
	}
	at := map[string]bool{}
	for a := range w.origins(c.Args[0], 0) {
		if a == "fresh" {
			continue
		}
		at[a] = true
	}
	if len(at) == 0 {
		at["foreign:errors.As"] = true
	}
	// the old binding (usually new(T)) stays possible: As may fail
	w.resEnv[t.Name] = at
}

// errors.As leaves its target untouched when it answers false: in the body of `if ok := errors.As(err, &t); !ok {…}` /
// `if !errors.As(err, &t) {…}` the variable t still refers to what it referred to before the call (usually a `new(T)` of this
// function), not to an object of err's chain.  heapAsTargets finds the targets of such an `if` and remembers their binding
// before the statement; heapAsFailed installs those bindings for the body when the condition is the negated result;
// heapAsRestore puts the bindings after the call back for the code that follows.
type heapAsBinding struct {
	name string
	at   map[string]bool
	ok   bool
}

func heapAsCall(e ast.Expr) (*ast.Ident, bool) {
	c, ok := ast.Unparen(e).(*ast.CallExpr)
	if !ok || len(c.Args) != 2 || exprString(c.Fun) != "errors.As" {
		return nil, false
	}
	u, ok := ast.Unparen(c.Args[1]).(*ast.UnaryExpr)
	if !ok || u.Op != token.AND {
		return nil, false
	}
	t, ok := u.X.(*ast.Ident)
	return t, ok
}

// heapAsNegated: the `if` runs its body exactly when an errors.As of its header answered false; returns the target
func heapAsNegated(x *ast.IfStmt) (*ast.Ident, bool) {
	not, ok := ast.Unparen(x.Cond).(*ast.UnaryExpr)
	if !ok || not.Op != token.NOT {
		return nil, false
	}
	if t, ok := heapAsCall(not.X); ok { // if !errors.As(err, &t)
		return t, true
	}
	flag, ok := ast.Unparen(not.X).(*ast.Ident)
	if !ok {
		return nil, false
	}
	as, ok := x.Init.(*ast.AssignStmt) // if ok := errors.As(err, &t); !ok
	if !ok || len(as.Lhs) != 1 || len(as.Rhs) != 1 {
		return nil, false
	}
	if l, ok := as.Lhs[0].(*ast.Ident); !ok || l.Name != flag.Name {
		return nil, false
	}
	return heapAsCall(as.Rhs[0])
}

func (w *fpWalk) heapAsTargets(x *ast.IfStmt) []heapAsBinding {
	if w.resEnv == nil {
		return nil
	}
	t, ok := heapAsNegated(x)
	if !ok {
		return nil
	}
	at, bound := w.resEnv[t.Name]
	return []heapAsBinding{{t.Name, at, bound}}
}

func (w *fpWalk) heapAsFailed(x *ast.IfStmt, pre []heapAsBinding) []heapAsBinding {
	var post []heapAsBinding
	for _, b := range pre {
		at, bound := w.resEnv[b.name]
		post = append(post, heapAsBinding{b.name, at, bound})
		if b.ok {
			w.resEnv[b.name] = b.at
		} else {
			delete(w.resEnv, b.name)
		}
	}
	return post
}

func (w *fpWalk) heapAsRestore(post []heapAsBinding) {
	for _, b := range post {
		if b.ok {
			w.resEnv[b.name] = b.at
		} else {
			delete(w.resEnv, b.name)
		}
	}
}

// heapMutatorCall: a call of a mutator method of *oidc.Error; the receiver's origins say whose object is written
func (w *fpWalk) heapMutatorCall(c *ast.CallExpr) {
	h := w.f.gen.heap
	if h.collect || w.resEnv == nil {
		return
	}
	sel, ok := c.Fun.(*ast.SelectorExpr)
	if !ok || !h.mutators[sel.Sel.Name] {
		return
	}
	if id, ok := sel.X.(*ast.Ident); ok {
		if _, imp := w.isImport(id); imp {
			return // pkg.WithX(…): a function, not a method
		}
	}
	var at []string
	for a := range w.origins(sel.X, 0) {
		at = append(at, a)
	}
	sort.Strings(at)
	mc := fpMutCall{File: w.f.rel, Func: w.fn, Method: sel.Sel.Name, Line: w.f.gen.fset.Position(c.Pos()).Line, Origins: at}
	if w.recvT == "" && w.depth == 0 && strings.HasSuffix(w.fn, ".init") {
		// the body of a package's `func init()` runs once, at package initialisation (a function literal inside it may run later: depth > 0)
		h.initCalls = append(h.initCalls, mc)
		return
	}
	h.mutCalls = append(h.mutCalls, mc)
}

// heapMutatorValue: a mutator method taken as a VALUE (`f := e.WithDescription`, handed on as an argument): whoever calls the value
// writes the object `e` refers to; listed like a call (deep round 4)
func (w *fpWalk) heapMutatorValue(sel *ast.SelectorExpr) {
	h := w.f.gen.heap
	if h.collect || w.resEnv == nil || !h.mutators[sel.Sel.Name] || w.direct[sel] {
		return
	}
	if id, ok := sel.X.(*ast.Ident); ok {
		if _, imp := w.isImport(id); imp {
			return
		}
	}
	var at []string
	for a := range w.origins(sel.X, 0) {
		at = append(at, a)
	}
	sort.Strings(at)
	h.mutCalls = append(h.mutCalls, fpMutCall{File: w.f.rel, Func: w.fn, Method: sel.Sel.Name, Line: w.f.gen.fset.Position(sel.Pos()).Line, Origins: at})
}

// heapInitCalls (deep round 4): mutator calls OUTSIDE every declared function.
//   * in the initialiser expression of a package-level variable (`var errX = oidc.ErrY().WithDescription("…")`): runs once, at
//     package initialisation, before any request — listed apart (`errorMutatorInitCalls`), it is no write "after initialisation";
//   * inside the function literal a package-level variable is initialised with (`var ErrX = func() *Error { return base.WithParent(…) }`):
//     runs whenever the variable is called — listed with the ordinary calls, under the variable's name.  A receiver that is a
//     local / parameter of the literal is `foreign:local` (the literal's own bindings are not followed).
func (g *fpGen) heapInitCalls() {
	h := g.heap
	for _, dir := range fpDirs {
		p := g.pkgs[dir]
		for rel, f := range p.files {
			ff := g.fileCtx(dir, rel)
			for _, d := range f.Decls {
				x, ok := d.(*ast.GenDecl)
				if !ok || x.Tok != token.VAR {
					continue
				}
				for _, sp := range x.Specs {
					vs, ok := sp.(*ast.ValueSpec)
					if !ok {
						continue
					}
					for i, v := range vs.Values {
						name := "_"
						if i < len(vs.Names) {
							name = vs.Names[i].Name
						} else if len(vs.Names) > 0 {
							name = vs.Names[0].Name
						}
						w := &fpWalk{f: ff, fn: p.short + "." + name, env: map[string]fpProv{}, tenv: map[string]string{}, tparams: map[string]string{},
							decl: map[string]fpDecl{}, direct: map[ast.Node]bool{}}
						var walk func(n ast.Node, inLit bool)
						walk = func(n ast.Node, inLit bool) {
							ast.Inspect(n, func(n ast.Node) bool {
								switch c := n.(type) {
								case *ast.FuncLit:
									walk(c.Body, true)
									return false
								case *ast.CallExpr:
									sel, ok := c.Fun.(*ast.SelectorExpr)
									if !ok || !h.mutators[sel.Sel.Name] {
										return true
									}
									if id, ok := sel.X.(*ast.Ident); ok {
										if _, imp := w.isImport(id); imp {
											return true
										}
									}
									at := w.origins(sel.X, 0)
									if id, ok := ast.Unparen(sel.X).(*ast.Ident); ok && inLit {
										if _, isGlobal := w.lookupGlobal(id.Name); !isGlobal {
											at = atomsOf("foreign:local")
										}
									}
									var os []string
									for a := range at {
										os = append(os, a)
									}
									sort.Strings(os)
									mc := fpMutCall{File: rel, Func: w.fn, Method: sel.Sel.Name, Line: g.fset.Position(c.Pos()).Line, Origins: os}
									if inLit {
										h.mutCalls = append(h.mutCalls, mc)
									} else {
										h.initCalls = append(h.initCalls, mc)
									}
								}
								return true
							})
						}
						walk(v, false)
					}
				}
			}
		}
	}
}

// originMayBe: may a receiver with this origin BE the package-level cell `cell`?  `fresh` never, `global:<g>` only g, anything else
// (a parameter / receiver handed through, an errors.As target, the result of an unresolved call) may be any object of the type
func originMayBe(origin, cell string) bool {
	if origin == "fresh" {
		return false
	}
	if strings.HasPrefix(origin, "global:") {
		return origin == "global:"+cell
	}
	return true
}

// heapMayHit (deep round 4, the refined may-alias rule): the write hw may hit the package-level pointer cell c of the same pointee
// type — unless hw is the receiver write of a TRACKED mutator method (every call site of which is listed in mutCalls) and no listed
// call of that method has a receiver that may be c.  Calls inside the initialiser of a package-level variable are not listed there.
func (g *fpGen) heapMayHit(hw fpHeapWrite, c fpSharedCell) bool {
	if hw.Type != c.Type {
		return false
	}
	m, tracked := g.heapTrackedMethod(hw)
	if !tracked {
		return true
	}
	for _, k := range g.heap.mutCalls {
		if k.Method != m {
			continue
		}
		for _, o := range k.Origins {
			if originMayBe(o, c.Name) {
				return true
			}
		}
	}
	return false
}

// heapTrackedMethod: hw is the receiver write of a mutator method of *oidc.Error (the set computed from pkg/oidc/error.go)
func (g *fpGen) heapTrackedMethod(hw fpHeapWrite) (string, bool) {
	if hw.Via != "recv" {
		return "", false
	}
	for m := range g.heap.mutators {
		if hw.Func == "oidc.Error."+m {
			return m, true
		}
	}
	return "", false
}

// heapReturn: record the origins of every result (collect pass)
func (w *fpWalk) heapReturn(x *ast.ReturnStmt) {
	h := w.f.gen.heap
	if w.depth != 0 {
		return
	}
	add := func(i int, at map[string]bool) {
		k := fmt.Sprint(w.fn, "#", i)
		if h.newRet[k] == nil {
			h.newRet[k] = map[string]bool{}
		}
		union(h.newRet[k], at)
	}
	if len(x.Results) == 1 {
		if c, ok := ast.Unparen(x.Results[0]).(*ast.CallExpr); ok {
			for i := 0; i < 4; i++ { // return f(…): every result position
				add(i, w.origins(c, i))
			}
			return
		}
	}
	for i, r := range x.Results {
		add(i, w.origins(r, 0))
	}
}

func sameAtoms(a, b map[string]map[string]bool) bool {
	if len(a) != len(b) {
		return false
	}
	for k, v := range a {
		w, ok := b[k]
		if !ok || len(v) != len(w) {
			return false
		}
		for x := range v {
			if !w[x] {
				return false
			}
		}
	}
	return true
}

// heapFixpoint: iterate the scan until the result origins are stable
func heapFixpoint(mk func() *fpGen) map[string]map[string]bool {
	ret := map[string]map[string]bool{}
	for iter := 0; iter < 8; iter++ {
		g := mk()
		g.heap.collect = true
		g.heap.ret = ret
		g.scan()
		// keep what was known (monotone)
		for k, v := range ret {
			if g.heap.newRet[k] == nil {
				g.heap.newRet[k] = map[string]bool{}
			}
			union(g.heap.newRet[k], v)
		}
		if sameAtoms(ret, g.heap.newRet) {
			break
		}
		ret = g.heap.newRet
	}
	return ret
}

func leanStrs(xs []string) string {
	q := make([]string, len(xs))
	for i, x := range xs {
		q[i] = leanStr(x)
	}
	return leanList(q)
}

// heapExpansion: foreign writes × shared ptr cells of the same pointee type, as write sites with a package-level root
func (g *fpGen) heapExpansion() []fpSite {
	var out []fpSite
	var cells []fpSharedCell
	for _, c := range g.heap.cellKind {
		if c.Kind == "ptr" && c.Type != "" {
			cells = append(cells, c)
		}
	}
	sort.Slice(cells, func(i, j int) bool { return cells[i].Name < cells[j].Name })
	for _, hw := range g.heap.writes {
		for _, c := range cells {
			if g.heapMayHit(hw, c) {
				phase := hw.Phase
				if phase == "ctor" || phase == "option" {
					phase = "func"
				}
				_, m := splitQual(strings.TrimSuffix(hw.Func, "$ret"))
				out = append(out, fpSite{File: hw.File, Func: hw.Func, Lhs: hw.Lhs, Line: hw.Line, Root: fpRoot{Kind: "global", Name: c.Name}, Path: hw.Path,
					Op: hw.Op, Phase: phase, Guard: "none", method: m})
			}
		}
	}
	return out
}

func (g *fpGen) heapFacts(handsOut map[string]map[string]bool) string {
	var b strings.Builder
	var cells []fpSharedCell
	for _, c := range g.heap.cellKind {
		cells = append(cells, c)
	}
	sort.Slice(cells, func(i, j int) bool { return cells[i].Name < cells[j].Name })
	b.WriteString("/-- every package-level variable with the kind of value it holds (ptr / slice / map = a shared cell that can be written\n    through by whoever obtains the value) and its pointee / element type -/\n")
	b.WriteString("def sharedCells : List Footprint.SharedCell := [\n")
	var ls []string
	for _, c := range cells {
		ls = append(ls, fmt.Sprintf("  { name := %s, kind := %s, ty := %s }", leanStr(c.Name), leanStr(c.Kind), leanStr(c.Type)))
	}
	b.WriteString(strings.Join(ls, ",\n") + "\n]\n\n")

	b.WriteString("/-- function results that may BE a package-level cell (closed over calls): (function, result index, cell) -/\n")
	b.WriteString("def handsOut : List (String × Nat × String) := [\n")
	var keys []string
	for k := range handsOut {
		keys = append(keys, k)
	}
	sort.Strings(keys)
	ls = nil
	for _, k := range keys {
		i := strings.LastIndex(k, "#")
		var at []string
		for a := range handsOut[k] {
			if strings.HasPrefix(a, "global:") {
				if _, scanned := g.heap.cellKind[strings.TrimPrefix(a, "global:")]; scanned {
					at = append(at, strings.TrimPrefix(a, "global:"))
				}
			}
		}
		sort.Strings(at)
		for _, a := range at {
			ls = append(ls, fmt.Sprintf("  (%s, %s, %s)", leanStr(k[:i]), k[i+1:], leanStr(a)))
		}
	}
	b.WriteString(strings.Join(ls, ",\n") + "\n]\n\n")

	ws := append([]fpHeapWrite{}, g.heap.writes...)
	sort.SliceStable(ws, func(i, j int) bool {
		if ws[i].File != ws[j].File {
			return ws[i].File < ws[j].File
		}
		return ws[i].Line < ws[j].Line
	})
	b.WriteString("/-- writes into objects that the writing function did not create (result of a call that may hand out an existing object,\n    errors.As target, receiver / parameter of a function outside the anchor files), with the static pointee type -/\n")
	b.WriteString("def foreignWrites : List Footprint.ForeignWrite := [\n")
	ls = nil
	for _, hw := range ws {
		ls = append(ls, fmt.Sprintf("  { file := %s, fn := %s, line := %d, lhs := %s, via := %s, ty := %s, path := %s, op := .%s }",
			leanStr(hw.File), leanStr(hw.Func), hw.Line, leanStr(hw.Lhs), leanStr(hw.Via), leanStr(hw.Type), leanStrs(hw.Path), hw.Op))
	}
	b.WriteString(strings.Join(ls, ",\n") + "\n]\n\n")

	mc := append([]fpMutCall{}, g.heap.mutCalls...)
	sort.SliceStable(mc, func(i, j int) bool {
		if mc[i].File != mc[j].File {
			return mc[i].File < mc[j].File
		}
		return mc[i].Line < mc[j].Line
	})
	b.WriteString("/-- every call of a mutator method of `*oidc.Error` (a method that assigns to a field of its receiver: the `recv` writes above) in the\n    scanned packages: (function, line, method, origins of the receiver) — `fresh` = an error value made by this very expression / function -/\n")
	b.WriteString("def errorMutatorCalls : List (String × Nat × String × List String) := [\n")
	ls = nil
	for _, c := range mc {
		ls = append(ls, fmt.Sprintf("  (%s, %d, %s, %s)", leanStr(c.Func), c.Line, leanStr(c.Method), leanStrs(c.Origins)))
	}
	b.WriteString(strings.Join(ls, ",\n") + "\n]\n\n")

	ic := append([]fpMutCall{}, g.heap.initCalls...)
	sort.SliceStable(ic, func(i, j int) bool {
		if ic[i].File != ic[j].File {
			return ic[i].File < ic[j].File
		}
		return ic[i].Line < ic[j].Line
	})
	b.WriteString("/-- … and the calls inside the initialiser expression of a package-level variable (`var errX = oidc.ErrY().WithDescription(…)`): they run\n    once, at package initialisation; (variable, line, method, origins of the receiver) -/\n")
	b.WriteString("def errorMutatorInitCalls : List (String × Nat × String × List String) := [\n")
	ls = nil
	for _, c := range ic {
		ls = append(ls, fmt.Sprintf("  (%s, %d, %s, %s)", leanStr(c.Func), c.Line, leanStr(c.Method), leanStrs(c.Origins)))
	}
	b.WriteString(strings.Join(ls, ",\n") + "\n]\n\n")
	var tr []string
	for m := range g.heap.mutators {
		tr = append(tr, m)
	}
	sort.Strings(tr)
	b.WriteString("/-- the mutator methods whose EVERY call site in the scanned packages is listed in `errorMutatorCalls` (also a method taken as a value):\n    (the method as a writer in `foreignWrites`, its bare name at a call site) -/\n")
	b.WriteString("def trackedMutators : List (String × String) := [\n")
	ls = nil
	for _, m := range tr {
		ls = append(ls, fmt.Sprintf("  (%s, %s)", leanStr("oidc.Error."+m), leanStr(m)))
	}
	b.WriteString(strings.Join(ls, ",\n") + "\n]\n\n")

	var fs []string
	for f := range g.heap.factories {
		fs = append(fs, f)
	}
	sort.Strings(fs)
	b.WriteString("/-- functions that return a function literal (handler / option / issuer factories) -/\n")
	b.WriteString("def closureFactories : List String := " + leanStrs(fs) + "\n\n")
	b.WriteString("def heapFacts : Footprint.HeapFacts :=\n  { cells := sharedCells, handsOut := handsOut, writes := foreignWrites, factories := closureFactories,\n    mutCalls := errorMutatorCalls, tracked := trackedMutators }\n\n")
	g.g.facts["sharedCells"] = len(cells)
	g.g.facts["foreignWrites"] = len(ws)
	g.g.facts["errorMutatorCalls"] = len(mc)
	g.g.facts["errorMutatorInitCalls"] = len(ic)
	return b.String()
}

// emitCapturedAlias: a write through a local that aliases a captured variable of an enclosing function
func (w *fpWalk) emitCapturedAlias(pos token.Pos, lhs ast.Expr, path []string, op string) bool {
	id := baseIdent(lhs)
	if id == nil || w.capAlias == nil {
		return false
	}
	c, ok := w.capAlias[id.Name]
	if !ok || c == nil {
		return false
	}
	if d, ok := w.decl[id.Name]; !ok || d.depth != w.depth {
		return false
	}
	g := w.f.gen
	guard, mu := w.guard(lhs)
	g.sites = append(g.sites, fpSite{File: w.f.rel, Func: w.fn, Lhs: types.ExprString(lhs), Line: g.fset.Position(pos).Line,
		Root: fpRoot{Kind: "fresh"}, Path: path, Op: op, Phase: w.phase, Guard: guard, Mutex: mu, anchor: false, method: w.method, cap: c})
	return true
}

// emitCapturedAny: … or through the captured variable itself (append in expression position)
func (w *fpWalk) emitCapturedAny(pos token.Pos, lhs ast.Expr, path []string, op string) bool {
	if w.emitCaptured(pos, lhs, path, op) {
		return true
	}
	return w.emitCapturedAlias(pos, lhs, path, op)
}

// handedOutCell: the package-level cell (pointer, slice, map) that the call result bound to `name` may be
func (w *fpWalk) handedOutCell(name string) string {
	var out []string
	for a := range w.resEnv[name] {
		if strings.HasPrefix(a, "global:") {
			gname := strings.TrimPrefix(a, "global:")
			switch w.f.gen.heap.cellKind[gname].Kind {
			case "ptr", "slice", "map":
				out = append(out, gname)
			}
		}
	}
	sort.Strings(out)
	if len(out) > 0 {
		return out[0]
	}
	return ""
}

// heapDropped: a receiver / parameter write that the `keep` rule drops is a foreign write of that type
func (g *fpGen) heapDropped(s fpSite) {
	via := "recv"
	if s.Root.Kind == "param" {
		via = "param:" + s.Root.Name
	}
	g.heap.writes = append(g.heap.writes, fpHeapWrite{File: s.File, Func: s.Func, Lhs: s.Lhs, Line: s.Line, Via: via, Type: s.Root.Type, Path: s.Path, Op: s.Op, Phase: s.Phase})
}
