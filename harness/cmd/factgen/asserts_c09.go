package main

// C09, failure sites of kind "type assertion": EVERY `x.(T)` of the library packages (function bodies and function
// literals), with
//   * its form      – single (`x.(T)`: panics when the dynamic type differs) | commaok (`v, ok := x.(T)`: never panics)
//   * where x comes from (by syntax, inside the function):
//       element   – an element of a container (`m[k]`, `v, ok := m[k]`, the variables of a `range`): what json.Unmarshal
//                   put into a map[string]any / []any, go-jose's Header.ExtraHeaders, claims maps
//       decoded   – a local declared `any` / `interface{}` / map[..]any / []any whose address goes to json.Unmarshal /
//                   Decode / ParseToken / HttpRequest
//       param-any – a parameter of type `any` / `interface{}`
//       reflect   – `….Interface()`
//       param-iface / field / call / asserted / switch-var / unknown – everything else
//   * the guards that dominate a single-value assertion and establish the dynamic type of the SAME operand:
//       switch-case     – it stands in a `case T:` clause (exactly that one type) of `switch x.(type)` / `switch v := x.(type)`
//       commaok-then    – it stands in the then-branch of `if _, ok := x.(T); ok` (or of `if ok` for an earlier `_, ok := x.(T)`)
//       commaok-return  – an earlier `if _, ok := x.(T); !ok { … return }` (the branch never falls through)
//     a guard is dropped as soon as the root variable of the operand is assigned.
// The static call edges towards the functions with an unguarded single-value assertion are emitted as `assertCalls`.

import (
	"fmt"
	"go/ast"
	"go/token"
	"sort"
	"strings"
)

type c09ASite struct {
	Fn, Expr, Operand, Type, Form, Origin string
	Guards                                []string
}

type c09AWalk struct {
	g      *genCtx
	fn     string
	origin map[string]string // local / parameter name -> origin
	sites  []c09ASite
	seen   map[*ast.TypeAssertExpr]bool
}

type c09AKnown struct{ operand, typ, how string }

func isAnyType(t ast.Expr) bool {
	switch v := t.(type) {
	case *ast.Ident:
		return v.Name == "any"
	case *ast.InterfaceType:
		return v.Methods == nil || len(v.Methods.List) == 0
	}
	return false
}

func isAnyContainer(t ast.Expr) bool {
	switch v := t.(type) {
	case *ast.MapType:
		return isAnyType(v.Value) || isAnyContainer(v.Value)
	case *ast.ArrayType:
		return isAnyType(v.Elt) || isAnyContainer(v.Elt)
	}
	return isAnyType(t)
}

// commaOkAssert: `a, ok := x.(T)` / `a, ok = x.(T)` / `var a, ok = x.(T)`: (the assertion, the name of ok)
func commaOkAssert(st ast.Stmt) (*ast.TypeAssertExpr, string) {
	switch v := st.(type) {
	case *ast.AssignStmt:
		if len(v.Lhs) == 2 && len(v.Rhs) == 1 {
			if ta, ok := v.Rhs[0].(*ast.TypeAssertExpr); ok && ta.Type != nil {
				if id, ok := v.Lhs[1].(*ast.Ident); ok {
					return ta, id.Name
				}
				return ta, ""
			}
		}
	case *ast.DeclStmt:
		if gd, ok := v.Decl.(*ast.GenDecl); ok && gd.Tok == token.VAR && len(gd.Specs) == 1 {
			if vs, ok := gd.Specs[0].(*ast.ValueSpec); ok && len(vs.Names) == 2 && len(vs.Values) == 1 {
				if ta, ok := vs.Values[0].(*ast.TypeAssertExpr); ok && ta.Type != nil {
					return ta, vs.Names[1].Name
				}
			}
		}
	}
	return nil, ""
}

func (w *c09AWalk) originOf(x ast.Expr) string {
	switch v := x.(type) {
	case *ast.ParenExpr:
		return w.originOf(v.X)
	case *ast.CallExpr:
		if s, ok := v.Fun.(*ast.SelectorExpr); ok && s.Sel.Name == "Interface" && len(v.Args) == 0 {
			return "reflect"
		}
		return "call"
	case *ast.IndexExpr:
		return "element"
	case *ast.SelectorExpr:
		return "field"
	case *ast.TypeAssertExpr:
		return "asserted"
	case *ast.Ident:
		if o, ok := w.origin[v.Name]; ok {
			return o
		}
	}
	return "unknown"
}

// collect the origins of parameters and locals (flow-insensitive: a name keeps the FIRST origin that makes it input)
func (w *c09AWalk) scanOrigins(ft *ast.FuncType, body *ast.BlockStmt) {
	set := func(name, o string) {
		if name == "_" {
			return
		}
		if cur, ok := w.origin[name]; ok && (cur == "element" || cur == "decoded" || cur == "param-any") {
			return
		}
		w.origin[name] = o
	}
	if ft != nil && ft.Params != nil {
		for _, f := range ft.Params.List {
			o := "param-iface"
			if isAnyType(f.Type) {
				o = "param-any"
			} else if isAnyContainer(f.Type) {
				o = "param-any"
			}
			for _, n := range f.Names {
				set(n.Name, o)
			}
		}
	}
	anyLocal := map[string]bool{}
	ast.Inspect(body, func(n ast.Node) bool {
		switch v := n.(type) {
		case *ast.FuncLit:
			w.scanOrigins(v.Type, v.Body)
			return false
		case *ast.AssignStmt:
			if v.Tok != token.DEFINE && v.Tok != token.ASSIGN {
				return true
			}
			if len(v.Rhs) == 1 && len(v.Lhs) >= 1 {
				if id, ok := v.Lhs[0].(*ast.Ident); ok {
					set(id.Name, w.originOf(v.Rhs[0]))
				}
			} else if len(v.Lhs) == len(v.Rhs) {
				for i, l := range v.Lhs {
					if id, ok := l.(*ast.Ident); ok {
						set(id.Name, w.originOf(v.Rhs[i]))
					}
				}
			}
		case *ast.RangeStmt:
			for _, e := range []ast.Expr{v.Key, v.Value} {
				if id, ok := e.(*ast.Ident); ok {
					set(id.Name, "element")
				}
			}
		case *ast.TypeSwitchStmt:
			if as, ok := v.Assign.(*ast.AssignStmt); ok && len(as.Lhs) == 1 {
				if id, ok := as.Lhs[0].(*ast.Ident); ok {
					set(id.Name, "switch-var")
				}
			}
		case *ast.ValueSpec:
			if v.Type != nil && isAnyContainer(v.Type) {
				for _, n := range v.Names {
					anyLocal[n.Name] = true
				}
			}
			if len(v.Values) == len(v.Names) {
				for i, n := range v.Names {
					set(n.Name, w.originOf(v.Values[i]))
				}
			}
		}
		return true
	})
	// `var x any` whose address is handed to a decoder
	ast.Inspect(body, func(n ast.Node) bool {
		c, ok := n.(*ast.CallExpr)
		if !ok {
			return true
		}
		f := exprString(c.Fun)
		if !(strings.HasSuffix(f, "Unmarshal") || strings.HasSuffix(f, ".Decode") || strings.HasSuffix(f, "ParseToken") || strings.HasSuffix(f, "HttpRequest") || strings.HasSuffix(f, ".Scan")) {
			return true
		}
		for _, a := range c.Args {
			if u, ok := a.(*ast.UnaryExpr); ok && u.Op == token.AND {
				if id, ok := u.X.(*ast.Ident); ok && anyLocal[id.Name] {
					w.origin[id.Name] = "decoded"
				}
			}
		}
		return true
	})
}

func (w *c09AWalk) record(ta *ast.TypeAssertExpr, form string, known []c09AKnown) {
	if ta.Type == nil || w.seen[ta] {
		return
	}
	w.seen[ta] = true
	s := c09ASite{Fn: w.fn, Expr: render(w.g.fset, ta), Operand: render(w.g.fset, ta.X), Type: render(w.g.fset, ta.Type), Form: form, Origin: w.originOf(ta.X)}
	if form == "single" {
		for _, k := range known {
			if k.operand == s.Operand && k.typ == s.Type {
				s.Guards = append(s.Guards, k.how)
			}
		}
	}
	w.sites = append(w.sites, s)
}

// exprs: the assertions inside an expression / simple statement (function literals are walked as bodies of their own)
func (w *c09AWalk) exprs(n ast.Node, known []c09AKnown) {
	if n == nil {
		return
	}
	ast.Inspect(n, func(m ast.Node) bool {
		switch v := m.(type) {
		case *ast.FuncLit:
			w.stmts(v.Body.List, nil)
			return false
		case *ast.TypeAssertExpr:
			w.record(v, "single", known)
		}
		return true
	})
}

func killKnown(known []c09AKnown, assigned map[string]bool) []c09AKnown {
	var out []c09AKnown
	for _, k := range known {
		root := k.operand
		if i := strings.IndexAny(root, ".[("); i >= 0 {
			root = root[:i]
		}
		if !assigned[root] {
			out = append(out, k)
		}
	}
	return out
}

func isIdentNamed(e ast.Expr, name string) bool {
	id, ok := e.(*ast.Ident)
	return ok && name != "" && name != "_" && id.Name == name
}

// okTest: the condition is `ok` (positive) or `!ok` (negative) for the given variable
func okTest(cond ast.Expr, name string) (pos, neg bool) {
	switch v := cond.(type) {
	case *ast.ParenExpr:
		return okTest(v.X, name)
	case *ast.Ident:
		return isIdentNamed(v, name), false
	case *ast.UnaryExpr:
		if v.Op == token.NOT {
			p, n := okTest(v.X, name)
			return n, p
		}
	case *ast.BinaryExpr:
		if v.Op == token.LAND { // ok && …: the then-branch knows ok
			p1, _ := okTest(v.X, name)
			p2, _ := okTest(v.Y, name)
			return p1 || p2, false
		}
		if v.Op == token.LOR { // !ok || …: when the condition is false, ok holds
			_, n1 := okTest(v.X, name)
			_, n2 := okTest(v.Y, name)
			return false, n1 || n2
		}
	}
	return false, false
}

type c09AOk struct {
	name string
	k    c09AKnown
}

func (w *c09AWalk) stmts(list []ast.Stmt, known []c09AKnown) {
	known = append([]c09AKnown{}, known...)
	var oks []c09AOk // `_, ok := x.(T)` seen in this statement list and still valid
	for _, st := range list {
		known = w.stmt(st, known, &oks)
	}
}

func (w *c09AWalk) stmt(st ast.Stmt, known []c09AKnown, oks *[]c09AOk) []c09AKnown {
	after := func(n ast.Node) []c09AKnown {
		as := assignedIn(n)
		var keep []c09AOk
		for _, o := range *oks {
			root := o.k.operand
			if i := strings.IndexAny(root, ".[("); i >= 0 {
				root = root[:i]
			}
			if !as[o.name] && !as[root] {
				keep = append(keep, o)
			}
		}
		*oks = keep
		return killKnown(known, as)
	}
	switch v := st.(type) {
	case nil:
		return known
	case *ast.BlockStmt:
		w.stmts(v.List, known)
		return after(v)
	case *ast.LabeledStmt:
		return w.stmt(v.Stmt, known, oks)
	case *ast.IfStmt:
		inner := known
		var local []c09AOk
		local = append(local, *oks...)
		if v.Init != nil {
			if ta, okName := commaOkAssert(v.Init); ta != nil {
				w.exprs(ta.X, inner)
				w.record(ta, "commaok", inner)
				local = append(local, c09AOk{okName, c09AKnown{render(w.g.fset, ta.X), render(w.g.fset, ta.Type), ""}})
			} else {
				w.exprs(v.Init, inner)
				inner = killKnown(inner, assignedIn(v.Init))
			}
		}
		w.exprs(v.Cond, inner)
		thenK, elseK := append([]c09AKnown{}, inner...), append([]c09AKnown{}, inner...)
		var negs []c09AKnown
		for _, o := range local {
			pos, neg := okTest(v.Cond, o.name)
			if pos {
				thenK = append(thenK, c09AKnown{o.k.operand, o.k.typ, "commaok-then"})
			}
			if neg {
				elseK = append(elseK, c09AKnown{o.k.operand, o.k.typ, "commaok-then"})
				negs = append(negs, c09AKnown{o.k.operand, o.k.typ, "commaok-return"})
			}
		}
		w.stmts(v.Body.List, thenK)
		switch e := v.Else.(type) {
		case *ast.BlockStmt:
			w.stmts(e.List, elseK)
		case *ast.IfStmt:
			var none []c09AOk
			w.stmt(e, elseK, &none)
		}
		out := after(v)
		if terminates(v.Body) && v.Else == nil {
			out = append(out, killKnown(negs, assignedIn(v.Body))...)
		}
		return out
	case *ast.TypeSwitchStmt:
		if v.Init != nil {
			w.exprs(v.Init, known)
		}
		var ta *ast.TypeAssertExpr
		switch a := v.Assign.(type) {
		case *ast.ExprStmt:
			ta, _ = a.X.(*ast.TypeAssertExpr)
		case *ast.AssignStmt:
			if len(a.Rhs) == 1 {
				ta, _ = a.Rhs[0].(*ast.TypeAssertExpr)
			}
		}
		operand := ""
		if ta != nil {
			w.exprs(ta.X, known)
			operand = render(w.g.fset, ta.X)
		}
		for _, c := range v.Body.List {
			cc, ok := c.(*ast.CaseClause)
			if !ok {
				continue
			}
			k := append([]c09AKnown{}, known...)
			if operand != "" && len(cc.List) == 1 {
				k = append(k, c09AKnown{operand, render(w.g.fset, cc.List[0]), "switch-case"})
			}
			w.stmts(cc.Body, k)
		}
		return after(v)
	case *ast.SwitchStmt:
		if v.Init != nil {
			w.exprs(v.Init, known)
		}
		w.exprs(v.Tag, known)
		inner := killKnown(known, assignedIn(v.Init))
		for _, c := range v.Body.List {
			if cc, ok := c.(*ast.CaseClause); ok {
				for _, e := range cc.List {
					w.exprs(e, inner)
				}
				w.stmts(cc.Body, inner)
			}
		}
		return after(v)
	case *ast.SelectStmt:
		for _, c := range v.Body.List {
			if cc, ok := c.(*ast.CommClause); ok {
				var none []c09AOk
				if cc.Comm != nil {
					w.stmt(cc.Comm, nil, &none)
				}
				w.stmts(cc.Body, nil)
			}
		}
		return after(v)
	case *ast.ForStmt:
		inner := killKnown(known, assignedIn(v)) // what the loop assigns is not known inside it
		if v.Init != nil {
			w.exprs(v.Init, inner)
		}
		w.exprs(v.Cond, inner)
		if v.Post != nil {
			w.exprs(v.Post, inner)
		}
		w.stmts(v.Body.List, inner)
		return after(v)
	case *ast.RangeStmt:
		inner := killKnown(known, assignedIn(v))
		w.exprs(v.X, inner)
		w.stmts(v.Body.List, inner)
		return after(v)
	default:
		if ta, okName := commaOkAssert(st); ta != nil {
			w.exprs(ta.X, known)
			w.record(ta, "commaok", known)
			out := after(st)
			*oks = append(*oks, c09AOk{okName, c09AKnown{render(w.g.fset, ta.X), render(w.g.fset, ta.Type), ""}})
			return out
		}
		w.exprs(st, known)
		return after(st)
	}
}

func c09AssertSites(g *genCtx) []c09ASite {
	var out []c09ASite
	for _, dir := range c09Dirs {
		for _, rel := range c09GoFiles(dir) {
			f := g.file(rel)
			if f == nil {
				continue
			}
			for _, d := range f.Decls {
				fd, ok := d.(*ast.FuncDecl)
				if !ok || fd.Body == nil {
					continue
				}
				w := &c09AWalk{g: g, fn: shortPkg(rel) + "." + declName(fd), origin: map[string]string{}, seen: map[*ast.TypeAssertExpr]bool{}}
				if fd.Recv != nil {
					for _, fl := range fd.Recv.List {
						for _, n := range fl.Names {
							w.origin[n.Name] = "param-iface"
						}
					}
				}
				w.scanOrigins(fd.Type, fd.Body)
				w.stmts(fd.Body.List, nil)
				out = append(out, w.sites...)
			}
		}
	}
	return out
}

func (s c09ASite) unsafe() bool { return s.Form == "single" && len(s.Guards) == 0 }

// c09AssertCalls: the static call edges (c09AllCalls, collected by the bound-site scan) that lead to a function with an
// unguarded single-value assertion (backward closure)
func c09AssertCalls(sites []c09ASite) [][2]string {
	want := map[string]bool{}
	for _, s := range sites {
		if s.unsafe() {
			want[s.Fn] = true
		}
	}
	for changed := true; changed; {
		changed = false
		for e := range c09AllCalls {
			if want[e[1]] && !want[e[0]] {
				want[e[0]] = true
				changed = true
			}
		}
	}
	var calls [][2]string
	for e := range c09AllCalls {
		if want[e[1]] && e[0] != e[1] {
			calls = append(calls, e)
		}
	}
	sort.Slice(calls, func(i, j int) bool { return calls[i][0]+" "+calls[i][1] < calls[j][0]+" "+calls[j][1] })
	return calls
}

func c09AssertFacts(g *genCtx, sites []c09ASite) string {
	var b strings.Builder
	var ss []string
	for _, s := range sites {
		ss = append(ss, fmt.Sprintf("{ fn := %s, expr := %s, operand := %s, type := %s, form := %s, origin := %s, guards := %s }",
			leanStr(s.Fn), leanStr(s.Expr), leanStr(s.Operand), leanStr(s.Type), leanStr(s.Form), leanStr(s.Origin), leanStrList(s.Guards)))
	}
	b.WriteString("/-- every type assertion `x.(T)`: its form, where the operand comes from, the guards that dominate it -/\n")
	b.WriteString("def assertSites : List C09.AssertSite := [\n  " + strings.Join(ss, ",\n  ") + "]\n\n")
	calls := c09AssertCalls(sites)
	var es []string
	for _, e := range calls {
		es = append(es, "("+leanStr(e[0])+", "+leanStr(e[1])+")")
	}
	b.WriteString("/-- static calls (caller, callee) that lead to a function with an unguarded single-value type assertion -/\n")
	b.WriteString("def assertCalls : List (String × String) := [\n  " + strings.Join(es, ",\n  ") + "]\n\n")
	g.facts["C09.assertSites"] = sites
	g.facts["C09.assertCalls"] = calls
	return b.String()
}
