package main

// Translator rules added for the construction path of the provider (C19, round 3). Each is reached only through a spec field that
// defaults to off (StructLit.Ctor, FuncSpec.OutCallAny, FuncSpec.SpreadAppend, a `x.F.M` entry in FuncSpec.Mutators, Rename["new(T)"]
// for `new(T)` in expression position), so the generated text of every other group is unchanged.

import (
	"go/ast"
	"strings"
)

// positionalLit: `&T{a, b}` with StructLit.Ctor  ->  (Ctor a b)
func (t *tr) positionalLit(sl StructLit, x *ast.CompositeLit) string {
	var args []string
	for _, e := range x.Elts {
		if _, isKV := e.(*ast.KeyValueExpr); isKV {
			return t.bad("struct literal mixing positional and keyed elements", x)
		}
		args = append(args, t.expr(e))
	}
	return "(" + sl.Ctor + " " + strings.Join(args, " ") + ")"
}

// fieldMutatorStmt: `x.F.M(args)` as a statement, "x.F.M" listed in FuncSpec.Mutators: M changes the object the field holds
//
//	->  let x := { x with F := ((x).F).M args }
func (t *tr) fieldMutatorStmt(c *ast.CallExpr, sel *ast.SelectorExpr, rest cont) (string, bool) {
	mid, ok := sel.X.(*ast.SelectorExpr)
	if !ok {
		return "", false
	}
	base, ok := mid.X.(*ast.Ident)
	if !ok {
		return "", false
	}
	full := exprString(c.Fun)
	for _, m := range t.spec.Mutators {
		if m == full {
			v := t.ident(base.Name)
			return "let " + v + " := { " + v + " with " + mid.Sel.Name + " := ((" + v + ")." + mid.Sel.Name + ")." + sel.Sel.Name + " " + t.args(c.Args) + " };\n" + t.pad() + rest(), true
		}
	}
	return "", false
}
