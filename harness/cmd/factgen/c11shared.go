package main

// C11, error side: which `*oidc.Error` values live at package level in pkg/op and pkg/oidc (`GenErr.sharedErrorValues`), and what
// the call sites of AuthRequestError / TryErrorRedirect in pkg/op hand over as the error (`GenErr.errorArgSites`).
// AuthRequestError / TryErrorRedirect write the request's state and session_state INTO the error value they are handed
// (DefaultToServerError -> errors.As yields the caller's pointer): a value that is shared between requests must never get there.
// stdlib only (go/ast).

import (
	"fmt"
	"go/ast"
	"go/token"
	"os"
	"path/filepath"
	"sort"
	"strings"
)

// c11IsOidcErrorExpr: an expression that yields a *oidc.Error: a chain of With…() calls on oidc.ErrX() / ErrX(), &oidc.Error{..},
// new(oidc.Error), oidc.DefaultToServerError(..)
func c11IsOidcErrorExpr(e ast.Expr, inOidc bool) bool {
	switch x := e.(type) {
	case *ast.ParenExpr:
		return c11IsOidcErrorExpr(x.X, inOidc)
	case *ast.UnaryExpr:
		if x.Op == token.AND {
			if cl, ok := x.X.(*ast.CompositeLit); ok {
				t := exprString(cl.Type)
				return t == "oidc.Error" || (inOidc && t == "Error")
			}
		}
	case *ast.CallExpr:
		fun := exprString(x.Fun)
		if sel, ok := x.Fun.(*ast.SelectorExpr); ok && strings.HasPrefix(sel.Sel.Name, "With") {
			return c11IsOidcErrorExpr(sel.X, inOidc)
		}
		if strings.HasPrefix(fun, "oidc.Err") || fun == "oidc.DefaultToServerError" || (inOidc && (strings.HasPrefix(fun, "Err") || fun == "DefaultToServerError")) {
			return true
		}
		if fun == "new" && len(x.Args) == 1 {
			t := exprString(x.Args[0])
			return t == "oidc.Error" || (inOidc && t == "Error")
		}
	}
	return false
}

func c11SharedErrors(g *genCtx) string {
	type pv struct{ where, name, init string }
	var shared []pv
	pkgLevel := map[string]bool{} // package-level *oidc.Error variables of pkg/op
	for _, dir := range []string{"pkg/op", "pkg/oidc"} {
		ents, err := os.ReadDir(filepath.Join(repoRoot, dir))
		if err != nil {
			g.unsup["sharedErrorValues"] = append(g.unsup["sharedErrorValues"], "cannot read "+dir)
			continue
		}
		for _, e := range ents {
			if e.IsDir() || !strings.HasSuffix(e.Name(), ".go") || strings.HasSuffix(e.Name(), "_test.go") {
				continue
			}
			rel := filepath.Join(dir, e.Name())
			f := g.file(rel)
			if f == nil {
				continue
			}
			for _, d := range f.Decls {
				gd, ok := d.(*ast.GenDecl)
				if !ok || gd.Tok != token.VAR {
					continue
				}
				for _, sp := range gd.Specs {
					vs := sp.(*ast.ValueSpec)
					typ := ""
					if vs.Type != nil {
						typ = goSrc(g.fset, vs.Type)
					}
					for i, n := range vs.Names {
						isErr := typ == "*oidc.Error" || (dir == "pkg/oidc" && typ == "*Error")
						init := ""
						if i < len(vs.Values) {
							init = goSrc(g.fset, vs.Values[i])
							isErr = isErr || c11IsOidcErrorExpr(vs.Values[i], dir == "pkg/oidc")
						}
						if isErr {
							shared = append(shared, pv{rel, n.Name, init})
							if dir == "pkg/op" {
								pkgLevel[n.Name] = true
							}
						}
					}
				}
			}
		}
	}
	sort.Slice(shared, func(i, j int) bool { return shared[i].where+shared[i].name < shared[j].where+shared[j].name })
	// call sites in pkg/op: the error argument of AuthRequestError (4th) / TryErrorRedirect (3rd)
	type site struct{ where, kind, src string }
	var sites []site
	ents, _ := os.ReadDir(filepath.Join(repoRoot, "pkg/op"))
	for _, e := range ents {
		if e.IsDir() || !strings.HasSuffix(e.Name(), ".go") || strings.HasSuffix(e.Name(), "_test.go") {
			continue
		}
		rel := filepath.Join("pkg/op", e.Name())
		f := g.file(rel)
		if f == nil {
			continue
		}
		ast.Inspect(f, func(n ast.Node) bool {
			c, ok := n.(*ast.CallExpr)
			if !ok {
				return true
			}
			var arg ast.Expr
			switch exprString(c.Fun) {
			case "AuthRequestError":
				if len(c.Args) == 5 {
					arg = c.Args[3]
				}
			case "TryErrorRedirect":
				if len(c.Args) == 5 {
					arg = c.Args[2]
				}
			}
			if arg == nil {
				return true
			}
			kind := "other"
			switch x := arg.(type) {
			case *ast.Ident:
				if pkgLevel[x.Name] {
					kind = "shared"
				} else {
					kind = "variable" // a local `err`: whatever the callee returned
				}
			case *ast.CallExpr:
				if c11IsOidcErrorExpr(x, false) || exprString(x.Fun) == "fmt.Errorf" || exprString(x.Fun) == "errors.New" {
					kind = "fresh"
				}
			}
			sites = append(sites, site{fmt.Sprintf("%s:%d", rel, g.fset.Position(c.Pos()).Line), kind, goSrc(g.fset, arg)})
			return true
		})
	}
	var b strings.Builder
	b.WriteString("/-- the package-level variables of pkg/op and pkg/oidc that hold a `*oidc.Error` (file, name, initialiser): error VALUES that every\n    request of the process would share -/\n")
	var items []string
	for _, s := range shared {
		items = append(items, "("+leanStr(s.where)+", "+leanStr(s.name)+", "+leanStr(s.init)+")")
	}
	b.WriteString("def sharedErrorValues : List (String × String × String) := [" + strings.Join(items, ", ") + "]\n\n")
	b.WriteString("/-- what the call sites of AuthRequestError / TryErrorRedirect in pkg/op hand over as the error: `fresh` (built by the call: oidc.ErrX()…,\n    fmt.Errorf, DefaultToServerError), `variable` (a local: what a callee returned), `shared` (a package-level *oidc.Error), `other` -/\n")
	items = nil
	kinds := map[string]int{}
	for _, s := range sites {
		items = append(items, "("+leanStr(s.where)+", "+leanStr(s.kind)+")")
		kinds[s.kind]++
	}
	b.WriteString("def errorArgSites : List (String × String) :=\n  [" + strings.Join(items, ",\n   ") + "]\n\n")
	g.facts["sharedErrorValues"] = len(shared)
	g.facts["errorArgSites"] = kinds
	return b.String()
}
