package main

// C13: remote JWKS key set (pkg/client/rp/jwks.go).
//
//   - the sequential decision functions (exactMatch, verifySignatureCached, verifySignatureRemote,
//     VerifySignature) are ordinary guard-list functions and go through the FuncSpec machinery
//     (PairStyle: the code inspects both halves of Go's (payload, err));
//   - the two functions that share state between goroutines (keysFromRemote, updateKeys) are not
//     expressions of the guard language: a small extractor reads their SHAPE (which statements occur, in
//     which order, under the lock or not, which context the download gets) and emits it as `Jwks.Facts`,
//     the parameter of the hand-written transition system Model/Jwks.lean.

import (
	"fmt"
	"go/ast"
	"go/token"
	"strconv"
	"strings"
)

const jwksFile = "pkg/client/rp/jwks.go"

func init() {
	ren := map[string]string{
		"r.keysFromCache()":         "cachedKeys",
		"r.keysFromRemote()":        "remote",
		"oidc.FindMatchingKey()":    "Hand.jwksFind",
		"oidc.GetKeyIDAndAlg()":     "Hand.GetKeyIDAndAlg",
		"jws.Verify()":              "Hand.jwksVerify jws",
		"r.exactMatch()":            "exactMatch now r",
		"r.verifySignatureCached()": "verifySignatureCached now r cachedKeys",
		"r.verifySignatureRemote()": "remote",
	}
	extraGroups = append(extraGroups, Group{
		Out:     "Jwks.lean",
		NS:      "GenJwks",
		Imports: []string{"OidcModel.Model.Jwks", "OidcModel.Generated.C09Facts"},
		Opens:   []string{"Go", "Hand", "Const", "Jwks"},
		Funcs: []FuncSpec{
			{File: jwksFile, Name: "remoteKeySet.exactMatch", Lean: "exactMatch",
				Params: []string{"(r : JwksSet)", "(jwkID jwsID : String)"}, Ret: RetVal, RetType: "Bool", Rename: ren, AutoOwn: true},
			{File: jwksFile, Name: "remoteKeySet.verifySignatureCached", Lean: "verifySignatureCached",
				Params: []string{"(r : JwksSet)", "(cachedKeys : List JWK)", "(jws : JWS)", "(keyID alg : String)"},
				Ret:    RetVal, RetType: "GoPair", PairStyle: true, Rename: ren, AutoOwn: true},
			{File: jwksFile, Name: "remoteKeySet.verifySignatureRemote", Lean: "verifySignatureRemote",
				Params: []string{"(r : JwksSet)", "(remote : List JWK × Option String)", "(jws : JWS)", "(keyID alg : String)"},
				Ret:    RetVal, RetType: "GoPair", PairStyle: true, Rename: ren, AutoOwn: true},
			{File: jwksFile, Name: "remoteKeySet.VerifySignature", Lean: "VerifySignature",
				Params: []string{"(r : JwksSet)", "(cachedKeys : List JWK)", "(remote : JWS → String → String → GoPair)", "(jws : JWS)"},
				Ret:    RetVal, RetType: "GoPair", PairStyle: true, Rename: ren, AutoOwn: true},
		},
		Extra: jwksFacts,
	})
}

// ---------------------------------------------------------------- shape extractor

type jwksX struct {
	g     *genCtx
	unsup []string
}

func (x *jwksX) bad(reason string, n ast.Node) {
	pos := ""
	if n != nil {
		pos = " at " + x.g.fset.Position(n.Pos()).String()
	}
	x.unsup = append(x.unsup, reason+pos)
}

func (x *jwksX) src(n ast.Node) string { return goSrc(x.g.fset, n) }

// verifPoint(ctx, "jwks:<name>")  ->  name
func pointName(s ast.Stmt) (string, bool) {
	var c *ast.CallExpr
	switch v := s.(type) {
	case *ast.ExprStmt:
		c, _ = v.X.(*ast.CallExpr)
	case *ast.DeferStmt:
		c = v.Call
	}
	if c == nil || exprString(c.Fun) != "verifPoint" || len(c.Args) != 2 {
		return "", false
	}
	lit, ok := c.Args[1].(*ast.BasicLit)
	if !ok || lit.Kind != token.STRING {
		return "", false
	}
	s2, err := strconv.Unquote(lit.Value)
	if err != nil {
		return "", false
	}
	return strings.TrimPrefix(s2, "jwks:"), true
}

func isBookkeeping(s ast.Stmt) bool {
	switch v := s.(type) {
	case *ast.AssignStmt:
		if len(v.Rhs) == 1 {
			if c, ok := v.Rhs[0].(*ast.CallExpr); ok && ignorableCall(c) && exprString(c.Fun) != "verifPoint" {
				return true
			}
		}
	case *ast.DeferStmt:
		return exprString(v.Call.Fun) == "span.End"
	}
	return false
}

type enterFacts struct {
	guardNil, storeNew, spawnPoint, selectCtx bool
	spawnCtx                                  string
}

// keysFromRemote: [bookkeeping] [point lock] Lock  <create>  inflight := r.inflight  Unlock  [point select]  select{ctx.Done | inflight.wait}
// <create> = `if r.inflight == nil { C }` or C;  C = [r.inflight = newInflight()]  go r.updateKeys(X)  [point spawn]
func (x *jwksX) enter(fd *ast.FuncDecl) enterFacts {
	var f enterFacts
	var st []ast.Stmt
	for _, s := range fd.Body.List {
		if !isBookkeeping(s) {
			st = append(st, s)
		}
	}
	i := 0
	next := func() ast.Stmt {
		if i < len(st) {
			i++
			return st[i-1]
		}
		return nil
	}
	peek := func() ast.Stmt {
		if i < len(st) {
			return st[i]
		}
		return nil
	}
	if n, ok := pointName(peek()); ok && n == "lock" {
		next()
	} else {
		x.bad("keysFromRemote: schedule point jwks:lock missing before r.mu.Lock()", fd)
	}
	if s := next(); s == nil || x.src(s) != "r.mu.Lock()" {
		x.bad("keysFromRemote: expected r.mu.Lock()", s)
		return f
	}
	create := func(list []ast.Stmt) {
		j := 0
		if j < len(list) && x.src(list[j]) == "r.inflight = newInflight()" {
			f.storeNew = true
			j++
		}
		// a local variable for the download's context (`dctx := context.WithoutCancel(ctx)`; one name, one expression) is seen through
		local := map[string]string{}
		for j < len(list) {
			a, ok := list[j].(*ast.AssignStmt)
			if !ok || a.Tok != token.DEFINE || len(a.Lhs) != 1 || len(a.Rhs) != 1 {
				break
			}
			id, ok := a.Lhs[0].(*ast.Ident)
			if !ok || id.Name == "ctx" || id.Name == "_" {
				break
			}
			local[id.Name] = x.src(a.Rhs[0])
			j++
		}
		if j < len(list) {
			if g, ok := list[j].(*ast.GoStmt); ok && exprString(g.Call.Fun) == "r.updateKeys" && len(g.Call.Args) == 1 {
				// THE CONTEXT OF THE SHARED DOWNLOAD is a fact read from this call: `ctx` = the starting caller's context (its cancellation
				// and its deadline end the download); `context.WithoutCancel(ctx)` / `context.Background()` = detached: NO cancellation and NO
				// deadline of any caller (WithoutCancel: "Deadline returns the zero time, Done returns nil"). Anything else — a helper that
				// builds the context, a re-attached deadline, a wrapper goroutine — is not understood and comes out UNSUPPORTED.
				arg := x.src(g.Call.Args[0])
				if v, ok := local[arg]; ok {
					arg = v
				}
				switch arg {
				case "ctx":
					f.spawnCtx = ".caller"
				case "context.WithoutCancel(ctx)", "context.Background()":
					f.spawnCtx = ".detached"
				default:
					x.bad("keysFromRemote: context expression of go r.updateKeys(..): "+arg, g)
				}
				j++
			} else {
				x.bad("keysFromRemote: expected go r.updateKeys(<ctx>)", list[j])
			}
		} else {
			x.bad("keysFromRemote: no go r.updateKeys(..) where the request is created", fd)
		}
		if j < len(list) {
			if n, ok := pointName(list[j]); ok && n == "spawn" {
				f.spawnPoint = true
				j++
			}
		}
		if j != len(list) {
			x.bad("keysFromRemote: unexpected statement where the request is created: "+x.src(list[j]), list[j])
		}
	}
	if ifs, ok := peek().(*ast.IfStmt); ok {
		next()
		if ifs.Init != nil || ifs.Else != nil || x.src(ifs.Cond) != "r.inflight == nil" {
			x.bad("keysFromRemote: guard of the request creation: "+x.src(ifs.Cond), ifs)
		}
		f.guardNil = true
		create(ifs.Body.List)
	} else {
		var list []ast.Stmt
		for peek() != nil && x.src(peek()) != "inflight := r.inflight" {
			list = append(list, next())
		}
		create(list)
	}
	if s := next(); s == nil || x.src(s) != "inflight := r.inflight" {
		x.bad("keysFromRemote: expected inflight := r.inflight", s)
	}
	if s := next(); s == nil || x.src(s) != "r.mu.Unlock()" {
		x.bad("keysFromRemote: expected r.mu.Unlock()", s)
	}
	if n, ok := pointName(peek()); ok && n == "select" {
		next()
	} else {
		x.bad("keysFromRemote: schedule point jwks:select missing before the select", fd)
	}
	sel, ok := peek().(*ast.SelectStmt)
	if !ok {
		x.bad("keysFromRemote: expected the select statement", peek())
		return f
	}
	next()
	wait := false
	for _, cc := range sel.Body.List {
		c := cc.(*ast.CommClause)
		switch {
		case c.Comm != nil && x.src(c.Comm) == "<-ctx.Done()" && len(c.Body) == 1 && x.src(c.Body[0]) == "return nil, ctx.Err()":
			f.selectCtx = true
		case c.Comm != nil && x.src(c.Comm) == "<-inflight.wait()" && len(c.Body) == 1 && x.src(c.Body[0]) == "return inflight.result()":
			wait = true
		default:
			x.bad("keysFromRemote: select case", c)
		}
	}
	if !wait {
		x.bad("keysFromRemote: no case <-inflight.wait()", sel)
	}
	if peek() != nil {
		x.bad("keysFromRemote: statement after the select", peek())
	}
	return f
}

// updateKeys: [bookkeeping]  keys, err := r.fetchRemoteKeys(ctx)  then operations on the shared state, read in EXECUTION order
// (deferred calls run last, in reverse), split into atomic blocks at every schedule point reached without holding r.mu.
func (x *jwksX) update(fd *ast.FuncDecl) string {
	type op struct {
		lean string
		kind string // point | lock | unlock | write | done
	}
	var ops, deferred []op
	seenFetch := false
	one := func(s ast.Stmt, isDefer bool) (op, bool) {
		src := x.src(s)
		if isDefer {
			src = strings.TrimPrefix(src, "defer ")
		}
		if n, ok := pointName(s); ok {
			return op{".point " + leanStr(n), "point"}, true
		}
		switch src {
		case "r.mu.Lock()":
			return op{"", "lock"}, true
		case "r.mu.Unlock()":
			return op{"", "unlock"}, true
		case "r.inflight.done(keys, err)":
			return op{".doneField", "done"}, true
		case "r.cachedKeys = keys":
			return op{".store false", "write"}, true
		case "r.inflight = nil":
			return op{".clear", "write"}, true
		}
		// the guarded cache update, in any spelling of the same conditional: `if err == nil { r.cachedKeys = keys }`,
		// `if err != nil {} else { r.cachedKeys = keys }` (empty then-branch), `if nil == err {…}`, an empty `else {}`
		if ifs, ok := s.(*ast.IfStmt); ok && !isDefer && ifs.Init == nil {
			then, els := ifs.Body.List, []ast.Stmt(nil)
			elseOK := true
			switch e := ifs.Else.(type) {
			case nil:
			case *ast.BlockStmt:
				els = e.List
			default:
				elseOK = false // else-if chain
			}
			cond := strings.ReplaceAll(x.src(ifs.Cond), " ", "")
			errNil := cond == "err==nil" || cond == "nil==err"
			errNotNil := cond == "err!=nil" || cond == "nil!=err"
			isStore := func(l []ast.Stmt) bool { return len(l) == 1 && x.src(l[0]) == "r.cachedKeys = keys" }
			if elseOK && ((errNil && isStore(then) && len(els) == 0) || (errNotNil && len(then) == 0 && isStore(els))) {
				return op{".store true", "write"}, true
			}
		}
		return op{}, false
	}
	// a local name for the request in the shared field that is used by the very next statement only (`infl := r.inflight` directly
	// followed by `infl.done(keys, err)`) is the same as `r.inflight.done(keys, err)`: nothing can change the field in between
	body := fd.Body.List
	skipNext := false
	for bi, s := range body {
		if skipNext {
			skipNext = false
			continue
		}
		if a, ok := s.(*ast.AssignStmt); ok && seenFetch && a.Tok == token.DEFINE && len(a.Lhs) == 1 && len(a.Rhs) == 1 && x.src(a.Rhs[0]) == "r.inflight" && bi+1 < len(body) {
			if id, ok := a.Lhs[0].(*ast.Ident); ok && x.src(body[bi+1]) == id.Name+".done(keys, err)" {
				ops = append(ops, op{".doneField", "done"})
				skipNext = true
				continue
			}
		}
		if isBookkeeping(s) {
			continue
		}
		if !seenFetch {
			if x.src(s) != "keys, err := r.fetchRemoteKeys(ctx)" {
				x.bad("updateKeys: expected keys, err := r.fetchRemoteKeys(ctx) first", s)
				return ""
			}
			seenFetch = true
			continue
		}
		if d, ok := s.(*ast.DeferStmt); ok {
			o, ok := one(d, true)
			if !ok {
				x.bad("updateKeys: deferred call "+x.src(d), d)
				continue
			}
			deferred = append(deferred, o)
			continue
		}
		if x.src(s) == "r.cachedKeys, r.inflight = keys, nil" {
			ops = append(ops, op{".store false", "write"}, op{".clear", "write"})
			continue
		}
		o, ok := one(s, false)
		if !ok {
			x.bad("updateKeys: statement "+x.src(s), s)
			continue
		}
		ops = append(ops, o)
	}
	for i := len(deferred) - 1; i >= 0; i-- {
		ops = append(ops, deferred[i])
	}
	var blocks [][]string
	cur := []string{}
	locked := false
	for _, o := range ops {
		switch o.kind {
		case "lock":
			if locked {
				x.bad("updateKeys: r.mu locked twice", fd)
			}
			locked = true
		case "unlock":
			locked = false
		case "write":
			if !locked {
				x.bad("updateKeys: shared field written without holding r.mu: "+o.lean, fd)
			}
			cur = append(cur, o.lean)
		case "done":
			cur = append(cur, o.lean)
		case "point":
			cur = append(cur, o.lean)
			if !locked {
				blocks = append(blocks, cur)
				cur = []string{}
			}
		}
	}
	if len(cur) > 0 {
		blocks = append(blocks, cur)
	}
	if locked {
		x.bad("updateKeys: returns holding r.mu", fd)
	}
	var bs []string
	for _, b := range blocks {
		bs = append(bs, "["+strings.Join(b, ", ")+"]")
	}
	return "[" + strings.Join(bs, ", ") + "]"
}

// jsonWebKeySet.UnmarshalJSON: json.Unmarshal(data, &raw) with its error returned, then one jose decode per entry; an entry is
// appended only `if err == nil` (skipsBadKeys) or its error is returned (!skipsBadKeys)
func (x *jwksX) keySetDecoder(fd *ast.FuncDecl) bool {
	var st []string
	var loop *ast.RangeStmt
	for _, s := range fd.Body.List {
		if r, ok := s.(*ast.RangeStmt); ok {
			loop = r
			st = append(st, "<range "+x.src(r.X)+">")
			continue
		}
		st = append(st, x.src(s))
	}
	want := []string{"var raw rawJSONWebKeySet", "err = json.Unmarshal(data, &raw)", "if err != nil { return err }", "<range raw.Keys>", "return nil"}
	if strings.Join(st, "\n") != strings.Join(want, "\n") || loop == nil {
		x.bad("jsonWebKeySet.UnmarshalJSON: statements "+strings.Join(st, " ; "), fd)
		return true
	}
	var body []string
	for _, s := range loop.Body.List {
		body = append(body, x.src(s))
	}
	b := strings.Join(body, "\n")
	switch b {
	case "webKey := new(jose.JSONWebKey)\nerr = webKey.UnmarshalJSON(key)\nif err == nil { k.Keys = append(k.Keys, *webKey) }":
		return true
	case "webKey := new(jose.JSONWebKey)\nerr = webKey.UnmarshalJSON(key)\nif err != nil { return err }\nk.Keys = append(k.Keys, *webKey)":
		return false
	}
	x.bad("jsonWebKeySet.UnmarshalJSON: loop body "+strings.Join(body, " ; "), loop)
	return true
}

// fetchRemoteKeys: the last link of "which context does the shared download run under": the HTTP request must be made under the
// context the function was given (http.NewRequestWithContext(ctx, …) — `ctx` possibly re-bound by the tracer, which derives it), no
// other context may be built here (context.WithTimeout / WithDeadline / Background …), the request must go through
// httphelper.HttpRequest(r.httpClient, req, keySet) (whose decision structure is `http`), its error must be returned, and the result is
// the decoded key set. Features, not text: statement order and spelling of the error messages are free.
func (x *jwksX) fetch(fd *ast.FuncDecl) {
	newReq, httpReq, retKeys, otherCtx := 0, 0, false, ""
	ast.Inspect(fd.Body, func(n ast.Node) bool {
		switch v := n.(type) {
		case *ast.CallExpr:
			fun := exprString(v.Fun)
			switch {
			case fun == "http.NewRequestWithContext":
				newReq++
				if len(v.Args) == 0 || x.src(v.Args[0]) != "ctx" {
					x.bad("fetchRemoteKeys: the request is not made under the context the function was given: "+x.src(v), v)
				}
			case fun == "http.NewRequest":
				x.bad("fetchRemoteKeys: request without a context: "+x.src(v), v)
			case fun == "httphelper.HttpRequest":
				httpReq++
				if len(v.Args) != 3 || x.src(v.Args[0]) != "r.httpClient" || x.src(v.Args[1]) != "req" || x.src(v.Args[2]) != "keySet" {
					x.bad("fetchRemoteKeys: arguments of httphelper.HttpRequest: "+x.src(v), v)
				}
			case strings.HasPrefix(fun, "context."):
				otherCtx = x.src(v)
			}
		case *ast.AssignStmt:
			// `ctx` may only be re-bound by the tracer
			for i, l := range v.Lhs {
				if id, ok := l.(*ast.Ident); ok && id.Name == "ctx" {
					if len(v.Rhs) != 1 || i != 0 || !strings.HasPrefix(x.src(v.Rhs[0]), "client.Tracer.Start(ctx,") {
						x.bad("fetchRemoteKeys: ctx re-bound: "+x.src(v), v)
					}
				}
			}
		case *ast.ReturnStmt:
			if len(v.Results) == 2 && x.src(v.Results[1]) == "nil" {
				if x.src(v.Results[0]) == "keySet.Keys" {
					retKeys = true
				} else {
					x.bad("fetchRemoteKeys: successful return of something else than the decoded key set: "+x.src(v), v)
				}
			}
		}
		return true
	})
	if newReq != 1 {
		x.bad("fetchRemoteKeys: expected exactly one http.NewRequestWithContext(ctx, …)", fd)
	}
	if httpReq != 1 {
		x.bad("fetchRemoteKeys: expected exactly one httphelper.HttpRequest(r.httpClient, req, keySet)", fd)
	}
	if !retKeys {
		x.bad("fetchRemoteKeys: no `return keySet.Keys, nil`", fd)
	}
	if otherCtx != "" {
		x.bad("fetchRemoteKeys: builds a context of its own: "+otherCtx, fd)
	}
}

func jwksFacts(g *genCtx) string {
	x := &jwksX{g: g}
	var b strings.Builder
	kfr := g.findFunc(jwksFile, "remoteKeySet.keysFromRemote")
	upd := g.findFunc(jwksFile, "remoteKeySet.updateKeys")
	if kfr == nil || upd == nil {
		g.unsup["GenJwks.facts"] = []string{"keysFromRemote / updateKeys not found in " + jwksFile}
		return "def facts : Jwks.Facts := UNSUPPORTED_function_not_found\n\n"
	}
	ef := x.enter(kfr)
	blocks := x.update(upd)
	if frk := g.findFunc(jwksFile, "remoteKeySet.fetchRemoteKeys"); frk != nil {
		x.fetch(frk)
	} else {
		x.bad("remoteKeySet.fetchRemoteKeys not found", nil)
	}
	skips := true
	if ks := g.findFunc(jwksFile, "jsonWebKeySet.UnmarshalJSON"); ks != nil {
		skips = x.keySetDecoder(ks)
	} else {
		x.bad("jsonWebKeySet.UnmarshalJSON not found", nil)
	}
	b.WriteString("/-- `HttpRequest` (pkg/http/http.go): its decision structure, read off the statement skeleton regenerated for C09 -/\n")
	b.WriteString("def http : Jwks.HttpFacts := (Jwks.HttpFacts.ofSkeleton GenC09.HttpRequest_skeleton).getD Jwks.HttpFacts.unsupported\n\n")
	fmt.Fprintf(&b, "/-- shape of `keysFromRemote` (%s:%d) and `updateKeys` (%s:%d) -/\n", jwksFile, g.fset.Position(kfr.Pos()).Line, jwksFile, g.fset.Position(upd.Pos()).Line)
	if len(x.unsup) > 0 {
		g.unsup["GenJwks.facts"] = x.unsup
		for _, u := range x.unsup {
			fmt.Fprintf(&b, "-- unsupported: %s\n", u)
		}
		b.WriteString("def facts : Jwks.Facts := UNSUPPORTED_jwks_shape\n\n")
	} else {
		if ef.spawnCtx == "" {
			ef.spawnCtx = ".caller"
		}
		fmt.Fprintf(&b, "def facts : Jwks.Facts :=\n  { guardNil := %v, storeNew := %v, spawnCtx := %s, spawnPoint := %v, selectCtx := %v,\n    http := http, skipsBadKeys := %v,\n    updBlocks := %s }\n\n",
			ef.guardNil, ef.storeNew, ef.spawnCtx, ef.spawnPoint, ef.selectCtx, skips, blocks)
	}
	g.facts["jwks"] = map[string]any{"guardNil": ef.guardNil, "storeNew": ef.storeNew, "spawnCtx": ef.spawnCtx, "spawnPoint": ef.spawnPoint,
		"selectCtx": ef.selectCtx, "updBlocks": blocks, "skipsBadKeys": skips}
	b.WriteString("/-- the translated decision functions as the `Logic` parameter of the transition system -/\n")
	b.WriteString("def logic : Jwks.Logic :=\n")
	b.WriteString("  { verifySignature := fun r cachedKeys remote jws => VerifySignature 0 r cachedKeys remote jws,\n")
	b.WriteString("    verifySignatureRemote := fun r remote jws keyID alg => verifySignatureRemote 0 r remote jws keyID alg }\n\n")
	return b.String()
}
