package main

// Shallow Go -> Lean translator for the whitelisted decision functions.
//
// The translator only serialises syntax: a Go function body that is a sequence of
// guards / error-propagating calls / lets becomes ONE Lean definition over the vocabulary
// of OidcModel/Go.lean and the hand-written model types.  Anything outside the supported
// subset is emitted as the undefined identifier `UNSUPPORTED_<reason>` so that the Lean
// build (and with it every theorem that depends on the function) fails visibly.

import (
	"bytes"
	"fmt"
	"go/ast"
	"go/printer"
	"go/token"
	"sort"
	"strconv"
	"strings"
)

type RetKind int

const (
	RetErr     RetKind = iota // func(...) error                -> Go.R Unit
	RetValErr                 // func(...) (T, error)            -> Go.R T
	RetVal                    // func(...) T                     -> T
	RetVoid                   // func(w, ...)  (writer function without result)      -> W
	RetHandler                // func(...) http.HandlerFunc { ...; return func(w, r) {...} }   -> W
	RetWrites                 // func(w, r, ...) (http handler)  -> List Write (the responses written, in order)
	RetResp                   // func(w, r, ...) (an HTTP handler) -> the response it writes (RetType)
	RetHandled                // func(w, r, ...) (HTTP handler)  -> List Go.HCall (the response-writing / delegating calls on the path taken)
)

// OutParam: the Go callee writes through a pointer argument; its Lean twin returns the new value.
type OutParam struct {
	Index int  // argument position (counting ctx)
	Keep  bool // true: in-out (argument still passed); false: pure output (argument dropped)
}

var outParams = map[string]OutParam{
	"oidc.ParseToken":                {1, false},
	"ParseToken":                     {1, false},
	"oidc.CheckSignature":            {3, true},
	"CheckSignature":                 {3, true},
	"ValidateRefreshTokenScopes":     {1, true},
	"CopyRequestObjectToAuthRequest": {0, true},
	"c.securecookie.Decode":          {2, false},
	"ParseRequestObject":             {1, true},
	"httphelper.HttpRequest":         {2, false},
}

// lookupOutParam: the table above, plus the schema decoder `X.Decoder().Decode(target, form)`, which writes
// the decoded form through its first argument.
func outParamsHas(callee string) bool { _, ok := outParams[callee]; return ok }

func (t *tr) lookupOutParam(callee string) (OutParam, bool) {
	if op, ok := t.spec.OutParams[callee]; ok {
		return op, true
	}
	if op, ok := t.spec.LocalOut[callee]; ok {
		return op, true
	}
	if op, ok := outParams[callee]; ok {
		return op, true
	}
	if strings.HasSuffix(callee, ".Decoder().Decode") {
		return OutParam{0, false}, true
	}
	return OutParam{}, false
}

type FuncSpec struct {
	Auto      bool              // inferred spec of a helper found by autofollow.go (emitted as `@[simp] def`)
	// (C06, round 4) OracleVars: variables that hold a STATE-PASSING ORACLE (the storage whose answers may differ from call to
	// call): every method call `v.M(args)` on such a variable (or on a type-assertion alias `a, ok := v.(T)` of it) must be an
	// error-checked call, and its Lean twin returns the oracle's next state next to the value: `| .ok (x, v) =>`.  A call in
	// any other position is UNSUPPORTED (the state change would be lost).  translate_c06o.go.
	OracleVars []string
	AutoOwn   bool              // a helper that autofollow.go has already emitted into ANOTHER namespace (a second model of the same Go function) is emitted into this group's namespace as well
	AutoCtx   []string          // model-only context parameters (`(o : SessOracles)`) that helpers found by autofollow.go inherit and are called with
	File      string            // path relative to repo root
	Name      string            // Go name, "Recv.Name" for methods
	Lean      string            // Lean definition name
	Params    []string          // Lean binders, e.g. "(claims : Claims)"; `now` is always first
	Ret       RetKind           //
	RetType   string            // Lean type of the value (RetValErr / RetVal)
	Rename    map[string]string // Go identifier -> Lean expression (parameters, package values)
	NilValue  []string          // identifiers that denote "the zero value" in `return zero, err`
	WrapOk    string            // RetValErr: constructor applied to the value of `return v, nil`
	WrapBoth  string            // RetValErr: constructor applied to (v, err) of `return v, err` with non-zero v
	LetIf     bool              // style: `if C { v.F = e }` -> `let v := if C then {v with F := e} else v` (instead of duplicating the continuation)
	ValueOnly bool              // the theorems concern the returned VALUE only: append to a caller's slice is read functionally (aliasing is C20's subject)
	RetParam  string            // RetErr function that mutates this pointer parameter: `return nil` yields its final value
	ErrWins   bool              // RetValErr: `return v, err` with a non-zero v AND an error is the error (every caller drops v when err != nil)
	// Writer: name of the http.ResponseWriter parameter. The Lean twin threads it as a value (an effect log):
	// every call that mentions it (or whose callee is listed in Effectful) returns the new writer first -
	// `W` for a void callee, `W × Go.R T` for an error-returning one - and so does the function itself.
	Writer    string
	Effectful []string // callees (Go names) that act on the outside world without being handed the writer
	// SoftErr: `v, err := f(..); if err != nil && !errors.As(err, &T{}) {..}` for a callee whose T-typed errors travel in its
	// ok-value (see WrapBoth): T -> Lean projection that yields v from the callee's ok-value
	SoftErr      map[string]string
	WrapBothType string               // when set, WrapBoth only applies to `return v, T{..}` of exactly this error type
	Writers      map[string]string    // RetResp: response-writing call (Go callee text) -> Lean constructor of the response
	DropArgs     []string             // argument expressions that carry no information for the model (w, r, loggers)
	PlainUpdate  bool                 // style: x.F = e  ->  let x := { x with F := e }  (without the type ascription of bindTarget)
	LoopStyle    string               // "forFirst": early-exit range loops as Go.forFirst (β := result type); default Go.forRange
	TailCalls    []string             // RetErr: `return f(..)` with f in this list is a tail call (not an error constructor)
	StructLits   map[string]StructLit // Go composite literal type ("pkg.T{}") -> Lean structure instance with the kept fields
	// PairStyle: the function inspects BOTH halves of Go's (value, error) results (`if payload != nil`): every
	// `v, err := f(..)` becomes `let (v, err) := f ..` (the Lean twins return pairs of nil-able values), `if err != nil`
	// is an ordinary conditional and `return v, err` a tuple (use with Ret: RetVal)
	PairStyle bool
	// --- style flags added for the resource endpoints (C08); all default to off, so existing groups are unaffected
	OutParams    map[string]OutParam // spec-local out-parameters (callee text -> position), consulted before the global table
	TupleAssign  bool                // `a, b, c := f(..)` / `a, b, c = f(..)` (no error result): tuple destructuring, field targets are written back
	ErrNilFirst  bool                // `v, err := f(..); if err == nil { ..return }; rest`  ->  match with the SUCCESS branch guarded, rest = error branch
	ErrElse      bool                // `a, b, err := f(..); if err != nil {..} else {..}`: the else block is the success branch
	NestedUpdate bool                // `a.B.C = e`  ->  let a := { a with B := { a.B with C := e } }
	WorldType    string              // Writer functions: Lean type of the threaded world ("World" when empty)
	// (translate_ext.go) InitResults: named results are zero-initialised before the body (zero values from ZeroOf / zeroValues) and a
	// naked `return` yields them; ZeroOf: Go type text -> Lean zero value of `var x T` / named results; HardErr: callee whose T-typed
	// errors travel in its ok-value (see WrapBoth) -> Lean function turning its result into the strict (T, error) reading that a plain
	// `if err != nil` check denotes
	InitResults bool
	ZeroOf      map[string]string
	HardErr     map[string]string
	// ---- imperative / codec style (all default-off: the output for specs that do not set them is unchanged)
	// Imperative: `*p = e` -> `let p := e`; `m[k] = v` -> `let m := GoX.mapSet m k v`; `x[:n]`, `x[n:]` -> GoX.sliceTo/sliceFrom;
	// `make(T, 0, n)` / `make(map[K]V)` -> the empty value, `make([]byte, n)` -> GoX.zeros n; `a << b` -> GoX.shl;
	// `errors.As(err, &v)` with `var v T` -> GoX.errorsAs err "T"; `err := f(); if err == nil {..}`; `x := new(T)` via Rename["new(T)"];
	// `x := make([]T, len(xs)); for i, p := range xs { ..; x[i] = e }` with early returns -> GoX.collect;
	// `if _, err = f(..); err != nil`; LoopStyle "state": range loops that assign to variables of the enclosing function -> GoX.foldList / GoX.foldKV
	// (state threaded through the loop) and loops that only return early -> GoX.first.
	Imperative  bool
	LocalOut    map[string]OutParam // spec-local out-parameter table (callee text -> position), consulted before outParams
	AlwaysOut   map[string]bool     // callees of LocalOut that write their out-parameter on the error path too: Lean twin returns (new value, Go.R Unit)
	TypeCases   map[string]string   // `switch v := x.(type)`: Go case type (source text, "nil" for nil) -> Lean constructor (the payload is bound to v)
	TypeAsserts map[string]string   // `v, ok := x.(T)`: Go type (source text) -> Lean function returning (payload, Bool)
	RenameFirst bool                // Rename["T()"] takes precedence over the built-in identity conversions T(x)
	ErrValues   bool                // `x, err := f()` without a following error check binds err as a value; `err == nil` -> GoX.errIsNil err
	// SliceAlias: `v := x[:n]` makes v a window onto x: a call that writes through v (LocalOut) also writes x (`let x := GoX.setSliceTo x n v`),
	// and an out-parameter argument `x[n:]` is written back with GoX.setSliceFrom.
	SliceAlias bool
	// StrSlices (default off): Lean namespace NS of string-slicing helpers; `s[:n]`, `s[n:]`, `s[n:m]` on STRINGS -> NS.sliceTo / NS.sliceFrom /
	// NS.slice (only reached where the translator used to emit UNSUPPORTED_slice_expression)
	StrSlices  string
	TypeSwitch bool // `switch v := x.(type) { case T: .. }` -> match chain over the model's `(x).as_T : Option _` views (first matching case wins, as in Go)
	// (C14) OutCallState: with LoopStyle "state", a call STATEMENT `f(v, ..)` whose callee is a LocalOut entry with Keep (f writes through
	// its pointer argument v) counts as an assignment to v when the loop's state is collected: `for _, opt := range opts { opt(j) }`
	// -> `let j := GoX.foldList opts j (fun j opt => let j := opt j; j)`
	OutCallState bool
	// ---- endpoint-layer extensions (C05); each one only acts when its field is set
	GenMethods  map[string]string // method name -> translated function of this group: recv.M(args) -> (F now recv args)
	KeepParents []string          // sentinels whose `.WithParent(S)` wrapping is kept: oidc.ErrX().WithParent(S) -> "ErrX<S" (errors.Is can see S)
	ErrNilConst bool              // `err == nil` / `err != nil` used as a VALUE: true / false as the enclosing match branch says
	TupleInit   bool              // `if a, b, ok := f(); COND {..}` (several plain results scoped to the if) and `if a, b, ok = f(); COND {..}` (hoisted assignment)
	// HandlerEnd (RetResp): a response-writing call that is the last statement executed (end of the handler body reached) leaves the
	// handler; `return func(w, r) {..}` is the handler itself; `f(a)(w, r)` passes a's arguments before the request's
	HandlerEnd bool
	OkWrites   map[string]string // HandlerEnd: `if err := f(w, ..); err != nil { WRITE }` at the end of a handler, f writes the response itself on success: f -> constructor applied to what f wrote
	// ---- (translate_c19.go) request contexts and closures as values; all default-off
	// KeepCtx: context arguments (`ctx`, `r.Context()`) are NOT dropped and `r.WithContext(c)` is a real update of the request model
	// (the issuer travels in the context: pkg/op/context.go). Closures: a `func(..) .. {..}` literal in value position becomes a Lean
	// lambda (result kind inferred from its signature); assignments to captured variables stay untranslatable ("declared outside the function").
	// Ignore: callee texts whose statement-level calls carry no decision in this function (`log.Printf`).
	KeepCtx  bool
	Closures bool
	Ignore   []string
	// ---- (C14 deep 5) Wrap64 (default off): the function computes with int64 values (time.Duration, Unix seconds): the BINARY operators
	// `+`, `-`, `*` are Go's int64 operations, which wrap around: `(Go.wrap64 (a op b))` (conversions `time.Duration(e)` / `int64(e)` stay the
	// identity, `t.Unix()` stays the exact floor division); `t.Sub(u)` is Go's SATURATING difference `Go.tSubSat`. Unary minus is left exact
	// (it only differs for math.MinInt64). A flagged function must not use `+` on strings. Model/Int64C14.lean has the vocabulary.
	Wrap64 bool
	// ---- (C02) LoopStyle "ctl": a range loop whose body BOTH updates variables S of the enclosing function and leaves early
	// (`return`, `break`, `continue`):  match GoX.loopCtl X S (fun S v => body) with | .inl r => r | .inr S => rest, the body ending in
	// GoX.Ctl.next S (fall through / continue), GoX.Ctl.brk S (break) or GoX.Ctl.ret r (return).
	// SliceVars: `var x []T` declares the empty slice, which owns its (nil) backing array: `let x := ([] : List _)`, append is functional.
	SliceVars bool
	// ---- value-threading style added for the issuance functions (C06); all default-off (translate_c06.go)
	// JoinIf: an `if` (with else / else-if) whose branches assign variables S of the enclosing function and leave the function only by
	// returning an error is NOT translated by duplicating the continuation into every branch but joined:
	//   no return inside:  let S := (if C then ..; S else S); rest
	//   error returns:     match (if C then ..; (.ok S) else (.ok S)) with | .error err => (.error err) | .ok S => rest
	JoinIf bool
	// Mutators: methods (callee text, "hash.Write") that change their receiver: the statement `recv.M(a)` -> let recv := (recv).M a
	Mutators []string
	// InOutVal: callee text -> argument position: the callee returns a value AND changes the state of that (reference-typed) argument;
	// its Lean twin returns (value, new argument).  `x := f(h, a)` -> let (x, h) := f h a; in a `return` the new state is dropped;
	// anywhere else the call is UNSUPPORTED (the state change would be lost).
	InOutVal map[string]int
	// AlsoRet: RetVal function whose Lean twin returns (value, final value of this parameter) - the callee side of InOutVal
	AlsoRet string
	// (C14 / C02, added independently in round 3 and unified on merge) AlsoRetType: see below
	// (C14) ClosureState: with Closures, a function literal WITHOUT results whose effect is the change it makes to this (reference-typed)
	// parameter (`func(values url.Values) { values.Set(..) }`): the Lean lambda returns the parameter's final value
	ClosureState string

	// ---- error values as structures (C11 error side; default-off)
	// ErrStruct: `oidc.ErrX().WithDescription(..).WithParent(..)` is NOT collapsed to the name "ErrX": constructors and With-methods are
	// translated like any other call (Rename["ErrX()"], Rename[".WithDescription()"] = method rename by method NAME, receiver first).
	// ErrorsAsBind: `if ok := errors.As(e, &v); C {..}` / `if errors.As(e, &v) {..}` -> `let (ok, v) := (Rename["errors.As()"] e v); if C ..`
	// (the Lean twin returns found? and the target afterwards).
	ErrStruct    bool
	ErrorsAsBind bool

	// ---- (C12, JSON wrapper methods; translate_c12w.go) all default-off
	// RecvOut: a value-returning method that ALSO changes the pointer receiver / parameter of this name: the Lean twin returns
	// (final value of it × result); RecvOutType is its Lean type.
	// PtrSynonyms: `x := (*T)(y)` (pointer conversion to a defined type with the same underlying struct) makes x another name for y.
	// FieldRename: Go field name -> Lean field name (a Go field called `private` is a Lean keyword).
	RecvOut     string
	RecvOutType string
	PtrSynonyms bool
	FieldRename map[string]string
	MapCap      bool // `make(map[K]V, n)`: the empty map (the size hint carries no meaning)
	// ---- (C02, round 3) verifier objects that are derived from one another and reused; both default-off
	// AlsoRetType: with AlsoRet on a function of ANY result kind, the Lean twin's result type becomes `(<result> × AlsoRetType)`:
	// the second half is the final value of the pointer parameter AlsoRet on the path taken, so a write through that pointer
	// (`v.keySet = …` in a verifier function) is part of the definition instead of a shadowed local.
	AlsoRetType string
	// OptionClosures (with Closures): a function literal with ONE pointer parameter `p *T` and no result (`func(v *T) { v.F = e }`,
	// the functional-option idiom) becomes `(fun p => ..; p)`, the final value of what it points to; with the single result `error`
	// (`func(o *Provider) error { o.F = e; return nil }`) it becomes `(fun p => ..; (.ok p))`.  Field updates inside are plain.
	OptionClosures bool
	// (C03, round 3) RenameDropsOut: a callee that is BOTH renamed (Rename["f()"]) and in the out-parameter table keeps the table's
	// treatment of its arguments (the pointer it writes through is not passed; the Lean twin returns the value). Default off.
	RenameDropsOut bool
	// (C03, round 3) MakeMapZero: with Imperative, `make(map[K]V)` becomes this Lean expression instead of `([] : List _)` (whose element
	// type cannot be inferred when the map is only handed to a callee that fills it). Default "".
	MakeMapZero string
	// (C03, round 3) AutoTypes: for helpers found by autofollow.go ("extract function" rewrites): Go type text -> Lean type, for
	// parameter / result types whose Lean twin does not carry the Go name (`Client` -> OPClient, `oidc.ResponseType` -> String).
	AutoTypes map[string]string
	// (C03, round 3) CaptureOut (with Closures): a function literal bound to a local variable (`f := func(..) (T, error) {..}`) may ASSIGN
	// to this one variable of the enclosing function (`client, err = lookup(..)`): the Lean lambda returns `(<result>, <final value of
	// the variable>)`, and a call `v, err := f(..)` binds the variable again (`| (.ok v, client) => ..`). Default "".
	CaptureOut  string
	CaptureType string // Lean type of the captured variable (the lambda's result type is spelled out: `(<result> × CaptureType)`)
	// ---- (C02, round 4) constructors that wire part of their arguments into an object; both default-off
	// SkipFields: fields of the object under construction that the model type does not have (`o.Handler = CreateRouter(o, ..)`,
	// `o.decoder = schema.NewDecoder()`): an assignment `x.F = e` with F in this list is left out (the spec lists them one by one: a
	// write to any OTHER field the model type lacks still breaks the build).
	// OutCallInit: with LoopStyle "ctl" / "state", `if err := f(o); err != nil {..}` whose callee is a LocalOut entry with Keep (f writes
	// through its pointer argument o and reports an error) counts as an assignment to o when the loop's state is collected.
	SkipFields  []string
	OutCallInit bool
	// ---- (C02, round 5) FieldState: with LoopStyle "state" / "ctl", a field assignment `x.F = e` in a loop body counts as an assignment to
	// the variable x when the loop's state is collected (`for .. { k.Keys = append(k.Keys, v) }` threads k through the loop).
	// LocalOut / outParams entries with Index -1 name a METHOD that writes through its pointer receiver (see okPattern).
	FieldState bool
	// LoopLocalErr: with LoopStyle "state", the variable `err` is NOT loop state when it is dead at the loop head and at the loop exit:
	// every round first mentions it in a top-level assignment `err = <call>` whose right side does not read it, nothing after the loop
	// mentions it (no naked return of a named result, no closure that captures it) and the loop is not nested in another loop.
	LoopLocalErr bool
	// (C01) ClosureBinderTypes (with Closures): Go parameter type (source text) -> Lean type: a parameter of a function literal with
	// that type gets a typed binder `(p : T)` (an unnamed `_ context.Context` of a function VALUE stored in a nil-able field has no
	// use that would fix its type otherwise)
	ClosureBinderTypes map[string]string
	// (C01) RecvState: callee text of a method call (`rp.IDTokenVerifier`) -> the receiver variable: the method's Lean twin returns
	// (value × final receiver) (see AlsoRet); the statement `_ = recv.M()` (called for its effect on the receiver) becomes
	// `let (_, recv) := M recv`
	RecvState map[string]string
	// ---- (C19, construction path; translate_c19op.go) all default-off
	// OutCallAny: with LoopStyle "ctl" / "state", a call of a LocalOut callee with Keep ANYWHERE in the loop body (`if err := opt(o); err != nil`,
	// `err := opt(o)`) counts as an assignment to its pointer argument when the loop's state is collected.
	// SpreadAppend: `append(a, b...)` -> (a ++ b) (functional reading, as ValueOnly).
	OutCallAny   bool
	SpreadAppend bool
	// ---- (C17, round 4) default-off
	// AliasByFact: whether the slices of this function share a backing array is the subject of a SEPARATELY regenerated aliasing fact and
	// its theorem (alias_c17.go -> Generated/RPAlias.lean, C17Iso.exchange_origin / isolation_safe). With it, `y := x` where x is a slice
	// this function built with `make([]T, len(xs))` + the conversion loop (capacity = length, never appended to since) keeps y readable
	// functionally: every append to y reallocates. Without the flag such a y is "may share its backing array" (UNSUPPORTED on append).
	AliasByFact bool
}

// StructLit: `&pkg.T{K: V, ...}` becomes `({ K := V, ... } : Lean)`, restricted to the fields in Keep.
type StructLit struct {
	Lean string
	Keep []string
	Ctor string // (C19) a POSITIONAL literal `T{a, b}` -> (Ctor a b); without it a positional literal is unsupported
}

// methods implemented by translated functions: recv.M(args) -> (F now recv args)
var genMethodMap = map[string]string{"Relative": "Endpoint_Relative", "Absolute": "Endpoint_Absolute"}

func goSrc(fset *token.FileSet, n ast.Node) string {
	var b bytes.Buffer
	printer.Fprint(&b, fset, n)
	return strings.Join(strings.Fields(b.String()), " ")
}

// hcall renders a statement-level call of an HTTP handler body (RetHandled)
func (t *tr) hcall(c *ast.CallExpr) string {
	var errs []string
	for _, a := range c.Args {
		src := goSrc(t.fset, a)
		_, renamed := t.spec.Rename[strings.SplitN(src, "(", 2)[0]+"()"]
		if _, isCall := a.(*ast.CallExpr); isCall && (strings.Contains(src, "Err") || renamed) {
			errs = append(errs, t.errValue(a))
		}
	}
	return "(Go.hcall " + leanStr(goSrc(t.fset, c.Fun)) + " [" + strings.Join(errs, ", ") + "])"
}

type tr struct {
	captureFns  map[string]bool // (C03) local closures that assign to FuncSpec.CaptureOut
	spec        *FuncSpec
	fset        *token.FileSet
	unsup       []string
	indent      int
	errInScope  bool                 // inside a `.error err =>` branch
	fresh       map[string]bool      // slice variables known to own their backing array (make / literal)
	full        map[string]bool      // (AliasByFact) slice variables built by make([]T, len(xs)) + conversion loop: capacity = length
	inClosure   bool                 // RetHandler: inside the returned handler closure
	declared    map[string]bool      // variables declared in the function (closure) being translated: `=` to anything else is shared state
	pendingPost string               // write-back of a field out-parameter (see okPattern)
	loopDepth   int                  // inside the body of a generically translated range loop (returns become `some …`)
	loop        int                  // > 0: inside the body of a Go.forFirst loop (returns are wrapped in `some`)
	rt          string               // Lean result type of the function being translated
	breakK      []cont               // (translate_ext.go) continuations of the enclosing switch statements: where `break` goes
	funcVals    map[string]bool      // (translate_ext.go) local variables holding a method / function value
	results     []string             // (translate_ext.go) names of the named results (InitResults)
	collect     int                  // > 0: inside the body of a GoX.collect loop (returns are wrapped in `.inl`)
	varTypes    map[string]string    // `var v T` declarations (Imperative): v -> source text of T
	aliases     map[string][2]string // SliceAlias: v -> (x, n) for `v := x[:n]`
	errResult   bool                 // Imperative: `err` currently holds the (unchecked) result of a call, as a value of type Go.R Unit
	inOutCtx    int                  // InOutVal: 0 = such a call is not allowed here, 1 = the pair is bound by the enclosing assignment, 2 = value only (return)
	joinDepth   int                  // JoinIf: > 0 inside a joined branch (only error returns may leave the function)
	continueK   []cont               // LoopStyle "state": what `continue` means inside the body of the fold
	ctl         []ctlFrame           // LoopStyle "ctl": the enclosing control loops (innermost last)
	syn         map[string]string    // PtrSynonyms: x -> y for `x := (*T)(y)`
	oracleCalls map[*ast.CallExpr]bool // OracleVars: method calls on an oracle variable seen by `call` ...
	oracleBound map[*ast.CallExpr]bool // ... and those whose next state was bound by okPattern
	fnBody      *ast.BlockStmt       // (LoopLocalErr) body of the function being translated
}

// ctlFrame: one enclosing GoX.loopCtl loop: its state tuple and the depth of switch statements at its entry
type ctlFrame struct {
	state  string
	breakK int
}

func (t *tr) declareFields(fl *ast.FieldList) {
	if fl == nil {
		return
	}
	for _, f := range fl.List {
		for _, n := range f.Names {
			t.declared[n.Name] = true
		}
	}
}

func (t *tr) bad(reason string, n ast.Node) string {
	pos := ""
	if n != nil {
		pos = t.fset.Position(n.Pos()).String()
	}
	t.unsup = append(t.unsup, reason+" at "+pos)
	id := strings.Map(func(r rune) rune {
		if r >= 'a' && r <= 'z' || r >= 'A' && r <= 'Z' || r >= '0' && r <= '9' {
			return r
		}
		return '_'
	}, reason)
	return "UNSUPPORTED_" + id
}

// calls that are pure bookkeeping and have no influence on the decision
func ignorableCall(c *ast.CallExpr) bool {
	s := exprString(c.Fun)
	switch {
	case strings.HasSuffix(s, "Tracer.Start"), strings.HasSuffix(s, "tracer.Start"), s == "span.End", strings.HasPrefix(s, "logger."),
		strings.HasSuffix(s, ".Debug"), strings.HasSuffix(s, ".Info"), strings.HasSuffix(s, ".Error") && strings.Contains(s, "ogger"),
		s == "span.RecordError", s == "span.SetStatus",
		strings.Contains(s, "Logger()."), s == "r.WithContext", s == "logging.FromContext",
		s == "context.WithTimeout", s == "context.WithCancel", s == "context.WithDeadline", s == "cancel",
		s == "verifPoint": // schedule point of the verification harness (build tag verif): no effect on the decision
		return true
	}
	return false
}

func exprString(e ast.Expr) string {
	switch x := e.(type) {
	case *ast.Ident:
		return x.Name
	case *ast.SelectorExpr:
		return exprString(x.X) + "." + x.Sel.Name
	case *ast.IndexExpr:
		return exprString(x.X)
	case *ast.IndexListExpr:
		return exprString(x.X)
	case *ast.StarExpr:
		return "*" + exprString(x.X)
	case *ast.ParenExpr:
		return exprString(x.X)
	case *ast.CallExpr:
		return exprString(x.Fun) + "()"
	case *ast.UnaryExpr:
		return x.Op.String() + exprString(x.X)
	}
	return fmt.Sprintf("<%T>", e)
}

func leanStr(s string) string {
	var b strings.Builder
	b.WriteByte('"')
	for _, r := range s {
		switch r {
		case '"':
			b.WriteString("\\\"")
		case '\\':
			b.WriteString("\\\\")
		case '\n':
			b.WriteString("\\n")
		case '\t':
			b.WriteString("\\t")
		default:
			b.WriteRune(r)
		}
	}
	b.WriteByte('"')
	return b.String()
}

// ---------------------------------------------------------------- expressions

// method name -> Lean function applied to (receiver, args...)
var methodMap = map[string]string{
	"Add": "Go.tAdd", "Sub": "Go.tSub", "Round": "Go.tRound", "Before": "Go.tBefore", "After": "Go.tAfter",
	"IsZero": "Go.tIsZero", "AsTime": "Go.asTime", "Unix": "Go.tToUnix", "Seconds": "Go.dSeconds",
}

// methods that are the identity in the model
var identityMethods = map[string]bool{"UTC": true, "Error": true, "String": true}

// package-level functions / values
var pkgMap = map[string]string{
	"time.Second": "Go.second", "time.Minute": "(60 * Go.second)", "time.Hour": "(3600 * Go.second)",
	"slices.Contains": "Go.contains", "strings.HasPrefix": "Go.hasPrefix", "strings.HasSuffix": "Go.hasSuffix",
	"strings.Contains": "Go.strContains", "strings.TrimSpace": "Go.trimSpace",
	"strings.TrimSuffix": "Go.trimSuffix", "strings.TrimPrefix": "Go.trimPrefix",
	"str.Contains": "Go.contains", "bytes.Equal": "Go.bytesEqual",
	"oidc.FromTime": "Go.fromTime", "FromTime": "Go.fromTime",
	"time.Time{}": "Go.zeroTime",
	"errors.Is":   "Go.errorsIs", "context.DeadlineExceeded": "Const.DeadlineExceeded", "context.Canceled": "Const.Canceled",
	"http.SetCookie": "Http.SetCookie", "http.Redirect": "Http.Redirect", "http.Error": "Http.Error",
	"http.StatusFound": "Http.StatusFound", "http.StatusUnauthorized": "Http.StatusUnauthorized",
}

// Go struct types whose keyed composite literals are rendered as Lean structure instances
var typeMap = map[string]string{
	"http.Cookie": "Http.Cookie",
}

// named function / slice types whose conversion T(x) is the identity in the model
var identityConversions = map[string]bool{
	"AuthURLOpt": true, "CodeExchangeOpt": true, "URLParamOpt": true,
}

// zero values of `var x T` declarations
var zeroValues = map[string]string{
	"string": "(\"\" : String)", "bool": "false", "int": "(0 : Int)",
	"oidc.ResponseMode": "(\"\" : String)", "oidc.ResponseType": "(\"\" : String)",
}

// names of all translated functions (filled by main from the whitelist): a `return f(...)` in a
// function returning only `error` is a tail call when f is one of them
var translatedFuncs = map[string]bool{}

// errChain: `oidc.ErrX().WithDescription(..).WithParent(..)` -> "ErrX" ("" if e is not such a chain)
func errChain(e ast.Expr) string {
	cur := e
	for {
		c, ok := cur.(*ast.CallExpr)
		if !ok {
			return ""
		}
		switch f := c.Fun.(type) {
		case *ast.Ident:
			if isErrCtor(f.Name) {
				return f.Name
			}
			return ""
		case *ast.SelectorExpr:
			if isErrCtor(f.Sel.Name) {
				return f.Sel.Name
			}
			if strings.HasPrefix(f.Sel.Name, "With") {
				cur = f.X
				continue
			}
			return ""
		default:
			return ""
		}
	}
}

// errChainP: errChain, plus the kept parent sentinel (spec.KeepParents): oidc.ErrX().WithParent(S) -> "ErrX<S"
func (t *tr) errChainP(e ast.Expr) string {
	n := errChain(e)
	if n == "" || len(t.spec.KeepParents) == 0 {
		return n
	}
	cur := e
	for {
		c, ok := cur.(*ast.CallExpr)
		if !ok {
			return n
		}
		sel, ok := c.Fun.(*ast.SelectorExpr)
		if !ok {
			return n
		}
		if sel.Sel.Name == "WithParent" && len(c.Args) == 1 {
			if id, ok := c.Args[0].(*ast.Ident); ok {
				for _, kp := range t.spec.KeepParents {
					if kp == id.Name {
						return n + "<" + id.Name
					}
				}
			}
		}
		cur = sel.X
	}
}

// handlerEndMarker: the (not yet judged) end of a handler body (spec.HandlerEnd); any occurrence left in the output is unsupported
const handlerEndMarker = "UNSUPPORTED_handler_ends_without_response"

// ErrXyz (not `Error`)
func isErrCtor(n string) bool {
	return strings.HasPrefix(n, "Err") && len(n) > 3 && n[3] >= 'A' && n[3] <= 'Z'
}

// bindTarget: binder and write-back for an assignment target (`x` or the field `a.F`)
func (t *tr) bindTarget(e ast.Expr) (binder, post string) {
	if sel, ok := e.(*ast.SelectorExpr); ok {
		if id, ok := sel.X.(*ast.Ident); ok {
			a := t.ident(id.Name)
			b := "v_" + id.Name + "_" + sel.Sel.Name
			return b, "let " + a + " := ({ " + a + " with " + t.fld(sel.Sel.Name) + " := " + b + " } : type_of% " + a + ");\n" + t.pad()
		}
		if mid, ok := sel.X.(*ast.SelectorExpr); ok && t.spec.NestedUpdate {
			if id, ok := mid.X.(*ast.Ident); ok {
				// a.B.C  ->  fresh binder, then  let a := { a with B := { a.B with C := binder } }
				a := t.ident(id.Name)
				b := "v_" + id.Name + "_" + mid.Sel.Name + "_" + sel.Sel.Name
				inner := "(" + a + ")." + mid.Sel.Name
				return b, "let " + a + " := ({ " + a + " with " + mid.Sel.Name + " := ({ " + inner + " with " + sel.Sel.Name + " := " + b + " } : type_of% " + inner + ") } : type_of% " + a + ");\n" + t.pad()
			}
		}
		if t.spec.NestedUpdate {
			// a.B.C.D (any depth)  ->  let a := { a with B := { a.B with C := { a.B.C with D := binder } } }
			var path []string
			var cur ast.Expr = e
			for {
				s, isSel := cur.(*ast.SelectorExpr)
				if !isSel {
					break
				}
				path = append([]string{s.Sel.Name}, path...)
				cur = s.X
			}
			if id, isId := cur.(*ast.Ident); isId && len(path) >= 3 {
				a := t.ident(id.Name)
				b := "v_" + id.Name + "_" + strings.Join(path, "_")
				var upd func(prefix string, p []string) string
				upd = func(prefix string, p []string) string {
					if len(p) == 1 {
						return "({ " + prefix + " with " + p[0] + " := " + b + " } : type_of% " + prefix + ")"
					}
					return "({ " + prefix + " with " + p[0] + " := " + upd("("+prefix+")."+p[0], p[1:]) + " } : type_of% " + prefix + ")"
				}
				return b, "let " + a + " := " + upd(a, path) + ";\n" + t.pad()
			}
		}
		return t.bad("assignment target", e), ""
	}
	v := exprString(e)
	if v == "_" {
		return "_", ""
	}
	return t.ident(v), ""
}

func hasArgW(c *ast.CallExpr) bool {
	for _, a := range c.Args {
		if id, ok := a.(*ast.Ident); ok && (id.Name == "w" || id.Name == "res") {
			return true
		}
	}
	return false
}

// writeCall: a call that writes to the http.ResponseWriter `w` (handler mode): `w` and `r` are dropped
func (t *tr) writeCall(c *ast.CallExpr) string {
	full := exprString(c.Fun)
	var as []string
	for _, a := range c.Args {
		if id, ok := a.(*ast.Ident); ok && (id.Name == "w" || id.Name == "r" || id.Name == "res") {
			continue
		}
		if isCtxArg(a) {
			continue
		}
		as = append(as, t.expr(a))
	}
	args := strings.Join(as, " ")
	if r, ok := t.spec.Rename[full+"()"]; ok {
		return "(" + r + " " + args + ")"
	}
	if r, ok := pkgMap[full]; ok {
		return "(" + r + " " + args + ")"
	}
	if id, ok := c.Fun.(*ast.Ident); ok {
		return "(" + id.Name + " now " + args + ")"
	}
	return t.bad("write call "+full, c)
}

func (t *tr) ident(name string) string {
	if y, ok := t.syn[name]; ok {
		return t.ident(y)
	}
	if r, ok := t.spec.Rename[name]; ok {
		return r
	}
	switch name {
	case "true", "false":
		return name
	case "nil":
		return "Go.nil"
	}
	if strings.HasPrefix(name, "Err") {
		return leanStr(name)
	}
	return name
}

func (t *tr) expr(e ast.Expr) string {
	switch x := e.(type) {
	case *ast.ParenExpr:
		return t.expr(x.X)
	case *ast.BasicLit:
		switch x.Kind {
		case token.STRING:
			s, err := strconv.Unquote(x.Value)
			if err != nil {
				return t.bad("string literal", x)
			}
			return leanStr(s)
		case token.INT:
			return "(" + x.Value + " : Int)"
		}
		return t.bad("literal "+x.Kind.String(), x)
	case *ast.Ident:
		return t.ident(x.Name)
	case *ast.SelectorExpr:
		full := exprString(x)
		if r, ok := t.spec.Rename[full]; ok {
			return r
		}
		if r, ok := pkgMap[full]; ok {
			return r
		}
		if id, ok := x.X.(*ast.Ident); ok {
			// package-qualified sentinel error or constant
			if strings.HasPrefix(x.Sel.Name, "Err") && (id.Name == "oidc" || id.Name == "op" || id.Name == "crypto") {
				return leanStr(x.Sel.Name)
			}
			if id.Name == "oidc" || id.Name == "jose" || id.Name == "op" {
				return "Const." + x.Sel.Name
			}
		}
		return "(" + t.expr(x.X) + ")." + t.fld(x.Sel.Name)
	case *ast.UnaryExpr:
		switch x.Op {
		case token.NOT:
			return "(!" + t.expr(x.X) + ")"
		case token.SUB:
			return "(- " + t.expr(x.X) + ")"
		case token.AND:
			return t.expr(x.X)
		}
		return t.bad("unary "+x.Op.String(), x)
	case *ast.StarExpr:
		return t.expr(x.X)
	case *ast.BinaryExpr:
		a, b := t.expr(x.X), t.expr(x.Y)
		if bi, ok := x.Y.(*ast.Ident); ok && bi.Name == "nil" && t.spec.ErrValues && exprString(x.X) == "err" {
			// err is a first-class value here (Option String)
			if x.Op == token.NEQ {
				return "(GoX.errNotNil " + a + ")"
			}
			if x.Op == token.EQL {
				return "(GoX.errIsNil " + a + ")"
			}
		}
		// `err == nil` as a value: the enclosing match branch knows it
		if bi, ok := x.Y.(*ast.Ident); ok && bi.Name == "nil" && t.spec.ErrNilConst {
			if ei, ok := x.X.(*ast.Ident); ok && ei.Name == "err" && (x.Op == token.EQL || x.Op == token.NEQ) {
				if (x.Op == token.EQL) != t.errInScope {
					return "true"
				}
				return "false"
			}
		}
		// comparisons with nil
		if bi, ok := x.Y.(*ast.Ident); ok && bi.Name == "nil" {
			if x.Op == token.NEQ {
				return "(Go.notNil " + a + ")"
			}
			if x.Op == token.EQL {
				return "(Go.isNil " + a + ")"
			}
		}
		switch x.Op {
		case token.EQL:
			return "(" + a + " == " + b + ")"
		case token.NEQ:
			return "(" + a + " != " + b + ")"
		case token.LAND:
			return "(" + a + " && " + b + ")"
		case token.LOR:
			return "(" + a + " || " + b + ")"
		case token.LSS:
			return "(decide (" + a + " < " + b + "))"
		case token.GTR:
			return "(decide (" + a + " > " + b + "))"
		case token.LEQ:
			return "(decide (" + a + " ≤ " + b + "))"
		case token.GEQ:
			return "(decide (" + a + " ≥ " + b + "))"
		case token.ADD:
			if t.spec.Wrap64 {
				return "(Go.wrap64 (" + a + " + " + b + "))"
			}
			return "(" + a + " + " + b + ")"
		case token.SUB:
			if t.spec.Wrap64 {
				return "(Go.wrap64 (" + a + " - " + b + "))"
			}
			return "(" + a + " - " + b + ")"
		case token.MUL:
			if t.spec.Wrap64 {
				return "(Go.wrap64 (" + a + " * " + b + "))"
			}
			return "(" + a + " * " + b + ")"
		case token.SHL:
			if t.spec.Imperative {
				return "(GoX.shl " + a + " " + b + ")"
			}
		case token.QUO:
			if t.spec.AlsoRet != "" || t.spec.JoinIf {
				return "(" + a + " / " + b + ")" // integer division (the translated operands are non-negative sizes)
			}
		}
		return t.bad("binary "+x.Op.String(), x)
	case *ast.CompositeLit:
		if _, isArr := x.Type.(*ast.ArrayType); x.Type == nil || isArr {
			// slice literal `[]T{a, b}` / element `{a, b}` of an enclosing slice or map literal  ->  Lean list
			var vals []string
			for _, e := range x.Elts {
				if _, ok := e.(*ast.KeyValueExpr); ok {
					return t.bad("keyed element in slice literal", x)
				}
				vals = append(vals, t.expr(e))
			}
			return "[" + strings.Join(vals, ", ") + "]"
		}
		_, mapped := typeMap[exprString(x.Type)]
		_, keepList := t.spec.StructLits[exprString(x.Type)+"{}"]
		if _, renamed := t.spec.Rename[exprString(x.Type)+"{}"]; !renamed && !mapped && !keepList && len(x.Elts) > 0 {
			allIdent, allLit := true, true
			for _, e := range x.Elts {
				kv, ok := e.(*ast.KeyValueExpr)
				if !ok {
					allIdent, allLit = false, false
					break
				}
				if _, ok := kv.Key.(*ast.Ident); !ok {
					allIdent = false
				}
				if _, ok := kv.Key.(*ast.BasicLit); !ok {
					allLit = false
				}
			}
			if allIdent {
				// struct literal T{F: v, ..}  ->  Lean structure instance (unnamed fields take the model's defaults)
				tn := exprString(x.Type)
				if i := strings.LastIndex(tn, "."); i >= 0 {
					tn = tn[i+1:]
				}
				var fs []string
				for _, e := range x.Elts {
					kv := e.(*ast.KeyValueExpr)
					fs = append(fs, exprString(kv.Key)+" := "+t.expr(kv.Value))
				}
				return "({ " + strings.Join(fs, ", ") + " } : " + tn + ")"
			}
			if allLit {
				// map literal M{"k": v, ..}  ->  association list
				var fs []string
				for _, e := range x.Elts {
					kv := e.(*ast.KeyValueExpr)
					fs = append(fs, "("+t.expr(kv.Key)+", "+t.expr(kv.Value)+")")
				}
				return "[" + strings.Join(fs, ", ") + "]"
			}
		}
		tn := exprString(x.Type) + "{}"
		if sl, ok := t.spec.StructLits[tn]; ok {
			var fs []string
			for _, e := range x.Elts {
				kv, ok := e.(*ast.KeyValueExpr)
				if !ok {
					if sl.Ctor != "" {
						return t.positionalLit(sl, x) // translate_c19op.go
					}
					return t.bad("positional struct literal "+tn, x)
				}
				k := exprString(kv.Key)
				for _, keep := range sl.Keep {
					if keep == k {
						fs = append(fs, k+" := "+t.expr(kv.Value))
					}
				}
			}
			return "({ " + strings.Join(fs, ", ") + " } : " + sl.Lean + ")"
		}
		if len(x.Elts) == 0 {
			if r, ok := pkgMap[tn]; ok {
				return r
			}
		}
		if r, ok := t.spec.Rename[tn]; ok && strings.HasPrefix(r, "struct:") {
			// named-field literal of a model structure with Go's field names
			var fields []string
			for _, e := range x.Elts {
				kv, ok := e.(*ast.KeyValueExpr)
				if !ok {
					return t.bad("positional composite literal "+tn, x)
				}
				fields = append(fields, exprString(kv.Key)+" := "+t.expr(kv.Value))
			}
			return "({ " + strings.Join(fields, ", ") + " } : " + strings.TrimPrefix(r, "struct:") + ")"
		}
		if r, ok := t.spec.Rename[tn]; ok {
			var vals []string
			for _, e := range x.Elts {
				if kv, ok := e.(*ast.KeyValueExpr); ok {
					vals = append(vals, t.expr(kv.Value))
				} else {
					vals = append(vals, t.expr(e))
				}
			}
			return "(" + r + " " + strings.Join(vals, " ") + ")"
		}
		if lt, ok := typeMap[exprString(x.Type)]; ok && len(x.Elts) > 0 {
			var fs []string
			for _, e := range x.Elts {
				kv, ok := e.(*ast.KeyValueExpr)
				if !ok {
					return t.bad("positional composite literal "+tn, x)
				}
				fs = append(fs, exprString(kv.Key)+" := "+t.expr(kv.Value))
			}
			return "({ " + strings.Join(fs, ", ") + " } : " + lt + ")"
		}
		if at, ok := x.Type.(*ast.ArrayType); ok && at.Len == nil {
			// slice literal []T{a, b}
			var vs []string
			for _, e := range x.Elts {
				if _, isKV := e.(*ast.KeyValueExpr); isKV {
					return t.bad("keyed slice literal", x)
				}
				vs = append(vs, t.expr(e))
			}
			return "[" + strings.Join(vs, ", ") + "]"
		}
		return t.bad("composite literal "+tn, x)
	case *ast.FuncLit:
		if t.spec.Closures {
			return t.closure(x) // translate_c19.go
		}
	case *ast.IndexExpr:
		if r, ok := t.spec.Rename[exprString(x.X)+"[]"]; ok {
			return "(" + r + " " + t.expr(x.Index) + ")" // m[k] on a model value whose lookup the spec names
		}
		if _, isCall := x.X.(*ast.CallExpr); !isCall {
			// generic instantiation f[T] is handled at the call; slice index a[i]:
			return "(Go.index " + t.expr(x.X) + " " + t.expr(x.Index) + ")"
		}
		return t.bad("index", x)
	case *ast.CallExpr:
		return t.call(x)
	case *ast.SliceExpr:
		if t.spec.Imperative && !x.Slice3 {
			switch {
			case x.Low == nil && x.High != nil:
				return "(GoX.sliceTo " + t.expr(x.X) + " " + t.expr(x.High) + ")"
			case x.Low != nil && x.High == nil:
				return "(GoX.sliceFrom " + t.expr(x.X) + " " + t.expr(x.Low) + ")"
			}
		}
		if ns := t.spec.StrSlices; ns != "" && !x.Slice3 {
			switch {
			case x.Low == nil && x.High != nil:
				return "(" + ns + ".sliceTo " + t.expr(x.X) + " " + t.expr(x.High) + ")"
			case x.Low != nil && x.High == nil:
				return "(" + ns + ".sliceFrom " + t.expr(x.X) + " " + t.expr(x.Low) + ")"
			case x.Low != nil && x.High != nil:
				return "(" + ns + ".slice " + t.expr(x.X) + " " + t.expr(x.Low) + " " + t.expr(x.High) + ")"
			}
		}
		return t.bad("slice expression", x)
	}
	return t.bad(fmt.Sprintf("expr %T", e), e)
}

func isCtxArg(a ast.Expr) bool {
	s := exprString(a)
	return s == "ctx" || s == "r.Context()" || s == "context.Background()" || s == "context.TODO()"
}

// okPattern gives the binder for the success value of a call, taking out-params into account.
func (t *tr) okPattern(call ast.Expr, v string) string {
	if root, c := t.oracleCall(call); root != "" { // translate_c06o.go (FuncSpec.OracleVars)
		t.oracleBound[c] = true
		inner := t.okPattern0(call, v)
		if inner == "_" || inner == "" {
			return root
		}
		return "(" + inner + ", " + root + ")"
	}
	return t.okPattern0(call, v)
}

func (t *tr) okPattern0(call ast.Expr, v string) string {
	c, ok := call.(*ast.CallExpr)
	if !ok {
		return v
	}
	fun := c.Fun
	if ix, ok := fun.(*ast.IndexExpr); ok {
		fun = ix.X
	}
	op, ok := t.lookupOutParam(exprString(fun))
	if !ok || op.Index >= len(c.Args) {
		return v
	}
	if op.Index < 0 {
		// (C02, round 5) OutParam{-1, ..}: the callee is a METHOD that writes through its pointer RECEIVER (`err = webKey.UnmarshalJSON(raw)`):
		// the receiver identifier is the out-parameter (the Rename of the callee passes it on)
		sel, isSel := fun.(*ast.SelectorExpr)
		if !isSel {
			return v
		}
		recv, isIdent := sel.X.(*ast.Ident)
		if !isIdent {
			return t.bad("receiver out-parameter that is not an identifier", call)
		}
		if v == "_" || v == "" {
			return t.ident(recv.Name)
		}
		return "(" + v + ", " + t.ident(recv.Name) + ")"
	}
	name := strings.TrimPrefix(exprString(c.Args[op.Index]), "&")
	if y, ok := t.syn[name]; ok {
		name = y
	}
	if strings.Contains(name, ".") {
		// the out-parameter is a field (`r.Data`): bind a fresh name, write it back before the continuation
		target := c.Args[op.Index]
		if u, isAddr := target.(*ast.UnaryExpr); isAddr && u.Op == token.AND && t.spec.Imperative {
			target = u.X // &x.F
		}
		name, t.pendingPost = t.bindTarget(target)
	}
	if al, ok := t.aliases[name]; ok && t.spec.SliceAlias {
		// name is a window onto al[0]: what the callee wrote through it is in al[0] as well
		x := t.ident(al[0])
		t.pendingPost += "let " + x + " := (GoX.setSliceTo " + x + " " + al[1] + " " + t.ident(name) + ");\n" + t.pad()
	}
	if v == "_" || v == "" {
		return name
	}
	return "(" + v + ", " + name + ")"
}

// takePost returns (and clears) the write-back recorded by the last okPattern
func (t *tr) takePost() string {
	p := t.pendingPost
	t.pendingPost = ""
	return p
}

func (t *tr) dropped(a ast.Expr) bool {
	s := exprString(a)
	for _, d := range t.spec.DropArgs {
		if d == s {
			return true
		}
	}
	return false
}

func (t *tr) args(as []ast.Expr) string {
	return t.argsOf("", as)
}

func (t *tr) argsOf(callee string, as []ast.Expr) string {
	var out []string
	op, hasOp := t.lookupOutParam(callee)
	for i, a := range as {
		if (isCtxArg(a) && !t.spec.KeepCtx) || t.dropped(a) {
			continue
		}
		if hasOp && !op.Keep && i == op.Index {
			continue
		}
		out = append(out, t.expr(a))
	}
	return strings.Join(out, " ")
}

func (t *tr) call(c *ast.CallExpr) string {
	if n := t.errChainP(c); n != "" && !t.spec.ErrStruct {
		return leanStr(n)
	}
	fun := c.Fun
	if ix, ok := fun.(*ast.IndexExpr); ok { // generic instantiation
		fun = ix.X
	}
	if ix, ok := fun.(*ast.IndexListExpr); ok {
		fun = ix.X
	}
	full := exprString(fun)
	if t.spec.OracleVars != nil {
		if root, oc := t.oracleCall(c); root != "" {
			t.oracleCalls[oc] = true
		}
	}
	if _, ok := t.spec.InOutVal[full]; ok {
		return t.inOutCall(c, full) // translate_c06.go
	}
	if _, ok := fun.(*ast.ArrayType); ok && len(c.Args) == 1 {
		return t.expr(c.Args[0]) // []byte(x), []string(x): conversions are the identity in the model
	}
	if identityConversions[full] && len(c.Args) == 1 {
		return t.expr(c.Args[0])
	}
	if t.spec.Closures && full == "http.HandlerFunc" && len(c.Args) == 1 {
		return t.expr(c.Args[0]) // conversion of a function value to the handler type
	}
	if full == "append" && len(c.Args) == 2 && c.Ellipsis.IsValid() && t.spec.SpreadAppend {
		return "(" + t.expr(c.Args[0]) + " ++ " + t.expr(c.Args[1]) + ")"
	}
	if full == "new" && len(c.Args) == 1 {
		if z, ok := t.spec.Rename["new("+exprString(c.Args[0])+")"]; ok {
			return z // new(T) in expression position: the zero value the spec names
		}
	}
	if full == "append" && len(c.Args) >= 2 && !c.Ellipsis.IsValid() {
		// functional reading of append is only sound when the slice owns its backing array
		if id, ok := c.Args[0].(*ast.Ident); (!ok || !t.fresh[id.Name]) && !t.spec.ValueOnly {
			return t.bad("append to a slice that may share its backing array", c)
		}
		out := t.expr(c.Args[0])
		for _, a := range c.Args[1:] {
			out = "(Go.append " + out + " " + t.expr(a) + ")"
		}
		return out
	}
	if full == "append" && len(c.Args) == 2 && c.Ellipsis.IsValid() && t.spec.ValueOnly {
		// append(a, b...) read functionally (ValueOnly: aliasing is not this theorem's subject): concatenation
		return "(" + t.expr(c.Args[0]) + " ++ " + t.expr(c.Args[1]) + ")"
	}
	if t.spec.RenameFirst {
		if r, ok := t.spec.Rename[full+"()"]; ok {
			if a := t.args(c.Args); a != "" {
				return "(" + r + " " + a + ")"
			}
			return r
		}
	}
	if t.spec.Imperative && full == "errors.As" && len(c.Args) == 2 {
		// errors.As(e, &v) with `var v T`: does the chain of e contain an error of type T?
		if u, ok := c.Args[1].(*ast.UnaryExpr); ok && u.Op == token.AND {
			if ty, ok := t.varTypes[exprString(u.X)]; ok {
				if t.errResult && exprString(c.Args[0]) == "err" {
					return "(GoX.errorsAsR err " + leanStr(ty) + ")" // errors.As(nil, ..) is false
				}
				return "(GoX.errorsAs " + t.expr(c.Args[0]) + " " + leanStr(ty) + ")"
			}
		}
		return t.bad("errors.As target of unknown type", c)
	}
	if t.spec.Imperative && full == "make" && len(c.Args) >= 1 {
		_, isMap := c.Args[0].(*ast.MapType)
		_, isNamed := c.Args[0].(*ast.Ident)
		at, isSlice := c.Args[0].(*ast.ArrayType)
		zeroLen := len(c.Args) >= 2 && exprString(c.Args[1]) == "<*ast.BasicLit>" && c.Args[1].(*ast.BasicLit).Value == "0"
		switch {
		case isMap && len(c.Args) == 1 && t.spec.MakeMapZero != "":
			return t.spec.MakeMapZero // (C03) the spec names the empty value of the model type the map stands for
		case isMap && len(c.Args) == 1, isMap && len(c.Args) == 2 && t.spec.MapCap, (isNamed || isSlice) && zeroLen:
			return "([] : List _)" // the empty map / slice (capacity carries no meaning)
		case isSlice && len(c.Args) == 2 && exprString(at.Elt) == "byte":
			return "(GoX.zeros " + t.expr(c.Args[1]) + ")" // zero bytes
		}
		return t.bad("make", c)
	}
	switch full {
	case "time.Now":
		return "now"
	case "append":
		if len(c.Args) == 2 {
			return "(Go.append " + t.expr(c.Args[0]) + " " + t.expr(c.Args[1]) + ")"
		}
	case "len":
		return "(Go.len " + t.expr(c.Args[0]) + ")"
	case "string", "jose.SignatureAlgorithm", "[]byte", "oidc.GrantType", "oidc.ResponseType", "int", "int64", "uint64", "time.Duration", "oidc.Time", "Time":
		if len(c.Args) == 1 {
			return t.expr(c.Args[0])
		}
	case "fmt.Errorf", "errors.New", "errors.Join":
		return t.errValue(c)
	case "make":
		if len(c.Args) >= 2 {
			if _, ok := c.Args[0].(*ast.ArrayType); ok && exprString(c.Args[1]) == "<*ast.BasicLit>" && c.Args[1].(*ast.BasicLit).Value == "0" {
				return "([] : List _)"
			}
		}
	}
	if r, ok := t.spec.Rename[full+"()"]; ok {
		a := t.args(c.Args)
		if t.spec.RenameDropsOut {
			a = t.argsOf(full, c.Args) // (C03) a renamed callee of the out-parameter table: the pointer argument it writes through is dropped as usual
		}
		if a != "" {
			return "(" + r + " " + a + ")"
		}
		return r
	}
	if full == "errors.Is" {
		// the only rule for errors.Is: `Go.errorsIs err <constant>` with a target error the translator has a constant for
		// (context.DeadlineExceeded / context.Canceled, or one the spec renames); any other classification of an error
		// is outside the subset and must say so instead of producing an unknown Lean identifier
		known := false
		if len(c.Args) == 2 {
			target := exprString(c.Args[1])
			_, inMap := pkgMap[target]
			_, renamed := t.spec.Rename[target]
			known = inMap || renamed
		}
		if !known {
			return t.bad("errors.Is without a rule for its target error", c)
		}
	}
	if r, ok := pkgMap[full]; ok {
		return "(" + r + " " + t.args(c.Args) + ")"
	}
	if sel, ok := fun.(*ast.SelectorExpr); ok {
		m := sel.Sel.Name
		if id, ok := sel.X.(*ast.Ident); ok && (id.Name == "oidc" || id.Name == "op" || id.Name == "crypto" || id.Name == "httphelper") {
			// call of a (translated or hand-modelled) package function
			a := t.argsOf(full, c.Args)
			if a == "" {
				return "(" + m + " now)"
			}
			return "(" + m + " now " + a + ")"
		}
		recv := t.expr(sel.X)
		if gf, ok := t.spec.GenMethods[m]; ok {
			if a := t.args(c.Args); a != "" {
				return "(" + gf + " now " + recv + " " + a + ")"
			}
			return "(" + gf + " now " + recv + ")"
		}
		if r, ok := t.spec.Rename["."+m+"()"]; ok { // method rename by method name: receiver first
			if a := t.args(c.Args); a != "" {
				return "(" + r + " " + recv + " " + a + ")"
			}
			return "(" + r + " " + recv + ")"
		}
		if identityMethods[m] && len(c.Args) == 0 {
			return recv
		}
		if m == "WithContext" && len(c.Args) == 1 && !t.spec.KeepCtx {
			return recv // r.WithContext(ctx): contexts are not modelled
		}
		if lf, ok := methodMap[m]; ok {
			if t.spec.Wrap64 && m == "Sub" {
				lf = "Go.tSubSat"
			}
			if len(c.Args) == 0 {
				return "(" + lf + " " + recv + ")"
			}
			return "(" + lf + " " + recv + " " + t.args(c.Args) + ")"
		}
		if gf, ok := genMethodMap[m]; ok {
			if a := t.args(c.Args); a != "" {
				return "(" + gf + " now " + recv + " " + a + ")"
			}
			return "(" + gf + " now " + recv + ")"
		}
		// getter or method of a model structure:  recv.M args
		if len(c.Args) == 0 {
			return "((" + recv + ")." + m + ")"
		}
		return "((" + recv + ")." + m + " " + t.argsOf(full, c.Args) + ")"
	}
	if id, ok := fun.(*ast.Ident); ok {
		// same-package function or function-typed parameter
		a := t.argsOf(full, c.Args)
		if r, ok := t.spec.Rename[id.Name+"()"]; ok { // function-typed value: rename gives the application head
			return "(" + r + " " + a + ")"
		}
		if t.funcVals[id.Name] { // local variable holding a method value: applied as it is (no clock argument)
			return "(" + t.ident(id.Name) + " " + a + ")"
		}
		if a == "" {
			return "(" + id.Name + " now)"
		}
		return "(" + id.Name + " now " + a + ")"
	}
	if inner, ok := fun.(*ast.CallExpr); ok && t.spec.JoinIf {
		// f(a)(b): the call of a returned function value
		return "(" + t.expr(inner) + " " + t.args(c.Args) + ")"
	}
	return t.bad("call "+full, c)
}

// errValue maps an error-constructing expression to the name of the sentinel it wraps.
func (t *tr) errValue(e ast.Expr) string {
	switch x := e.(type) {
	case *ast.CompositeLit:
		if len(x.Elts) == 1 {
			if kv, ok := x.Elts[0].(*ast.KeyValueExpr); ok {
				return t.errValue(kv.Value)
			}
			return t.errValue(x.Elts[0])
		}
		return t.bad("error literal", x)
	case *ast.Ident:
		if x.Name == "err" || strings.HasSuffix(x.Name, "Err") || strings.HasSuffix(x.Name, "err") {
			return x.Name
		}
		return t.ident(x.Name)
	case *ast.SelectorExpr:
		return t.expr(x)
	case *ast.CallExpr:
		full := exprString(x.Fun)
		switch full {
		case "fmt.Errorf":
			if len(x.Args) >= 2 {
				if lit, ok := x.Args[0].(*ast.BasicLit); ok && strings.HasPrefix(lit.Value, "\"%w") {
					return t.errValue(x.Args[1])
				}
			}
			if len(x.Args) >= 1 {
				if lit, ok := x.Args[0].(*ast.BasicLit); ok {
					s, _ := strconv.Unquote(lit.Value)
					return leanStr("error:" + s)
				}
			}
		case "errors.New":
			if lit, ok := x.Args[0].(*ast.BasicLit); ok {
				s, _ := strconv.Unquote(lit.Value)
				return leanStr("error:" + s)
			}
			return leanStr("error:<dynamic message>") // errors.New(a + b): the text carries no decision
		case "errors.Join":
			if len(x.Args) >= 1 {
				return t.errValue(x.Args[0]) // the first joined error is the sentinel
			}
		}
		if len(t.spec.KeepParents) > 0 {
			if n := t.errChainP(x); n != "" {
				return leanStr(n)
			}
		}
		// oidc.ErrInvalidRequest().WithDescription(...)  ->  "ErrInvalidRequest"
		cur := ast.Expr(x)
		for {
			c, ok := cur.(*ast.CallExpr)
			if !ok {
				break
			}
			sel, ok := c.Fun.(*ast.SelectorExpr)
			if !ok {
				if id, ok := c.Fun.(*ast.Ident); ok && strings.HasPrefix(id.Name, "Err") {
					return leanStr(id.Name)
				}
				break
			}
			if strings.HasPrefix(sel.Sel.Name, "Err") {
				return leanStr(sel.Sel.Name)
			}
			if strings.HasPrefix(sel.Sel.Name, "With") {
				cur = sel.X
				continue
			}
			break
		}
		return t.expr(x)
	}
	return t.expr(e)
}

// ---------------------------------------------------------------- statements

func (t *tr) pad() string { return strings.Repeat("  ", t.indent) }

func (t *tr) isNilValue(e ast.Expr) bool {
	s := exprString(e)
	if s == "nil" || s == "\"\"" {
		return true
	}
	if lit, ok := e.(*ast.BasicLit); ok && (lit.Value == `""` || lit.Value == "0") {
		return true
	}
	if id, ok := e.(*ast.Ident); ok && id.Name == "false" {
		return true
	}
	for _, n := range t.spec.NilValue {
		if n == s {
			return true
		}
	}
	return false
}

// isWriterCall: does this call act on the threaded response writer / outside world?
func (t *tr) isWriterCall(e ast.Expr) bool {
	c, ok := e.(*ast.CallExpr)
	if !ok || t.spec.Writer == "" {
		return false
	}
	for _, a := range c.Args {
		if id, ok := a.(*ast.Ident); ok && id.Name == t.spec.Writer {
			return true
		}
	}
	fun := c.Fun
	if ix, ok := fun.(*ast.IndexExpr); ok {
		fun = ix.X
	}
	name := exprString(fun)
	for _, e := range t.spec.Effectful {
		if e == name {
			return true
		}
	}
	return false
}

// wpat wraps a result pattern / result value with the writer when the call (or function) threads one.
func (t *tr) wpat(call ast.Expr, inner string) string {
	if t.isWriterCall(call) {
		return "(" + t.spec.Writer + ", " + inner + ")"
	}
	if t.spec.CaptureOut != "" {
		// (C03) call of a local closure that assigns to the captured variable: its twin returns (result, final value of the variable)
		if c, ok := call.(*ast.CallExpr); ok {
			if id, ok := c.Fun.(*ast.Ident); ok && t.captureFns[id.Name] {
				return "(" + inner + ", " + t.ident(t.spec.CaptureOut) + ")"
			}
		}
	}
	return inner
}

func usesIdent(n ast.Node, name string) bool {
	found := false
	ast.Inspect(n, func(m ast.Node) bool {
		if id, ok := m.(*ast.Ident); ok && id.Name == name {
			found = true
		}
		return !found
	})
	return found
}

// zeroBind: in Go the value variable of `x, err := f()` holds the zero value in the error branch
// (all translated callees return zero values next to an error); bind it when the branch reads it.
func (t *tr) zeroBind(body ast.Node, v string) string {
	if v == "" || v == "_" || !usesIdent(body, v) {
		return ""
	}
	return "let " + t.ident(v) + " := default;\n" + t.pad()
}

func (t *tr) ret(r *ast.ReturnStmt) string {
	if t.spec.InOutVal != nil || t.spec.AlsoRet != "" || t.joinDepth > 0 {
		return t.retC06(r) // translate_c06.go
	}
	return t.ret1(r)
}

func (t *tr) ret1(r *ast.ReturnStmt) string {
	if len(t.ctl) > 0 {
		return "(GoX.Ctl.ret " + t.ret0(r) + ")" // leaving the function from inside a GoX.loopCtl loop
	}
	if t.collect > 0 {
		return "(.inl " + t.ret0(r) + ")" // leaving the function from inside a GoX.collect loop
	}
	if t.loopDepth > 0 {
		return "(some " + t.ret0(r) + ")"
	}
	if t.loop > 0 {
		return "(some " + t.ret0(r) + ")" // leaving the function from inside a Go.forFirst loop
	}
	if t.spec.Writer != "" {
		switch t.spec.Ret {
		case RetVoid, RetHandler:
			if len(r.Results) == 0 && (t.spec.Ret == RetVoid || t.inClosure) {
				return t.spec.Writer
			}
			if t.spec.Ret == RetHandler && !t.inClosure && len(r.Results) == 1 {
				if fl, ok := r.Results[0].(*ast.FuncLit); ok {
					ps := fl.Type.Params.List
					if len(ps) != 2 || len(ps[0].Names) != 1 || ps[0].Names[0].Name != t.spec.Writer || len(ps[1].Names) != 1 || ps[1].Names[0].Name != "r" {
						return t.bad("handler closure parameters", fl)
					}
					t.inClosure = true
					t.declared = map[string]bool{} // variables of the enclosing function are shared between requests
					t.declareFields(fl.Type.Params)
					w := t.spec.Writer
					body := t.block(fl.Body.List, func() string { return w })
					t.inClosure = false
					return body
				}
			}
			return t.bad("return in writer function", r)
		default:
			return "(" + t.spec.Writer + ", " + t.ret0(r) + ")"
		}
	}
	return t.ret0(r)
}

func (t *tr) ret0(r *ast.ReturnStmt) string {
	if t.spec.RecvOut != "" {
		return "(" + t.ident(t.spec.RecvOut) + ", " + t.ret00(r) + ")"
	}
	return t.ret00(r)
}

func (t *tr) ret00(r *ast.ReturnStmt) string {
	if len(r.Results) == 0 && t.spec.InitResults {
		return t.nakedReturn(r) // named results (translate_ext.go)
	}
	if t.spec.Ret == RetVal && len(r.Results) == 0 && t.spec.RetParam != "" {
		return t.spec.RetParam
	}
	if t.spec.Ret == RetResp && t.spec.HandlerEnd && len(r.Results) == 1 && !t.inClosure {
		if fl, ok := r.Results[0].(*ast.FuncLit); ok {
			// return func(w, r) {..}: the handler this function builds
			t.inClosure = true
			t.declareFields(fl.Type.Params)
			body := t.block(fl.Body.List, nil)
			t.inClosure = false
			return body
		}
	}
	if t.spec.Ret == RetResp {
		return t.bad("return without a written response", r)
	}
	switch t.spec.Ret {
	case RetWrites:
		if len(r.Results) != 0 {
			return t.bad("return with values in a handler", r)
		}
		return "[]"
	case RetErr:
		if len(r.Results) != 1 {
			return t.bad("return arity", r)
		}
		if id, ok := r.Results[0].(*ast.Ident); ok && id.Name == "err" && t.errResult && !t.errInScope {
			// `return err` where err is the unchecked result of a call: nil is success
			if t.spec.RetParam != "" {
				return "(GoX.retErr err " + t.spec.RetParam + ")"
			}
			return "err"
		}
		if id, ok := r.Results[0].(*ast.Ident); ok && id.Name == "nil" {
			if t.spec.RetParam != "" {
				return "(.ok " + t.spec.RetParam + ")"
			}
			return "Go.ok"
		}
		// return f(...) where f is itself a translated function returning `error`: tail call
		if c, ok := r.Results[0].(*ast.CallExpr); ok && errChain(c) == "" {
			name := exprString(c.Fun)
			if i := strings.LastIndex(name, "."); i >= 0 {
				name = name[i+1:]
			}
			if translatedFuncs[name] && t.spec.RetParam == "" {
				return t.expr(c)
			}
		}
		if c, ok := r.Results[0].(*ast.CallExpr); ok {
			for _, tc := range t.spec.TailCalls {
				if exprString(c.Fun) == tc {
					return t.expr(c)
				}
			}
		}
		return "(.error " + t.errValue(r.Results[0]) + ")"
	case RetValErr:
		if len(r.Results) == 1 {
			// return f(...) : tail call with the same result type
			return t.expr(r.Results[0])
		}
		if len(r.Results) > 2 {
			// (v1, ..., vn, err)
			last := r.Results[len(r.Results)-1]
			vals := r.Results[:len(r.Results)-1]
			lastIsNil := false
			if id, ok := last.(*ast.Ident); ok && (id.Name == "nil" || (id.Name == "err" && !t.errInScope)) {
				lastIsNil = true // `err` outside an error branch is known to be nil
			}
			if lastIsNil {
				var vs []string
				for _, v := range vals {
					vs = append(vs, t.expr(v))
				}
				return "(.ok (" + strings.Join(vs, ", ") + "))"
			}
			allNil := true
			for _, v := range vals {
				if !t.isNilValue(v) {
					allNil = false
				}
			}
			if allNil {
				return "(.error " + t.errValue(last) + ")"
			}
			return t.bad("return of values and error", r)
		}
		if id, ok := r.Results[1].(*ast.Ident); ok && (id.Name == "nil" || (id.Name == "err" && !t.errInScope)) {
			if t.spec.WrapOk != "" {
				return "(.ok (" + t.spec.WrapOk + " " + t.expr(r.Results[0]) + "))"
			}
			return "(.ok " + t.expr(r.Results[0]) + ")"
		}
		if t.isNilValue(r.Results[0]) {
			return "(.error " + t.errValue(r.Results[1]) + ")"
		}
		// value AND error (e.g. claims, IDTokenHintExpiredError): modelled by the spec'd combinator
		if t.spec.WrapBoth != "" {
			if t.spec.WrapBothType != "" {
				cl, ok := r.Results[1].(*ast.CompositeLit)
				if !ok || exprString(cl.Type) != t.spec.WrapBothType {
					return t.bad("value returned with an error that is not a "+t.spec.WrapBothType, r)
				}
			}
			return "(.ok (" + t.spec.WrapBoth + " " + t.expr(r.Results[0]) + " " + t.errValue(r.Results[1]) + "))"
		}
		if t.spec.ErrWins {
			return "(.error " + t.errValue(r.Results[1]) + ")"
		}
		return t.bad("return of value and error", r)
	case RetVal:
		if len(r.Results) > 1 {
			// (v1, ..., vn) without error: a tuple
			var vs []string
			for _, v := range r.Results {
				vs = append(vs, t.expr(v))
			}
			return "(" + strings.Join(vs, ", ") + ")"
		}
		if len(r.Results) != 1 {
			return t.bad("return arity", r)
		}
		return t.expr(r.Results[0])
	case RetHandled:
		if len(r.Results) == 0 {
			return "[]"
		}
	}
	return t.bad("return", r)
}

func isErrIsNil(e ast.Expr) bool {
	b, ok := e.(*ast.BinaryExpr)
	if !ok || b.Op != token.EQL {
		return false
	}
	l, ok1 := b.X.(*ast.Ident)
	r, ok2 := b.Y.(*ast.Ident)
	return ok1 && ok2 && l.Name == "err" && r.Name == "nil"
}

// typeAssertName: the flag name of `x.(T)`: T without package, or has_<Method> for an anonymous interface
func typeAssertName(e ast.Expr) string {
	if it, ok := e.(*ast.InterfaceType); ok && it.Methods != nil && len(it.Methods.List) > 0 && len(it.Methods.List[0].Names) > 0 {
		return "has_" + it.Methods.List[0].Names[0].Name
	}
	tn := exprString(e)
	if i := strings.LastIndex(tn, "."); i >= 0 {
		tn = tn[i+1:]
	}
	return tn
}

// endsWithErrAssign: the block's last statement assigns `err` (and nothing in the block checks it)
func endsWithErrAssign(b *ast.BlockStmt) bool {
	if b == nil || len(b.List) == 0 {
		return false
	}
	as, ok := b.List[len(b.List)-1].(*ast.AssignStmt)
	return ok && len(as.Lhs) >= 1 && exprString(as.Lhs[len(as.Lhs)-1]) == "err"
}

// softErrCond recognises `err != nil && !errors.As(err, &T{})` for a T listed in the spec's SoftErr
func (t *tr) softErrCond(e ast.Expr) (string, bool) {
	b, ok := e.(*ast.BinaryExpr)
	if !ok || b.Op != token.LAND || !isErrNotNil(b.X) {
		return "", false
	}
	n, ok := b.Y.(*ast.UnaryExpr)
	if !ok || n.Op != token.NOT {
		return "", false
	}
	c, ok := n.X.(*ast.CallExpr)
	if !ok || exprString(c.Fun) != "errors.As" || len(c.Args) != 2 || exprString(c.Args[0]) != "err" {
		return "", false
	}
	u, ok := c.Args[1].(*ast.UnaryExpr)
	if !ok || u.Op != token.AND {
		return "", false
	}
	cl, ok := u.X.(*ast.CompositeLit)
	if !ok || len(cl.Elts) != 0 {
		return "", false
	}
	proj, ok := t.spec.SoftErr[exprString(cl.Type)]
	return proj, ok
}

func isErrNotNil(e ast.Expr) bool {
	b, ok := e.(*ast.BinaryExpr)
	if !ok || b.Op != token.NEQ {
		return false
	}
	l, ok1 := b.X.(*ast.Ident)
	r, ok2 := b.Y.(*ast.Ident)
	return ok1 && ok2 && l.Name == "err" && r.Name == "nil"
}

// isErrorsIsGuard: `if errors.Is(err, E) { …; return … }` (no init, no else, body ends in a return). errors.Is(nil, E) is
// false, so such a guard only fires in the error branch of the preceding call.
func isErrorsIsGuard(s ast.Stmt) bool {
	ifs, ok := s.(*ast.IfStmt)
	if !ok || ifs.Init != nil || ifs.Else != nil || len(ifs.Body.List) == 0 {
		return false
	}
	c, ok := ifs.Cond.(*ast.CallExpr)
	if !ok || exprString(c.Fun) != "errors.Is" || len(c.Args) != 2 || exprString(c.Args[0]) != "err" {
		return false
	}
	_, isRet := ifs.Body.List[len(ifs.Body.List)-1].(*ast.ReturnStmt)
	return isRet
}

// block translates stmts; k is the already translated continuation ("" = none: falling off the
// end of the function body without return is unsupported).
type cont func() string

func memo(f func() string) cont {
	done := false
	var v string
	return func() string {
		if !done {
			v = f()
			done = true
		}
		return v
	}
}

func (t *tr) block(stmts []ast.Stmt, k cont) string {
	if len(stmts) == 0 {
		if k == nil && t.spec.Ret == RetHandled {
			return "[]" // end of a handler body
		}
		if k == nil {
			if t.spec.Ret == RetVal && t.spec.RetParam != "" {
				return t.spec.RetParam // void function: its effect is the final value of the pointer parameter
			}
			if t.spec.Ret == RetResp && t.spec.HandlerEnd {
				return handlerEndMarker // reaching the end of a handler body: legitimate only right after a response-writing call
			}
			return t.bad("fallthrough without return", nil)
		}
		return k()
	}
	s := stmts[0]
	rest := memo(func() string { return t.block(stmts[1:], k) })
	switch x := s.(type) {
	case *ast.ReturnStmt:
		return t.ret(x)
	case *ast.DeclStmt:
		// var x T   ->   let x := <zero value>   (only for types whose zero value the model knows)
		out := ""
		if gd, ok := x.Decl.(*ast.GenDecl); ok {
			for _, sp := range gd.Specs {
				vs, ok := sp.(*ast.ValueSpec)
				if !ok {
					continue
				}
				for _, n := range vs.Names {
					t.declared[n.Name] = true
					if t.spec.Imperative && vs.Type != nil {
						t.varTypes[n.Name] = goSrc(t.fset, vs.Type)
					}
				}
				if len(vs.Values) == len(vs.Names) && len(vs.Values) > 0 {
					// (C14) var x T = e   ->   let x := e   (was dropped, which left `x` unbound in the Lean text: a value-neutral rewrite of
					// `x := e` came out as a definition that does not elaborate)
					for i, n := range vs.Names {
						if n.Name != "_" {
							out += "let " + t.ident(n.Name) + " := " + t.expr(vs.Values[i]) + ";\n" + t.pad()
						}
					}
					continue
				}
				if len(vs.Values) != 0 || vs.Type == nil {
					continue
				}
				if at, isSlice := vs.Type.(*ast.ArrayType); isSlice && at.Len == nil && t.spec.SliceVars {
					for _, n := range vs.Names {
						t.fresh[n.Name] = true
						out += "let " + t.ident(n.Name) + " := ([] : List _);\n" + t.pad()
					}
					continue
				}
				zero := ""
				switch exprString(vs.Type) {
				case "string":
					zero = "(\"\" : String)"
				case "time.Duration", "int", "int64", "uint64":
					zero = "(0 : Int)"
				case "bool":
					zero = "false"
				}
				if z, ok := zeroValues[exprString(vs.Type)]; ok && zero == "" {
					zero = z
				}
				if z, ok := t.spec.ZeroOf[exprString(vs.Type)]; ok && zero == "" {
					zero = z
				}
				if zero == "" {
					continue
				}
				for _, n := range vs.Names {
					out += "let " + t.ident(n.Name) + " := " + zero + ";\n" + t.pad()
				}
			}
		}
		return out + rest()
	case *ast.DeferStmt:
		if ignorableCall(x.Call) {
			return rest()
		}
		return t.bad("defer", x)
	case *ast.ExprStmt:
		if c, ok := x.X.(*ast.CallExpr); ok {
			if ignorableCall(c) || t.specIgnores(c) {
				return rest()
			}
			// f(v, ...) where f writes through its pointer argument v:  let v := f v ...
			if op, ok := t.lookupOutParam(exprString(c.Fun)); ok && op.Keep && op.Index >= 0 && op.Index < len(c.Args) && (outParamsHas(exprString(c.Fun)) || t.spec.LocalOut != nil) {
				if se, isSlice := c.Args[op.Index].(*ast.SliceExpr); isSlice && t.spec.SliceAlias && se.High == nil && se.Low != nil && !se.Slice3 {
					// f(x[n:], ..) writes into the tail of x
					base := t.expr(se.X)
					return "let " + base + " := (GoX.setSliceFrom " + base + " " + t.expr(se.Low) + " " + t.expr(c) + ");\n" + t.pad() + rest()
				}
				name := strings.TrimPrefix(exprString(c.Args[op.Index]), "&")
				return "let " + t.ident(name) + " := " + t.expr(c) + ";\n" + t.pad() + rest()
			}
			// effect on the threaded writer:  f(w, a)  ->  let w := f w a
			if t.isWriterCall(c) {
				return "let " + t.spec.Writer + " := " + t.expr(c) + ";\n" + t.pad() + rest()
			}
			// handler mode: a call that writes to the ResponseWriter; the handler goes on afterwards
			if t.spec.Ret == RetWrites && hasArgW(c) {
				return "(" + t.writeCall(c) + " ++\n" + t.pad() + rest() + ")"
			}
			// HTTP handler: a call that writes the response, followed by `return` (or ending the handler)
			if ctor, ok := t.spec.Writers[exprString(c.Fun)]; ok && t.spec.Ret == RetResp {
				leaves := len(stmts) == 1 && k == nil
				if len(stmts) > 1 {
					if r, ok := stmts[1].(*ast.ReturnStmt); ok && len(r.Results) == 0 {
						leaves = true
					}
				}
				if !leaves && t.spec.HandlerEnd && rest() == handlerEndMarker {
					leaves = true // nothing is executed after the call (end of a switch case / of the handler body)
				}
				if inner, isCurried := c.Fun.(*ast.CallExpr); isCurried && leaves && t.spec.HandlerEnd && t.loop == 0 {
					// f(a)(w, r): the handler f builds, applied to the request
					return "(" + ctor + " " + strings.TrimSpace(t.args(inner.Args)+" "+t.args(c.Args)) + ")"
				}
				if !leaves {
					return t.bad("response written without leaving the handler", x)
				}
				if t.loop > 0 {
					return t.bad("response written inside a loop", x)
				}
				return "(" + ctor + " " + t.args(c.Args) + ")"
			}
			// the handler's one response write: httphelper.MarshalJSON(w, v)  ->  let written := v
			// (a RetErr handler with RetParam "written" yields the written value on `return nil`)
			if exprString(c.Fun) == "httphelper.MarshalJSON" && len(c.Args) == 2 && t.spec.RetParam == "written" {
				return "let written := " + t.expr(c.Args[1]) + ";\n" + t.pad() + rest()
			}
			if out, ok := t.mutatorStmt(c, rest); ok { // FuncSpec.Mutators (translate_c06.go)
				return out
			}
			// mutator method on a model value: recv.SetX(a)  ->  let recv := recv.SetX a
			if sel, ok := c.Fun.(*ast.SelectorExpr); ok && strings.HasPrefix(sel.Sel.Name, "Set") {
				if id, ok := sel.X.(*ast.Ident); ok {
					v := t.ident(id.Name)
					return "let " + v + " := (" + v + ")." + sel.Sel.Name + " " + t.args(c.Args) + ";\n" + t.pad() + rest()
				}
			}
			if t.spec.Ret == RetHandled {
				return "(" + t.hcall(c) + " :: " + rest() + ")"
			}
		}
		return t.bad("expression statement", x)
	case *ast.AssignStmt:
		if t.spec.CaptureOut != "" && len(x.Lhs) == 1 && len(x.Rhs) == 1 {
			if _, isLit := x.Rhs[0].(*ast.FuncLit); isLit {
				if id, ok := x.Lhs[0].(*ast.Ident); ok {
					if t.captureFns == nil {
						t.captureFns = map[string]bool{}
					}
					t.captureFns[id.Name] = true // (C03) calls of this closure bind the captured variable again (wpat)
				}
			}
		}
		if t.spec.InOutVal != nil {
			if out, ok := t.inOutAssign(x, rest); ok { // translate_c06.go
				return out
			}
		}
		if t.spec.Imperative {
			if out, ok := t.imperativeAssign(x, stmts, k, rest); ok {
				return out
			}
			// *p = e  is  p = e  on the value the pointer parameter stands for
			if len(x.Lhs) == 1 {
				if st, ok := x.Lhs[0].(*ast.StarExpr); ok {
					if id, ok := st.X.(*ast.Ident); ok {
						y := *x
						y.Lhs = []ast.Expr{id}
						x = &y
					}
				}
			}
		}
		for _, lhs := range x.Lhs {
			if id, ok := lhs.(*ast.Ident); ok && id.Name != "_" {
				if x.Tok == token.DEFINE {
					t.declared[id.Name] = true
				} else if !t.declared[id.Name] {
					// the functional reading (`let`) is only sound for variables owned by this call
					return t.bad("assignment to a variable declared outside the function", x)
				}
			}
		}
		// PairStyle: v, err := f(...)   ->   let (v, err) := f ...
		if t.spec.PairStyle && len(x.Lhs) == 2 && len(x.Rhs) == 1 {
			if call, ok := x.Rhs[0].(*ast.CallExpr); ok {
				if ignorableCall(call) {
					return rest()
				}
				a, b := t.ident(exprString(x.Lhs[0])), t.ident(exprString(x.Lhs[1]))
				return "let (" + a + ", " + b + ") := " + t.expr(call) + ";\n" + t.pad() + rest()
			}
		}
		// x, ok := e.(T)   type assertion: the model value carries a flag `is_T`
		if len(x.Lhs) == 2 && len(x.Rhs) == 1 {
			if ta, ok := x.Rhs[0].(*ast.TypeAssertExpr); ok && ta.Type != nil {
				tn := typeAssertName(ta.Type)
				v, okv := exprString(x.Lhs[0]), exprString(x.Lhs[1])
				e := t.expr(ta.X)
				if t.oracleAlias(v, ta.X) { // translate_c06o.go: the alias IS the oracle variable from here on
					return "let " + okv + " := (" + e + ").is_" + tn + ";\n" + t.pad() + rest()
				}
				return "let " + v + " := " + e + ";\n" + t.pad() + "let " + okv + " := (" + e + ").is_" + tn + ";\n" + t.pad() + rest()
			}
			// a, b := f(...)   two plain results (no error): tuple destructuring
			if call, ok := x.Rhs[0].(*ast.CallExpr); ok && !ignorableCall(call) && exprString(x.Lhs[1]) != "err" {
				a, b := t.ident(exprString(x.Lhs[0])), t.ident(exprString(x.Lhs[1]))
				return "let (" + a + ", " + b + ") := " + t.expr(call) + ";\n" + t.pad() + rest()
			}
		}
		// a, b, c := f(...)   n plain results (no error): tuple destructuring; field targets are bound to fresh names and written back
		if t.spec.TupleAssign && len(x.Lhs) >= 3 && len(x.Rhs) == 1 && exprString(x.Lhs[len(x.Lhs)-1]) != "err" {
			if call, ok := x.Rhs[0].(*ast.CallExpr); ok && !ignorableCall(call) {
				var names []string
				posts := ""
				for _, l := range x.Lhs {
					b, p := t.bindTarget(l)
					names = append(names, b)
					posts += p
				}
				return "let (" + strings.Join(names, ", ") + ") := " + t.expr(call) + ";\n" + t.pad() + posts + rest()
			}
		}
		// a, b, err := f(...)   followed by   if err != nil { ... }
		if len(x.Lhs) > 2 && len(x.Rhs) == 1 && exprString(x.Lhs[len(x.Lhs)-1]) == "err" && len(stmts) > 1 {
			if ifs, ok := stmts[1].(*ast.IfStmt); ok && ifs.Init == nil && isErrNotNil(ifs.Cond) && ifs.Else == nil {
				var names []string
				for _, l := range x.Lhs[:len(x.Lhs)-1] {
					names = append(names, t.ident(exprString(l)))
				}
				cont := memo(func() string { return t.block(stmts[2:], k) })
				t.indent++
				saved := t.errInScope
				t.errInScope = true
				errBranch := t.block(ifs.Body.List, cont)
				t.errInScope = saved
				t.indent--
				return "(match " + t.expr(x.Rhs[0]) + " with\n" + t.pad() + "| .error err => " + errBranch + "\n" + t.pad() + "| .ok (" + strings.Join(names, ", ") + ") =>\n" + t.pad() + cont() + ")"
			}
			if ifs, ok := stmts[1].(*ast.IfStmt); ok && ifs.Init == nil && isErrNotNil(ifs.Cond) && ifs.Else != nil && t.spec.ErrElse {
				// ... if err != nil { E } else { S }: S is the success branch, both continue with the statements after the if
				var names []string
				for _, l := range x.Lhs[:len(x.Lhs)-1] {
					names = append(names, t.ident(exprString(l)))
				}
				cont := memo(func() string { return t.block(stmts[2:], k) })
				t.indent++
				saved := t.errInScope
				t.errInScope = true
				errBranch := t.block(ifs.Body.List, cont)
				t.errInScope = saved
				okBranch := t.elseBranch(ifs.Else, cont)
				t.indent--
				return "(match " + t.expr(x.Rhs[0]) + " with\n" + t.pad() + "| .error err => " + errBranch + "\n" + t.pad() + "| .ok (" + strings.Join(names, ", ") + ") =>\n" + t.pad() + okBranch + ")"
			}
		}
		// x, err = f(...)   followed by   return ..., err      (error propagated by the return itself)
		if len(x.Lhs) == 2 && len(x.Rhs) == 1 && exprString(x.Lhs[1]) == "err" && len(stmts) > 1 {
			if ret, ok := stmts[1].(*ast.ReturnStmt); ok && len(ret.Results) >= 2 && exprString(ret.Results[len(ret.Results)-1]) == "err" {
				v := t.ident(exprString(x.Lhs[0]))
				saved := t.errInScope
				t.errInScope = false
				okB := t.ret(ret)
				t.errInScope = saved
				return "(match " + t.expr(x.Rhs[0]) + " with\n" + t.pad() + "| .error err => (.error err)\n" + t.pad() + "| .ok " + v + " =>\n" + t.pad() + okB + ")"
			}
		}
		// v, err := f(...)   followed by   if err != nil && !errors.As(err, &T{}) { ... }   (T-typed errors are tolerated)
		if len(x.Lhs) == 2 && len(x.Rhs) == 1 && exprString(x.Lhs[1]) == "err" && len(stmts) > 1 {
			if ifs, ok := stmts[1].(*ast.IfStmt); ok && ifs.Init == nil && ifs.Else == nil {
				if proj, ok := t.softErrCond(ifs.Cond); ok {
					v := t.ident(exprString(x.Lhs[0]))
					cont := memo(func() string { return t.block(stmts[2:], k) })
					t.indent++
					saved := t.errInScope
					t.errInScope = true
					errBranch := t.block(ifs.Body.List, cont)
					t.errInScope = saved
					t.indent--
					return "(match " + t.expr(x.Rhs[0]) + " with\n" + t.pad() + "| .error err => " + errBranch + "\n" + t.pad() + "| .ok " + v + "__soft =>\n" + t.pad() +
						"let " + v + " := (" + proj + " " + v + "__soft);\n" + t.pad() + cont() + ")"
				}
			}
		}
		// x, err := f(...)   followed by   if err != nil { ... }
		if len(x.Lhs) == 2 && len(x.Rhs) == 1 && exprString(x.Lhs[1]) == "err" {
			call, ok := x.Rhs[0].(*ast.CallExpr)
			if ok && ignorableCall(call) {
				return rest()
			}
			if ok && len(stmts) > 1 {
				// optional classification of the error first: `if errors.Is(err, E) { return … }` (any number), then `if err != nil`
				nc := 0
				for 1+nc < len(stmts) && isErrorsIsGuard(stmts[1+nc]) {
					nc++
				}
				if nc > 0 && 1+nc < len(stmts) {
					if ifs, ok := stmts[1+nc].(*ast.IfStmt); ok && ifs.Init == nil && isErrNotNil(ifs.Cond) && ifs.Else == nil {
						v := exprString(x.Lhs[0])
						if v == "_" {
							v = "_"
						} else {
							v = t.ident(v)
						}
						cont := memo(func() string { return t.block(stmts[2+nc:], k) })
						t.indent++
						saved := t.errInScope
						t.errInScope = true
						errBranch := t.block(ifs.Body.List, cont)
						for i := nc; i >= 1; i-- {
							g := stmts[i].(*ast.IfStmt)
							errBranch = "(if " + t.expr(g.Cond) + " then " + t.block(g.Body.List, nil) + " else " + errBranch + ")"
						}
						t.errInScope = saved
						t.indent--
						return "(match " + t.expr(call) + " with\n" + t.pad() + "| .error err => " + errBranch + "\n" + t.pad() + "| .ok " + t.okPattern(call, v) + " =>\n" + t.pad() + cont() + ")"
					}
				}
				if ifs, ok := stmts[1].(*ast.IfStmt); ok && ifs.Init == nil && isErrNotNil(ifs.Cond) && ifs.Else == nil {
					v, post := t.bindTarget(x.Lhs[0])
					cont := memo(func() string { return t.block(stmts[2:], k) })
					t.indent++
					saved := t.errInScope
					t.errInScope = true
					errBranch := t.block(ifs.Body.List, cont)
					t.errInScope = saved
					zb := t.zeroBind(ifs.Body, exprString(x.Lhs[0]))
					t.indent--
					return "(match " + t.hardErr(call) + " with\n" + t.pad() + "| " + t.wpat(call, ".error err") + " => " + zb + errBranch + "\n" + t.pad() + "| " + t.wpat(call, ".ok "+t.okPattern(call, v)) + " =>\n" + t.pad() + post + t.takePost() + cont() + ")"
				}
			}
			if ok && len(stmts) > 1 && t.spec.ErrNilFirst {
				// v, err := f(...)   followed by   if err == nil { S }   (the success branch is the guarded one; what follows runs after an error
				// or when S falls through)
				if ifs, isIf := stmts[1].(*ast.IfStmt); isIf && ifs.Init == nil && isErrIsNil(ifs.Cond) && ifs.Else == nil {
					v, post := t.bindTarget(x.Lhs[0])
					cont := memo(func() string { return t.block(stmts[2:], k) })
					t.indent++
					okBranch := t.block(ifs.Body.List, cont)
					saved := t.errInScope
					t.errInScope = true
					errBranch := cont()
					t.errInScope = saved
					t.indent--
					return "(match " + t.expr(call) + " with\n" + t.pad() + "| .ok " + t.okPattern(call, v) + " =>\n" + t.pad() + post + t.takePost() + okBranch + "\n" + t.pad() + "| .error err =>\n" + t.pad() + errBranch + ")"
				}
			}
			if ok && t.spec.ErrValues {
				// err is an ordinary value in this function: x, err := f(..)  ->  let (x, err) := f ..
				return "let (" + t.ident(exprString(x.Lhs[0])) + ", err) := " + t.expr(call) + ";\n" + t.pad() + rest()
			}
			if out, ok := t.assignExt(x, stmts, k); ok {
				return out
			}
			return t.bad("two-value assignment without error check", x)
		}
		if len(x.Lhs) == 2 && len(x.Rhs) == 1 {
			if call, ok := x.Rhs[0].(*ast.CallExpr); ok && ignorableCall(call) {
				return rest()
			}
		}
		// err = f(...)  followed by  if err != nil {...}
		if len(x.Lhs) == 1 && len(x.Rhs) == 1 && exprString(x.Lhs[0]) == "err" && len(stmts) > 1 {
			if ifs, ok := stmts[1].(*ast.IfStmt); ok && ifs.Init == nil && isErrNotNil(ifs.Cond) && ifs.Else == nil {
				cont := memo(func() string { return t.block(stmts[2:], k) })
				t.indent++
				saved := t.errInScope
				t.errInScope = true
				errBranch := t.block(ifs.Body.List, cont)
				t.errInScope = saved
				t.indent--
				// handler mode: err := F(w, ...) writes a response (on success) or reports an error
				if wc, ok := x.Rhs[0].(*ast.CallExpr); ok && t.spec.Ret == RetWrites && hasArgW(wc) {
					return "(match " + t.writeCall(wc) + " with\n" + t.pad() + "| .error err => " + errBranch + "\n" + t.pad() + "| .ok ws_ =>\n" + t.pad() + "(ws_ ++ " + cont() + "))"
				}
				return "(match " + t.expr(x.Rhs[0]) + " with\n" + t.pad() + "| " + t.wpat(x.Rhs[0], ".error err") + " => " + errBranch + "\n" + t.pad() + "| " + t.wpat(x.Rhs[0], ".ok "+t.okPattern(x.Rhs[0], "_")) + " =>\n" + t.pad() + t.takePost() + cont() + ")"
			}
		}
		// err := f(...)  followed by  if err == nil {...}   under FuncSpec.ErrNilConst (where `err == nil` is a constant of the enclosing
		// match branch, so err must never become a let-bound value: without this rule the test was translated to `true`)
		if t.spec.ErrNilConst && len(x.Lhs) == 1 && len(x.Rhs) == 1 && exprString(x.Lhs[0]) == "err" && len(stmts) > 1 {
			if ifs, ok := stmts[1].(*ast.IfStmt); ok && ifs.Init == nil && ifs.Else == nil && isErrIsNil(ifs.Cond) {
				call := x.Rhs[0]
				okPat := t.okPattern(call, "_")
				post := t.takePost()
				t.indent++
				saved := t.errInScope
				t.errInScope = false
				okTail := memo(func() string { return t.block(stmts[2:], k) })
				okB := t.block(ifs.Body.List, okTail)
				t.errInScope = true
				errB := t.block(stmts[2:], k)
				t.errInScope = saved
				t.indent--
				return "(match " + t.expr(call) + " with\n" + t.pad() + "| " + t.wpat(call, ".ok "+okPat) + " =>\n" + t.pad() + "  " + post + okB + "\n" + t.pad() +
					"| " + t.wpat(call, ".error err") + " =>\n" + t.pad() + "  " + errB + ")"
			}
		}
		// x := make([]T, len(xs)); for i, p := range xs { x[i] = T(p) }     ->  let x := Go.mapList xs (fun p => p)
		if len(x.Lhs) == 1 && len(x.Rhs) == 1 && len(stmts) > 1 {
			if src, v, conv, ok := t.convertLoop(x, stmts[1]); ok {
				name := exprString(x.Lhs[0])
				t.fresh[name] = true
				if t.spec.AliasByFact {
					if t.full == nil {
						t.full = map[string]bool{}
					}
					t.full[name] = true
				}
				return "let " + t.ident(name) + " := (Go.mapList " + src + " (fun " + v + " => " + conv + "));\n" + t.pad() + t.block(stmts[2:], k)
			}
		}
		if len(x.Lhs) == 1 && len(x.Rhs) == 1 {
			if id, ok := x.Lhs[0].(*ast.Ident); ok {
				// ownership of slice variables (see `append`)
				switch rhs := x.Rhs[0].(type) {
				case *ast.CompositeLit:
					t.fresh[id.Name] = true
				case *ast.CallExpr:
					fn := exprString(rhs.Fun)
					if fn == "make" {
						t.fresh[id.Name] = true
					} else if fn == "append" && len(rhs.Args) > 0 && exprString(rhs.Args[0]) == id.Name {
						// x = append(x, ...) keeps what x was
						delete(t.full, id.Name) // ... but the result may have spare capacity
					} else {
						delete(t.fresh, id.Name)
					}
				case *ast.Ident:
					if t.spec.AliasByFact && t.full[rhs.Name] && t.fresh[rhs.Name] {
						t.fresh[id.Name] = true // y := x, x full: appends to y reallocate (soundness: the regenerated aliasing fact + C17Iso.isolation_safe)
					} else {
						delete(t.fresh, id.Name)
					}
				default:
					delete(t.fresh, id.Name)
				}
			}
		}
		if len(x.Lhs) == 1 && len(x.Rhs) == 1 && len(t.spec.RecvState) > 0 && exprString(x.Lhs[0]) == "_" {
			// _ = recv.M()   with M a translated method that also returns the final state of its receiver (AlsoRet)
			if c, isCall := x.Rhs[0].(*ast.CallExpr); isCall {
				if recv, found := t.spec.RecvState[exprString(c.Fun)]; found {
					return "let (_, " + t.ident(recv) + ") := " + t.expr(c) + ";\n" + t.pad() + rest()
				}
			}
		}
		if len(x.Lhs) == 1 && len(x.Rhs) == 1 {
			if sel, ok := x.Lhs[0].(*ast.SelectorExpr); ok && len(t.spec.SkipFields) > 0 && x.Tok == token.ASSIGN {
				if _, isID := sel.X.(*ast.Ident); isID {
					for _, f := range t.spec.SkipFields {
						if f == sel.Sel.Name {
							return rest() // a field the model type does not have (FuncSpec.SkipFields)
						}
					}
				}
			}
			// v.F = e   ->   let v := { v with F := e }
			if sel, ok := x.Lhs[0].(*ast.SelectorExpr); ok && (t.spec.LetIf || (t.spec.PlainUpdate && x.Tok == token.ASSIGN)) {
				if id, ok := sel.X.(*ast.Ident); ok {
					v := t.ident(id.Name)
					return "let " + v + " := { " + v + " with " + t.fld(sel.Sel.Name) + " := " + t.expr(x.Rhs[0]) + " };\n" + t.pad() + rest()
				}
			}
			if c, ok := x.Rhs[0].(*ast.CallExpr); ok && exprString(c.Fun) == "new" && len(c.Args) == 1 {
				if z, ok := t.spec.Rename["new("+exprString(c.Args[0])+")"]; ok {
					return "let " + t.ident(exprString(x.Lhs[0])) + " := " + z + ";\n" + t.pad() + rest() // the zero value the model works on
				}
			}
			if c, ok := x.Rhs[0].(*ast.CallExpr); ok && exprString(c.Fun) == "new" {
				if r, ok := t.spec.Rename[goSrc(t.fset, c)]; ok && t.spec.Imperative {
					return "let " + t.ident(exprString(x.Lhs[0])) + " := " + r + ";\n" + t.pad() + rest() // new(T): the zero value the spec names
				}
				return rest() // pure allocation of an out-parameter target
			}
			if c, ok := x.Rhs[0].(*ast.CallExpr); ok && strings.HasSuffix(exprString(c.Fun), ".WithContext") && !t.spec.KeepCtx {
				return rest() // r = r.WithContext(ctx): bookkeeping
			}
			// field update of a model structure: x.F = e  ->  let x := { x with F := e }
			if sel, ok := x.Lhs[0].(*ast.SelectorExpr); ok && x.Tok == token.ASSIGN && t.spec.PlainUpdate {
				if id, ok := sel.X.(*ast.Ident); ok {
					v := t.ident(id.Name)
					return "let " + v + " := { " + v + " with " + t.fld(sel.Sel.Name) + " := " + t.expr(x.Rhs[0]) + " };\n" + t.pad() + rest()
				}
				if t.spec.NestedUpdate {
					b, post := t.bindTarget(x.Lhs[0])
					return "let " + b + " := " + t.expr(x.Rhs[0]) + ";\n" + t.pad() + post + rest()
				}
				return t.bad("assignment to a nested field", x)
			}
			if c, ok := x.Rhs[0].(*ast.CallExpr); ok && exprString(c.Fun) == "make" && !t.spec.Imperative {
				// make([]T, 0) / make([]T, 0, n): the empty slice; any other length would need its elements
				if _, isSlice := c.Args[0].(*ast.ArrayType); isSlice && len(c.Args) >= 2 {
					if lit, isLit := c.Args[1].(*ast.BasicLit); isLit && lit.Value == "0" {
						return "let " + t.ident(exprString(x.Lhs[0])) + " := [];\n" + t.pad() + rest()
					}
				}
				return t.bad("make", x)
			}
			if c, ok := x.Rhs[0].(*ast.CallExpr); ok && ignorableCall(c) && !(t.spec.KeepCtx && strings.HasSuffix(exprString(c.Fun), ".WithContext")) {
				return rest() // bookkeeping (logger = logger.With(..), r = r.WithContext(ctx))
			}
			if _, ok := x.Lhs[0].(*ast.SelectorExpr); ok {
				// a.F = e   ->   let a := { a with F := e }
				b, post := t.bindTarget(x.Lhs[0])
				return "let " + b + " := " + t.expr(x.Rhs[0]) + ";\n" + t.pad() + post + rest()
			}
			return "let " + t.ident(exprString(x.Lhs[0])) + " := " + t.expr(x.Rhs[0]) + ";\n" + t.pad() + rest()
		}
		if out, ok := t.assignExt(x, stmts, k); ok {
			return out
		}
		return t.bad("assignment", x)
	case *ast.IfStmt:
		// if C { v.F = e; ... }   (no else, only assignments to one variable)  ->  let v := if C then {v with ...} else v
		if x.Init == nil && x.Else == nil && t.spec.LetIf && !t.hasInOutCall(x.Body) {
			if v, upd, ok := t.assignOnly(x.Body.List); ok {
				return "let " + v + " := (if " + t.expr(x.Cond) + " then " + upd + " else " + v + ");\n" + t.pad() + rest()
			}
		}
		cont := rest
		if t.spec.ErrorsAsBind {
			// if ok := errors.As(e, &v); C {..}   /   if errors.As(e, &v) {..}
			var asCall *ast.CallExpr
			okName := "asOk_"
			plain := *x
			if as, isAs := x.Init.(*ast.AssignStmt); isAs && len(as.Lhs) == 1 && len(as.Rhs) == 1 {
				if c, isCall := as.Rhs[0].(*ast.CallExpr); isCall && exprString(c.Fun) == "errors.As" {
					asCall, okName = c, exprString(as.Lhs[0])
					plain.Init = nil
				}
			} else if c, isCall := x.Cond.(*ast.CallExpr); isCall && x.Init == nil && exprString(c.Fun) == "errors.As" {
				asCall = c
				plain.Cond = ast.NewIdent(okName)
			}
			if asCall != nil && len(asCall.Args) == 2 {
				if u, isAddr := asCall.Args[1].(*ast.UnaryExpr); isAddr && u.Op == token.AND {
					fn, hasFn := t.spec.Rename["errors.As()"]
					if !hasFn {
						fn = "Go.errorsAs"
					}
					v := t.expr(u.X)
					return "let (" + okName + ", " + v + ") := (" + fn + " " + t.expr(asCall.Args[0]) + " " + v + ");\n" + t.pad() +
						t.block(append([]ast.Stmt{&plain}, stmts[1:]...), k)
				}
				return t.bad("errors.As target is not an address", x)
			}
		}
		// if err := f(...); err != nil { body }
		if x.Init != nil {
			as, ok := x.Init.(*ast.AssignStmt)
			if ok && t.spec.Imperative && len(as.Lhs) == 2 && len(as.Rhs) == 1 && exprString(as.Lhs[0]) == "_" && exprString(as.Lhs[1]) == "err" {
				// if _, err = f(..); err != nil   reads as   if err = f(..); err != nil   (the count is dropped; the callee's twin returns Go.R of its out-parameter)
				y := *as
				y.Lhs = []ast.Expr{as.Lhs[1]}
				as = &y
			}
			// if v, ok := e.(T); COND { .. }  ->  the two lets of a type assertion, then the plain `if`
			if ok && len(as.Lhs) == 2 && len(as.Rhs) == 1 {
				okOnly := x.Else == nil && exprString(x.Cond) == exprString(as.Lhs[1]) // `; ok {` has its own rule below
				if ta, isTA := as.Rhs[0].(*ast.TypeAssertExpr); isTA && ta.Type != nil && (t.spec.PlainUpdate || !okOnly || t.spec.JoinIf) {
					plain := *x
					plain.Init = nil
					return t.block(append([]ast.Stmt{as, &plain}, stmts[1:]...), k)
				}
			}
			if ok && len(as.Lhs) == 1 && exprString(as.Lhs[0]) == "err" && isErrNotNil(x.Cond) {
				t.indent++
				saved := t.errInScope
				t.errInScope = true
				errBranch := t.block(x.Body.List, cont)
				t.errInScope = saved
				var okBranch string
				if x.Else == nil {
					okBranch = cont()
				}
				if x.Else != nil {
					okBranch = t.elseBranch(x.Else, cont)
				}
				t.indent--
				if call, isCall := as.Rhs[0].(*ast.CallExpr); isCall && t.spec.HandlerEnd && okBranch == handlerEndMarker {
					if ctor, has := t.spec.OkWrites[exprString(call.Fun)]; has {
						// the callee itself wrote the response when it returned nil (its Lean twin yields what was written)
						return "(match " + t.expr(as.Rhs[0]) + " with\n" + t.pad() + "| .error err => " + errBranch + "\n" + t.pad() + "| .ok written__ =>\n" + t.pad() + "(" + ctor + " written__))"
					}
				}
				return "(match " + t.expr(as.Rhs[0]) + " with\n" + t.pad() + "| " + t.wpat(as.Rhs[0], ".error err") + " => " + errBranch + "\n" + t.pad() + "| " + t.wpat(as.Rhs[0], ".ok "+t.okPattern(as.Rhs[0], "_")) + " =>\n" + t.pad() + t.takePost() + okBranch + ")"
			}
			// if a, b, ok = f(); COND { body }   (assignment to function-level variables): the assignment as a statement, then the plain if
			if ok && t.spec.TupleInit && len(as.Lhs) > 2 && len(as.Rhs) == 1 && as.Tok == token.ASSIGN && exprString(as.Lhs[len(as.Lhs)-1]) != "err" {
				if _, isCall := as.Rhs[0].(*ast.CallExpr); isCall {
					y := *x
					y.Init = nil
					return t.block(append([]ast.Stmt{as, &y}, stmts[1:]...), k)
				}
			}
			// if a, b, ok := f(); COND { body }   (several plain results, scoped to the if statement)
			if ok && t.spec.TupleInit && len(as.Lhs) >= 2 && len(as.Rhs) == 1 && as.Tok == token.DEFINE && exprString(as.Lhs[len(as.Lhs)-1]) != "err" && x.Else == nil {
				if call, isCall := as.Rhs[0].(*ast.CallExpr); isCall && !ignorableCall(call) && !t.isWriterCall(call) {
					var names []string
					for _, l := range as.Lhs {
						names = append(names, t.ident(exprString(l)))
						t.declared[exprString(l)] = true
					}
					bind := "let (" + strings.Join(names, ", ") + ") := " + t.expr(call) + "; "
					t.indent++
					thenB := t.block(x.Body.List, cont)
					t.indent--
					return "(if (" + bind + t.expr(x.Cond) + ") then\n" + t.pad() + "  " + bind + thenB + "\n" + t.pad() + "else\n" + t.pad() + cont() + ")"
				}
			}
			// if v := e; cond(v) { body }      (v is scoped to the if statement)
			if ok && len(as.Lhs) == 1 && len(as.Rhs) == 1 && as.Tok == token.DEFINE && exprString(as.Lhs[0]) != "err" && x.Else == nil && !t.isWriterCall(as.Rhs[0]) {
				if id, isId := as.Lhs[0].(*ast.Ident); isId {
					bind := "let " + t.ident(id.Name) + " := " + t.expr(as.Rhs[0]) + "; "
					t.indent++
					thenB := t.block(x.Body.List, cont)
					t.indent--
					return "(if (" + bind + t.expr(x.Cond) + ") then\n" + t.pad() + "  " + bind + thenB + "\n" + t.pad() + "else\n" + t.pad() + cont() + ")"
				}
			}
			// if err := f(...); err == nil { body }   (the success branch is the guarded one)
			if ok && len(as.Lhs) == 1 && exprString(as.Lhs[0]) == "err" && isErrIsNil(x.Cond) && x.Else == nil {
				t.indent++
				okBranch := t.block(x.Body.List, cont)
				saved := t.errInScope
				t.errInScope = true
				errBranch := cont()
				t.errInScope = saved
				t.indent--
				return "(match " + t.expr(as.Rhs[0]) + " with\n" + t.pad() + "| .ok " + t.okPattern(as.Rhs[0], "_") + " =>\n" + t.pad() + t.takePost() + okBranch + "\n" + t.pad() + "| .error err =>\n" + t.pad() + errBranch + ")"
			}
			// if v, ok := e.(T); ok { body }
			if ok && len(as.Lhs) == 2 && len(as.Rhs) == 1 && x.Else == nil && exprString(x.Cond) == exprString(as.Lhs[1]) {
				if ta, isTA := as.Rhs[0].(*ast.TypeAssertExpr); isTA && ta.Type != nil {
					v, okv := exprString(as.Lhs[0]), exprString(as.Lhs[1])
					e := t.expr(ta.X)
					t.indent++
					thenB := t.block(x.Body.List, cont)
					t.indent--
					elseB := cont()
					if thenB == elseB { // the guarded statements carry no decision (logging)
						return elseB
					}
					return "let " + v + " := " + e + ";\n" + t.pad() + "let " + okv + " := (" + e + ").is_" + typeAssertName(ta.Type) + ";\n" + t.pad() +
						"(if " + okv + " then\n" + t.pad() + "  " + thenB + "\n" + t.pad() + "else\n" + t.pad() + elseB + ")"
				}
			}
			if ok && len(as.Lhs) == 2 && len(as.Rhs) == 1 {
				// if v, ok := e.(T); cond {..}   ->   the assertion as a statement, then the plain if
				if ta, isTA := as.Rhs[0].(*ast.TypeAssertExpr); isTA && ta.Type != nil {
					y := *x
					y.Init = nil
					return t.block(append([]ast.Stmt{as, &y}, stmts[1:]...), k)
				}
				// if logger, ok := logging.FromContext(ctx); ok { logger.Debug(..) }   ->   nothing
				if c, isCall := as.Rhs[0].(*ast.CallExpr); isCall && ignorableCall(c) && x.Else == nil {
					onlyLogging := true
					for _, st := range x.Body.List {
						es, isES := st.(*ast.ExprStmt)
						if !isES {
							onlyLogging = false
							break
						}
						if bc, isC := es.X.(*ast.CallExpr); !isC || !ignorableCall(bc) {
							onlyLogging = false
						}
					}
					if onlyLogging {
						return rest()
					}
				}
			}
			if out, ok := t.ifCommaOk(x, cont); ok {
				return out // translate_c19.go
			}
			return t.bad("if with init", x)
		}
		if eb, isBlock := x.Else.(*ast.BlockStmt); endsWithErrAssign(x.Body) || (isBlock && endsWithErrAssign(eb)) {
			// a branch ends with `.., err = f(..)` whose check follows the if statement: translate each branch
			// together with the statements after the `if` (same meaning as inlining the continuation)
			t.indent++
			thenB := t.block(append(append([]ast.Stmt{}, x.Body.List...), stmts[1:]...), k)
			var elseB string
			switch {
			case x.Else == nil:
				elseB = cont()
			case isBlock:
				elseB = t.block(append(append([]ast.Stmt{}, eb.List...), stmts[1:]...), k)
			default:
				elseB = t.elseIfOpenErr(x, stmts[1:], k) // translate_ext.go
			}
			t.indent--
			return "(if " + t.expr(x.Cond) + " then\n" + t.pad() + "  " + thenB + "\n" + t.pad() + "else\n" + t.pad() + elseB + ")"
		}
		if t.spec.JoinIf {
			if out, ok := t.joinIf(x, cont); ok { // translate_c06.go
				return out
			}
		}
		t.indent++
		thenB := t.block(x.Body.List, cont)
		var elseB string
		if x.Else != nil {
			elseB = t.elseBranch(x.Else, cont)
		} else {
			elseB = cont()
		}
		t.indent--
		return "(if " + t.expr(x.Cond) + " then\n" + t.pad() + "  " + thenB + "\n" + t.pad() + "else\n" + t.pad() + elseB + ")"
	case *ast.SwitchStmt:
		if as, ok := x.Init.(*ast.AssignStmt); ok && len(as.Lhs) == 1 && len(as.Rhs) == 1 {
			// switch v := e; v {..}   ->   the assignment as a statement, then the plain switch
			y := *x
			y.Init = nil
			return t.block(append([]ast.Stmt{as, &y}, stmts[1:]...), k)
		}
		return t.switchStmt(x, rest)
	case *ast.TypeSwitchStmt:
		if t.spec.TypeSwitch {
			// (C04/C07) match chain over the model's `(x).as_T : Option _` views
			return t.typeSwitchStmt(x, rest)
		}
		if t.spec.TypeCases == nil {
			// without a TypeCases table the flag-based rule of translate_ext.go applies (`(x).is_T`)
			if out, ok := t.stmtExt(s, stmts, k); ok {
				return out
			}
			return t.bad("type switch", x)
		}
		return t.typeSwitchCases(x, rest)
	case *ast.BranchStmt:
		// continue / break of the innermost GoX.loopCtl loop (LoopStyle "ctl"); a `break` inside a switch belongs to the switch
		if n := len(t.ctl); n > 0 && x.Label == nil && (x.Tok == token.CONTINUE || (x.Tok == token.BREAK && len(t.breakK) == t.ctl[n-1].breakK)) {
			if x.Tok == token.CONTINUE {
				return "(GoX.Ctl.next " + t.ctl[n-1].state + ")"
			}
			return "(GoX.Ctl.brk " + t.ctl[n-1].state + ")"
		}
	case *ast.RangeStmt:
		if t.spec.LoopStyle == "ctl" {
			return t.ctlLoop(x, rest)
		}
		if t.spec.LoopStyle == "state" {
			return t.stateLoop(x, rest)
		}
		// for _, v := range L { if COND(v) { return V } }   ->   if L.any (fun v => COND) then V else rest
		if len(x.Body.List) == 1 && x.Value != nil {
			if ifs, ok := x.Body.List[0].(*ast.IfStmt); ok && ifs.Init == nil && ifs.Else == nil && len(ifs.Body.List) == 1 {
				if ret, ok := ifs.Body.List[0].(*ast.ReturnStmt); ok {
					v := exprString(x.Value)
					return "(if (Go.any " + t.expr(x.X) + " (fun " + v + " => " + t.expr(ifs.Cond) + ")) then\n" + t.pad() + "  " + t.ret(ret) + "\n" + t.pad() + "else\n" + t.pad() + rest() + ")"
				}
			}
		}
		// for k, v := range X { acc.M(args) }  (possibly nested, same accumulator)  ->  let acc := Go.forRange X acc (fun acc k v => acc.M args)
		if acc, body, ok := t.rangeFold(x); ok && t.spec.LoopStyle == "fold" {
			return "let " + acc + " := " + body + ";\n" + t.pad() + rest()
		}
		// general form: for _, v := range L { body }, body leaves the loop only by `return`:
		//   match Go.forFirst L (fun v => body-or-none) with | some r => r | none => rest
		if t.spec.LoopStyle == "forFirst" && x.Value != nil && (x.Key == nil || exprString(x.Key) == "_") {
			v := exprString(x.Value)
			t.loop++
			t.indent++
			body := t.block(x.Body.List, func() string { return "none" })
			t.indent--
			t.loop--
			return "(match (Go.forFirst (β := " + t.rt + ") " + t.expr(x.X) + " (fun " + v + " =>\n" + t.pad() + "  " + body + ")) with\n" + t.pad() +
				"| some r__ => r__\n" + t.pad() + "| none =>\n" + t.pad() + rest() + ")"
		}
		// general form: for _, v := range L { BODY }  where BODY only returns or falls through:
		//   match Go.forRange L (fun v => BODY') with | some r => r | none => rest      (BODY' : Option result)
		if x.Value != nil && x.Tok == token.DEFINE && (x.Key == nil || exprString(x.Key) == "_") {
			v := exprString(x.Value)
			t.loopDepth++
			t.indent++
			body := t.block(x.Body.List, func() string { return "none" })
			t.indent--
			t.loopDepth--
			return "(match (Go.forRange " + t.expr(x.X) + " (fun " + v + " =>\n" + t.pad() + "  " + body + ")) with\n" + t.pad() + "| some r_ => r_\n" + t.pad() + "| none =>\n" + t.pad() + rest() + ")"
		}
		return t.bad("range loop", x)
	}
	if out, ok := t.stmtExt(s, stmts, k); ok {
		return out
	}
	return t.bad(fmt.Sprintf("statement %T", s), s)
}

// convertLoop recognises   x := make([]T, len(xs))   followed by   for i, p := range xs { x[i] = F(p) }
// and returns (xs, p, F(p)).
func (t *tr) convertLoop(as *ast.AssignStmt, next ast.Stmt) (src, v, conv string, ok bool) {
	mk, isCall := as.Rhs[0].(*ast.CallExpr)
	if !isCall || exprString(mk.Fun) != "make" || len(mk.Args) != 2 {
		return
	}
	ln, isLen := mk.Args[1].(*ast.CallExpr)
	if !isLen || exprString(ln.Fun) != "len" || len(ln.Args) != 1 {
		return
	}
	rg, isRange := next.(*ast.RangeStmt)
	if !isRange || rg.Key == nil || rg.Value == nil || exprString(rg.X) != exprString(ln.Args[0]) || len(rg.Body.List) != 1 {
		return
	}
	set, isAssign := rg.Body.List[0].(*ast.AssignStmt)
	if !isAssign || len(set.Lhs) != 1 || len(set.Rhs) != 1 || set.Tok != token.ASSIGN {
		return
	}
	ix, isIx := set.Lhs[0].(*ast.IndexExpr)
	if !isIx || exprString(ix.X) != exprString(as.Lhs[0]) || exprString(ix.Index) != exprString(rg.Key) {
		return
	}
	return t.expr(rg.X), exprString(rg.Value), t.expr(set.Rhs[0]), true
}

// rangeFold: a range loop whose body is one mutator call on a local accumulator (or such a loop again) is a fold.
func (t *tr) rangeFold(x *ast.RangeStmt) (acc string, lean string, ok bool) {
	if len(x.Body.List) != 1 {
		return "", "", false
	}
	binder := func(e ast.Expr) string {
		if e == nil {
			return "_"
		}
		if s := exprString(e); s != "_" {
			return t.ident(s)
		}
		return "_"
	}
	k, v := binder(x.Key), binder(x.Value)
	switch b := x.Body.List[0].(type) {
	case *ast.ExprStmt:
		c, isCall := b.X.(*ast.CallExpr)
		if !isCall {
			return "", "", false
		}
		sel, isSel := c.Fun.(*ast.SelectorExpr)
		if !isSel {
			return "", "", false
		}
		id, isID := sel.X.(*ast.Ident)
		if !isID {
			return "", "", false
		}
		acc = t.ident(id.Name)
		inner := "((" + acc + ")." + sel.Sel.Name + " " + t.args(c.Args) + ")"
		return acc, "(Go.foldRange " + t.expr(x.X) + " " + acc + " (fun " + acc + " " + k + " " + v + " => " + inner + "))", true
	case *ast.RangeStmt:
		a, inner, ok2 := t.rangeFold(b)
		if !ok2 {
			return "", "", false
		}
		return a, "(Go.foldRange " + t.expr(x.X) + " " + a + " (fun " + a + " " + k + " " + v + " => " + inner + "))", true
	}
	return "", "", false
}

func (t *tr) elseBranch(e ast.Stmt, cont cont) string {
	switch y := e.(type) {
	case *ast.BlockStmt:
		return t.block(y.List, cont)
	case *ast.IfStmt:
		return t.block([]ast.Stmt{y}, cont)
	}
	return t.bad("else", e)
}

// assignOnly recognises a block that only assigns to fields of one variable (or to the variable itself)
// and renders the updated value.
func (t *tr) assignOnly(stmts []ast.Stmt) (v string, updated string, ok bool) {
	if len(stmts) == 0 {
		return "", "", false
	}
	var fields []string
	for _, st := range stmts {
		as, isAs := st.(*ast.AssignStmt)
		if !isAs || len(as.Lhs) != 1 || len(as.Rhs) != 1 {
			return "", "", false
		}
		switch l := as.Lhs[0].(type) {
		case *ast.SelectorExpr:
			id, isID := l.X.(*ast.Ident)
			if !isID || (v != "" && v != t.ident(id.Name)) {
				return "", "", false
			}
			v = t.ident(id.Name)
			fields = append(fields, l.Sel.Name+" := "+t.expr(as.Rhs[0]))
		case *ast.Ident:
			if v != "" || len(stmts) != 1 || l.Name == "err" {
				return "", "", false
			}
			return t.ident(l.Name), t.expr(as.Rhs[0]), true
		default:
			return "", "", false
		}
	}
	return v, "{ " + v + " with " + strings.Join(fields, ", ") + " }", true
}

// switch tag { case a, b: ...; default: ... }  ->  if-chain on equality (no fallthrough)
func (t *tr) switchStmt(s *ast.SwitchStmt, cont cont) string {
	if s.Init != nil {
		return t.bad("switch init", s)
	}
	tag := ""
	if s.Tag != nil {
		tag = t.expr(s.Tag)
	}
	t.breakK = append(t.breakK, cont) // `break` inside a case leaves the switch (translate_ext.go)
	defer func() { t.breakK = t.breakK[:len(t.breakK)-1] }()
	var def *ast.CaseClause
	var out strings.Builder
	closers := 0
	for _, c := range s.Body.List {
		cc := c.(*ast.CaseClause)
		if cc.List == nil {
			def = cc
			continue
		}
		var conds []string
		for _, e := range cc.List {
			if tag == "" {
				conds = append(conds, t.expr(e))
			} else {
				conds = append(conds, "("+tag+" == "+t.expr(e)+")")
			}
		}
		t.indent++
		body := t.block(cc.Body, cont)
		t.indent--
		out.WriteString("if " + strings.Join(conds, " || ") + " then\n" + t.pad() + "  " + body + "\n" + t.pad() + "else ")
		closers++
	}
	if def != nil {
		t.indent++
		out.WriteString(t.block(def.Body, cont))
		t.indent--
	} else {
		out.WriteString(cont())
	}
	return "(" + out.String() + ")"
}

// switch v := x.(type) { case T1: B1; case T2: B2; default: D }   (FuncSpec.TypeSwitch)
//
//	->   match (x).as_T1 with | some v => B1 | none => match (x).as_T2 with | some v => B2 | none => D
//
// The model type of x supplies the views `as_T : _ -> Option _`; the cases are tried in source order.
func (t *tr) typeSwitchStmt(s *ast.TypeSwitchStmt, cont cont) string {
	if s.Init != nil {
		return t.bad("type switch init", s)
	}
	v := "_"
	var ta *ast.TypeAssertExpr
	switch a := s.Assign.(type) {
	case *ast.AssignStmt:
		if len(a.Lhs) == 1 && len(a.Rhs) == 1 {
			v = exprString(a.Lhs[0])
			ta, _ = a.Rhs[0].(*ast.TypeAssertExpr)
		}
	case *ast.ExprStmt:
		ta, _ = a.X.(*ast.TypeAssertExpr)
	}
	if ta == nil || ta.Type != nil {
		return t.bad("type switch guard", s)
	}
	subject := t.expr(ta.X)
	var def *ast.CaseClause
	var out strings.Builder
	closers := 0
	for _, c := range s.Body.List {
		cc := c.(*ast.CaseClause)
		if cc.List == nil {
			def = cc
			continue
		}
		if len(cc.List) != 1 {
			return t.bad("type switch case with several types", cc)
		}
		t.indent++
		body := t.block(cc.Body, cont)
		t.indent--
		out.WriteString("(match (" + subject + ").as_" + strings.TrimPrefix(typeAssertName(cc.List[0]), "*") + " with\n" + t.pad() + "| some " + v + " =>\n" + t.pad() + "  " + body + "\n" + t.pad() + "| none =>\n" + t.pad())
		closers++
	}
	if def != nil {
		t.indent++
		out.WriteString(t.block(def.Body, cont))
		t.indent--
	} else {
		out.WriteString(cont())
	}
	return out.String() + strings.Repeat(")", closers)
}

// translateFunc renders one Lean definition.
func translateFunc(fset *token.FileSet, fd *ast.FuncDecl, spec *FuncSpec) (string, []string) {
	var rt string
	switch spec.Ret {
	case RetWrites:
		rt = "List Write"
	case RetErr:
		rt = "Go.R Unit"
		if spec.RetParam != "" {
			rt = "Go.R " + spec.RetType
		}
	case RetValErr:
		rt = "Go.R " + spec.RetType
	case RetVoid, RetHandler:
		rt = ""
	case RetHandled:
		rt = "List Go.HCall"
	default:
		rt = spec.RetType
	}
	if spec.Writer != "" {
		wt := spec.RetType // for writer functions RetType of void kinds names the writer type
		if spec.Ret == RetVoid || spec.Ret == RetHandler {
			rt = wt
		} else {
			if spec.WorldType != "" {
				rt = "(" + spec.WorldType + " × " + rt + ")"
			} else {
				rt = "(World × " + rt + ")"
			}
		}
	}
	if spec.RecvOut != "" {
		rt = "(" + spec.RecvOutType + " × " + rt + ")"
	}
	if spec.AlsoRet != "" && spec.AlsoRetType != "" {
		rt = "(" + rt + " × " + spec.AlsoRetType + ")"
	}
	t := &tr{spec: spec, fset: fset, indent: 1, fresh: map[string]bool{}, declared: map[string]bool{}, rt: "(" + rt + ")",
		varTypes: map[string]string{}, aliases: map[string][2]string{}}
	t.oracleCalls, t.oracleBound = map[*ast.CallExpr]bool{}, map[*ast.CallExpr]bool{}
	t.funcVals = map[string]bool{}
	t.fnBody = fd.Body
	t.declareFields(fd.Recv)
	t.declareFields(fd.Type.Params)
	t.declareFields(fd.Type.Results)
	var k cont
	if spec.Ret == RetVoid && spec.Writer != "" {
		w := spec.Writer
		k = func() string { return w } // a void writer function may fall off its end
	}
	if spec.Ret == RetWrites {
		k = func() string { return "[]" } // a handler may fall off its end
	}
	inits := t.initResults(fd) // "" unless spec.InitResults (translate_ext.go)
	body := t.block(fd.Body.List, k)
	body = t.oracleCheck(body) // translate_c06o.go; the identity unless spec.OracleVars is set
	if strings.Contains(body, handlerEndMarker) {
		t.unsup = append(t.unsup, "a path reaches the end of the handler without writing a response")
	}
	body = inits + body
	pos := fset.Position(fd.Pos())
	var b strings.Builder
	fmt.Fprintf(&b, "/-- translated from %s:%d `%s` -/\n", relPath(pos.Filename), pos.Line, spec.Name)
	attr := ""
	if spec.Auto {
		attr = "@[simp] "
	}
	fmt.Fprintf(&b, "%sdef %s (now : Int) %s : %s :=\n  %s\n", attr, spec.Lean, strings.Join(spec.Params, " "), rt, body)
	sort.Strings(t.unsup)
	return b.String(), t.unsup
}

// ---------------------------------------------------------------- imperative / codec style (FuncSpec.Imperative, TypeCases, LoopStyle "state")

func hasReturn(n ast.Node) bool {
	found := false
	ast.Inspect(n, func(m ast.Node) bool {
		switch m.(type) {
		case *ast.FuncLit:
			return false
		case *ast.ReturnStmt:
			found = true
		}
		return !found
	})
	return found
}

// imperativeAssign: the assignment forms of the imperative style (see FuncSpec.Imperative)
func (t *tr) imperativeAssign(x *ast.AssignStmt, stmts []ast.Stmt, k cont, rest cont) (string, bool) {
	if t.spec.PtrSynonyms && t.ptrSynonym(x) { // translate_c12w.go
		return rest(), true
	}
	// v, ok := e.(T)   ->   let (v, ok) := (F e)
	if len(x.Lhs) == 2 && len(x.Rhs) == 1 && t.spec.TypeAsserts != nil {
		if ta, ok := x.Rhs[0].(*ast.TypeAssertExpr); ok && ta.Type != nil {
			f, known := t.spec.TypeAsserts[goSrc(t.fset, ta.Type)]
			if !known {
				return t.bad("type assertion to "+goSrc(t.fset, ta.Type), x), true
			}
			v, okv := exprString(x.Lhs[0]), exprString(x.Lhs[1])
			t.declared[v], t.declared[okv] = true, true
			return "let (" + t.ident(v) + ", " + t.ident(okv) + ") := (" + f + " " + t.expr(ta.X) + ");\n" + t.pad() + rest(), true
		}
	}
	// err := f(..)   followed by   if err == nil { body }   (the success branch is the guarded one; what follows runs with err != nil)
	if len(x.Lhs) == 1 && len(x.Rhs) == 1 && exprString(x.Lhs[0]) == "err" && len(stmts) > 1 {
		if ifs, ok := stmts[1].(*ast.IfStmt); ok && ifs.Init == nil && ifs.Else == nil && isErrIsNil(ifs.Cond) {
			call := x.Rhs[0]
			t.declared["err"] = true
			always := false
			if c, isCall := call.(*ast.CallExpr); isCall {
				always = t.spec.AlwaysOut[exprString(c.Fun)]
			}
			okPat := t.okPattern(call, "_")
			post := t.takePost()
			t.indent++
			saved := t.errInScope
			t.errInScope = false
			okTail := memo(func() string { return t.block(stmts[2:], k) })
			okB := t.block(ifs.Body.List, okTail)
			t.errInScope = true
			errB := t.block(stmts[2:], k)
			t.errInScope = saved
			t.indent--
			if always {
				// the callee writes its out-parameter on both paths: its twin returns (new value, Go.R Unit)
				return "(match " + t.expr(call) + " with\n" + t.pad() + "| (" + okPat + ", .ok _) =>\n" + t.pad() + "  " + post + okB + "\n" + t.pad() +
					"| (" + okPat + ", .error err) =>\n" + t.pad() + "  " + post + errB + ")", true
			}
			return "(match " + t.expr(call) + " with\n" + t.pad() + "| " + t.wpat(call, ".ok "+okPat) + " =>\n" + t.pad() + "  " + post + okB + "\n" + t.pad() +
				"| " + t.wpat(call, ".error err") + " =>\n" + t.pad() + "  " + errB + ")", true
		}
	}
	// (C02, round 5; ErrElse) err := f(..)   followed by   if err != nil { E } else { S }   (the inverted spelling of the form above):
	// S is the success branch, both go on with the statements after the if
	if t.spec.ErrElse && len(x.Lhs) == 1 && len(x.Rhs) == 1 && exprString(x.Lhs[0]) == "err" && len(stmts) > 1 {
		if ifs, ok := stmts[1].(*ast.IfStmt); ok && ifs.Init == nil && ifs.Else != nil && isErrNotNil(ifs.Cond) {
			if c, isCall := x.Rhs[0].(*ast.CallExpr); isCall && !t.spec.AlwaysOut[exprString(c.Fun)] {
				t.declared["err"] = true
				okPat := t.okPattern(c, "_")
				post := t.takePost()
				cont := memo(func() string { return t.block(stmts[2:], k) })
				t.indent++
				saved := t.errInScope
				t.errInScope = true
				errB := t.block(ifs.Body.List, cont)
				t.errInScope = false
				okB := t.elseBranch(ifs.Else, cont)
				t.errInScope = saved
				t.indent--
				return "(match " + t.expr(c) + " with\n" + t.pad() + "| " + t.wpat(c, ".ok "+okPat) + " =>\n" + t.pad() + "  " + post + okB + "\n" + t.pad() +
					"| " + t.wpat(c, ".error err") + " =>\n" + t.pad() + "  " + errB + ")", true
			}
		}
	}
	// err := f(.., &x)  that is NOT followed by a nil check, f writing x on both paths: the result travels on as a value
	if len(x.Lhs) == 1 && len(x.Rhs) == 1 && exprString(x.Lhs[0]) == "err" {
		if c, isCall := x.Rhs[0].(*ast.CallExpr); isCall && t.spec.AlwaysOut[exprString(c.Fun)] {
			t.declared["err"] = true
			okPat := t.okPattern(c, "_")
			post := t.takePost()
			t.errResult = true
			return "let (" + okPat + ", err) := " + t.expr(c) + ";\n" + t.pad() + post + rest(), true
		}
	}
	// x := make([]T, len(xs)); for i, p := range xs { STMTS; x[i] = e }   (STMTS may return)  ->  GoX.collect
	if len(x.Lhs) == 1 && len(x.Rhs) == 1 && len(stmts) > 1 {
		if _, _, _, plain := t.convertLoop(x, stmts[1]); !plain {
			if out, ok := t.collectLoop(x, stmts[1], func() string { return t.block(stmts[2:], k) }); ok {
				return out, true
			}
		}
	}
	// m[k] = v
	if len(x.Lhs) == 1 && len(x.Rhs) == 1 && x.Tok == token.ASSIGN {
		if ix, ok := x.Lhs[0].(*ast.IndexExpr); ok {
			if id, ok := ix.X.(*ast.Ident); ok {
				m := t.ident(id.Name)
				return "let " + m + " := (GoX.mapSet " + m + " " + t.expr(ix.Index) + " " + t.expr(x.Rhs[0]) + ");\n" + t.pad() + rest(), true
			}
		}
	}
	// v := x[:n]  under SliceAlias: remember that v is a window onto x
	if t.spec.SliceAlias && len(x.Lhs) == 1 && len(x.Rhs) == 1 && x.Tok == token.DEFINE {
		if se, ok := x.Rhs[0].(*ast.SliceExpr); ok && se.Low == nil && se.High != nil && !se.Slice3 {
			if base, ok := se.X.(*ast.Ident); ok {
				t.aliases[exprString(x.Lhs[0])] = [2]string{base.Name, t.expr(se.High)}
			}
		}
	}
	return "", false
}

// collectLoop: x := make([]T, len(xs)); for i, p := range xs { STMTS; x[i] = e }
func (t *tr) collectLoop(as *ast.AssignStmt, next ast.Stmt, rest cont) (string, bool) {
	mk, isCall := as.Rhs[0].(*ast.CallExpr)
	if !isCall || exprString(mk.Fun) != "make" || len(mk.Args) != 2 {
		return "", false
	}
	ln, isLen := mk.Args[1].(*ast.CallExpr)
	if !isLen || exprString(ln.Fun) != "len" || len(ln.Args) != 1 {
		return "", false
	}
	rg, isRange := next.(*ast.RangeStmt)
	if !isRange || rg.Key == nil || rg.Value == nil || exprString(rg.X) != exprString(ln.Args[0]) || len(rg.Body.List) < 1 {
		return "", false
	}
	body := rg.Body.List
	set, isAssign := body[len(body)-1].(*ast.AssignStmt)
	if !isAssign || len(set.Lhs) != 1 || len(set.Rhs) != 1 || set.Tok != token.ASSIGN {
		return "", false
	}
	ix, isIx := set.Lhs[0].(*ast.IndexExpr)
	if !isIx || exprString(ix.X) != exprString(as.Lhs[0]) || exprString(ix.Index) != exprString(rg.Key) {
		return "", false
	}
	idx := exprString(rg.Key)
	for _, st := range body[:len(body)-1] {
		if usesIdent(st, idx) {
			return t.bad("loop index used outside the element assignment", rg), true
		}
	}
	if usesIdent(set.Rhs[0], idx) {
		return t.bad("loop index used outside the element assignment", rg), true
	}
	name := exprString(as.Lhs[0])
	t.declared[name] = true
	t.fresh[name] = true
	v := exprString(rg.Value)
	t.collect++
	t.indent++
	elem := set.Rhs[0]
	inner := t.block(body[:len(body)-1], func() string { return "(.inr " + t.expr(elem) + ")" })
	t.indent--
	t.collect--
	return "(match (GoX.collect (β := " + t.rt + ") " + t.expr(rg.X) + " (fun " + v + " =>\n" + t.pad() + "  " + inner + ")) with\n" + t.pad() +
		"| .inl r__ => r__\n" + t.pad() + "| .inr " + t.ident(name) + " =>\n" + t.pad() + rest() + ")", true
}

// typeSwitchCases (TypeCases): switch v := e.(type) { case T1: ..; case nil: ..; default: .. }  ->  match e with | C1 v => .. | Cnil => .. | _ => ..
func (t *tr) typeSwitchCases(x *ast.TypeSwitchStmt, cont cont) string {
	if x.Init != nil {
		return t.bad("type switch init", x)
	}
	binder := ""
	var subj ast.Expr
	switch a := x.Assign.(type) {
	case *ast.AssignStmt:
		if len(a.Lhs) == 1 && len(a.Rhs) == 1 {
			binder = exprString(a.Lhs[0])
			if ta, ok := a.Rhs[0].(*ast.TypeAssertExpr); ok {
				subj = ta.X
			}
		}
	case *ast.ExprStmt:
		if ta, ok := a.X.(*ast.TypeAssertExpr); ok {
			subj = ta.X
		}
	}
	if subj == nil {
		return t.bad("type switch subject", x)
	}
	e := t.expr(subj)
	if binder != "" {
		t.declared[binder] = true
	}
	var out strings.Builder
	out.WriteString("(match " + e + " with")
	var def *ast.CaseClause
	for _, c := range x.Body.List {
		cc := c.(*ast.CaseClause)
		if cc.List == nil {
			def = cc
			continue
		}
		for _, ty := range cc.List {
			src := goSrc(t.fset, ty)
			ctor, ok := t.spec.TypeCases[src]
			if !ok {
				ctor = t.bad("type switch case "+src, ty)
			}
			pat := ctor
			bind := ""
			if src != "nil" {
				if binder != "" && len(cc.List) == 1 {
					pat += " " + binder
				} else {
					pat += " _"
					if binder != "" {
						bind = "let " + binder + " := " + e + ";\n" + t.pad() + "  "
					}
				}
			} else if binder != "" {
				bind = "let " + binder + " := " + e + ";\n" + t.pad() + "  "
			}
			if !usesIdentStmts(cc.Body, binder) {
				bind = ""
			}
			t.indent++
			body := t.block(cc.Body, cont)
			t.indent--
			out.WriteString("\n" + t.pad() + "| " + pat + " =>\n" + t.pad() + "  " + bind + body)
		}
	}
	t.indent++
	var dflt string
	if def != nil {
		bind := ""
		if binder != "" && usesIdentStmts(def.Body, binder) {
			bind = "let " + binder + " := " + e + ";\n" + t.pad()
		}
		dflt = bind + t.block(def.Body, cont)
	} else {
		dflt = cont()
	}
	t.indent--
	out.WriteString("\n" + t.pad() + "| _ =>\n" + t.pad() + "  " + dflt + ")")
	return out.String()
}

func usesIdentStmts(stmts []ast.Stmt, name string) bool {
	if name == "" {
		return false
	}
	for _, s := range stmts {
		if usesIdent(s, name) {
			return true
		}
	}
	return false
}

// assignedOuter: variables declared before the loop that its body assigns (x = e, *x = e, x[k] = e), in order of first assignment
func (t *tr) assignedOuter(body *ast.BlockStmt) []string {
	var out []string
	seen := map[string]bool{}
	local := map[string]bool{}
	ast.Inspect(body, func(n ast.Node) bool {
		if c, isCall := n.(*ast.CallExpr); isCall && t.spec.OutCallAny {
			if op, found := t.lookupOutParam(exprString(c.Fun)); found && op.Keep && op.Index >= 0 && op.Index < len(c.Args) {
				name := strings.TrimPrefix(exprString(c.Args[op.Index]), "&")
				if t.declared[name] && !local[name] && !seen[name] {
					seen[name] = true
					out = append(out, name)
				}
			}
			return true
		}
		if es, isExpr := n.(*ast.ExprStmt); isExpr && t.spec.OutCallState {
			if c, isCall := es.X.(*ast.CallExpr); isCall {
				if op, found := t.lookupOutParam(exprString(c.Fun)); found && op.Keep && op.Index >= 0 && op.Index < len(c.Args) {
					name := strings.TrimPrefix(exprString(c.Args[op.Index]), "&")
					if t.declared[name] && !local[name] && !seen[name] {
						seen[name] = true
						out = append(out, name)
					}
				}
			}
			return true
		}
		as, ok := n.(*ast.AssignStmt)
		if !ok {
			return true
		}
		if (t.spec.OutCallInit || t.spec.OutCallState) && len(as.Rhs) == 1 {
			// `err := f(v, ..)` / `if err := f(v, ..); err != nil` with f an out-parameter callee (Keep) that writes through v:
			// OutCallInit (C02) consults every out-parameter table, OutCallState (C01) only the spec's own LocalOut
			if c, isCall := as.Rhs[0].(*ast.CallExpr); isCall {
				op, found := t.spec.LocalOut[exprString(c.Fun)]
				if !found && t.spec.OutCallInit {
					op, found = t.lookupOutParam(exprString(c.Fun))
				}
				if found && op.Keep && op.Index >= 0 && op.Index < len(c.Args) {
					name := strings.TrimPrefix(exprString(c.Args[op.Index]), "&")
					if t.declared[name] && !local[name] && !seen[name] {
						seen[name] = true
						out = append(out, name)
					}
				}
			}
		}
		for _, l := range as.Lhs {
			name := ""
			switch y := l.(type) {
			case *ast.Ident:
				name = y.Name
			case *ast.StarExpr:
				name = exprString(y.X)
			case *ast.IndexExpr:
				name = exprString(y.X)
			case *ast.SelectorExpr:
				// (C02, round 5) FieldState: `x.F = e` in a loop body is an assignment to x (a write through the pointer receiver / a struct variable)
				if id, isId := y.X.(*ast.Ident); isId && t.spec.FieldState {
					name = id.Name
				}
			}
			if name == "" || name == "_" {
				continue
			}
			if as.Tok == token.DEFINE {
				if _, isId := l.(*ast.Ident); isId {
					local[name] = true
					continue
				}
			}
			if t.declared[name] && !local[name] && !seen[name] {
				seen[name] = true
				out = append(out, name)
			}
		}
		return true
	})
	return out
}

// loopLocalErr: see FuncSpec.LoopLocalErr
func (t *tr) loopLocalErr(x *ast.RangeStmt) bool {
	if !t.spec.LoopLocalErr || t.fnBody == nil {
		return false
	}
	first := false
	for _, s := range x.Body.List {
		if !usesIdent(s, "err") {
			continue
		}
		as, ok := s.(*ast.AssignStmt)
		if !ok || len(as.Lhs) != 1 || exprString(as.Lhs[0]) != "err" {
			return false
		}
		for _, r := range as.Rhs {
			if usesIdent(r, "err") {
				return false
			}
		}
		first = true
		break
	}
	if !first {
		return false
	}
	dead := true
	ast.Inspect(t.fnBody, func(n ast.Node) bool {
		switch y := n.(type) {
		case *ast.Ident:
			if y.Name == "err" && y.Pos() > x.End() {
				dead = false
			}
		case *ast.ReturnStmt:
			if len(y.Results) == 0 && y.Pos() > x.End() {
				dead = false // a naked return reads the named results
			}
		case *ast.FuncLit:
			if usesIdent(y, "err") {
				dead = false
			}
		case *ast.RangeStmt:
			if y != x && y.Pos() < x.Pos() && x.End() <= y.End() {
				dead = false
			}
		case *ast.ForStmt:
			if y.Pos() < x.Pos() && x.End() <= y.End() {
				dead = false
			}
		}
		return dead
	})
	return dead
}

// stateLoop (LoopStyle "state"):
//
//	for k, v := range X { body }   body assigns variables S of the enclosing function, no return   ->  let S := GoX.foldKV/foldList X S (fun S k v => body; S)
//	for _, v := range X { body }   body only returns early, assigns nothing outside                ->  match GoX.first X (fun v => body-or-none) with | some r => r | none => rest
func (t *tr) stateLoop(x *ast.RangeStmt, rest cont) string {
	state := t.assignedOuter(x.Body)
	if t.loopLocalErr(x) {
		kept := state[:0:0]
		for _, s := range state {
			if s != "err" {
				kept = append(kept, s)
			}
		}
		state = kept
	}
	returns := hasReturn(x.Body)
	name := func(e ast.Expr) string {
		if e == nil {
			return "_"
		}
		return t.ident(exprString(e))
	}
	kv := x.Key != nil && exprString(x.Key) != "_" && x.Value != nil
	binders := name(x.Value)
	if kv {
		binders = name(x.Key) + " " + name(x.Value)
	} else if x.Value == nil {
		binders = name(x.Key)
	}
	if x.Tok == token.DEFINE {
		for _, e := range []ast.Expr{x.Key, x.Value} {
			if e != nil {
				t.declared[exprString(e)] = true
			}
		}
	}
	switch {
	case len(state) > 0 && returns:
		return t.bad("loop that both updates state and returns", x)
	case len(state) > 0:
		var ss []string
		for _, s := range state {
			ss = append(ss, t.ident(s))
		}
		st := ss[0]
		if len(ss) > 1 {
			st = "(" + strings.Join(ss, ", ") + ")"
		}
		fn := "GoX.foldList"
		if kv {
			fn = "GoX.foldKV"
		}
		t.indent++
		t.continueK = append(t.continueK, func() string { return st }) // `continue` ends this round with the state as it is
		body := t.block(x.Body.List, func() string { return st })
		t.continueK = t.continueK[:len(t.continueK)-1]
		t.indent--
		return "let " + st + " := (" + fn + " " + t.expr(x.X) + " " + st + " (fun " + st + " " + binders + " =>\n" + t.pad() + "  " + body + "));\n" + t.pad() + rest()
	default:
		if kv || x.Value == nil {
			return t.bad("early-exit loop over keys", x)
		}
		t.loop++
		t.indent++
		body := t.block(x.Body.List, func() string { return "none" })
		t.indent--
		t.loop--
		return "(match (GoX.first (β := " + t.rt + ") " + t.expr(x.X) + " (fun " + binders + " =>\n" + t.pad() + "  " + body + ")) with\n" + t.pad() +
			"| some r__ => r__\n" + t.pad() + "| none =>\n" + t.pad() + rest() + ")"
	}
}

// ctlLoop (LoopStyle "ctl"):
//
//	for _, v := range X { body }   body assigns variables S of the enclosing function and / or leaves early (return, break, continue)
//	  ->  match GoX.loopCtl (β := result type) X S (fun S v => body') with | .inl r => r | .inr S => rest
//
// body' ends in GoX.Ctl.next S where the Go body falls through or continues, GoX.Ctl.brk S where it breaks, GoX.Ctl.ret r where it returns.
func (t *tr) ctlLoop(x *ast.RangeStmt, rest cont) string {
	if x.Value == nil || (x.Key != nil && exprString(x.Key) != "_") || x.Tok != token.DEFINE {
		return t.bad("control loop over keys / indices", x)
	}
	if len(t.ctl) > 0 || t.loop > 0 || t.loopDepth > 0 || t.collect > 0 {
		return t.bad("nested control loop", x)
	}
	state := t.assignedOuter(x.Body)
	st := "()"
	if len(state) > 0 {
		var ss []string
		for _, s := range state {
			ss = append(ss, t.ident(s))
		}
		st = ss[0]
		if len(ss) > 1 {
			st = "(" + strings.Join(ss, ", ") + ")"
		}
	}
	v := t.ident(exprString(x.Value))
	t.declared[exprString(x.Value)] = true
	t.ctl = append(t.ctl, ctlFrame{state: st, breakK: len(t.breakK)})
	t.indent++
	body := t.block(x.Body.List, func() string { return "(GoX.Ctl.next " + st + ")" })
	t.indent--
	t.ctl = t.ctl[:len(t.ctl)-1]
	return "(match (GoX.loopCtl (β := " + t.rt + ") " + t.expr(x.X) + " " + st + " (fun " + st + " " + v + " =>\n" + t.pad() + "  " + body + ")) with\n" + t.pad() +
		"| .inl r__ => r__\n" + t.pad() + "| .inr " + st + " =>\n" + t.pad() + rest() + ")"
}
