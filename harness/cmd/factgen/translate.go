package main

// Shallow Go -> Lean translator for the whitelisted decision functions.
//
// The translator only serialises syntax: a Go function body that is a sequence of
// guards / error-propagating calls / lets becomes ONE Lean definition over the vocabulary
// of OidcModel/Go.lean and the hand-written model types.  Anything outside the supported
// subset is emitted as the undefined identifier `UNSUPPORTED_<reason>` so that the Lean
// build (and with it every theorem that depends on the function) fails visibly.

import (
	"fmt"
	"go/ast"
	"go/token"
	"sort"
	"strconv"
	"strings"
)

type RetKind int

const (
	RetErr    RetKind = iota // func(...) error                -> Go.R Unit
	RetValErr                // func(...) (T, error)            -> Go.R T
	RetVal                   // func(...) T                     -> T
)

// OutParam: the Go callee writes through a pointer argument; its Lean twin returns the new value.
type OutParam struct {
	Index int  // argument position (counting ctx)
	Keep  bool // true: in-out (argument still passed); false: pure output (argument dropped)
}

var outParams = map[string]OutParam{
	"oidc.ParseToken":            {1, false},
	"ParseToken":                 {1, false},
	"oidc.CheckSignature":        {3, true},
	"CheckSignature":             {3, true},
	"ValidateRefreshTokenScopes": {1, true},
}

type FuncSpec struct {
	File     string            // path relative to repo root
	Name     string            // Go name, "Recv.Name" for methods
	Lean     string            // Lean definition name
	Params   []string          // Lean binders, e.g. "(claims : Claims)"; `now` is always first
	Ret      RetKind           //
	RetType  string            // Lean type of the value (RetValErr / RetVal)
	Rename   map[string]string // Go identifier -> Lean expression (parameters, package values)
	NilValue []string          // identifiers that denote "the zero value" in `return zero, err`
	WrapOk   string            // RetValErr: constructor applied to the value of `return v, nil`
	WrapBoth string            // RetValErr: constructor applied to (v, err) of `return v, err` with non-zero v
	RetParam string            // RetErr function that mutates this pointer parameter: `return nil` yields its final value
}

type tr struct {
	spec       *FuncSpec
	fset       *token.FileSet
	unsup      []string
	indent     int
	errInScope bool // inside a `.error err =>` branch
}

func (t *tr) bad(reason string, n ast.Node) string {
	pos := ""
	if n != nil {
		pos = t.fset.Position(n.Pos()).String()
	}
	t.unsup = append(t.unsup, reason+" at "+pos)
	id := strings.Map(func(r rune) rune {
		if r >= 'a' && r <= 'z' || r >= 'A' && r <= 'Z' || r >= '0' && r <= '9' {
			return r
		}
		return '_'
	}, reason)
	return "UNSUPPORTED_" + id
}

// calls that are pure bookkeeping and have no influence on the decision
func ignorableCall(c *ast.CallExpr) bool {
	s := exprString(c.Fun)
	switch {
	case strings.HasSuffix(s, "Tracer.Start"), strings.HasSuffix(s, "tracer.Start"), s == "span.End", strings.HasPrefix(s, "logger."),
		strings.HasSuffix(s, ".Debug"), strings.HasSuffix(s, ".Info"), strings.HasSuffix(s, ".Error") && strings.Contains(s, "ogger"),
		s == "span.RecordError", s == "span.SetStatus":
		return true
	}
	return false
}

func exprString(e ast.Expr) string {
	switch x := e.(type) {
	case *ast.Ident:
		return x.Name
	case *ast.SelectorExpr:
		return exprString(x.X) + "." + x.Sel.Name
	case *ast.IndexExpr:
		return exprString(x.X)
	case *ast.IndexListExpr:
		return exprString(x.X)
	case *ast.StarExpr:
		return "*" + exprString(x.X)
	case *ast.ParenExpr:
		return exprString(x.X)
	case *ast.CallExpr:
		return exprString(x.Fun) + "()"
	case *ast.UnaryExpr:
		return x.Op.String() + exprString(x.X)
	}
	return fmt.Sprintf("<%T>", e)
}

func leanStr(s string) string {
	var b strings.Builder
	b.WriteByte('"')
	for _, r := range s {
		switch r {
		case '"':
			b.WriteString("\\\"")
		case '\\':
			b.WriteString("\\\\")
		case '\n':
			b.WriteString("\\n")
		case '\t':
			b.WriteString("\\t")
		default:
			b.WriteRune(r)
		}
	}
	b.WriteByte('"')
	return b.String()
}

// ---------------------------------------------------------------- expressions

// method name -> Lean function applied to (receiver, args...)
var methodMap = map[string]string{
	"Add": "Go.tAdd", "Sub": "Go.tSub", "Round": "Go.tRound", "Before": "Go.tBefore", "After": "Go.tAfter",
	"IsZero": "Go.tIsZero", "AsTime": "Go.asTime", "Unix": "Go.tToUnix",
}

// methods that are the identity in the model
var identityMethods = map[string]bool{"UTC": true, "Error": true, "String": true}

// package-level functions / values
var pkgMap = map[string]string{
	"time.Second": "Go.second", "time.Minute": "(60 * Go.second)", "time.Hour": "(3600 * Go.second)",
	"slices.Contains": "Go.contains", "strings.HasPrefix": "Go.hasPrefix", "strings.HasSuffix": "Go.hasSuffix",
	"strings.Contains": "Go.strContains", "strings.TrimSpace": "Go.trimSpace",
	"str.Contains": "Go.contains", "bytes.Equal": "Go.bytesEqual",
	"oidc.FromTime": "Go.fromTime", "FromTime": "Go.fromTime",
	"time.Time{}": "Go.zeroTime",
}

func (t *tr) ident(name string) string {
	if r, ok := t.spec.Rename[name]; ok {
		return r
	}
	switch name {
	case "true", "false":
		return name
	case "nil":
		return "Go.nil"
	}
	if strings.HasPrefix(name, "Err") {
		return leanStr(name)
	}
	return name
}

func (t *tr) expr(e ast.Expr) string {
	switch x := e.(type) {
	case *ast.ParenExpr:
		return t.expr(x.X)
	case *ast.BasicLit:
		switch x.Kind {
		case token.STRING:
			s, err := strconv.Unquote(x.Value)
			if err != nil {
				return t.bad("string literal", x)
			}
			return leanStr(s)
		case token.INT:
			return "(" + x.Value + " : Int)"
		}
		return t.bad("literal "+x.Kind.String(), x)
	case *ast.Ident:
		return t.ident(x.Name)
	case *ast.SelectorExpr:
		full := exprString(x)
		if r, ok := t.spec.Rename[full]; ok {
			return r
		}
		if r, ok := pkgMap[full]; ok {
			return r
		}
		if id, ok := x.X.(*ast.Ident); ok {
			// package-qualified sentinel error or constant
			if strings.HasPrefix(x.Sel.Name, "Err") && (id.Name == "oidc" || id.Name == "op" || id.Name == "crypto") {
				return leanStr(x.Sel.Name)
			}
			if id.Name == "oidc" || id.Name == "jose" || id.Name == "op" {
				return "Const." + x.Sel.Name
			}
		}
		return "(" + t.expr(x.X) + ")." + x.Sel.Name
	case *ast.UnaryExpr:
		switch x.Op {
		case token.NOT:
			return "(!" + t.expr(x.X) + ")"
		case token.SUB:
			return "(- " + t.expr(x.X) + ")"
		case token.AND:
			return t.expr(x.X)
		}
		return t.bad("unary "+x.Op.String(), x)
	case *ast.StarExpr:
		return t.expr(x.X)
	case *ast.BinaryExpr:
		a, b := t.expr(x.X), t.expr(x.Y)
		// comparisons with nil
		if bi, ok := x.Y.(*ast.Ident); ok && bi.Name == "nil" {
			if x.Op == token.NEQ {
				return "(Go.notNil " + a + ")"
			}
			if x.Op == token.EQL {
				return "(Go.isNil " + a + ")"
			}
		}
		switch x.Op {
		case token.EQL:
			return "(" + a + " == " + b + ")"
		case token.NEQ:
			return "(" + a + " != " + b + ")"
		case token.LAND:
			return "(" + a + " && " + b + ")"
		case token.LOR:
			return "(" + a + " || " + b + ")"
		case token.LSS:
			return "(decide (" + a + " < " + b + "))"
		case token.GTR:
			return "(decide (" + a + " > " + b + "))"
		case token.LEQ:
			return "(decide (" + a + " ≤ " + b + "))"
		case token.GEQ:
			return "(decide (" + a + " ≥ " + b + "))"
		case token.ADD:
			return "(" + a + " + " + b + ")"
		case token.SUB:
			return "(" + a + " - " + b + ")"
		case token.MUL:
			return "(" + a + " * " + b + ")"
		}
		return t.bad("binary "+x.Op.String(), x)
	case *ast.CompositeLit:
		tn := exprString(x.Type) + "{}"
		if len(x.Elts) == 0 {
			if r, ok := pkgMap[tn]; ok {
				return r
			}
		}
		if r, ok := t.spec.Rename[tn]; ok {
			var vals []string
			for _, e := range x.Elts {
				if kv, ok := e.(*ast.KeyValueExpr); ok {
					vals = append(vals, t.expr(kv.Value))
				} else {
					vals = append(vals, t.expr(e))
				}
			}
			return "(" + r + " " + strings.Join(vals, " ") + ")"
		}
		return t.bad("composite literal "+tn, x)
	case *ast.IndexExpr:
		if _, isCall := x.X.(*ast.CallExpr); !isCall {
			// generic instantiation f[T] is handled at the call; slice index a[i]:
			return "(Go.index " + t.expr(x.X) + " " + t.expr(x.Index) + ")"
		}
		return t.bad("index", x)
	case *ast.CallExpr:
		return t.call(x)
	}
	return t.bad(fmt.Sprintf("expr %T", e), e)
}

func isCtxArg(a ast.Expr) bool {
	s := exprString(a)
	return s == "ctx" || s == "r.Context()" || s == "context.Background()" || s == "context.TODO()"
}

// okPattern gives the binder for the success value of a call, taking out-params into account.
func (t *tr) okPattern(call ast.Expr, v string) string {
	c, ok := call.(*ast.CallExpr)
	if !ok {
		return v
	}
	fun := c.Fun
	if ix, ok := fun.(*ast.IndexExpr); ok {
		fun = ix.X
	}
	op, ok := outParams[exprString(fun)]
	if !ok || op.Index >= len(c.Args) {
		return v
	}
	name := strings.TrimPrefix(exprString(c.Args[op.Index]), "&")
	if v == "_" || v == "" {
		return name
	}
	return "(" + v + ", " + name + ")"
}

func (t *tr) args(as []ast.Expr) string {
	return t.argsOf("", as)
}

func (t *tr) argsOf(callee string, as []ast.Expr) string {
	var out []string
	op, hasOp := outParams[callee]
	for i, a := range as {
		if isCtxArg(a) {
			continue
		}
		if hasOp && !op.Keep && i == op.Index {
			continue
		}
		out = append(out, t.expr(a))
	}
	return strings.Join(out, " ")
}

func (t *tr) call(c *ast.CallExpr) string {
	fun := c.Fun
	if ix, ok := fun.(*ast.IndexExpr); ok { // generic instantiation
		fun = ix.X
	}
	if ix, ok := fun.(*ast.IndexListExpr); ok {
		fun = ix.X
	}
	full := exprString(fun)
	switch full {
	case "time.Now":
		return "now"
	case "len":
		return "(Go.len " + t.expr(c.Args[0]) + ")"
	case "string", "jose.SignatureAlgorithm", "[]byte", "oidc.GrantType", "oidc.ResponseType", "int", "int64", "time.Duration", "oidc.Time", "Time":
		if len(c.Args) == 1 {
			return t.expr(c.Args[0])
		}
	case "fmt.Errorf", "errors.New", "errors.Join":
		return t.errValue(c)
	}
	if r, ok := t.spec.Rename[full+"()"]; ok {
		if a := t.args(c.Args); a != "" {
			return "(" + r + " " + a + ")"
		}
		return r
	}
	if r, ok := pkgMap[full]; ok {
		return "(" + r + " " + t.args(c.Args) + ")"
	}
	if sel, ok := fun.(*ast.SelectorExpr); ok {
		m := sel.Sel.Name
		if id, ok := sel.X.(*ast.Ident); ok && (id.Name == "oidc" || id.Name == "op" || id.Name == "crypto" || id.Name == "httphelper") {
			// call of a (translated or hand-modelled) package function
			a := t.argsOf(full, c.Args)
			if a == "" {
				return "(" + m + " now)"
			}
			return "(" + m + " now " + a + ")"
		}
		recv := t.expr(sel.X)
		if identityMethods[m] && len(c.Args) == 0 {
			return recv
		}
		if lf, ok := methodMap[m]; ok {
			if len(c.Args) == 0 {
				return "(" + lf + " " + recv + ")"
			}
			return "(" + lf + " " + recv + " " + t.args(c.Args) + ")"
		}
		// getter or method of a model structure:  recv.M args
		if len(c.Args) == 0 {
			return "((" + recv + ")." + m + ")"
		}
		return "((" + recv + ")." + m + " " + t.args(c.Args) + ")"
	}
	if id, ok := fun.(*ast.Ident); ok {
		// same-package function or function-typed parameter
		a := t.argsOf(full, c.Args)
		if r, ok := t.spec.Rename[id.Name+"()"]; ok { // function-typed value: rename gives the application head
			return "(" + r + " " + a + ")"
		}
		if a == "" {
			return "(" + id.Name + " now)"
		}
		return "(" + id.Name + " now " + a + ")"
	}
	return t.bad("call "+full, c)
}

// errValue maps an error-constructing expression to the name of the sentinel it wraps.
func (t *tr) errValue(e ast.Expr) string {
	switch x := e.(type) {
	case *ast.CompositeLit:
		if len(x.Elts) == 1 {
			if kv, ok := x.Elts[0].(*ast.KeyValueExpr); ok {
				return t.errValue(kv.Value)
			}
			return t.errValue(x.Elts[0])
		}
		return t.bad("error literal", x)
	case *ast.Ident:
		if x.Name == "err" || strings.HasSuffix(x.Name, "Err") || strings.HasSuffix(x.Name, "err") {
			return x.Name
		}
		return t.ident(x.Name)
	case *ast.SelectorExpr:
		return t.expr(x)
	case *ast.CallExpr:
		full := exprString(x.Fun)
		switch full {
		case "fmt.Errorf":
			if len(x.Args) >= 2 {
				if lit, ok := x.Args[0].(*ast.BasicLit); ok && strings.HasPrefix(lit.Value, "\"%w") {
					return t.errValue(x.Args[1])
				}
			}
			if len(x.Args) >= 1 {
				if lit, ok := x.Args[0].(*ast.BasicLit); ok {
					s, _ := strconv.Unquote(lit.Value)
					return leanStr("error:" + s)
				}
			}
		case "errors.New":
			if lit, ok := x.Args[0].(*ast.BasicLit); ok {
				s, _ := strconv.Unquote(lit.Value)
				return leanStr("error:" + s)
			}
		}
		// oidc.ErrInvalidRequest().WithDescription(...)  ->  "ErrInvalidRequest"
		cur := ast.Expr(x)
		for {
			c, ok := cur.(*ast.CallExpr)
			if !ok {
				break
			}
			sel, ok := c.Fun.(*ast.SelectorExpr)
			if !ok {
				if id, ok := c.Fun.(*ast.Ident); ok && strings.HasPrefix(id.Name, "Err") {
					return leanStr(id.Name)
				}
				break
			}
			if strings.HasPrefix(sel.Sel.Name, "Err") {
				return leanStr(sel.Sel.Name)
			}
			if strings.HasPrefix(sel.Sel.Name, "With") {
				cur = sel.X
				continue
			}
			break
		}
		return t.expr(x)
	}
	return t.expr(e)
}

// ---------------------------------------------------------------- statements

func (t *tr) pad() string { return strings.Repeat("  ", t.indent) }

func (t *tr) isNilValue(e ast.Expr) bool {
	s := exprString(e)
	if s == "nil" || s == "\"\"" {
		return true
	}
	if lit, ok := e.(*ast.BasicLit); ok && (lit.Value == `""` || lit.Value == "0") {
		return true
	}
	if id, ok := e.(*ast.Ident); ok && id.Name == "false" {
		return true
	}
	for _, n := range t.spec.NilValue {
		if n == s {
			return true
		}
	}
	return false
}

func (t *tr) ret(r *ast.ReturnStmt) string {
	switch t.spec.Ret {
	case RetErr:
		if len(r.Results) != 1 {
			return t.bad("return arity", r)
		}
		if id, ok := r.Results[0].(*ast.Ident); ok && id.Name == "nil" {
			if t.spec.RetParam != "" {
				return "(.ok " + t.spec.RetParam + ")"
			}
			return "Go.ok"
		}
		return "(.error " + t.errValue(r.Results[0]) + ")"
	case RetValErr:
		if len(r.Results) == 1 {
			// return f(...) : tail call with the same result type
			return t.expr(r.Results[0])
		}
		if len(r.Results) > 2 {
			// (v1, ..., vn, err)
			last := r.Results[len(r.Results)-1]
			vals := r.Results[:len(r.Results)-1]
			lastIsNil := false
			if id, ok := last.(*ast.Ident); ok && (id.Name == "nil" || (id.Name == "err" && !t.errInScope)) {
				lastIsNil = true // `err` outside an error branch is known to be nil
			}
			if lastIsNil {
				var vs []string
				for _, v := range vals {
					vs = append(vs, t.expr(v))
				}
				return "(.ok (" + strings.Join(vs, ", ") + "))"
			}
			allNil := true
			for _, v := range vals {
				if !t.isNilValue(v) {
					allNil = false
				}
			}
			if allNil {
				return "(.error " + t.errValue(last) + ")"
			}
			return t.bad("return of values and error", r)
		}
		if id, ok := r.Results[1].(*ast.Ident); ok && (id.Name == "nil" || (id.Name == "err" && !t.errInScope)) {
			if t.spec.WrapOk != "" {
				return "(.ok (" + t.spec.WrapOk + " " + t.expr(r.Results[0]) + "))"
			}
			return "(.ok " + t.expr(r.Results[0]) + ")"
		}
		if t.isNilValue(r.Results[0]) {
			return "(.error " + t.errValue(r.Results[1]) + ")"
		}
		// value AND error (e.g. claims, IDTokenHintExpiredError): modelled by the spec'd combinator
		if t.spec.WrapBoth != "" {
			return "(.ok (" + t.spec.WrapBoth + " " + t.expr(r.Results[0]) + " " + t.errValue(r.Results[1]) + "))"
		}
		return t.bad("return of value and error", r)
	case RetVal:
		if len(r.Results) != 1 {
			return t.bad("return arity", r)
		}
		return t.expr(r.Results[0])
	}
	return t.bad("return", r)
}

func isErrNotNil(e ast.Expr) bool {
	b, ok := e.(*ast.BinaryExpr)
	if !ok || b.Op != token.NEQ {
		return false
	}
	l, ok1 := b.X.(*ast.Ident)
	r, ok2 := b.Y.(*ast.Ident)
	return ok1 && ok2 && l.Name == "err" && r.Name == "nil"
}

// block translates stmts; k is the already translated continuation ("" = none: falling off the
// end of the function body without return is unsupported).
type cont func() string

func memo(f func() string) cont {
	done := false
	var v string
	return func() string {
		if !done {
			v = f()
			done = true
		}
		return v
	}
}

func (t *tr) block(stmts []ast.Stmt, k cont) string {
	if len(stmts) == 0 {
		if k == nil {
			return t.bad("fallthrough without return", nil)
		}
		return k()
	}
	s := stmts[0]
	rest := memo(func() string { return t.block(stmts[1:], k) })
	switch x := s.(type) {
	case *ast.ReturnStmt:
		return t.ret(x)
	case *ast.DeclStmt:
		return rest()
	case *ast.DeferStmt:
		if ignorableCall(x.Call) {
			return rest()
		}
		return t.bad("defer", x)
	case *ast.ExprStmt:
		if c, ok := x.X.(*ast.CallExpr); ok {
			if ignorableCall(c) {
				return rest()
			}
			// mutator method on a model value: recv.SetX(a)  ->  let recv := recv.SetX a
			if sel, ok := c.Fun.(*ast.SelectorExpr); ok && strings.HasPrefix(sel.Sel.Name, "Set") {
				if id, ok := sel.X.(*ast.Ident); ok {
					v := t.ident(id.Name)
					return "let " + v + " := (" + v + ")." + sel.Sel.Name + " " + t.args(c.Args) + ";\n" + t.pad() + rest()
				}
			}
		}
		return t.bad("expression statement", x)
	case *ast.AssignStmt:
		// x, ok := e.(T)   type assertion: the model value carries a flag `is_T`
		if len(x.Lhs) == 2 && len(x.Rhs) == 1 {
			if ta, ok := x.Rhs[0].(*ast.TypeAssertExpr); ok && ta.Type != nil {
				tn := exprString(ta.Type)
				if i := strings.LastIndex(tn, "."); i >= 0 {
					tn = tn[i+1:]
				}
				v, okv := exprString(x.Lhs[0]), exprString(x.Lhs[1])
				e := t.expr(ta.X)
				return "let " + v + " := " + e + ";\n" + t.pad() + "let " + okv + " := (" + e + ").is_" + tn + ";\n" + t.pad() + rest()
			}
		}
		// a, b, err := f(...)   followed by   if err != nil { ... }
		if len(x.Lhs) > 2 && len(x.Rhs) == 1 && exprString(x.Lhs[len(x.Lhs)-1]) == "err" && len(stmts) > 1 {
			if ifs, ok := stmts[1].(*ast.IfStmt); ok && ifs.Init == nil && isErrNotNil(ifs.Cond) && ifs.Else == nil {
				var names []string
				for _, l := range x.Lhs[:len(x.Lhs)-1] {
					names = append(names, t.ident(exprString(l)))
				}
				cont := memo(func() string { return t.block(stmts[2:], k) })
				t.indent++
				saved := t.errInScope
				t.errInScope = true
				errBranch := t.block(ifs.Body.List, cont)
				t.errInScope = saved
				t.indent--
				return "(match " + t.expr(x.Rhs[0]) + " with\n" + t.pad() + "| .error err => " + errBranch + "\n" + t.pad() + "| .ok (" + strings.Join(names, ", ") + ") =>\n" + t.pad() + cont() + ")"
			}
		}
		// x, err = f(...)   followed by   return ..., err      (error propagated by the return itself)
		if len(x.Lhs) == 2 && len(x.Rhs) == 1 && exprString(x.Lhs[1]) == "err" && len(stmts) > 1 {
			if ret, ok := stmts[1].(*ast.ReturnStmt); ok && len(ret.Results) >= 2 && exprString(ret.Results[len(ret.Results)-1]) == "err" {
				v := t.ident(exprString(x.Lhs[0]))
				saved := t.errInScope
				t.errInScope = false
				okB := t.ret(ret)
				t.errInScope = saved
				return "(match " + t.expr(x.Rhs[0]) + " with\n" + t.pad() + "| .error err => (.error err)\n" + t.pad() + "| .ok " + v + " =>\n" + t.pad() + okB + ")"
			}
		}
		// x, err := f(...)   followed by   if err != nil { ... }
		if len(x.Lhs) == 2 && len(x.Rhs) == 1 && exprString(x.Lhs[1]) == "err" {
			call, ok := x.Rhs[0].(*ast.CallExpr)
			if ok && ignorableCall(call) {
				return rest()
			}
			if ok && len(stmts) > 1 {
				if ifs, ok := stmts[1].(*ast.IfStmt); ok && ifs.Init == nil && isErrNotNil(ifs.Cond) && ifs.Else == nil {
					v := exprString(x.Lhs[0])
					if v == "_" {
						v = "_"
					} else {
						v = t.ident(v)
					}
					cont := memo(func() string { return t.block(stmts[2:], k) })
					t.indent++
					saved := t.errInScope
					t.errInScope = true
					errBranch := t.block(ifs.Body.List, cont)
					t.errInScope = saved
					t.indent--
					return "(match " + t.expr(call) + " with\n" + t.pad() + "| .error err => " + errBranch + "\n" + t.pad() + "| .ok " + t.okPattern(call, v) + " =>\n" + t.pad() + cont() + ")"
				}
			}
			return t.bad("two-value assignment without error check", x)
		}
		if len(x.Lhs) == 2 && len(x.Rhs) == 1 {
			if call, ok := x.Rhs[0].(*ast.CallExpr); ok && ignorableCall(call) {
				return rest()
			}
		}
		// err = f(...)  followed by  if err != nil {...}
		if len(x.Lhs) == 1 && len(x.Rhs) == 1 && exprString(x.Lhs[0]) == "err" && len(stmts) > 1 {
			if ifs, ok := stmts[1].(*ast.IfStmt); ok && ifs.Init == nil && isErrNotNil(ifs.Cond) && ifs.Else == nil {
				cont := memo(func() string { return t.block(stmts[2:], k) })
				t.indent++
				saved := t.errInScope
				t.errInScope = true
				errBranch := t.block(ifs.Body.List, cont)
				t.errInScope = saved
				t.indent--
				return "(match " + t.expr(x.Rhs[0]) + " with\n" + t.pad() + "| .error err => " + errBranch + "\n" + t.pad() + "| .ok " + t.okPattern(x.Rhs[0], "_") + " =>\n" + t.pad() + cont() + ")"
			}
		}
		// x.F = e   (field of a local / parameter value)  ->  let x := { x with F := e }
		if len(x.Lhs) == 1 && len(x.Rhs) == 1 && x.Tok == token.ASSIGN {
			if sel, ok := x.Lhs[0].(*ast.SelectorExpr); ok {
				if id, ok := sel.X.(*ast.Ident); ok {
					v := t.ident(id.Name)
					return "let " + v + " := { " + v + " with " + sel.Sel.Name + " := " + t.expr(x.Rhs[0]) + " };\n" + t.pad() + rest()
				}
			}
		}
		if len(x.Lhs) == 1 && len(x.Rhs) == 1 {
			if c, ok := x.Rhs[0].(*ast.CallExpr); ok && exprString(c.Fun) == "new" {
				return rest() // pure allocation of an out-parameter target
			}
			return "let " + t.ident(exprString(x.Lhs[0])) + " := " + t.expr(x.Rhs[0]) + ";\n" + t.pad() + rest()
		}
		return t.bad("assignment", x)
	case *ast.IfStmt:
		cont := rest
		// if err := f(...); err != nil { body }
		if x.Init != nil {
			as, ok := x.Init.(*ast.AssignStmt)
			if ok && len(as.Lhs) == 1 && exprString(as.Lhs[0]) == "err" && isErrNotNil(x.Cond) {
				t.indent++
				saved := t.errInScope
				t.errInScope = true
				errBranch := t.block(x.Body.List, cont)
				t.errInScope = saved
				var okBranch string
				if x.Else == nil {
					okBranch = cont()
				}
				if x.Else != nil {
					okBranch = t.elseBranch(x.Else, cont)
				}
				t.indent--
				return "(match " + t.expr(as.Rhs[0]) + " with\n" + t.pad() + "| .error err => " + errBranch + "\n" + t.pad() + "| .ok " + t.okPattern(as.Rhs[0], "_") + " =>\n" + t.pad() + okBranch + ")"
			}
			return t.bad("if with init", x)
		}
		t.indent++
		thenB := t.block(x.Body.List, cont)
		var elseB string
		if x.Else != nil {
			elseB = t.elseBranch(x.Else, cont)
		} else {
			elseB = cont()
		}
		t.indent--
		return "(if " + t.expr(x.Cond) + " then\n" + t.pad() + "  " + thenB + "\n" + t.pad() + "else\n" + t.pad() + elseB + ")"
	case *ast.SwitchStmt:
		return t.switchStmt(x, rest)
	case *ast.RangeStmt:
		// for _, v := range L { if COND(v) { return V } }   ->   if L.any (fun v => COND) then V else rest
		if len(x.Body.List) == 1 && x.Value != nil {
			if ifs, ok := x.Body.List[0].(*ast.IfStmt); ok && ifs.Init == nil && ifs.Else == nil && len(ifs.Body.List) == 1 {
				if ret, ok := ifs.Body.List[0].(*ast.ReturnStmt); ok {
					v := exprString(x.Value)
					return "(if (Go.any " + t.expr(x.X) + " (fun " + v + " => " + t.expr(ifs.Cond) + ")) then\n" + t.pad() + "  " + t.ret(ret) + "\n" + t.pad() + "else\n" + t.pad() + rest() + ")"
				}
			}
		}
		// for k, v := range X { acc.M(args) }  (possibly nested, same accumulator)  ->  let acc := Go.forRange X acc (fun acc k v => acc.M args)
		if acc, body, ok := t.rangeFold(x); ok {
			return "let " + acc + " := " + body + ";\n" + t.pad() + rest()
		}
		return t.bad("range loop", x)
	}
	return t.bad(fmt.Sprintf("statement %T", s), s)
}

// rangeFold: a range loop whose body is one mutator call on a local accumulator (or such a loop again) is a fold.
func (t *tr) rangeFold(x *ast.RangeStmt) (acc string, lean string, ok bool) {
	if len(x.Body.List) != 1 {
		return "", "", false
	}
	binder := func(e ast.Expr) string {
		if e == nil {
			return "_"
		}
		if s := exprString(e); s != "_" {
			return t.ident(s)
		}
		return "_"
	}
	k, v := binder(x.Key), binder(x.Value)
	switch b := x.Body.List[0].(type) {
	case *ast.ExprStmt:
		c, isCall := b.X.(*ast.CallExpr)
		if !isCall {
			return "", "", false
		}
		sel, isSel := c.Fun.(*ast.SelectorExpr)
		if !isSel {
			return "", "", false
		}
		id, isID := sel.X.(*ast.Ident)
		if !isID {
			return "", "", false
		}
		acc = t.ident(id.Name)
		inner := "((" + acc + ")." + sel.Sel.Name + " " + t.args(c.Args) + ")"
		return acc, "(Go.forRange " + t.expr(x.X) + " " + acc + " (fun " + acc + " " + k + " " + v + " => " + inner + "))", true
	case *ast.RangeStmt:
		a, inner, ok2 := t.rangeFold(b)
		if !ok2 {
			return "", "", false
		}
		return a, "(Go.forRange " + t.expr(x.X) + " " + a + " (fun " + a + " " + k + " " + v + " => " + inner + "))", true
	}
	return "", "", false
}

func (t *tr) elseBranch(e ast.Stmt, cont cont) string {
	switch y := e.(type) {
	case *ast.BlockStmt:
		return t.block(y.List, cont)
	case *ast.IfStmt:
		return t.block([]ast.Stmt{y}, cont)
	}
	return t.bad("else", e)
}

// switch tag { case a, b: ...; default: ... }  ->  if-chain on equality (no fallthrough)
func (t *tr) switchStmt(s *ast.SwitchStmt, cont cont) string {
	if s.Init != nil {
		return t.bad("switch init", s)
	}
	tag := ""
	if s.Tag != nil {
		tag = t.expr(s.Tag)
	}
	var def *ast.CaseClause
	var out strings.Builder
	closers := 0
	for _, c := range s.Body.List {
		cc := c.(*ast.CaseClause)
		if cc.List == nil {
			def = cc
			continue
		}
		var conds []string
		for _, e := range cc.List {
			if tag == "" {
				conds = append(conds, t.expr(e))
			} else {
				conds = append(conds, "("+tag+" == "+t.expr(e)+")")
			}
		}
		t.indent++
		body := t.block(cc.Body, cont)
		t.indent--
		out.WriteString("if " + strings.Join(conds, " || ") + " then\n" + t.pad() + "  " + body + "\n" + t.pad() + "else ")
		closers++
	}
	if def != nil {
		t.indent++
		out.WriteString(t.block(def.Body, cont))
		t.indent--
	} else {
		out.WriteString(cont())
	}
	return "(" + out.String() + ")"
}

// translateFunc renders one Lean definition.
func translateFunc(fset *token.FileSet, fd *ast.FuncDecl, spec *FuncSpec) (string, []string) {
	t := &tr{spec: spec, fset: fset, indent: 1}
	body := t.block(fd.Body.List, nil)
	var rt string
	switch spec.Ret {
	case RetErr:
		rt = "Go.R Unit"
		if spec.RetParam != "" {
			rt = "Go.R " + spec.RetType
		}
	case RetValErr:
		rt = "Go.R " + spec.RetType
	default:
		rt = spec.RetType
	}
	pos := fset.Position(fd.Pos())
	var b strings.Builder
	fmt.Fprintf(&b, "/-- translated from %s:%d `%s` -/\n", relPath(pos.Filename), pos.Line, spec.Name)
	fmt.Fprintf(&b, "def %s (now : Int) %s : %s :=\n  %s\n", spec.Lean, strings.Join(spec.Params, " "), rt, body)
	sort.Strings(t.unsup)
	return b.String(), t.unsup
}
