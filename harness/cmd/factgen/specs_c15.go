package main

// C15 (deep): the whole decision chain of the token-exchange grant in its own namespace `GenTE`:
// token resolution per declared type with the role dispatch to the optional verifier storage, construction of the
// exchange request and the storage policy calls, the refresh decision (`needsRefreshToken`'s type switch, `createTokens`)
// and the response.  `Generated/TETypes.lean` says which case types of that type switch *op.tokenExchangeRequest satisfies
// (computed from the method sets), so that the ORDER of the cases matters in the model exactly as it does in Go.

import (
	"go/ast"
	"os"
	"path/filepath"
	"sort"
	"strings"
)

func init() {
	const te = "pkg/op/token_exchange.go"
	zero := map[string]string{"<*ast.MapType>": "(Go.nil : TEClaims)", "*oidc.AccessTokenClaims": "(Go.nil : TEATClaims)"}
	ren := map[string]string{
		"strings.Split()":                "TE.split",
		"VerifyAccessToken()":            "Hand.teVerifyAccessToken now",
		"VerifyIDTokenHint()":            "Hand.teVerifyIDTokenHint now",
		"unimplementedGrantError()":      "Hand.unimplementedGrantError",
		"AuthorizeTokenExchangeClient()": "Hand.teAuthorizeClient now",
		"CreateAccessToken()":            "Hand.texCreateAccessToken (createTokens now) now",
		"CreateIDToken()":                "Hand.texCreateIDToken now",
		"oidc.TokenExchangeResponse{}":   "ExchangeResp.mk",
	}
	// the storage policy receives the request by pointer and may rewrite it (SetSubject, SetCurrentScopes, SetRequestedTokenType)
	outParams["teStorage.ValidateTokenExchangeRequest"] = OutParam{1, true}
	outParams["teStorage.CreateTokenExchangeRequest"] = OutParam{1, true}
	extraGroups = append(extraGroups, []Group{
		{Out: "TETypes.lean", NS: "GenTE", Extra: teMethodSets},
		{
			Out:     "TokenExchangeTE.lean",
			NS:      "GenTE",
			Imports: []string{"OidcModel.Model.ExchangeTE"},
			Opens:   []string{"Go", "Hand", "Const", "Gen"},
			Funcs: []FuncSpec{
				{File: te, Name: "getTokenIDAndClaims", Lean: "getTokenIDAndClaims",
					Params: []string{"(userinfoProvider : TEProvider)", "(accessToken : String)"}, Ret: RetVal, RetType: "(String × String × TEATClaims × Bool)",
					Rename: ren, ZeroOf: zero},
				{File: te, Name: "GetTokenIDAndSubjectFromToken", Lean: "GetTokenIDAndSubjectFromToken",
					Params: []string{"(exchanger : TEProvider)", "(token : String)", "(tokenType : String)", "(isActor : Bool)"},
					Ret:    RetVal, RetType: "(String × String × TEClaims × Bool)", Rename: ren, ZeroOf: zero, InitResults: true,
					HardErr: map[string]string{"VerifyIDTokenHint": "TEHint.strict"}, SoftErr: map[string]string{"IDTokenHintExpiredError": "TEHint.claims"}},
				{File: te, Name: "CreateTokenExchangeRequest", Lean: "CreateTokenExchangeRequest",
					Params: []string{"(oidcTokenExchangeRequest : TEIn)", "(client : OPClient)", "(exchanger : TEProvider)"},
					Ret:    RetValErr, RetType: "TEReq", Rename: ren, ZeroOf: zero,
					StructLits: map[string]StructLit{"tokenExchangeRequest{}": {Lean: "TEReq", Keep: []string{
						"exchangeSubjectTokenIDOrToken", "exchangeSubjectTokenType", "exchangeSubject", "exchangeSubjectTokenClaims",
						"exchangeActorTokenIDOrToken", "exchangeActorTokenType", "exchangeActor", "exchangeActorTokenClaims",
						"subject", "resource", "audience", "scopes", "requestedTokenType", "clientID", "authTime"}}}},
				{File: te, Name: "ValidateTokenExchangeRequest", Lean: "ValidateTokenExchangeRequest",
					Params: []string{"(oidcTokenExchangeRequest : TEIn)", "(clientID clientSecret : String)", "(exchanger : TEProvider)"},
					Ret:    RetValErr, RetType: "(TEReq × OPClient)", Rename: ren, ZeroOf: zero},
				{File: "pkg/op/token.go", Name: "needsRefreshToken", Lean: "needsRefreshToken",
					Params: []string{"(tokenRequest : TEAnyReq)", "(client : OPClient)"}, Ret: RetVal, RetType: "Bool", Rename: ren},
				{File: "pkg/op/token.go", Name: "createTokens", Lean: "createTokens",
					Params: []string{"(tokenRequest : TEAnyReq)", "(storage : TEStore)", "(refreshToken : String)", "(client : OPClient)"},
					Ret:    RetValErr, RetType: "(String × String × Int)", Rename: ren, ZeroOf: zero, InitResults: true},
				{File: te, Name: "CreateTokenExchangeResponse", Lean: "CreateTokenExchangeResponse",
					Params: []string{"(tokenExchangeRequest : TEReq)", "(client : OPClient)", "(creator : TEProvider)"},
					Ret:    RetValErr, RetType: "ExchangeResp", Rename: ren, ZeroOf: zero},
			},
		},
	}...)
}

// ---- method sets: which interfaces of pkg/op does *tokenExchangeRequest satisfy

// typesOnly renders a function type without parameter names: "(string, []string) (bool)"
func typesOnly(g *genCtx, ft *ast.FuncType) string {
	list := func(fl *ast.FieldList) string {
		if fl == nil {
			return ""
		}
		var out []string
		for _, f := range fl.List {
			n := len(f.Names)
			if n == 0 {
				n = 1
			}
			for i := 0; i < n; i++ {
				out = append(out, goSrc(g.fset, f.Type))
			}
		}
		return strings.Join(out, ", ")
	}
	return "(" + list(ft.Params) + ") (" + list(ft.Results) + ")"
}

func teMethodSets(g *genCtx) string {
	const concrete = "tokenExchangeRequest"
	fail := func(why string) string {
		g.unsup["tokenExchangeRequest_satisfies"] = []string{why}
		return "def tokenExchangeRequest_satisfies : List String := UNSUPPORTED_" + strings.Map(func(r rune) rune {
			if r >= 'a' && r <= 'z' || r >= 'A' && r <= 'Z' {
				return r
			}
			return '_'
		}, why) + "\n"
	}
	ents, err := os.ReadDir(filepath.Join(repoRoot, "pkg/op"))
	if err != nil {
		return fail("pkg/op unreadable")
	}
	ifaces := map[string]*ast.InterfaceType{}
	methods := map[string]string{} // method name of the concrete type -> signature
	for _, e := range ents {
		if e.IsDir() || !strings.HasSuffix(e.Name(), ".go") || strings.HasSuffix(e.Name(), "_test.go") {
			continue
		}
		f := g.file("pkg/op/" + e.Name())
		if f == nil {
			continue
		}
		for _, d := range f.Decls {
			switch x := d.(type) {
			case *ast.GenDecl:
				for _, sp := range x.Specs {
					if ts, ok := sp.(*ast.TypeSpec); ok {
						if it, ok := ts.Type.(*ast.InterfaceType); ok {
							ifaces[ts.Name.Name] = it
						}
					}
				}
			case *ast.FuncDecl:
				if x.Recv != nil && len(x.Recv.List) == 1 && strings.TrimPrefix(exprString(x.Recv.List[0].Type), "*") == concrete {
					methods[x.Name.Name] = typesOnly(g, x.Type)
				}
			}
		}
	}
	if len(methods) == 0 {
		return fail("type " + concrete + " has no methods")
	}
	// required methods of an interface (embedded interfaces of the same package are expanded; anything else is not understood)
	var need func(name string, seen map[string]bool) (map[string]string, bool)
	need = func(name string, seen map[string]bool) (map[string]string, bool) {
		it, ok := ifaces[name]
		if !ok || seen[name] {
			return nil, false
		}
		seen[name] = true
		out := map[string]string{}
		for _, m := range it.Methods.List {
			switch ty := m.Type.(type) {
			case *ast.FuncType:
				for _, n := range m.Names {
					out[n.Name] = typesOnly(g, ty)
				}
			case *ast.Ident:
				sub, ok := need(ty.Name, seen)
				if !ok {
					return nil, false
				}
				for k, v := range sub {
					out[k] = v
				}
			default:
				return nil, false
			}
		}
		return out, true
	}
	// the case types of needsRefreshToken's type switch, in source order
	fd := g.findFunc("pkg/op/token.go", "needsRefreshToken")
	if fd == nil {
		return fail("needsRefreshToken not found")
	}
	var cases []string
	ast.Inspect(fd.Body, func(n ast.Node) bool {
		if ts, ok := n.(*ast.TypeSwitchStmt); ok {
			for _, c := range ts.Body.List {
				for _, ty := range c.(*ast.CaseClause).List {
					cases = append(cases, exprString(ty))
				}
			}
			return false
		}
		return true
	})
	var sat []string
	for _, c := range cases {
		if strings.HasPrefix(c, "*") || ifaces[c] == nil {
			// a concrete type: satisfied only by that very type
			if strings.TrimPrefix(c, "*") == concrete {
				sat = append(sat, strings.TrimPrefix(c, "*"))
			}
			continue
		}
		req, ok := need(c, map[string]bool{})
		if !ok {
			return fail("interface " + c + " embeds something that is not an interface of pkg/op")
		}
		all := true
		for m, sig := range req {
			if methods[m] != sig {
				all = false
			}
		}
		if all {
			sat = append(sat, c)
		}
	}
	sort.Strings(sat)
	g.facts["tokenExchangeRequest_satisfies"] = sat
	return "/-- the case types of `needsRefreshToken`'s type switch (pkg/op/token.go) that `*op.tokenExchangeRequest` satisfies: its method set\n" +
		"    (names and signatures) contains the interface's.  Case types of the switch, in source order: " + strings.Join(cases, ", ") + " -/\n" +
		"def tokenExchangeRequest_satisfies : List String := " + leanStrList(sat) + "\n"
}
