package main

// C15 (deep): the whole decision chain of the token-exchange grant in its own namespace `GenTE`:
// token resolution per declared type with the role dispatch to the optional verifier storage, construction of the
// exchange request and the storage policy calls, the refresh decision (`needsRefreshToken`'s type switch, `createTokens`)
// and the response.  `Generated/TETypes.lean` says which case types of that type switch *op.tokenExchangeRequest satisfies
// (computed from the method sets), so that the ORDER of the cases matters in the model exactly as it does in Go.

import (
	"go/ast"
	"os"
	"path/filepath"
	"sort"
	"strings"
)

func init() {
	const te = "pkg/op/token_exchange.go"
	zero := map[string]string{"<*ast.MapType>": "(Go.nil : TEClaims)", "*oidc.AccessTokenClaims": "(Go.nil : TEATClaims)"}
	ren := map[string]string{
		"strings.Split()": "TE.split",
		// deep4: the other ways of cutting a string the opaque-token parser could be written with (all list-based, Model/ExchangeTE.lean)
		"strings.LastIndex()": "TE.lastIndex", "strings.Index()": "TE.index", "strings.Cut()": "TE.cut", "strings.SplitN()": "TE.splitN",
		"strings.Count()":                "TE.count",
		"VerifyAccessToken()":            "Hand.teVerifyAccessToken now",
		"VerifyIDTokenHint()":            "Hand.teVerifyIDTokenHint now",
		"unimplementedGrantError()":      "Hand.unimplementedGrantError",
		"AuthorizeTokenExchangeClient()": "Hand.teAuthorizeClient now",
		"CreateAccessToken()":            "Hand.texAsTokenRequest (CreateAccessToken now)",
		"client.AccessTokenType()":       "((((creator).Storage)).ClientAccessTokenType client)",
		"CreateIDToken()":                "Hand.texAsIDTokenRequest (CreateIDToken now)",
		"oidc.TokenExchangeResponse{}":   "ExchangeResp.mk",
	}
	// issuance of the access token itself (deep3): CreateAccessToken / CreateJWT / CreateBearerToken / removeUserinfoScopes
	with := func(extra map[string]string) map[string]string {
		m := map[string]string{}
		for k, v := range ren {
			m[k] = v
		}
		for k, v := range extra {
			m[k] = v
		}
		return m
	}
	issue := map[string]string{
		"oidc.ScopeProfile": "TEConst.ScopeProfile", "oidc.ScopeEmail": "TEConst.ScopeEmail",
		"oidc.ScopeAddress": "TEConst.ScopeAddress", "oidc.ScopePhone": "TEConst.ScopePhone",
		"AccessTokenTypeJWT":          "TEConst.AccessTokenTypeJWT",
		"oidc.NewAccessTokenClaims()": "Hand.teNewAccessTokenClaims now",
		"SignerFromKey()":             "Hand.teSignerFromKey",
		"crypto.Sign()":               "Hand.teSignAT",
		"crypto.Encrypt()":            "(crypto).Encrypt",
	}
	const tok = "pkg/op/token.go"
	// the storage policy receives the request by pointer and may rewrite it (SetSubject, SetCurrentScopes, SetRequestedTokenType)
	outParams["teStorage.ValidateTokenExchangeRequest"] = OutParam{1, true}
	outParams["teStorage.CreateTokenExchangeRequest"] = OutParam{1, true}
	// the getters of *tokenExchangeRequest (what the storage policy and the issuance functions read of the request)
	getter := func(name, ty string) FuncSpec {
		return FuncSpec{File: te, Name: "tokenExchangeRequest." + name, Lean: name, Params: []string{"(r : TEReq)"}, Ret: RetVal, RetType: ty}
	}
	extraGroups = append(extraGroups, []Group{
		{Out: "TETypes.lean", NS: "GenTE", Extra: teMethodSets},
		{Out: "TEGetters.lean", NS: "GenTEGet", Imports: []string{"OidcModel.Model.ExchangeTEReq"}, Opens: []string{"Go"},
			Funcs: []FuncSpec{getter("GetAMR", "List String"), getter("GetAudience", "List String"), getter("GetResourses", "List String"),
				getter("GetAuthTime", "Int"), getter("GetClientID", "String"), getter("GetScopes", "List String"), getter("GetRequestedTokenType", "String"),
				getter("GetExchangeSubject", "String"), getter("GetExchangeSubjectTokenType", "String"), getter("GetExchangeSubjectTokenIDOrToken", "String"),
				getter("GetExchangeActor", "String"), getter("GetExchangeActorTokenType", "String"), getter("GetExchangeActorTokenIDOrToken", "String"),
				getter("GetSubject", "String")}},
		{
			Out:     "TokenExchangeTE.lean",
			NS:      "GenTE",
			Imports: []string{"OidcModel.Model.ExchangeTE"},
			Opens:   []string{"Go", "Hand", "Const", "Gen", "TEScoped"},
			Funcs: []FuncSpec{
				// oidc.TokenType.IsSupported over the regenerated table AllTokenTypes (Generated/Tables.lean)
				{File: "pkg/oidc/token_request.go", Name: "TokenType.IsSupported", Lean: "IsSupported", Params: []string{"(t : String)"}, Ret: RetVal, RetType: "Bool",
					Rename: map[string]string{"AllTokenTypes": "Gen.allTokenTypes"}},
				{File: te, Name: "getTokenIDAndClaims", Lean: "getTokenIDAndClaims",
					Params: []string{"(userinfoProvider : TEProvider)", "(accessToken : String)"}, Ret: RetVal, RetType: "(String × String × TEATClaims × Bool)",
					Rename: ren, ZeroOf: zero, StrSlices: "TE", TupleAssign: true},
				{File: te, Name: "GetTokenIDAndSubjectFromToken", Lean: "GetTokenIDAndSubjectFromToken",
					Params: []string{"(exchanger : TEProvider)", "(token : String)", "(tokenType : String)", "(isActor : Bool)"},
					Ret:    RetVal, RetType: "(String × String × TEClaims × Bool)", Rename: ren, ZeroOf: zero, InitResults: true,
					HardErr: map[string]string{"VerifyIDTokenHint": "TEHint.strict"}, SoftErr: map[string]string{"IDTokenHintExpiredError": "TEHint.claims"}},
				{File: te, Name: "CreateTokenExchangeRequest", Lean: "CreateTokenExchangeRequest",
					Params: []string{"(oidcTokenExchangeRequest : TEIn)", "(client : OPClient)", "(exchanger : TEProvider)"},
					Ret:    RetValErr, RetType: "TEReq", Rename: ren, ZeroOf: zero,
					StructLits: map[string]StructLit{"tokenExchangeRequest{}": {Lean: "TEReq", Keep: []string{
						"exchangeSubjectTokenIDOrToken", "exchangeSubjectTokenType", "exchangeSubject", "exchangeSubjectTokenClaims",
						"exchangeActorTokenIDOrToken", "exchangeActorTokenType", "exchangeActor", "exchangeActorTokenClaims",
						"subject", "resource", "audience", "scopes", "requestedTokenType", "clientID", "authTime"}}}},
				{File: te, Name: "ValidateTokenExchangeRequest", Lean: "ValidateTokenExchangeRequest",
					Params: []string{"(oidcTokenExchangeRequest : TEIn)", "(clientID clientSecret : String)", "(exchanger : TEProvider)"},
					Ret:    RetValErr, RetType: "(TEReq × OPClient)", Rename: ren, ZeroOf: zero, GenMethods: map[string]string{"IsSupported": "IsSupported"}},
				{File: "pkg/op/token.go", Name: "needsRefreshToken", Lean: "needsRefreshToken",
					Params: []string{"(tokenRequest : TEAnyReq)", "(client : OPClient)"}, Ret: RetVal, RetType: "Bool", Rename: ren},
				{File: "pkg/op/token.go", Name: "createTokens", Lean: "createTokens",
					Params: []string{"(tokenRequest : TEAnyReq)", "(storage : TEStore)", "(refreshToken : String)", "(client : OPClient)"},
					Ret:    RetValErr, RetType: "(String × String × Int)", Rename: ren, ZeroOf: zero, InitResults: true},
				// the access token itself: which storage hook supplies the private claims of a JWT access token (the client's
				// methods beyond the registry entry are the storage's: `ClientClockSkew`, `ClientRestrictAdditionalAccessTokenScopes`)
				{File: tok, Name: "removeUserinfoScopes", Lean: "removeUserinfoScopes", Params: []string{"(scopes : List String)"},
					Ret: RetVal, RetType: "List String", Imperative: true, LoopStyle: "state", Rename: issue},
				{File: tok, Name: "CreateJWT", Lean: "CreateJWT",
					Params: []string{"(issuer : String)", "(tokenRequest : TEAnyReq)", "(exp : Int)", "(id : String)", "(client : OPClient)", "(storage : TEStore)"},
					Ret:    RetValErr, RetType: "String", JoinIf: true, LetIf: true, ZeroOf: zero,
					Rename: with(map[string]string{"oidc.NewAccessTokenClaims()": issue["oidc.NewAccessTokenClaims()"], "SignerFromKey()": issue["SignerFromKey()"],
						"crypto.Sign()":      "Hand.teSignAT",
						"client.ClockSkew()": "((storage).ClientClockSkew client)",
						"client.RestrictAdditionalAccessTokenScopes()": "((storage).ClientRestrictAdditionalAccessTokenScopes client)"})},
				// the ID token: which storage hook fills the userinfo (and with it the `act` member)
				{File: tok, Name: "CreateIDToken", Lean: "CreateIDToken",
					Params: []string{"(issuer : String)", "(request : TEAnyReq)", "(validity : Int)", "(accessToken code : String)", "(storage : TEStore)", "(client : OPClient)"},
					Ret:    RetValErr, RetType: "String", JoinIf: true, LetIf: true, ZeroOf: zero,
					LocalOut: map[string]OutParam{"teStorage.SetUserinfoFromTokenExchangeRequest": {1, true}, "storage.SetUserinfoFromScopes": {1, true},
						"fromRequest.SetUserinfoFromRequest": {1, true}},
					Rename: with(map[string]string{"oidc.NewIDTokenClaims()": "Hand.teNewIDTokenClaims now", "new(oidc.UserInfo)": "({} : TEUserInfo)",
						"SignerFromKey()": issue["SignerFromKey()"], "crypto.Sign()": "Hand.teSignID", "oidc.ClaimHash()": "Hand.teClaimHash",
						"client.ClockSkew()":                       "((storage).ClientClockSkew client)",
						"client.RestrictAdditionalIdTokenScopes()": "((storage).ClientRestrictAdditionalIdTokenScopes client)",
						"client.IDTokenUserinfoClaimsAssertion()":  "((storage).ClientIDTokenUserinfoClaimsAssertion client)"})},
				{File: tok, Name: "CreateBearerToken", Lean: "CreateBearerToken",
					Params: []string{"(tokenID subject : String)", "(crypto : TECrypto)"}, Ret: RetValErr, RetType: "String", Rename: issue},
				{File: tok, Name: "CreateAccessToken", Lean: "CreateAccessToken",
					Params: []string{"(tokenRequest : TEAnyReq)", "(accessTokenType : Nat)", "(creator : TEProvider)", "(client : OPClient)", "(refreshToken : String)"},
					Ret:    RetValErr, RetType: "(String × String × Int)", ZeroOf: zero, InitResults: true, LetIf: true,
					Rename: map[string]string{"AccessTokenTypeJWT": issue["AccessTokenTypeJWT"], "client.ClockSkew()": "((((creator).Storage)).ClientClockSkew client)"}},
				{File: te, Name: "CreateTokenExchangeResponse", Lean: "CreateTokenExchangeResponse",
					Params: []string{"(tokenExchangeRequest : TEReq)", "(client : OPClient)", "(creator : TEProvider)"},
					Ret:    RetValErr, RetType: "ExchangeResp", Rename: ren, ZeroOf: zero},
				// the Server router's path to the same two functions
				{File: "pkg/op/op.go", Name: "Provider.GrantTypeTokenExchangeSupported", Lean: "GrantTypeTokenExchangeSupported",
					Params: []string{"(o : TEProvider)"}, Ret: RetVal, RetType: "Bool", Rename: map[string]string{"o.storage": "((o).Storage)"}},
				{File: "pkg/op/server_legacy.go", Name: "LegacyServer.TokenExchange", Lean: "LegacyTokenExchange",
					Params: []string{"(s : TELegacyServer)", "(r : TEClientRequest)"}, Ret: RetValErr, RetType: "ExchangeResp",
					GenMethods: map[string]string{"GrantTypeTokenExchangeSupported": "GrantTypeTokenExchangeSupported"},
					Rename:     with(map[string]string{"NewResponse()": "Hand.teNewResponse"})},
				{File: "pkg/op/server_http.go", Name: "webServer.tokenExchangeHandler", Lean: "tokenExchangeHandler",
					Params: []string{"(s : TEWebServer)", "(r : TEHttpReq)", "(client : OPClient)"}, Ret: RetResp, RetType: "TEHttp",
					DropArgs: []string{"w", "s.getLogger()"}, Writers: map[string]string{"WriteError": "Hand.teWriteError", "resp.writeOut": "TEHttp.ok resp"},
					GenMethods: map[string]string{"IsSupported": "IsSupported"},
					Rename: map[string]string{"decodeRequest()": "Hand.teDecodeRequest", "newClientRequest()": "Hand.teNewClientRequest",
						"s.server.TokenExchange()": "LegacyTokenExchange now (s).server"}},
			},
		},
	}...)
}

// ---- method sets: which interfaces of pkg/op does *tokenExchangeRequest satisfy

// typesOnly renders a function type without parameter names: "(string, []string) (bool)"
func typesOnly(g *genCtx, ft *ast.FuncType) string {
	list := func(fl *ast.FieldList) string {
		if fl == nil {
			return ""
		}
		var out []string
		for _, f := range fl.List {
			n := len(f.Names)
			if n == 0 {
				n = 1
			}
			for i := 0; i < n; i++ {
				out = append(out, goSrc(g.fset, f.Type))
			}
		}
		return strings.Join(out, ", ")
	}
	return "(" + list(ft.Params) + ") (" + list(ft.Results) + ")"
}

func teMethodSets(g *genCtx) string {
	const concrete = "tokenExchangeRequest"
	fail := func(why string) string {
		g.unsup["tokenExchangeRequest_satisfies"] = []string{why}
		return "def tokenExchangeRequest_satisfies : List String := UNSUPPORTED_" + strings.Map(func(r rune) rune {
			if r >= 'a' && r <= 'z' || r >= 'A' && r <= 'Z' {
				return r
			}
			return '_'
		}, why) + "\n"
	}
	ents, err := os.ReadDir(filepath.Join(repoRoot, "pkg/op"))
	if err != nil {
		return fail("pkg/op unreadable")
	}
	ifaces := map[string]*ast.InterfaceType{}
	methods := map[string]string{} // method name of the concrete type -> signature
	for _, e := range ents {
		if e.IsDir() || !strings.HasSuffix(e.Name(), ".go") || strings.HasSuffix(e.Name(), "_test.go") {
			continue
		}
		f := g.file("pkg/op/" + e.Name())
		if f == nil {
			continue
		}
		for _, d := range f.Decls {
			switch x := d.(type) {
			case *ast.GenDecl:
				for _, sp := range x.Specs {
					if ts, ok := sp.(*ast.TypeSpec); ok {
						if it, ok := ts.Type.(*ast.InterfaceType); ok {
							ifaces[ts.Name.Name] = it
						}
					}
				}
			case *ast.FuncDecl:
				if x.Recv != nil && len(x.Recv.List) == 1 && strings.TrimPrefix(exprString(x.Recv.List[0].Type), "*") == concrete {
					methods[x.Name.Name] = typesOnly(g, x.Type)
				}
			}
		}
	}
	if len(methods) == 0 {
		return fail("type " + concrete + " has no methods")
	}
	// required methods of an interface (embedded interfaces of the same package are expanded; anything else is not understood)
	var need func(name string, seen map[string]bool) (map[string]string, bool)
	need = func(name string, seen map[string]bool) (map[string]string, bool) {
		it, ok := ifaces[name]
		if !ok || seen[name] {
			return nil, false
		}
		seen[name] = true
		out := map[string]string{}
		for _, m := range it.Methods.List {
			switch ty := m.Type.(type) {
			case *ast.FuncType:
				for _, n := range m.Names {
					out[n.Name] = typesOnly(g, ty)
				}
			case *ast.Ident:
				sub, ok := need(ty.Name, seen)
				if !ok {
					return nil, false
				}
				for k, v := range sub {
					out[k] = v
				}
			default:
				return nil, false
			}
		}
		return out, true
	}
	// the case types of needsRefreshToken's type switch, in source order
	fd := g.findFunc("pkg/op/token.go", "needsRefreshToken")
	if fd == nil {
		return fail("needsRefreshToken not found")
	}
	var cases []string
	ast.Inspect(fd.Body, func(n ast.Node) bool {
		if ts, ok := n.(*ast.TypeSwitchStmt); ok {
			for _, c := range ts.Body.List {
				for _, ty := range c.(*ast.CaseClause).List {
					cases = append(cases, exprString(ty))
				}
			}
			return false
		}
		return true
	})
	// plus the interfaces `CreateJWT` asserts its token request to (`tokenRequest.(TokenActorRequest)`): not case types of the switch
	checked := append(append([]string{}, cases...), "TokenActorRequest")
	var sat []string
	for _, c := range checked {
		if strings.HasPrefix(c, "*") || ifaces[c] == nil {
			// a concrete type: satisfied only by that very type
			if strings.TrimPrefix(c, "*") == concrete {
				sat = append(sat, strings.TrimPrefix(c, "*"))
			}
			continue
		}
		req, ok := need(c, map[string]bool{})
		if !ok {
			return fail("interface " + c + " embeds something that is not an interface of pkg/op")
		}
		all := true
		for m, sig := range req {
			if methods[m] != sig {
				all = false
			}
		}
		if all {
			sat = append(sat, c)
		}
	}
	sort.Strings(sat)
	g.facts["tokenExchangeRequest_satisfies"] = sat
	// deep5: the WHOLE method set of the request type and EVERY interface of pkg/op it satisfies - not only the ones somebody asserts
	// today: a new optional interface on the request object (a `GetActor()` that hands the claims an actor of the request's own, say)
	// changes these two facts whatever the name of the interface or of the call site is
	var names []string
	for m := range methods {
		names = append(names, m)
	}
	sort.Strings(names)
	var impl, notUnderstood []string
	for name, it := range ifaces {
		if it.Methods == nil || len(it.Methods.List) == 0 {
			continue
		}
		req, ok := need(name, map[string]bool{})
		if !ok {
			notUnderstood = append(notUnderstood, name)
			continue
		}
		all := len(req) > 0
		for m, sig := range req {
			if methods[m] != sig {
				all = false
			}
		}
		if all {
			impl = append(impl, name)
		}
	}
	sort.Strings(impl)
	sort.Strings(notUnderstood)
	g.facts["tokenExchangeRequest_methods"] = names
	g.facts["tokenExchangeRequest_implements"] = impl
	more := "\n/-- deep5: the method set of `*op.tokenExchangeRequest` (every `func (r *tokenExchangeRequest) …` of pkg/op, sorted) -/\n" +
		"def tokenExchangeRequest_methods : List String := " + leanStrList(names) + "\n" +
		"\n/-- deep5: EVERY interface type declared in pkg/op whose methods (names and signatures, embedded interfaces of the package expanded)\n" +
		"    `*op.tokenExchangeRequest` has, sorted.  Not judged (they embed a type that is not an interface of pkg/op): " + strings.Join(notUnderstood, ", ") + " -/\n" +
		"def tokenExchangeRequest_implements : List String := " + leanStrList(impl) + "\n"
	return "/-- the case types of `needsRefreshToken`'s type switch (pkg/op/token.go) that `*op.tokenExchangeRequest` satisfies: its method set\n" +
		"    (names and signatures) contains the interface's.  Case types of the switch, in source order: " + strings.Join(cases, ", ") +
		";\n    also checked: TokenActorRequest (type assertion in `CreateJWT` / `CreateIDToken`) -/\n" +
		"def tokenExchangeRequest_satisfies : List String := " + leanStrList(sat) + "\n" + more
}
