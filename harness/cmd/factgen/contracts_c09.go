package main

// C09, kind W (second part): the result contract between the verifier functions and their callers.
//
//   verifierReturns – for every function that parses a token into one of its NAMED RESULTS (a ParseToken decode site whose
//                     target is a result variable: the generic Verify* functions), every `return value, err` statement:
//                     is the returned value the parsed target or something else (nil / the zero value), what is the error
//                     (nil | plain | typed:T for a composite literal T{…}), and under which check's failure it is reached
//   tolerantCallers – every `v, err := F(…)` whose error test lets an error type through
//                     (`if err != nil && !errors.As(err, &T{}) { return … }`): the caller goes on to use `v` although
//                     F returned an error of type T – with what it does with `v` (nil test? selections, calls it is handed to)
//
// The callers rely on "a return that wraps the error as T hands back usable claims"; the Lean side decides that contract
// on these lists.

import (
	"go/ast"
	"go/token"
	"regexp"
	"strings"
)

type c09VRet struct {
	Fn, Value   string
	IsTarget    bool
	Err         string // nil | plain | typed
	ErrType     string // typed: the name of the composite literal's type
	Check, Cond string
}

type c09Caller struct {
	Fn, Callee, Target, ErrType string
	Guarded                     bool
	Derefs, Passes              int
}

func c09ResultNames(fd *ast.FuncDecl) map[string]bool {
	out := map[string]bool{}
	if fd.Type.Results != nil {
		for _, f := range fd.Type.Results.List {
			for _, n := range f.Names {
				out[n.Name] = true
			}
		}
	}
	return out
}

// firstCallIn: name of the first call in the init / condition of an if statement ("" when there is none)
func c09FirstCall(ifs *ast.IfStmt) string {
	name := ""
	visit := func(n ast.Node) {
		if n == nil || name != "" {
			return
		}
		ast.Inspect(n, func(m ast.Node) bool {
			if c, ok := m.(*ast.CallExpr); ok && name == "" && !ignorableCall(c) {
				name = exprString(c.Fun)
				return false
			}
			return name == ""
		})
	}
	if ifs.Init != nil {
		visit(ifs.Init)
	}
	visit(ifs.Cond)
	return name
}

func c09VerifierReturns(g *genCtx) []c09VRet {
	var out []c09VRet
	for _, dir := range c09Dirs {
		for _, rel := range c09GoFiles(dir) {
			f := g.file(rel)
			if f == nil {
				continue
			}
			for _, d := range f.Decls {
				fd, ok := d.(*ast.FuncDecl)
				if !ok || fd.Body == nil {
					continue
				}
				results := c09ResultNames(fd)
				target := ""
				for _, s := range c09SitesOf(g, rel, fd) {
					if s.Decoder == "ParseToken" && results[s.Target] {
						target = s.Target
					}
				}
				if target == "" {
					continue
				}
				fn := shortPkg(rel) + "." + declName(fd)
				// walk with the stack of enclosing if statements
				var walk func(stmts []ast.Stmt, ifs []*ast.IfStmt)
				walk = func(stmts []ast.Stmt, ifs []*ast.IfStmt) {
					for i, st := range stmts {
						switch v := st.(type) {
						case *ast.ReturnStmt:
							if len(v.Results) != 2 {
								out = append(out, c09VRet{Fn: fn, Value: render(g.fset, v), Err: "plain", Check: "UNSUPPORTED"})
								continue
							}
							r := c09VRet{Fn: fn, Value: render(g.fset, v.Results[0])}
							if id, ok := v.Results[0].(*ast.Ident); ok && id.Name == target {
								r.IsTarget = true
							}
							switch e := v.Results[1].(type) {
							case *ast.Ident:
								if e.Name == "nil" {
									r.Err = "nil"
								} else {
									r.Err = "plain"
								}
							case *ast.CompositeLit:
								r.Err, r.ErrType = "typed", exprString(e.Type)
							default:
								r.Err = "plain"
							}
							var conds []string
							for _, is := range ifs {
								if c := c09FirstCall(is); c != "" && r.Check == "" {
									r.Check = c
									continue
								}
								if _, plain := c09ErrNotNil(is.Cond); !plain {
									conds = append(conds, render(g.fset, is.Cond))
								}
							}
							// `err = F(); if err != nil { return }`: the check is the call of the statement before the if
							if r.Check == "" && len(ifs) > 0 {
								r.Check = c09PrecedingCall(g, fd, ifs[0])
							}
							r.Cond = strings.Join(conds, " && ")
							out = append(out, r)
						case *ast.IfStmt:
							walk(v.Body.List, append(append([]*ast.IfStmt{}, ifs...), v))
							switch e := v.Else.(type) {
							case *ast.BlockStmt:
								walk(e.List, append(append([]*ast.IfStmt{}, ifs...), v))
							case *ast.IfStmt:
								walk([]ast.Stmt{e}, ifs)
							}
						case *ast.BlockStmt:
							walk(v.List, ifs)
						case *ast.ForStmt:
							walk(v.Body.List, ifs)
						case *ast.RangeStmt:
							walk(v.Body.List, ifs)
						case *ast.SwitchStmt:
							for _, c := range v.Body.List {
								if cc, ok := c.(*ast.CaseClause); ok {
									walk(cc.Body, ifs)
								}
							}
						}
						_ = i
					}
				}
				walk(fd.Body.List, nil)
			}
		}
	}
	return out
}

// c09PrecedingCall: the call of the statement directly before `ifs` in its block
func c09PrecedingCall(g *genCtx, fd *ast.FuncDecl, ifs *ast.IfStmt) string {
	name := ""
	ast.Inspect(fd.Body, func(n ast.Node) bool {
		b, ok := n.(*ast.BlockStmt)
		if !ok {
			return true
		}
		for i, st := range b.List {
			if st == ast.Stmt(ifs) && i > 0 {
				for _, c := range outermostCalls(b.List[i-1]) {
					if !ignorableCall(c) {
						name = exprString(c.Fun)
						break
					}
				}
			}
		}
		return true
	})
	return name
}

var c09ErrorsAs = regexp.MustCompile(`!\s*errors\.As\(\s*(\w+)\s*,\s*&([\w\.]+)\{\}\s*\)`)

func c09TolerantCallers(g *genCtx) []c09Caller {
	var out []c09Caller
	for _, dir := range c09Dirs {
		for _, rel := range c09GoFiles(dir) {
			f := g.file(rel)
			if f == nil {
				continue
			}
			for _, d := range f.Decls {
				fd, ok := d.(*ast.FuncDecl)
				if !ok || fd.Body == nil {
					continue
				}
				ast.Inspect(fd.Body, func(n ast.Node) bool {
					b, ok := n.(*ast.BlockStmt)
					if !ok {
						return true
					}
					for i, st := range b.List {
						as, ok := st.(*ast.AssignStmt)
						if !ok || len(as.Lhs) != 2 || len(as.Rhs) != 1 || i+1 >= len(b.List) {
							continue
						}
						call, ok := as.Rhs[0].(*ast.CallExpr)
						if !ok {
							continue
						}
						v, ok1 := as.Lhs[0].(*ast.Ident)
						e, ok2 := as.Lhs[1].(*ast.Ident)
						ifs, ok3 := b.List[i+1].(*ast.IfStmt)
						if !ok1 || !ok2 || !ok3 || v.Name == "_" {
							continue
						}
						m := c09ErrorsAs.FindStringSubmatch(render(g.fset, ifs.Cond))
						if m == nil || m[1] != e.Name {
							continue
						}
						callee := exprString(call.Fun)
						if !strings.Contains(callee, ".") {
							callee = shortPkg(rel) + "." + callee
						}
						c := c09Caller{Fn: shortPkg(rel) + "." + declName(fd), Callee: callee, Target: v.Name, ErrType: m[2]}
						c.Guarded, c.Derefs, c.Passes = c09UsesAfter(g, fd, v.Name, ifs.End())
						out = append(out, c)
					}
					return true
				})
			}
		}
	}
	return out
}

// c09UsesAfter: what happens to variable `name` after position `after`: is every use preceded by a nil test of it,
// how often is a field / method selected on it, how often is it handed to a call
func c09UsesAfter(g *genCtx, fd *ast.FuncDecl, name string, after token.Pos) (guarded bool, derefs, passes int) {
	guardPos, firstUse := token.NoPos, token.NoPos
	inGuard := map[ast.Node]bool{}
	ast.Inspect(fd.Body, func(m ast.Node) bool {
		if v, ok := m.(*ast.IfStmt); ok && v.Pos() >= after {
			txt := render(g.fset, v.Cond)
			if v.Init != nil {
				txt = render(g.fset, v.Init) + "; " + txt
			}
			if c09NilTest(txt, name) {
				if guardPos == token.NoPos || v.Pos() < guardPos {
					guardPos = v.Pos()
				}
				inGuard[v.Cond] = true
			}
		}
		return true
	})
	use := func(p token.Pos) {
		if firstUse == token.NoPos || p < firstUse {
			firstUse = p
		}
	}
	ast.Inspect(fd.Body, func(m ast.Node) bool {
		if m == nil || inGuard[m] || m.End() <= after {
			return false
		}
		switch v := m.(type) {
		case *ast.SelectorExpr:
			if x, ok := v.X.(*ast.Ident); ok && x.Name == name && v.Pos() >= after {
				derefs++
				use(v.Pos())
			}
		case *ast.StarExpr:
			if x, ok := v.X.(*ast.Ident); ok && x.Name == name && v.Pos() >= after {
				derefs++
				use(v.Pos())
			}
		case *ast.CallExpr:
			if v.Pos() >= after && !ignorableCall(v) {
				for _, a := range v.Args {
					if x, ok := a.(*ast.Ident); ok && x.Name == name {
						passes++
						use(v.Pos())
					}
				}
			}
		}
		return true
	})
	guarded = guardPos != token.NoPos && (firstUse == token.NoPos || guardPos < firstUse)
	return
}

// c09ClosureAssigned: local variables declared without a value (`var x T`) whose ONLY assignments sit inside function
// literals, but which are used outside of them: whether they hold a value depends on whether (and which) literal ran.
// (op.Authorize: `var client Client` is set by the default validation closure only - an AuthorizeValidator replaces that
// closure and `client` stays nil.)
func c09ClosureAssigned(g *genCtx) [][2]string {
	var out [][2]string
	for _, rel := range c09GoFiles("pkg/op") {
		f := g.file(rel)
		if f == nil {
			continue
		}
		for _, d := range f.Decls {
			fd, ok := d.(*ast.FuncDecl)
			if !ok || fd.Body == nil {
				continue
			}
			// declarations directly in the function (not inside literals)
			decl := map[string]token.Pos{}
			var lits [][2]token.Pos
			ast.Inspect(fd.Body, func(n ast.Node) bool {
				if fl, ok := n.(*ast.FuncLit); ok {
					lits = append(lits, [2]token.Pos{fl.Pos(), fl.End()})
				}
				return true
			})
			inLit := func(p token.Pos) bool {
				for _, l := range lits {
					if l[0] <= p && p < l[1] {
						return true
					}
				}
				return false
			}
			ast.Inspect(fd.Body, func(n ast.Node) bool {
				if ds, ok := n.(*ast.DeclStmt); ok && !inLit(ds.Pos()) {
					if gd, ok := ds.Decl.(*ast.GenDecl); ok && gd.Tok == token.VAR {
						for _, sp := range gd.Specs {
							if vs, ok := sp.(*ast.ValueSpec); ok && len(vs.Values) == 0 {
								for _, nm := range vs.Names {
									decl[nm.Name] = nm.Pos()
								}
							}
						}
					}
				}
				return true
			})
			for name, dpos := range decl {
				assignedIn, assignedOut, usedOut := 0, 0, 0
				lhs := map[*ast.Ident]bool{}
				ast.Inspect(fd.Body, func(n ast.Node) bool {
					switch v := n.(type) {
					case *ast.AssignStmt:
						for _, l := range v.Lhs {
							if id, ok := l.(*ast.Ident); ok && id.Name == name {
								lhs[id] = true
								if inLit(id.Pos()) {
									assignedIn++
								} else {
									assignedOut++
								}
							}
						}
					case *ast.UnaryExpr:
						if id, ok := v.X.(*ast.Ident); ok && v.Op == token.AND && id.Name == name {
							assignedOut++ // address taken: anything may write it
						}
					}
					return true
				})
				ast.Inspect(fd.Body, func(n ast.Node) bool {
					if id, ok := n.(*ast.Ident); ok && id.Name == name && id.Pos() != dpos && !lhs[id] && !inLit(id.Pos()) {
						usedOut++
					}
					return true
				})
				if assignedIn > 0 && assignedOut == 0 && usedOut > 0 {
					out = append(out, [2]string{shortPkg(rel) + "." + declName(fd), name})
				}
			}
		}
	}
	sortPairs(out)
	return out
}

func sortPairs(xs [][2]string) {
	for i := 1; i < len(xs); i++ {
		for j := i; j > 0 && (xs[j][0] < xs[j-1][0] || (xs[j][0] == xs[j-1][0] && xs[j][1] < xs[j-1][1])); j-- {
			xs[j], xs[j-1] = xs[j-1], xs[j]
		}
	}
}
