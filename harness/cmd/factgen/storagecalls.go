package main

// H/W facts for C10: every call into the pluggable storage made by the files of pkg/op, with
// whether the error it returns is examined before the handler goes on.

import (
	"fmt"
	"go/ast"
	"os"
	"path/filepath"
	"sort"
	"strings"
)

type storageCall struct {
	File, Func, Method string
	Line               int
	Checked            bool
	How                string
}

// methods of op.Storage and the optional storage interfaces (names are unique enough)
var storageMethods = map[string]bool{
	"CreateAuthRequest": true, "AuthRequestByID": true, "AuthRequestByCode": true, "SaveAuthCode": true, "DeleteAuthRequest": true,
	"CreateAccessToken": true, "CreateAccessAndRefreshTokens": true, "TokenRequestByRefreshToken": true, "TerminateSession": true,
	"RevokeToken": true, "GetRefreshTokenInfo": true, "SigningKey": true, "SignatureAlgorithms": true, "KeySet": true,
	"GetClientByClientID": true, "AuthorizeClientIDSecret": true, "SetUserinfoFromScopes": true, "SetUserinfoFromToken": true,
	"SetIntrospectionFromToken": true, "GetPrivateClaimsFromScopes": true, "GetKeyByIDAndClientID": true, "ValidateJWTProfileScopes": true,
	"Health": true, "ClientCredentials": true, "ClientCredentialsTokenRequest": true, "ValidateTokenExchangeRequest": true,
	"CreateTokenExchangeRequest": true, "GetPrivateClaimsFromTokenExchangeRequest": true, "SetUserinfoFromTokenExchangeRequest": true,
	"VerifyExchangeSubjectToken": true, "VerifyExchangeActorToken": true, "StoreDeviceAuthorization": true, "GetDeviceAuthorizatonState": true,
	"TerminateSessionFromRequest": true, "SetUserinfoFromRequest": true, "GetPrivateClaimsFromRequest": true, "JWTProfileTokenType": true,
}

func isStorageCall(c *ast.CallExpr) (string, bool) {
	sel, ok := c.Fun.(*ast.SelectorExpr)
	if !ok || !storageMethods[sel.Sel.Name] {
		return "", false
	}
	recv := strings.ToLower(exprString(sel.X))
	if strings.Contains(recv, "storage") || recv == "fromrequest" || recv == "verifier" || recv == "k.storage" || recv == "s" ||
		(recv == "k" && sel.Sel.Name == "KeySet") { // keys.go: `k KeyProvider` is the storage
		return sel.Sel.Name, true
	}
	return "", false
}

func mentions(e ast.Expr, name string) bool {
	found := false
	ast.Inspect(e, func(n ast.Node) bool {
		if id, ok := n.(*ast.Ident); ok && id.Name == name {
			found = true
		}
		return true
	})
	return found
}

// errCheckedAfter: is the error variable examined by the statement that runs next (the next statement
// of the block, or - at the end of an if/else branch - the statement following the enclosing if)?
func errCheckedAfter(stmts []ast.Stmt, i int, errName string, after ast.Stmt) (bool, string) {
	next := after
	if i+1 < len(stmts) {
		next = stmts[i+1]
	}
	if next == nil {
		return false, "last statement: error never examined"
	}
	switch n := next.(type) {
	case *ast.IfStmt:
		if n.Init == nil && mentions(n.Cond, errName) {
			return true, "examined by the following if"
		}
	case *ast.ReturnStmt:
		if len(n.Results) == 0 {
			return true, "returned (named result)"
		}
		for _, r := range n.Results {
			if mentions(r, errName) {
				return true, "returned"
			}
		}
	}
	return false, "error not examined by the next statement"
}

// exprString2 renders simple binary conditions
func exprString2(e ast.Expr) string {
	switch x := e.(type) {
	case *ast.BinaryExpr:
		return exprString2(x.X) + " " + x.Op.String() + " " + exprString2(x.Y)
	case *ast.ParenExpr:
		return exprString2(x.X)
	case *ast.UnaryExpr:
		return x.Op.String() + exprString2(x.X)
	}
	return exprString(e)
}

func scanBlock(rel, fn string, stmts []ast.Stmt, after ast.Stmt, g *genCtx, out *[]storageCall) {
	for i, st := range stmts {
		follow := after
		if i+1 < len(stmts) {
			follow = stmts[i+1]
		}
		record := func(c *ast.CallExpr, checked bool, how string) {
			if m, ok := isStorageCall(c); ok {
				*out = append(*out, storageCall{File: rel, Func: fn, Method: m, Line: g.fset.Position(c.Pos()).Line, Checked: checked, How: how})
			}
		}
		switch x := st.(type) {
		case *ast.AssignStmt:
			if len(x.Rhs) == 1 {
				if c, ok := x.Rhs[0].(*ast.CallExpr); ok {
					if _, isS := isStorageCall(c); isS {
						last := exprString(x.Lhs[len(x.Lhs)-1])
						if last == "_" {
							record(c, false, "error discarded with _")
						} else {
							ok2, how := errCheckedAfter(stmts, i, last, after)
							record(c, ok2, how)
						}
					}
				}
			}
		case *ast.ExprStmt:
			if c, ok := x.X.(*ast.CallExpr); ok {
				record(c, false, "result discarded")
			}
		case *ast.ReturnStmt:
			for _, r := range x.Results {
				if c, ok := r.(*ast.CallExpr); ok {
					record(c, true, "returned directly")
				}
			}
		case *ast.IfStmt:
			if as, ok := x.Init.(*ast.AssignStmt); ok && len(as.Rhs) == 1 {
				if c, ok := as.Rhs[0].(*ast.CallExpr); ok {
					last := exprString(as.Lhs[len(as.Lhs)-1])
					cond := exprString2(x.Cond)
					record(c, strings.Contains(cond, last+" != nil") || strings.Contains(cond, last+" == nil"), "if-init: "+cond)
				}
			}
			scanBlock(rel, fn, x.Body.List, follow, g, out)
			switch e := x.Else.(type) {
			case *ast.BlockStmt:
				scanBlock(rel, fn, e.List, follow, g, out)
			case *ast.IfStmt:
				scanBlock(rel, fn, []ast.Stmt{e}, follow, g, out)
			}
		case *ast.BlockStmt:
			scanBlock(rel, fn, x.List, follow, g, out)
		case *ast.ForStmt:
			scanBlock(rel, fn, x.Body.List, nil, g, out)
		case *ast.RangeStmt:
			scanBlock(rel, fn, x.Body.List, nil, g, out)
		case *ast.SwitchStmt:
			for _, cc := range x.Body.List {
				scanBlock(rel, fn, cc.(*ast.CaseClause).Body, follow, g, out)
			}
		case *ast.TypeSwitchStmt:
			for _, cc := range x.Body.List {
				scanBlock(rel, fn, cc.(*ast.CaseClause).Body, follow, g, out)
			}
		}
	}
}

func storageCallFacts(g *genCtx) string {
	files, _ := filepath.Glob(filepath.Join(repoRoot, "pkg/op/*.go"))
	sort.Strings(files)
	var calls []storageCall
	for _, f := range files {
		if strings.HasSuffix(f, "_test.go") {
			continue
		}
		if _, err := os.Stat(f); err != nil {
			continue
		}
		rel := relPath(f)
		af := g.file(rel)
		if af == nil {
			continue
		}
		for _, d := range af.Decls {
			fd, ok := d.(*ast.FuncDecl)
			if !ok || fd.Body == nil {
				continue
			}
			name := fd.Name.Name
			if fd.Recv != nil && len(fd.Recv.List) == 1 {
				name = strings.TrimPrefix(exprString(fd.Recv.List[0].Type), "*") + "." + name
			}
			scanBlock(rel, name, fd.Body.List, nil, g, &calls)
			// function literals (closures) inside the body
			ast.Inspect(fd.Body, func(n ast.Node) bool {
				if fl, ok := n.(*ast.FuncLit); ok {
					scanBlock(rel, name+".func", fl.Body.List, nil, g, &calls)
				}
				return true
			})
		}
	}
	var b strings.Builder
	b.WriteString("/-- one call into the pluggable storage made by pkg/op, and whether its error is examined -/\nstructure StorageCall where\n  file : String\n  func : String\n  method : String\n  checked : Bool\n  how : String\n  deriving Repr, DecidableEq\n\n")
	b.WriteString("def storageCalls : List StorageCall := [\n")
	for i, c := range calls {
		sep := ","
		if i == len(calls)-1 {
			sep = ""
		}
		fmt.Fprintf(&b, "  { file := %s, func := %s, method := %s, checked := %v, how := %s }%s\n", leanStr(c.File), leanStr(c.Func), leanStr(c.Method), c.Checked, leanStr(c.How), sep)
	}
	b.WriteString("]\n")
	var un []map[string]any
	for _, c := range calls {
		if !c.Checked {
			un = append(un, map[string]any{"file": c.File, "func": c.Func, "method": c.Method, "line": c.Line, "how": c.How})
		}
	}
	g.facts["storageCalls"] = len(calls)
	g.facts["storageCallsUnchecked"] = un
	return b.String()
}
