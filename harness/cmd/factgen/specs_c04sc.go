package main

// C04 (round 4b): the client-authentication path of the code grant under a provider whose JWTProfileVerifier carries ANY
// subject check (op.SubjectCheck option; the verifier is shared by the jwt-bearer grant and private_key_jwt client
// authentication).  A second model of AuthorizePrivateJWTKey / AuthorizeCodeClient / ValidateAccessTokenRequest /
// LegacyServer.VerifyClient / LegacyServer.CodeExchange over `ScProvider` (Model/C04SC.lean: a Provider plus the subject check
// its verifier was built with), in the namespace `GenSC`; with the default check these are the definitions of
// Generated/TokenEndpoint.lean (C04.sc_*_default: by rfl).  The step theorems of Proofs/C04SC.lean quantify over the check.

func init() {
	extraGroups = append(extraGroups, Group{
		Out:     "TokenEndpointSC.lean",
		NS:      "GenSC",
		Imports: []string{"OidcModel.Model.C04SC", "OidcModel.Generated.TokenEndpoint"},
		Opens:   []string{"Go", "Hand", "Const", "Gen"},
		Funcs: []FuncSpec{
			{File: "pkg/op/token_request.go", Name: "AuthorizePrivateJWTKey", Lean: "AuthorizePrivateJWTKey",
				Params: []string{"(clientAssertion : Token)", "(exchanger : ScProvider)"}, Ret: RetValErr, RetType: "OPClient"},
			{File: "pkg/op/token_code.go", Name: "AuthorizeCodeClient", Lean: "AuthorizeCodeClient",
				Params: []string{"(tokenReq : AccessTokenRequest)", "(exchanger : ScProvider)"}, Ret: RetValErr, RetType: "(AuthReq × OPClient)"},
			{File: "pkg/op/token_code.go", Name: "ValidateAccessTokenRequest", Lean: "ValidateAccessTokenRequest",
				Params: []string{"(tokenReq : AccessTokenRequest)", "(exchanger : ScProvider)"}, Ret: RetValErr, RetType: "(AuthReq × OPClient)"},
			{File: "pkg/op/server_legacy.go", Name: "LegacyServer.VerifyClient", Lean: "LegacyVerifyClient",
				Params: []string{"(s : ScLegacyServer)", "(r : Request ClientCredentials)"}, Ret: RetValErr, RetType: "OPClient"},
			{File: "pkg/op/server_legacy.go", Name: "LegacyServer.CodeExchange", Lean: "LegacyCodeExchange",
				Params: []string{"(s : ScLegacyServer)", "(r : ClientRequest AccessTokenRequest)"}, Ret: RetValErr, RetType: "IssueFor",
				Rename: map[string]string{"CreateTokenResponse()": "Hand.issueForCodeSC now"}},
		},
	})
}
