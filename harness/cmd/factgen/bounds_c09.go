package main

// C09, kind W (third part): slice and index expressions with the length facts that dominate them.
//
//   boundSites – every slice expression `x[a:b]`, `x[:n]`, `x[n:]` and index expression `x[i]` in the library packages
//                (function bodies, function literals) whose operand is not a map and which is not a generic
//                instantiation; the bounds as terms `atom + constant` (atom: `len(v)`, an identifier / qualified
//                constant, or opaque), and the facts that hold on EVERY path reaching the expression:
//                  * an earlier `if cond { … return / continue / break / panic }` in an enclosing block   (¬cond)
//                  * an enclosing `if cond { … }` / its else branch                                        (cond / ¬cond)
//                  * the left operand of a short-circuit `&&` / `||` in the same condition
//                  * `for i := range x`, `for i := 0; i < n; i++`, `for i := len(x) - 1; i >= 0; i--`
//                  * `x := make([]T, n)`, `var x [N]T`, a parameter of array type, `x := "literal"`
//                  * `bytes.HasPrefix / HasSuffix(x, lit)`, `strings.HasPrefix / HasSuffix(x, "lit")`
//                a fact is about named variables and is DROPPED as soon as one of them is assigned, has its address
//                taken or is re-declared; facts do not cross a function literal or a function boundary - a check in
//                the caller, on another variable (the base64 text instead of the decoded bytes), is no fact here.
//   files headed `// Code generated … DO NOT EDIT.` are skipped and listed (boundsSkippedFiles, pinned in Lean).
//
// The meaning of terms and facts, the entailment check and its soundness proof live in Lean
// (Model/C09Bounds.lean, Proofs/C09Bounds.lean); this file only reads syntax.

import (
	"fmt"
	"go/ast"
	"go/token"
	"sort"
	"strconv"
	"strings"
)

type c09BAtom struct {
	Kind string // "" | len | var | opaque
	Name string
}

type c09BTerm struct {
	Atom c09BAtom
	Off  int64
}

type c09BGuard struct {
	Op  string // ge | eq | lt
	Lhs c09BAtom
	Rhs c09BTerm
	Src string
}

type c09BSite struct {
	Fn, Expr, Base, Kind string
	Lo, Hi               c09BTerm
	Guards               []c09BGuard
	// Carried: the variables of the bounds (and the operand) that an ENCLOSING LOOP assigns, with how: inc (only `v++` /
	// `v += k`), dec (only `v--` / `v -= k`), other - the index is loop-carried: what was known about it before the loop
	// says nothing about a later iteration (but for the side a monotone variable cannot move to)
	Carried [][2]string
	Pos     string
}

func (a c09BAtom) lean() string {
	switch a.Kind {
	case "len":
		return ".len " + leanStr(a.Name)
	case "var":
		return ".var " + leanStr(a.Name)
	}
	return ".other " + leanStr(a.Name)
}

func (t c09BTerm) lean() string {
	off := strconv.FormatInt(t.Off, 10)
	if t.Off < 0 {
		off = "(" + off + ")"
	}
	if t.Atom.Kind == "" {
		return "⟨none, " + off + "⟩"
	}
	return "⟨some (" + t.Atom.lean() + "), " + off + "⟩"
}

func (g c09BGuard) lean() string {
	return "⟨." + g.Op + ", " + g.Lhs.lean() + ", " + g.Rhs.lean() + ", " + leanStr(g.Src) + "⟩"
}

// the root identifiers a fact depends on
func (a c09BAtom) roots() []string {
	if a.Kind == "" {
		return nil
	}
	n := a.Name
	for i, c := range n {
		if !(c == '_' || (c >= 'a' && c <= 'z') || (c >= 'A' && c <= 'Z') || (c >= '0' && c <= '9')) {
			n = n[:i]
			break
		}
	}
	return []string{n}
}

func (g c09BGuard) roots() []string { return append(g.Lhs.roots(), g.Rhs.Atom.roots()...) }

type c09BScan struct {
	g          *genCtx
	rel        string
	fn         string
	generic    map[string]bool         // names of generic functions / types (an index expression on them is an instantiation)
	typeName   map[string]bool         // type names of the package, type parameters, predeclared types
	mapType    map[string]bool         // named map types of the package
	mapField   map[string]int          // struct field name -> +1 per map-typed declaration, -1000 per other declaration
	mapVar     map[string]bool         // package-level variables of map type
	commaOkIdx map[*ast.IndexExpr]bool // index expressions in comma-ok form (`v, ok := m[k]`): the operand is a map
	locals     []map[string]ast.Expr
	alias      map[string]ast.Expr // locals defined once as a qualified constant / integer literal and never assigned again
	pkgConst   map[string]int64    // package-level integer constants of the package (`const maxLen = 1024`)
	loops      []map[string]string // enclosing loops of the current function (innermost last): assigned variable -> inc | dec | other
	probe      map[string]*c09Probe
	sites      []c09BSite
	maps       [][2]string
}

var c09StdMapTypes = map[string]bool{"url.Values": true, "http.Header": true, "textproto.MIMEHeader": true}
var c09StdMapFields = map[string]bool{"Header": true, "Form": true, "PostForm": true, "Trailer": true, "ExtraHeaders": true}

// c09AllCalls: every static call edge (caller, callee) among the library's functions, as collected by the last bound-site scan
var c09AllCalls = map[[2]string]bool{}
var c09Predeclared = map[string]bool{"string": true, "int": true, "int8": true, "int16": true, "int32": true, "int64": true, "uint": true, "uint8": true,
	"uint16": true, "uint32": true, "uint64": true, "bool": true, "byte": true, "rune": true, "any": true, "error": true, "float32": true, "float64": true, "uintptr": true, "_": true}

func c09IsGenerated(f *ast.File) bool {
	for _, cg := range f.Comments {
		if cg.Pos() > f.Package {
			break
		}
		for _, c := range cg.List {
			if strings.HasPrefix(c.Text, "// Code generated ") && strings.HasSuffix(c.Text, " DO NOT EDIT.") {
				return true
			}
		}
	}
	return false
}

func (sc *c09BScan) isMapTypeExpr(t ast.Expr) bool {
	switch v := t.(type) {
	case *ast.MapType:
		return true
	case *ast.Ident:
		return sc.mapType[v.Name]
	case *ast.SelectorExpr:
		return c09StdMapTypes[exprString(v)]
	case *ast.ParenExpr:
		return sc.isMapTypeExpr(v.X)
	}
	return false
}

func (sc *c09BScan) localType(name string) (ast.Expr, bool) {
	for i := len(sc.locals) - 1; i >= 0; i-- {
		if t, ok := sc.locals[i][name]; ok {
			return t, true
		}
	}
	return nil, false
}

func (sc *c09BScan) isMapOperand(x ast.Expr) bool {
	switch v := x.(type) {
	case *ast.Ident:
		if t, ok := sc.localType(v.Name); ok {
			return t != nil && sc.isMapTypeExpr(t)
		}
		return sc.mapVar[v.Name]
	case *ast.SelectorExpr:
		if n, ok := sc.mapField[v.Sel.Name]; ok {
			return n > 0
		}
		return c09StdMapFields[v.Sel.Name]
	case *ast.ParenExpr:
		return sc.isMapOperand(v.X)
	case *ast.CompositeLit:
		return v.Type != nil && sc.isMapTypeExpr(v.Type)
	}
	return false
}

func (sc *c09BScan) isTypeExpr(e ast.Expr) bool {
	switch v := e.(type) {
	case *ast.StarExpr, *ast.StructType, *ast.ArrayType, *ast.MapType, *ast.FuncType, *ast.InterfaceType, *ast.ChanType:
		return true
	case *ast.Ident:
		return sc.typeName[v.Name] || c09Predeclared[v.Name]
	}
	return false
}

func lastName(e ast.Expr) string {
	switch v := e.(type) {
	case *ast.Ident:
		return v.Name
	case *ast.SelectorExpr:
		return v.Sel.Name
	}
	return ""
}

// ---- terms ----

func intLit(e ast.Expr) (int64, bool) {
	switch v := e.(type) {
	case *ast.BasicLit:
		if v.Kind == token.INT {
			n, err := strconv.ParseInt(v.Value, 0, 64)
			return n, err == nil
		}
	case *ast.ParenExpr:
		return intLit(v.X)
	}
	return 0, false
}

func (sc *c09BScan) term(e ast.Expr) c09BTerm {
	if n, ok := intLit(e); ok {
		return c09BTerm{Off: n}
	}
	switch v := e.(type) {
	case *ast.ParenExpr:
		return sc.term(v.X)
	case *ast.Ident:
		if a, ok := sc.alias[v.Name]; ok {
			return sc.term(a)
		}
		if _, local := sc.localType(v.Name); !local {
			if n, ok := sc.pkgConst[v.Name]; ok {
				return c09BTerm{Off: n}
			}
		}
		return c09BTerm{Atom: c09BAtom{"var", v.Name}}
	case *ast.SelectorExpr:
		if x, ok := v.X.(*ast.Ident); ok {
			return c09BTerm{Atom: c09BAtom{"var", x.Name + "." + v.Sel.Name}}
		}
	case *ast.CallExpr:
		if id, ok := v.Fun.(*ast.Ident); ok && id.Name == "len" && len(v.Args) == 1 {
			return c09BTerm{Atom: c09BAtom{"len", render(sc.g.fset, v.Args[0])}}
		}
	case *ast.BinaryExpr:
		if v.Op == token.ADD || v.Op == token.SUB {
			if k, ok := intLit(v.Y); ok {
				t := sc.term(v.X)
				if t.Atom.Kind != "opaque" {
					if v.Op == token.SUB {
						k = -k
					}
					t.Off += k
					return t
				}
			} else if k, ok := intLit(v.X); ok && v.Op == token.ADD {
				t := sc.term(v.Y)
				if t.Atom.Kind != "opaque" {
					t.Off += k
					return t
				}
			}
		}
	}
	return c09BTerm{Atom: c09BAtom{"opaque", render(sc.g.fset, e)}}
}

// the length of a literal operand: "abc", []byte{'a'}, []byte("abc")
func litLen(e ast.Expr) (int64, bool) {
	switch v := e.(type) {
	case *ast.BasicLit:
		if v.Kind == token.STRING {
			s, err := strconv.Unquote(v.Value)
			return int64(len(s)), err == nil
		}
	case *ast.CompositeLit:
		if _, ok := v.Type.(*ast.ArrayType); ok {
			for _, el := range v.Elts {
				if _, kv := el.(*ast.KeyValueExpr); kv {
					return 0, false
				}
			}
			return int64(len(v.Elts)), true
		}
	case *ast.CallExpr:
		if at, ok := v.Fun.(*ast.ArrayType); ok && at.Len == nil && len(v.Args) == 1 {
			return litLen(v.Args[0])
		}
	}
	return 0, false
}

// ---- facts of a condition ----

func flipOp(op token.Token) token.Token {
	switch op {
	case token.LSS:
		return token.GTR
	case token.LEQ:
		return token.GEQ
	case token.GTR:
		return token.LSS
	case token.GEQ:
		return token.LEQ
	}
	return op
}

func negOp(op token.Token) token.Token {
	switch op {
	case token.LSS:
		return token.GEQ
	case token.LEQ:
		return token.GTR
	case token.GTR:
		return token.LEQ
	case token.GEQ:
		return token.LSS
	case token.EQL:
		return token.NEQ
	case token.NEQ:
		return token.EQL
	}
	return op
}

func (sc *c09BScan) condFacts(e ast.Expr, pol bool) []c09BGuard {
	switch v := e.(type) {
	case *ast.ParenExpr:
		return sc.condFacts(v.X, pol)
	case *ast.UnaryExpr:
		if v.Op == token.NOT {
			return sc.condFacts(v.X, !pol)
		}
	case *ast.CallExpr:
		if !pol || len(v.Args) != 2 {
			return nil
		}
		switch exprString(v.Fun) {
		case "bytes.HasPrefix", "bytes.HasSuffix", "strings.HasPrefix", "strings.HasSuffix":
			if n, ok := litLen(v.Args[1]); ok {
				if _, simple := v.Args[0].(*ast.Ident); simple {
					return []c09BGuard{{Op: "ge", Lhs: c09BAtom{"len", render(sc.g.fset, v.Args[0])}, Rhs: c09BTerm{Off: n}, Src: render(sc.g.fset, e)}}
				}
			}
		}
	case *ast.BinaryExpr:
		switch v.Op {
		case token.LAND:
			if pol {
				return append(sc.condFacts(v.X, true), sc.condFacts(v.Y, true)...)
			}
			return nil
		case token.LOR:
			if !pol {
				return append(sc.condFacts(v.X, false), sc.condFacts(v.Y, false)...)
			}
			return nil
		case token.LSS, token.LEQ, token.GTR, token.GEQ, token.EQL, token.NEQ:
			l, r, op := sc.term(v.X), sc.term(v.Y), v.Op
			if !(l.Atom.Kind == "len" || l.Atom.Kind == "var") || l.Off != 0 {
				if (r.Atom.Kind == "len" || r.Atom.Kind == "var") && r.Off == 0 {
					l, r, op = r, l, flipOp(op)
				} else {
					return nil
				}
			}
			if r.Atom.Kind == "opaque" {
				return nil
			}
			if !pol {
				op = negOp(op)
			}
			src := render(sc.g.fset, e)
			if !pol {
				src = "!(" + src + ")"
			}
			switch op {
			case token.GEQ:
				return []c09BGuard{{Op: "ge", Lhs: l.Atom, Rhs: r, Src: src}}
			case token.GTR:
				r.Off++
				return []c09BGuard{{Op: "ge", Lhs: l.Atom, Rhs: r, Src: src}}
			case token.EQL:
				return []c09BGuard{{Op: "eq", Lhs: l.Atom, Rhs: r, Src: src}}
			case token.LSS:
				return []c09BGuard{{Op: "lt", Lhs: l.Atom, Rhs: r, Src: src}}
			case token.LEQ:
				r.Off++
				return []c09BGuard{{Op: "lt", Lhs: l.Atom, Rhs: r, Src: src}}
			case token.NEQ:
				// a length that is not 0 is at least 1
				if l.Atom.Kind == "len" && r.Atom.Kind == "" && r.Off == 0 {
					return []c09BGuard{{Op: "ge", Lhs: l.Atom, Rhs: c09BTerm{Off: 1}, Src: src}}
				}
			}
		}
	}
	return nil
}

// ---- assignments (what drops a fact) ----

func rootIdent(e ast.Expr) string {
	switch v := e.(type) {
	case *ast.Ident:
		return v.Name
	case *ast.SelectorExpr:
		return rootIdent(v.X)
	case *ast.IndexExpr:
		return "" // an element assignment does not change the length
	case *ast.StarExpr:
		return rootIdent(v.X)
	case *ast.ParenExpr:
		return rootIdent(v.X)
	}
	return ""
}

func assignedIn(n ast.Node) map[string]bool {
	out := map[string]bool{}
	if n == nil {
		return out
	}
	ast.Inspect(n, func(m ast.Node) bool {
		switch v := m.(type) {
		case *ast.AssignStmt:
			for _, l := range v.Lhs {
				if r := rootIdent(l); r != "" {
					out[r] = true
				}
			}
		case *ast.IncDecStmt:
			if r := rootIdent(v.X); r != "" {
				out[r] = true
			}
		case *ast.RangeStmt:
			for _, e := range []ast.Expr{v.Key, v.Value} {
				if e != nil {
					if r := rootIdent(e); r != "" {
						out[r] = true
					}
				}
			}
		case *ast.UnaryExpr:
			if v.Op == token.AND {
				if r := rootIdent(v.X); r != "" {
					out[r] = true
				}
			}
		case *ast.ValueSpec:
			for _, nm := range v.Names {
				out[nm.Name] = true
			}
		}
		return true
	})
	return out
}

func kill(facts []c09BGuard, assigned map[string]bool) []c09BGuard {
	if len(assigned) == 0 {
		return facts
	}
	var out []c09BGuard
	for _, f := range facts {
		dead := false
		for _, r := range f.roots() {
			if assigned[r] {
				dead = true
			}
		}
		if !dead {
			out = append(out, f)
		}
	}
	return out
}

func terminates(b *ast.BlockStmt) bool {
	if b == nil || len(b.List) == 0 {
		return false
	}
	switch v := b.List[len(b.List)-1].(type) {
	case *ast.ReturnStmt:
		return true
	case *ast.BranchStmt:
		return v.Tok == token.BREAK || v.Tok == token.CONTINUE || v.Tok == token.GOTO
	case *ast.ExprStmt:
		if c, ok := v.X.(*ast.CallExpr); ok {
			switch exprString(c.Fun) {
			case "panic", "os.Exit", "log.Fatal", "log.Fatalf", "log.Fatalln":
				return true
			}
		}
	}
	return false
}

// ---- loops ----

// c09Probe: is `v >= c` an invariant of the loop under inspection?  It holds on entry; every decrement of v inside
// the loop must be dominated by a fact `v >= c + k` (k the step).  Checked in a dry run over the loop.
type c09Probe struct {
	c  int64
	ok bool
}

// stepOf: `v++`, `v--`, `v += k`, `v -= k` (k a positive integer literal) on a plain identifier: (v, signed step)
func stepOf(st ast.Node) (string, int64, bool) {
	switch v := st.(type) {
	case *ast.IncDecStmt:
		if id, ok := v.X.(*ast.Ident); ok {
			if v.Tok == token.INC {
				return id.Name, 1, true
			}
			return id.Name, -1, true
		}
	case *ast.AssignStmt:
		if (v.Tok == token.ADD_ASSIGN || v.Tok == token.SUB_ASSIGN) && len(v.Lhs) == 1 && len(v.Rhs) == 1 {
			if id, ok := v.Lhs[0].(*ast.Ident); ok {
				if k, ok := intLit(v.Rhs[0]); ok && k > 0 {
					if v.Tok == token.SUB_ASSIGN {
						k = -k
					}
					return id.Name, k, true
				}
			}
		}
	}
	return "", 0, false
}

// assignDirs: every variable the nodes assign, with the direction it can move: inc | dec | other
func assignDirs(nodes ...ast.Node) map[string]string {
	out := map[string]string{}
	note := func(r, d string) {
		if r == "" {
			return
		}
		if old, ok := out[r]; ok && old != d {
			d = "other"
		}
		out[r] = d
	}
	for _, n := range nodes {
		ast.Inspect(n, func(m ast.Node) bool {
			switch v := m.(type) {
			case *ast.FuncLit:
				for r := range assignedIn(v) {
					note(r, "other")
				}
				return false
			case *ast.IncDecStmt, *ast.AssignStmt:
				if name, k, ok := stepOf(v); ok {
					if k > 0 {
						note(name, "inc")
					} else {
						note(name, "dec")
					}
					return true
				}
				for r := range assignedIn(v) {
					note(r, "other")
				}
			case *ast.RangeStmt:
				for _, e := range []ast.Expr{v.Key, v.Value} {
					if e != nil {
						note(rootIdent(e), "other")
					}
				}
			case *ast.UnaryExpr:
				if v.Op == token.AND {
					note(rootIdent(v.X), "other")
				}
			case *ast.ValueSpec:
				for _, nm := range v.Names {
					note(nm.Name, "other")
				}
			}
			return true
		})
	}
	return out
}

func hasRoot(a c09BAtom, set map[string]string) bool {
	for _, r := range a.roots() {
		if _, ok := set[r]; ok {
			return true
		}
	}
	return false
}

// weaken: what survives of the facts known before a loop at every later point in and after it.  A fact about
// variables the loop does not assign survives unchanged.  A fact `v OP t` (t not assigned) about a variable that only
// moves DOWN keeps its upper-bound half (`v < t`; `v = t` becomes `v < t+1`), about one that only moves UP its
// lower-bound half; likewise `x OP v+k` with v on the right.  Everything else is dropped.
func weaken(facts []c09BGuard, dirs map[string]string) []c09BGuard {
	if len(dirs) == 0 {
		return facts
	}
	word := map[string]string{"inc": "up", "dec": "down"}
	var out []c09BGuard
	for _, f := range facts {
		lhsHit, rhsHit := hasRoot(f.Lhs, dirs), hasRoot(f.Rhs.Atom, dirs)
		switch {
		case !lhsHit && !rhsHit:
			out = append(out, f)
		case lhsHit && !rhsHit && f.Lhs.Kind == "var":
			d := dirs[f.Lhs.Name]
			g := f
			g.Src = "(loop-carried: " + f.Lhs.Name + " only moves " + word[d] + ") " + f.Src
			switch {
			case d == "dec" && f.Op == "lt":
				out = append(out, g)
			case d == "dec" && f.Op == "eq":
				g.Op = "lt"
				g.Rhs.Off++
				out = append(out, g)
			case d == "inc" && f.Op == "ge":
				out = append(out, g)
			case d == "inc" && f.Op == "eq":
				g.Op = "ge"
				out = append(out, g)
			}
		case !lhsHit && rhsHit && f.Rhs.Atom.Kind == "var":
			d := dirs[f.Rhs.Atom.Name]
			g := f
			g.Src = "(loop-carried: " + f.Rhs.Atom.Name + " only moves " + word[d] + ") " + f.Src
			switch {
			case d == "dec" && (f.Op == "ge" || f.Op == "eq"):
				g.Op = "ge"
				out = append(out, g)
			case d == "inc" && f.Op == "lt":
				out = append(out, g)
			case d == "inc" && f.Op == "eq":
				g.Op = "lt"
				g.Rhs.Off++
				out = append(out, g)
			}
		}
	}
	return out
}

// constLower: the best constant lower bound the facts give for variable v
func constLower(facts []c09BGuard, v string) (int64, bool) {
	best, ok := int64(0), false
	for _, f := range facts {
		if f.Lhs.Kind == "var" && f.Lhs.Name == v && f.Rhs.Atom.Kind == "" && (f.Op == "ge" || f.Op == "eq") {
			if !ok || f.Rhs.Off > best {
				best, ok = f.Rhs.Off, true
			}
		}
	}
	return best, ok
}

// loopInvariants: for every variable the loop only moves DOWN and that is known to be >= 0 before it: is `v >= 0`
// preserved, i.e. is every decrement inside the loop dominated by `v >= step`?  (dry run; sites found in it are discarded)
func (sc *c09BScan) loopInvariants(entry []c09BGuard, dirs map[string]string, walk func([]c09BGuard)) []c09BGuard {
	var cands []string
	for name, d := range dirs {
		if d != "dec" {
			continue
		}
		if c, ok := constLower(entry, name); ok && c >= 0 {
			cands = append(cands, name)
		}
	}
	if len(cands) == 0 || sc.probe != nil {
		return nil
	}
	sort.Strings(cands)
	sc.probe = map[string]*c09Probe{}
	for _, name := range cands {
		sc.probe[name] = &c09Probe{c: 0, ok: true}
	}
	nSites, nMaps := len(sc.sites), len(sc.maps)
	walk(weaken(entry, dirs))
	sc.sites, sc.maps = sc.sites[:nSites], sc.maps[:nMaps]
	var out []c09BGuard
	for _, name := range cands {
		if sc.probe[name].ok {
			out = append(out, c09BGuard{Op: "ge", Lhs: c09BAtom{"var", name}, Rhs: c09BTerm{},
				Src: "(loop invariant: " + name + " >= 0 before the loop, every decrement inside it under " + name + " >= its step)"})
		}
	}
	sc.probe = nil
	return out
}

// ---- declarations that carry a length ----

func (sc *c09BScan) declFacts(name string, rhs ast.Expr, typ ast.Expr) []c09BGuard {
	lhs := c09BAtom{"len", name}
	if typ != nil {
		if at, ok := typ.(*ast.ArrayType); ok && at.Len != nil {
			if n, ok := intLit(at.Len); ok {
				return []c09BGuard{{Op: "eq", Lhs: lhs, Rhs: c09BTerm{Off: n}, Src: name + " " + render(sc.g.fset, typ)}}
			}
		}
	}
	if rhs == nil {
		return nil
	}
	if c, ok := rhs.(*ast.CallExpr); ok {
		if id, ok := c.Fun.(*ast.Ident); ok && id.Name == "make" && len(c.Args) >= 2 {
			if _, isSlice := c.Args[0].(*ast.ArrayType); isSlice {
				t := sc.term(c.Args[1])
				if t.Atom.Kind != "opaque" {
					return []c09BGuard{{Op: "eq", Lhs: lhs, Rhs: t, Src: name + " := " + render(sc.g.fset, rhs)}}
				}
				// make([]T, a+len(y)) / make([]T, len(y)+a): at least `a` long, a length is never negative
				if be, ok := c.Args[1].(*ast.BinaryExpr); ok && be.Op == token.ADD {
					for _, pr := range [][2]ast.Expr{{be.X, be.Y}, {be.Y, be.X}} {
						if o := sc.term(pr[1]); o.Atom.Kind == "len" && o.Off >= 0 {
							if a := sc.term(pr[0]); a.Atom.Kind != "opaque" {
								return []c09BGuard{{Op: "ge", Lhs: lhs, Rhs: a, Src: name + " := " + render(sc.g.fset, rhs)}}
							}
						}
					}
				}
			}
		}
	}
	if n, ok := litLen(rhs); ok {
		return []c09BGuard{{Op: "eq", Lhs: lhs, Rhs: c09BTerm{Off: n}, Src: name + " := " + render(sc.g.fset, rhs)}}
	}
	return nil
}

func (sc *c09BScan) noteLocal(name string, typ ast.Expr) {
	if name == "_" || len(sc.locals) == 0 {
		return
	}
	sc.locals[len(sc.locals)-1][name] = typ
}

// the declared type of the value of an initialiser, as far as syntax shows it (nil = unknown)
func initType(rhs ast.Expr) ast.Expr {
	switch v := rhs.(type) {
	case *ast.CompositeLit:
		return v.Type
	case *ast.CallExpr:
		if id, ok := v.Fun.(*ast.Ident); ok && id.Name == "make" && len(v.Args) >= 1 {
			return v.Args[0]
		}
		// a conversion to a named / literal type
		switch f := v.Fun.(type) {
		case *ast.ArrayType, *ast.MapType:
			return f
		}
	case *ast.UnaryExpr:
		if v.Op == token.AND {
			return nil
		}
	}
	return nil
}

// ---- the walk ----

func (sc *c09BScan) site(e ast.Expr, facts []c09BGuard) {
	s := c09BSite{Fn: sc.fn, Expr: render(sc.g.fset, e), Pos: sc.g.fset.Position(e.Pos()).String()}
	switch v := e.(type) {
	case *ast.IndexExpr:
		s.Kind, s.Base = "index", render(sc.g.fset, v.X)
		s.Lo = sc.term(v.Index)
		s.Hi = s.Lo
		if s.Hi.Atom.Kind != "opaque" {
			s.Hi.Off++
		}
	case *ast.SliceExpr:
		s.Kind, s.Base = "slice", render(sc.g.fset, v.X)
		if v.Low != nil {
			s.Lo = sc.term(v.Low)
		}
		s.Hi = c09BTerm{Atom: c09BAtom{"len", s.Base}}
		if v.High != nil {
			s.Hi = sc.term(v.High)
		}
		if v.Max != nil {
			// x[lo:hi:max] needs 0 <= lo <= hi <= max <= cap(x); recorded as TWO sites, lo <= hi <= len(x) and
			// hi <= max <= len(x) (len(x) <= cap(x): sufficient, not necessary)
			s2 := s
			s2.Expr += " (max)"
			s2.Lo, s2.Hi = s.Hi, sc.term(v.Max)
			sc.finishSite(s2, facts)
		}
	}
	sc.finishSite(s, facts)
}

func (sc *c09BScan) finishSite(s c09BSite, facts []c09BGuard) {
	// loop-carried quantities of this access
	seen := map[string]bool{}
	for _, a := range []c09BAtom{s.Lo.Atom, s.Hi.Atom, {"len", s.Base}} {
		for _, r := range a.roots() {
			if seen[r] {
				continue
			}
			for i := len(sc.loops) - 1; i >= 0; i-- {
				if d, ok := sc.loops[i][r]; ok {
					seen[r] = true
					s.Carried = append(s.Carried, [2]string{r, d})
					break
				}
			}
		}
	}
	// keep the facts that can matter: about the operand's length or about a quantity of the bounds
	want := map[string]bool{}
	for _, r := range (c09BAtom{"len", s.Base}).roots() {
		want[r] = true
	}
	for _, t := range []c09BTerm{s.Lo, s.Hi} {
		for _, r := range t.Atom.roots() {
			want[r] = true
		}
	}
	// one step of indirection: `i < len(y)` and `len(x) = len(y)`
	for pass := 0; pass < 2; pass++ {
		for _, f := range facts {
			rs := f.roots()
			hit := false
			for _, r := range rs {
				if want[r] {
					hit = true
				}
			}
			if hit {
				for _, r := range rs {
					want[r] = true
				}
			}
		}
	}
	for _, f := range facts {
		for _, r := range f.roots() {
			if want[r] {
				s.Guards = append(s.Guards, f)
				break
			}
		}
	}
	sc.sites = append(sc.sites, s)
}

func (sc *c09BScan) expr(e ast.Node, facts []c09BGuard) {
	if e == nil {
		return
	}
	ast.Inspect(e, func(n ast.Node) bool {
		switch v := n.(type) {
		case *ast.BinaryExpr:
			if v.Op == token.LAND || v.Op == token.LOR {
				sc.expr(v.X, facts)
				sc.expr(v.Y, append(append([]c09BGuard{}, facts...), sc.condFacts(v.X, v.Op == token.LAND)...))
				return false
			}
		case *ast.FuncLit:
			sc.funcBody(v.Type, v.Body, nil)
			return false
		case *ast.IndexExpr:
			if sc.generic[lastName(v.X)] || sc.isTypeExpr(v.Index) {
				return false // an instantiation F[T]
			}
			if sc.isMapOperand(v.X) || sc.commaOkIdx[v] || isStringLit(v.Index) {
				// (`v, ok := m[k]` and an index that is a string literal exist for maps only)
				sc.maps = append(sc.maps, [2]string{sc.fn, render(sc.g.fset, v)})
				return true
			}
			sc.site(v, facts)
		case *ast.IndexListExpr:
			return false
		case *ast.SliceExpr:
			sc.site(v, facts)
		case *ast.CompositeLit:
			// the type of a composite literal is no expression
			for _, el := range v.Elts {
				sc.expr(el, facts)
			}
			return false
		case *ast.ValueSpec:
			for _, val := range v.Values {
				sc.expr(val, facts)
			}
			return false
		case *ast.ArrayType, *ast.MapType, *ast.FuncType, *ast.StructType, *ast.InterfaceType, *ast.ChanType:
			return false
		}
		return true
	})
}

func (sc *c09BScan) block(stmts []ast.Stmt, facts []c09BGuard) {
	sc.locals = append(sc.locals, map[string]ast.Expr{})
	defer func() { sc.locals = sc.locals[:len(sc.locals)-1] }()
	sc.stmts(stmts, facts)
}

// stmts walks a statement list; returns nothing, `facts` is updated statement by statement
func (sc *c09BScan) stmts(stmts []ast.Stmt, facts []c09BGuard) {
	facts = append([]c09BGuard{}, facts...)
	for _, st := range stmts {
		facts = sc.stmt(st, facts)
	}
}

func (sc *c09BScan) declare(st ast.Stmt) []c09BGuard {
	var out []c09BGuard
	switch v := st.(type) {
	case *ast.AssignStmt:
		if len(v.Lhs) == len(v.Rhs) {
			for i, l := range v.Lhs {
				if id, ok := l.(*ast.Ident); ok {
					if v.Tok == token.DEFINE {
						sc.noteLocal(id.Name, initType(v.Rhs[i]))
					}
					out = append(out, sc.declFacts(id.Name, v.Rhs[i], nil)...)
					// `v := term` / `v = term`: the variable has the value of the term (until one of them is assigned)
					if v.Tok == token.DEFINE || v.Tok == token.ASSIGN {
						if _, isAlias := sc.alias[id.Name]; !isAlias && id.Name != "_" {
							t := sc.term(v.Rhs[i])
							self := false
							for _, r := range t.Atom.roots() {
								if r == id.Name {
									self = true
								}
							}
							if t.Atom.Kind != "opaque" && !self {
								out = append(out, c09BGuard{Op: "eq", Lhs: c09BAtom{"var", id.Name}, Rhs: t, Src: render(sc.g.fset, st)})
							}
						}
					}
				}
			}
		} else if v.Tok == token.DEFINE {
			for _, l := range v.Lhs {
				if id, ok := l.(*ast.Ident); ok {
					sc.noteLocal(id.Name, nil)
				}
			}
		}
	case *ast.DeclStmt:
		if gd, ok := v.Decl.(*ast.GenDecl); ok && gd.Tok == token.VAR {
			for _, sp := range gd.Specs {
				vs, ok := sp.(*ast.ValueSpec)
				if !ok {
					continue
				}
				for i, nm := range vs.Names {
					var rhs ast.Expr
					if i < len(vs.Values) && len(vs.Values) == len(vs.Names) {
						rhs = vs.Values[i]
					}
					t := vs.Type
					if t == nil && rhs != nil {
						t = initType(rhs)
					}
					sc.noteLocal(nm.Name, t)
					out = append(out, sc.declFacts(nm.Name, rhs, vs.Type)...)
				}
			}
		}
	}
	return out
}

func (sc *c09BScan) stmt(st ast.Stmt, facts []c09BGuard) []c09BGuard {
	switch v := st.(type) {
	case nil:
		return facts
	case *ast.BlockStmt:
		sc.block(v.List, facts)
		return kill(facts, assignedIn(v))
	case *ast.LabeledStmt:
		return sc.stmt(v.Stmt, facts)
	case *ast.IfStmt:
		sc.locals = append(sc.locals, map[string]ast.Expr{})
		inner := facts
		if v.Init != nil {
			inner = sc.stmt(v.Init, inner)
		}
		sc.expr(v.Cond, inner)
		sc.block(v.Body.List, append(append([]c09BGuard{}, inner...), sc.condFacts(v.Cond, true)...))
		elseTerm := false
		switch e := v.Else.(type) {
		case *ast.BlockStmt:
			sc.block(e.List, append(append([]c09BGuard{}, inner...), sc.condFacts(v.Cond, false)...))
			elseTerm = terminates(e)
		case *ast.IfStmt:
			sc.stmt(e, append(append([]c09BGuard{}, inner...), sc.condFacts(v.Cond, false)...))
		}
		sc.locals = sc.locals[:len(sc.locals)-1]
		// after the statement: what was known before it minus everything assigned anywhere in it; plus, when one branch
		// never falls through, the condition's facts of the other one (not about variables of the init statement)
		base := kill(facts, assignedIn(v))
		if terminates(v.Body) && v.Else == nil {
			return append(base, kill(sc.condFacts(v.Cond, false), assignedIn(v.Init))...)
		}
		if elseTerm && !terminates(v.Body) {
			return append(base, kill(sc.condFacts(v.Cond, true), assignedIn(v.Body))...)
		}
		return base
	case *ast.ForStmt:
		sc.locals = append(sc.locals, map[string]ast.Expr{})
		inner := facts
		if v.Init != nil {
			inner = sc.stmt(v.Init, inner)
		}
		var loopNodes []ast.Node
		if v.Cond != nil {
			loopNodes = append(loopNodes, v.Cond)
		}
		loopNodes = append(loopNodes, v.Body)
		if v.Post != nil {
			loopNodes = append(loopNodes, v.Post)
		}
		dirs := assignDirs(loopNodes...)
		bodyAssigned := assignedIn(v.Body)
		walk := func(entry []c09BGuard) {
			sc.loops = append(sc.loops, dirs)
			sc.expr(v.Cond, entry)
			bodyFacts := append([]c09BGuard{}, entry...)
			if v.Cond != nil {
				bodyFacts = append(bodyFacts, sc.condFacts(v.Cond, true)...)
			}
			bodyFacts = append(bodyFacts, sc.loopFacts(v, bodyAssigned)...)
			sc.block(v.Body.List, bodyFacts)
			if v.Post != nil {
				sc.stmt(v.Post, bodyFacts)
			}
			sc.loops = sc.loops[:len(sc.loops)-1]
		}
		// what was known before the loop survives only as far as the loop cannot move it (see weaken); plus `v >= 0` for
		// a variable that only moves down under a guard
		inv := sc.loopInvariants(inner, dirs, walk)
		walk(append(weaken(inner, dirs), inv...))
		sc.locals = sc.locals[:len(sc.locals)-1]
		initAssigned := assignedIn(v.Init)
		after := weaken(kill(facts, initAssigned), dirs)
		for _, g := range inv {
			if !initAssigned[g.Lhs.Name] {
				after = append(after, g)
			}
		}
		return after
	case *ast.RangeStmt:
		sc.expr(v.X, facts)
		sc.locals = append(sc.locals, map[string]ast.Expr{})
		bodyAssigned := assignedIn(v.Body)
		inner := kill(facts, bodyAssigned)
		if v.Tok == token.DEFINE {
			for _, e := range []ast.Expr{v.Key, v.Value} {
				if id, ok := e.(*ast.Ident); ok {
					sc.noteLocal(id.Name, nil)
					inner = kill(inner, map[string]bool{id.Name: true})
				}
			}
		}
		if key, ok := v.Key.(*ast.Ident); ok && key.Name != "_" && !bodyAssigned[key.Name] {
			x := render(sc.g.fset, v.X)
			if r := rootIdent(v.X); r != "" && !bodyAssigned[r] && !sc.isMapOperand(v.X) {
				src := "for " + key.Name + " := range " + x
				inner = append(inner, c09BGuard{Op: "lt", Lhs: c09BAtom{"var", key.Name}, Rhs: c09BTerm{Atom: c09BAtom{"len", x}}, Src: src},
					c09BGuard{Op: "ge", Lhs: c09BAtom{"var", key.Name}, Rhs: c09BTerm{}, Src: src})
			}
		}
		rdirs := assignDirs(v.Body)
		for _, e := range []ast.Expr{v.Key, v.Value} {
			if id, ok := e.(*ast.Ident); ok && id.Name != "_" {
				rdirs[id.Name] = "other" // bound anew in every iteration
			}
		}
		sc.loops = append(sc.loops, rdirs)
		sc.block(v.Body.List, inner)
		sc.loops = sc.loops[:len(sc.loops)-1]
		sc.locals = sc.locals[:len(sc.locals)-1]
		return kill(facts, assignedIn(v))
	case *ast.SwitchStmt:
		sc.locals = append(sc.locals, map[string]ast.Expr{})
		inner := facts
		if v.Init != nil {
			inner = sc.stmt(v.Init, inner)
		}
		sc.expr(v.Tag, inner)
		for _, c := range v.Body.List {
			if cc, ok := c.(*ast.CaseClause); ok {
				cf := inner
				for _, e := range cc.List {
					sc.expr(e, inner)
				}
				if v.Tag == nil && len(cc.List) == 1 {
					cf = append(append([]c09BGuard{}, inner...), sc.condFacts(cc.List[0], true)...)
				}
				sc.block(cc.Body, cf)
			}
		}
		sc.locals = sc.locals[:len(sc.locals)-1]
		return kill(facts, assignedIn(v))
	case *ast.TypeSwitchStmt:
		sc.locals = append(sc.locals, map[string]ast.Expr{})
		inner := facts
		if v.Init != nil {
			inner = sc.stmt(v.Init, inner)
		}
		sc.expr(v.Assign, inner)
		bound := ""
		if as, ok := v.Assign.(*ast.AssignStmt); ok && len(as.Lhs) == 1 {
			bound = rootIdent(as.Lhs[0])
		}
		for _, c := range v.Body.List {
			if cc, ok := c.(*ast.CaseClause); ok {
				sc.locals = append(sc.locals, map[string]ast.Expr{})
				if bound != "" {
					var t ast.Expr
					if len(cc.List) == 1 {
						t = cc.List[0]
					}
					sc.noteLocal(bound, t)
				}
				sc.block(cc.Body, kill(inner, map[string]bool{bound: true}))
				sc.locals = sc.locals[:len(sc.locals)-1]
			}
		}
		sc.locals = sc.locals[:len(sc.locals)-1]
		return kill(facts, assignedIn(v))
	case *ast.SelectStmt:
		for _, c := range v.Body.List {
			if cc, ok := c.(*ast.CommClause); ok {
				sc.locals = append(sc.locals, map[string]ast.Expr{})
				f2 := facts
				if cc.Comm != nil {
					f2 = sc.stmt(cc.Comm, f2)
				}
				sc.block(cc.Body, f2)
				sc.locals = sc.locals[:len(sc.locals)-1]
			}
		}
		return kill(facts, assignedIn(v))
	default:
		// a simple statement: its expressions see the current facts; then its assignments drop facts and its
		// declarations add some
		sc.expr(st, facts)
		if sc.probe != nil {
			if name, k, ok := stepOf(st); ok && k < 0 {
				if p := sc.probe[name]; p != nil {
					if c, has := constLower(facts, name); !has || c < p.c-k {
						p.ok = false
					}
				}
			}
		}
		out := kill(facts, assignedIn(st))
		return append(out, sc.declare(st)...)
	}
}

// loopFacts: what a counted loop establishes about its index at the top of the body
//
//	for i := 0; …; i++            ⇒ i ≥ 0
//	for i := len(x) - 1; i >= 0; i-- ⇒ i < len(x)   (i ≥ 0 comes from the condition)
func (sc *c09BScan) loopFacts(v *ast.ForStmt, bodyAssigned map[string]bool) []c09BGuard {
	init, ok := v.Init.(*ast.AssignStmt)
	if !ok || len(init.Lhs) != 1 || len(init.Rhs) != 1 {
		return nil
	}
	id, ok := init.Lhs[0].(*ast.Ident)
	post, ok2 := v.Post.(*ast.IncDecStmt)
	if !ok || !ok2 || bodyAssigned[id.Name] {
		return nil
	}
	if p, ok := post.X.(*ast.Ident); !ok || p.Name != id.Name {
		return nil
	}
	src := "for " + render(sc.g.fset, init) + "; …; " + render(sc.g.fset, post)
	start := sc.term(init.Rhs[0])
	if post.Tok == token.INC && start.Atom.Kind == "" && start.Off >= 0 {
		return []c09BGuard{{Op: "ge", Lhs: c09BAtom{"var", id.Name}, Rhs: c09BTerm{}, Src: src}}
	}
	if post.Tok == token.DEC && start.Atom.Kind == "len" && start.Off < 0 {
		for _, r := range start.Atom.roots() {
			if bodyAssigned[r] {
				return nil
			}
		}
		return []c09BGuard{{Op: "lt", Lhs: c09BAtom{"var", id.Name}, Rhs: c09BTerm{Atom: start.Atom, Off: start.Off + 1}, Src: src}}
	}
	return nil
}

func (sc *c09BScan) funcBody(ft *ast.FuncType, body *ast.BlockStmt, recv *ast.FieldList) {
	if body == nil {
		return
	}
	saved, savedLoops, savedProbe := sc.locals, sc.loops, sc.probe
	sc.loops, sc.probe = nil, nil
	defer func() { sc.loops, sc.probe = savedLoops, savedProbe }()
	sc.locals = append(sc.locals, map[string]ast.Expr{})
	var facts []c09BGuard
	for _, fl := range []*ast.FieldList{recv, ft.Params, ft.Results} {
		if fl == nil {
			continue
		}
		for _, f := range fl.List {
			for _, n := range f.Names {
				t := f.Type
				if el, ok := t.(*ast.Ellipsis); ok {
					t = &ast.ArrayType{Elt: el.Elt}
				}
				sc.noteLocal(n.Name, t)
				facts = append(facts, sc.declFacts(n.Name, nil, t)...)
			}
		}
	}
	sc.stmts(body.List, facts)
	sc.locals = saved
}

// constAliases: `n := aes.BlockSize` / `n := 16`, n never assigned again, not a parameter: n stands for its initialiser
func constAliases(fd *ast.FuncDecl) map[string]ast.Expr {
	out := map[string]ast.Expr{}
	if fd.Body == nil {
		return out
	}
	count := map[string]int{}
	for k := range assignedIn(fd.Body) {
		count[k] = 0
	}
	ast.Inspect(fd.Body, func(n ast.Node) bool {
		switch v := n.(type) {
		case *ast.AssignStmt:
			for _, l := range v.Lhs {
				if r := rootIdent(l); r != "" {
					count[r]++
				}
			}
		case *ast.IncDecStmt:
			count[rootIdent(v.X)] += 2
		case *ast.RangeStmt:
			for _, e := range []ast.Expr{v.Key, v.Value} {
				if e != nil {
					count[rootIdent(e)] += 2
				}
			}
		case *ast.UnaryExpr:
			if v.Op == token.AND {
				count[rootIdent(v.X)] += 2
			}
		case *ast.ValueSpec:
			for _, nm := range v.Names {
				count[nm.Name] += 2
			}
		}
		return true
	})
	names, _ := paramsOf(fd.Type)
	for _, n := range names {
		count[n] += 2
	}
	ast.Inspect(fd.Body, func(n ast.Node) bool {
		as, ok := n.(*ast.AssignStmt)
		if !ok || as.Tok != token.DEFINE || len(as.Lhs) != 1 || len(as.Rhs) != 1 {
			return true
		}
		id, ok := as.Lhs[0].(*ast.Ident)
		if !ok || count[id.Name] != 1 {
			return true
		}
		switch r := as.Rhs[0].(type) {
		case *ast.SelectorExpr:
			if _, ok := r.X.(*ast.Ident); ok {
				out[id.Name] = r
			}
		case *ast.BasicLit:
			if r.Kind == token.INT {
				out[id.Name] = r
			}
		}
		return true
	})
	return out
}

// c09BoundSites scans the library packages
func c09BoundSites(g *genCtx) (sites []c09BSite, skipped []string, maps [][2]string, consts []int64, calls [][2]string) {
	generic := map[string]bool{}
	lengthConsts := map[int64]bool{}
	allCalls := map[[2]string]bool{}
	for _, dir := range c09Dirs {
		for _, rel := range c09GoFiles(dir) {
			f := g.file(rel)
			if f == nil {
				continue
			}
			for _, d := range f.Decls {
				switch v := d.(type) {
				case *ast.FuncDecl:
					if v.Type.TypeParams != nil {
						generic[v.Name.Name] = true
					}
				case *ast.GenDecl:
					for _, sp := range v.Specs {
						if ts, ok := sp.(*ast.TypeSpec); ok && ts.TypeParams != nil {
							generic[ts.Name.Name] = true
						}
					}
				}
			}
		}
	}
	for _, dir := range c09Dirs {
		files := c09GoFiles(dir)
		sc := &c09BScan{g: g, generic: generic, typeName: map[string]bool{}, mapType: map[string]bool{}, mapField: map[string]int{}, mapVar: map[string]bool{}, pkgConst: map[string]int64{}}
		// package-level declarations first
		for _, rel := range files {
			f := g.file(rel)
			if f == nil {
				continue
			}
			for _, d := range f.Decls {
				gd, ok := d.(*ast.GenDecl)
				if !ok {
					continue
				}
				for _, sp := range gd.Specs {
					switch v := sp.(type) {
					case *ast.TypeSpec:
						sc.typeName[v.Name.Name] = true
					case *ast.ValueSpec:
						if gd.Tok == token.CONST && len(v.Names) == len(v.Values) {
							for i, nm := range v.Names {
								if n, ok := intLit(v.Values[i]); ok {
									sc.pkgConst[nm.Name] = n
									lengthConsts[n] = true
								}
							}
						}
					}
				}
			}
		}
		for pass := 0; pass < 2; pass++ { // named map types may be declared after their use
			for _, rel := range files {
				f := g.file(rel)
				if f == nil {
					continue
				}
				ast.Inspect(f, func(n ast.Node) bool {
					switch v := n.(type) {
					case *ast.TypeSpec:
						if sc.isMapTypeExpr(v.Type) {
							sc.mapType[v.Name.Name] = true
						}
						if pass == 1 {
							if st, ok := v.Type.(*ast.StructType); ok {
								for _, fld := range st.Fields.List {
									for _, nm := range fld.Names {
										if sc.isMapTypeExpr(fld.Type) {
											sc.mapField[nm.Name]++
										} else {
											sc.mapField[nm.Name] -= 1000
										}
									}
								}
							}
						}
					case *ast.StructType:
						// anonymous struct types inside functions
						return true
					}
					return true
				})
				if pass == 1 {
					for _, d := range f.Decls {
						if gd, ok := d.(*ast.GenDecl); ok && gd.Tok == token.VAR {
							for _, sp := range gd.Specs {
								if vs, ok := sp.(*ast.ValueSpec); ok {
									for i, nm := range vs.Names {
										t := vs.Type
										if t == nil && i < len(vs.Values) {
											t = initType(vs.Values[i])
										}
										if t != nil && sc.isMapTypeExpr(t) {
											sc.mapVar[nm.Name] = true
										}
									}
								}
							}
						}
					}
				}
			}
		}
		for _, rel := range files {
			f := g.file(rel)
			if f == nil {
				continue
			}
			if c09IsGenerated(f) {
				skipped = append(skipped, rel)
				continue
			}
			sc.rel = rel
			sc.commaOkIdx = map[*ast.IndexExpr]bool{}
			ast.Inspect(f, func(n ast.Node) bool {
				switch v := n.(type) {
				case *ast.AssignStmt:
					if len(v.Lhs) == 2 && len(v.Rhs) == 1 {
						if ix, ok := v.Rhs[0].(*ast.IndexExpr); ok {
							sc.commaOkIdx[ix] = true
						}
					}
				case *ast.ValueSpec:
					if len(v.Names) == 2 && len(v.Values) == 1 {
						if ix, ok := v.Values[0].(*ast.IndexExpr); ok {
							sc.commaOkIdx[ix] = true
						}
					}
				}
				return true
			})
			// import names of the library's own packages: alias -> package directory name
			libImport := map[string]string{}
			for _, im := range f.Imports {
				path, _ := strconv.Unquote(im.Path.Value)
				if i := strings.Index(path, "/pkg/"); i >= 0 {
					short := path[strings.LastIndex(path, "/")+1:]
					name := short
					if im.Name != nil {
						name = im.Name.Name
					}
					libImport[name] = short
				}
			}
			// integer literals a length is compared with, and the static calls of every function
			ast.Inspect(f, func(n ast.Node) bool {
				if be, ok := n.(*ast.BinaryExpr); ok {
					switch be.Op {
					case token.LSS, token.LEQ, token.GTR, token.GEQ, token.EQL, token.NEQ:
						for _, pr := range [][2]ast.Expr{{be.X, be.Y}, {be.Y, be.X}} {
							if strings.Contains(render(g.fset, pr[0]), "len(") {
								if k, ok := intLit(pr[1]); ok {
									lengthConsts[k] = true
								}
							}
						}
					}
				}
				return true
			})
			for _, d := range f.Decls {
				if fd, ok := d.(*ast.FuncDecl); ok && fd.Body != nil {
					caller := shortPkg(rel) + "." + declName(fd)
					ast.Inspect(fd.Body, func(n ast.Node) bool {
						if c, ok := n.(*ast.CallExpr); ok {
							switch fun := c.Fun.(type) {
							case *ast.Ident:
								allCalls[[2]string{caller, shortPkg(rel) + "." + fun.Name}] = true
							case *ast.SelectorExpr:
								if x, ok := fun.X.(*ast.Ident); ok {
									if short, ok := libImport[x.Name]; ok {
										allCalls[[2]string{caller, short + "." + fun.Sel.Name}] = true
									}
								}
							}
						}
						return true
					})
				}
			}
			for _, d := range f.Decls {
				switch v := d.(type) {
				case *ast.FuncDecl:
					sc.fn = shortPkg(rel) + "." + declName(v)
					tn := map[string]bool{}
					for _, fl := range []*ast.FieldList{v.Type.TypeParams} {
						if fl != nil {
							for _, fld := range fl.List {
								for _, nm := range fld.Names {
									tn[nm.Name] = true
								}
							}
						}
					}
					// type parameters of a generic receiver: func (r *Request[T]) …
					if v.Recv != nil {
						ast.Inspect(v.Recv, func(n ast.Node) bool {
							if ix, ok := n.(*ast.IndexExpr); ok {
								if id, ok := ix.Index.(*ast.Ident); ok {
									tn[id.Name] = true
								}
							}
							return true
						})
					}
					for k := range tn {
						sc.typeName[k] = true
					}
					sc.locals = nil
					sc.alias = constAliases(v)
					sc.funcBody(v.Type, v.Body, v.Recv)
					sc.alias = nil
					for k := range tn {
						delete(sc.typeName, k)
					}
				case *ast.GenDecl:
					if v.Tok == token.VAR {
						sc.fn = shortPkg(rel) + ".<package level>"
						sc.locals = nil
						for _, sp := range v.Specs {
							if vs, ok := sp.(*ast.ValueSpec); ok {
								for _, val := range vs.Values {
									sc.expr(val, nil)
								}
							}
						}
					}
				}
			}
		}
		sites = append(sites, sc.sites...)
		maps = append(maps, sc.maps...)
	}
	sort.Strings(skipped)
	// the constants the sites and their facts mention
	for _, s := range sites {
		for _, t := range []c09BTerm{s.Lo, s.Hi} {
			lengthConsts[t.Off], lengthConsts[-t.Off] = true, true
		}
		for _, gd := range s.Guards {
			lengthConsts[gd.Rhs.Off], lengthConsts[-gd.Rhs.Off] = true, true
		}
	}
	for k := range lengthConsts {
		if k >= 2 && k <= 1<<20 {
			consts = append(consts, k)
		}
	}
	sort.Slice(consts, func(i, j int) bool { return consts[i] < consts[j] })
	// the static call edges that lead to a function with a slice / index expression (backward closure)
	want := map[string]bool{}
	for _, s := range sites {
		want[s.Fn] = true
	}
	for changed := true; changed; {
		changed = false
		for e := range allCalls {
			if want[e[1]] && !want[e[0]] {
				want[e[0]] = true
				changed = true
			}
		}
	}
	for e := range allCalls {
		if want[e[1]] && e[0] != e[1] {
			calls = append(calls, e)
		}
	}
	sort.Slice(calls, func(i, j int) bool { return calls[i][0]+" "+calls[i][1] < calls[j][0]+" "+calls[j][1] })
	c09AllCalls = allCalls
	return
}

func isStringLit(e ast.Expr) bool {
	bl, ok := e.(*ast.BasicLit)
	return ok && bl.Kind == token.STRING
}

func c09BoundFacts(g *genCtx) string {
	var b strings.Builder
	sites, skipped, maps, consts, calls := c09BoundSites(g)
	var ss []string
	for _, s := range sites {
		var gs []string
		for _, gd := range s.Guards {
			gs = append(gs, gd.lean())
		}
		var cs []string
		for _, c := range s.Carried {
			cs = append(cs, "("+leanStr(c[0])+", "+leanStr(c[1])+")")
		}
		ss = append(ss, fmt.Sprintf("{ fn := %s, expr := %s, base := %s, kind := %s, lo := %s, hi := %s,\n    guards := [%s],\n    carried := [%s] }",
			leanStr(s.Fn), leanStr(s.Expr), leanStr(s.Base), leanStr(s.Kind), s.Lo.lean(), s.Hi.lean(), strings.Join(gs, ",\n      "), strings.Join(cs, ", ")))
	}
	b.WriteString("/-- slice / index expressions whose operand is not a map, with the length facts that hold on every path reaching them -/\n")
	b.WriteString("def boundSites : List C09.BoundSite := [\n  " + strings.Join(ss, ",\n  ") + "]\n\n")
	b.WriteString("/-- files headed `Code generated … DO NOT EDIT.`: not scanned for slice / index expressions -/\n")
	b.WriteString("def boundsSkippedFiles : List String := " + leanStrList(skipped) + "\n\n")
	var es []string
	for _, e := range calls {
		es = append(es, "("+leanStr(e[0])+", "+leanStr(e[1])+")")
	}
	b.WriteString("/-- static calls (caller, callee) among the library's functions that lead to a function with a slice / index expression -/\n")
	b.WriteString("def boundCalls : List (String × String) := [\n  " + strings.Join(es, ",\n  ") + "]\n\n")
	g.facts["C09.boundCalls"] = calls
	g.facts["C09.lengthConsts"] = consts
	g.facts["C09.boundSites"] = sites
	g.facts["C09.boundsSkippedFiles"] = skipped
	g.facts["C09.mapIndexes"] = maps
	return b.String()
}
