package main

import (
	"fmt"
	"go/ast"
	"go/token"
	"strconv"
	"strings"
)

// rpHandlerTables (C17): T-facts of pkg/client/rp/relying_party.go
//   - the cookie / parameter names `stateParam`, `pkceCode`
//   - the parameters each option constructor adds to the authorization URL / token request:
//     `func WithX(p string) Opt { return func() []oauth2.AuthCodeOption { return []oauth2.AuthCodeOption{oauth2.SetAuthURLParam(K, V), …} } }`
//     (the inner return may also be a call of a package function of that literal shape)
func rpHandlerTables(g *genCtx) string {
	var b strings.Builder
	const file = "pkg/client/rp/relying_party.go"
	for _, name := range []string{"stateParam", "pkceCode"} {
		v, ok := stringConst(g, file, name)
		if !ok {
			g.unsup[name] = []string{"string constant not found in " + file}
			fmt.Fprintf(&b, "def %s : String := UNSUPPORTED_constant_not_found\n", name)
			continue
		}
		g.facts[name] = v
		fmt.Fprintf(&b, "/-- `%s` of %s -/\ndef %s : String := %s\n", name, file, name, leanStr(v))
	}
	b.WriteString("\n")
	for _, fn := range []string{"WithCodeChallenge", "WithCodeVerifier", "WithClientAssertionJWT"} {
		b.WriteString(paramOptTable(g, file, fn))
	}
	return b.String()
}

func stringConst(g *genCtx, rel, name string) (string, bool) {
	f := g.file(rel)
	if f == nil {
		return "", false
	}
	for _, d := range f.Decls {
		gd, ok := d.(*ast.GenDecl)
		if !ok || gd.Tok != token.CONST {
			continue
		}
		for _, sp := range gd.Specs {
			vs := sp.(*ast.ValueSpec)
			for i, n := range vs.Names {
				if n.Name == name && i < len(vs.Values) {
					if lit, ok := vs.Values[i].(*ast.BasicLit); ok && lit.Kind == token.STRING {
						s, err := strconv.Unquote(lit.Value)
						return s, err == nil
					}
				}
			}
		}
	}
	return "", false
}

// setParamList renders `[]oauth2.AuthCodeOption{oauth2.SetAuthURLParam(k, v), …}` as a Lean list of pairs.
func setParamList(t *tr, e ast.Expr) (string, bool) {
	cl, ok := e.(*ast.CompositeLit)
	if !ok {
		return "", false
	}
	var items []string
	for _, el := range cl.Elts {
		c, ok := el.(*ast.CallExpr)
		if !ok || exprString(c.Fun) != "oauth2.SetAuthURLParam" || len(c.Args) != 2 {
			return "", false
		}
		items = append(items, "("+t.expr(c.Args[0])+", "+t.expr(c.Args[1])+")")
	}
	return "[" + strings.Join(items, ", ") + "]", true
}

func singleReturn(body *ast.BlockStmt) (ast.Expr, bool) {
	if body == nil || len(body.List) != 1 {
		return nil, false
	}
	r, ok := body.List[0].(*ast.ReturnStmt)
	if !ok || len(r.Results) != 1 {
		return nil, false
	}
	return r.Results[0], true
}

func paramOptTable(g *genCtx, rel, fn string) string {
	fail := func(why string) string {
		g.unsup[fn] = []string{why}
		return fmt.Sprintf("def %s := UNSUPPORTED_option_shape\n\n", fn)
	}
	fd := g.findFunc(rel, fn)
	if fd == nil {
		return fail("function not found in " + rel)
	}
	var params []string
	for _, f := range fd.Type.Params.List {
		if exprString(f.Type) != "string" {
			return fail("parameter of a type other than string")
		}
		for _, n := range f.Names {
			params = append(params, n.Name)
		}
	}
	outer, ok := singleReturn(fd.Body)
	if !ok {
		return fail("body is not a single return")
	}
	fl, ok := outer.(*ast.FuncLit)
	if !ok || len(fl.Type.Params.List) != 0 {
		return fail("does not return a parameterless closure")
	}
	inner, ok := singleReturn(fl.Body)
	if !ok {
		return fail("closure body is not a single return")
	}
	t := &tr{spec: &FuncSpec{Lean: fn}, fset: g.fset, fresh: map[string]bool{}, declared: map[string]bool{}}
	list, ok := setParamList(t, inner)
	origin := ""
	if !ok {
		// return pkg.F(arg): follow a same-repo function of the literal shape, substituting the parameter
		c, isCall := inner.(*ast.CallExpr)
		if !isCall || len(c.Args) != 1 || exprString(c.Fun) != "client.ClientAssertionCodeOptions" {
			return fail("closure returns neither a parameter literal nor client.ClientAssertionCodeOptions(x)")
		}
		const crel = "pkg/client/jwt_profile.go"
		cd := g.findFunc(crel, "ClientAssertionCodeOptions")
		if cd == nil || len(cd.Type.Params.List) != 1 || len(cd.Type.Params.List[0].Names) != 1 {
			return fail("ClientAssertionCodeOptions not found in " + crel)
		}
		body, isRet := singleReturn(cd.Body)
		if !isRet {
			return fail("ClientAssertionCodeOptions is not a single return")
		}
		t.spec.Rename = map[string]string{cd.Type.Params.List[0].Names[0].Name: t.expr(c.Args[0])}
		list, ok = setParamList(t, body)
		if !ok {
			return fail("ClientAssertionCodeOptions left the literal shape")
		}
		origin = " via " + crel + " `ClientAssertionCodeOptions`"
	}
	if len(t.unsup) > 0 {
		return fail(strings.Join(t.unsup, "; "))
	}
	g.facts[fn] = list
	pos := g.fset.Position(fd.Pos())
	binders := ""
	if len(params) > 0 {
		binders = " (" + strings.Join(params, " ") + " : String)"
	}
	return fmt.Sprintf("/-- parameters added by %s:%d `%s`%s -/\ndef %s (now : Int)%s : List (String × String) :=\n  %s\n\n",
		relPath(pos.Filename), pos.Line, fn, origin, fn, binders, list)
}
