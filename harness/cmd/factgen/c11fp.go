package main

// C11: the buffer handling of op.AuthResponseFormPost as a program (`GenWire.formPostProgram : List FP.Stmt`) plus the
// package-level variables of pkg/op it touches that can hold bytes between two calls (`GenWire.formPostPkg`).
//
// The body is read statement by statement.  Every identifier that names a buffer is classified by WHERE it is declared:
// inside the function (`FP.Ref.loc`) or at package level in any file of pkg/op (`FP.Ref.pkg`); package-level
// `bytes.Buffer` variables and `sync.Pool`s are listed with their initial state.  A statement outside the subset below
// becomes `FP.Stmt.unsupported "<source>"`, about which no theorem can be proved (the build of the proofs breaks visibly).
// stdlib only (go/ast).

import (
	"fmt"
	"go/ast"
	"go/token"
	"os"
	"path/filepath"
	"sort"
	"strconv"
	"strings"
)

type fpTr struct {
	g       *genCtx
	locals  map[string]bool   // buffer variables declared in the function
	pkgVars map[string]string // package-level variables of pkg/op: name -> "buf" | "pool" | "other"
	used    map[string]bool   // package-level buffer / pool variables the function mentions
	resName string            // the http.ResponseWriter parameter
	encName string            // the encoder parameter
}

// fpPkgVars: the package-level `var` declarations of every non-test file of the directory
func fpPkgVars(g *genCtx, dir string) map[string]string {
	out := map[string]string{}
	ents, err := os.ReadDir(filepath.Join(repoRoot, dir))
	if err != nil {
		return out
	}
	for _, e := range ents {
		if e.IsDir() || !strings.HasSuffix(e.Name(), ".go") || strings.HasSuffix(e.Name(), "_test.go") {
			continue
		}
		f := g.file(filepath.Join(dir, e.Name()))
		if f == nil {
			continue
		}
		for _, d := range f.Decls {
			gd, ok := d.(*ast.GenDecl)
			if !ok || gd.Tok != token.VAR {
				continue
			}
			for _, sp := range gd.Specs {
				vs := sp.(*ast.ValueSpec)
				for i, n := range vs.Names {
					kind := "other"
					typ := ""
					if vs.Type != nil {
						typ = goSrc(g.fset, vs.Type)
					}
					val := ""
					if i < len(vs.Values) {
						val = goSrc(g.fset, vs.Values[i])
					}
					switch {
					case typ == "bytes.Buffer" || typ == "*bytes.Buffer" || strings.HasPrefix(val, "bytes.Buffer{") || strings.HasPrefix(val, "&bytes.Buffer{") ||
						strings.HasPrefix(val, "new(bytes.Buffer)") || strings.HasPrefix(val, "bytes.NewBuffer("):
						kind = "buf"
					case typ == "sync.Pool" || typ == "*sync.Pool" || strings.HasPrefix(val, "sync.Pool{") || strings.HasPrefix(val, "&sync.Pool{"):
						kind = "pool"
					}
					out[n.Name] = kind
				}
			}
		}
	}
	return out
}

func (t *fpTr) ref(e ast.Expr) (string, bool) {
	if u, ok := e.(*ast.UnaryExpr); ok && u.Op == token.AND {
		e = u.X
	}
	if p, ok := e.(*ast.ParenExpr); ok {
		e = p.X
	}
	id, ok := e.(*ast.Ident)
	if !ok {
		return "", false
	}
	if t.locals[id.Name] {
		return "(.loc " + leanStr(id.Name) + ")", true
	}
	if t.pkgVars[id.Name] == "buf" {
		t.used[id.Name] = true
		return "(.pkg " + leanStr(id.Name) + ")", true
	}
	return "", false
}

func (t *fpTr) unsupported(n ast.Node) string {
	src := goSrc(t.g.fset, n)
	t.g.unsup["formPostProgram"] = append(t.g.unsup["formPostProgram"], src)
	return ".unsupported " + leanStr(src)
}

var fpStatus = map[string]int{"http.StatusOK": 200, "http.StatusFound": 302, "http.StatusBadRequest": 400, "http.StatusInternalServerError": 500}

// isNewBuf: an expression that makes a fresh, empty buffer
func fpIsNewBuf(src string) bool {
	switch src {
	case "new(bytes.Buffer)", "&bytes.Buffer{}", "bytes.Buffer{}", "bytes.NewBuffer(nil)", "bytes.NewBufferString(\"\")", "&(bytes.Buffer{})":
		return true
	}
	return false
}

// mentionsOnlyLocals: no package-level buffer / pool and no call in the expression
func (t *fpTr) isPure(e ast.Expr) bool {
	pure := true
	ast.Inspect(e, func(n ast.Node) bool {
		switch x := n.(type) {
		case *ast.CallExpr:
			pure = false
		case *ast.Ident:
			if k := t.pkgVars[x.Name]; (k == "buf" || k == "pool") && !t.locals[x.Name] {
				pure = false
			}
		}
		return true
	})
	return pure
}

// call: the statement form of a call whose results are (optionally) assigned; lhsErr = the error result is assigned to `err`
func (t *fpTr) call(c *ast.CallExpr, n ast.Node) string {
	fun := goSrc(t.g.fset, c.Fun)
	sel, _ := c.Fun.(*ast.SelectorExpr)
	switch {
	case sel != nil && sel.Sel.Name == "Encode" && exprString(sel.X) == t.encName && len(c.Args) == 2:
		return ".encode " + leanStr(goSrc(t.g.fset, c.Args[1]))
	case sel != nil && sel.Sel.Name == "Execute" && len(c.Args) == 2:
		if r, ok := t.ref(c.Args[0]); ok {
			return ".execute " + r
		}
	case sel != nil && sel.Sel.Name == "WriteTo" && len(c.Args) == 1 && exprString(c.Args[0]) == t.resName:
		if r, ok := t.ref(sel.X); ok {
			return ".writeTo " + r
		}
	case fun == "io.Copy" && len(c.Args) == 2 && exprString(c.Args[0]) == t.resName:
		if r, ok := t.ref(c.Args[1]); ok {
			return ".writeTo " + r
		}
	case sel != nil && sel.Sel.Name == "Write" && exprString(sel.X) == t.resName && len(c.Args) == 1:
		if ac, ok := c.Args[0].(*ast.CallExpr); ok {
			if as, ok := ac.Fun.(*ast.SelectorExpr); ok && as.Sel.Name == "Bytes" && len(ac.Args) == 0 {
				if r, ok := t.ref(as.X); ok {
					return ".writeBytes " + r
				}
			}
		}
	case sel != nil && sel.Sel.Name == "Reset" && len(c.Args) == 0:
		if r, ok := t.ref(sel.X); ok {
			return ".reset " + r
		}
	case sel != nil && sel.Sel.Name == "Truncate" && len(c.Args) == 1 && goSrc(t.g.fset, c.Args[0]) == "0":
		if r, ok := t.ref(sel.X); ok {
			return ".reset " + r
		}
	case sel != nil && sel.Sel.Name == "Put" && len(c.Args) == 1 && t.pkgVars[exprString(sel.X)] == "pool" && !t.locals[exprString(sel.X)]:
		if r, ok := t.ref(c.Args[0]); ok {
			t.used[exprString(sel.X)] = true
			return ".poolPut " + leanStr(exprString(sel.X)) + " " + r
		}
	case fun == t.resName+".WriteHeader" && len(c.Args) == 1:
		if code, ok := fpStatus[goSrc(t.g.fset, c.Args[0])]; ok {
			return fmt.Sprintf(".writeHeader %d", code)
		}
		if code, err := strconv.Atoi(goSrc(t.g.fset, c.Args[0])); err == nil {
			return fmt.Sprintf(".writeHeader %d", code)
		}
	case fun == t.resName+".Header().Set" && len(c.Args) == 2:
		k, ok1 := c.Args[0].(*ast.BasicLit)
		v, ok2 := c.Args[1].(*ast.BasicLit)
		if ok1 && ok2 && k.Kind == token.STRING && v.Kind == token.STRING {
			ks, _ := strconv.Unquote(k.Value)
			vs, _ := strconv.Unquote(v.Value)
			return ".setHeader " + leanStr(ks) + " " + leanStr(vs)
		}
	}
	return t.unsupported(n)
}

// errOnlyLHS: the left-hand side assigns nothing but `err` (and blanks)
func fpErrOnlyLHS(lhs []ast.Expr) bool {
	for _, l := range lhs {
		if n := exprString(l); n != "err" && n != "_" {
			return false
		}
	}
	return true
}

func (t *fpTr) stmt(s ast.Stmt) []string {
	switch x := s.(type) {
	case *ast.DeclStmt:
		gd, ok := x.Decl.(*ast.GenDecl)
		if ok && gd.Tok == token.VAR && len(gd.Specs) == 1 {
			vs := gd.Specs[0].(*ast.ValueSpec)
			if len(vs.Names) == 1 && vs.Type != nil && goSrc(t.g.fset, vs.Type) == "bytes.Buffer" && len(vs.Values) == 0 {
				t.locals[vs.Names[0].Name] = true
				return []string{".newBuf " + leanStr(vs.Names[0].Name)}
			}
			if len(vs.Names) == 1 && len(vs.Values) == 1 && fpIsNewBuf(goSrc(t.g.fset, vs.Values[0])) {
				t.locals[vs.Names[0].Name] = true
				return []string{".newBuf " + leanStr(vs.Names[0].Name)}
			}
			if len(vs.Names) == 1 && goSrc(t.g.fset, vs.Names[0]) == "err" && len(vs.Values) == 0 {
				return []string{".pure " + leanStr(goSrc(t.g.fset, s))}
			}
		}
	case *ast.AssignStmt:
		if len(x.Rhs) == 1 {
			rhs := goSrc(t.g.fset, x.Rhs[0])
			lhs0 := exprString(x.Lhs[0])
			// a fresh buffer
			if len(x.Lhs) == 1 && x.Tok == token.DEFINE && fpIsNewBuf(rhs) {
				t.locals[lhs0] = true
				return []string{".newBuf " + leanStr(lhs0)}
			}
			// values := make(map[string][]string)
			if len(x.Lhs) == 1 && x.Tok == token.DEFINE && (strings.HasPrefix(rhs, "make(map[string][]string") || rhs == "map[string][]string{}" || rhs == "url.Values{}" || strings.HasPrefix(rhs, "make(url.Values")) {
				return []string{".makeValues " + leanStr(lhs0)}
			}
			// x := pool.Get().(*bytes.Buffer)
			if ta, ok := x.Rhs[0].(*ast.TypeAssertExpr); ok && len(x.Lhs) == 1 && x.Tok == token.DEFINE && ta.Type != nil && goSrc(t.g.fset, ta.Type) == "*bytes.Buffer" {
				if c, ok := ta.X.(*ast.CallExpr); ok && len(c.Args) == 0 {
					if sel, ok := c.Fun.(*ast.SelectorExpr); ok && sel.Sel.Name == "Get" && t.pkgVars[exprString(sel.X)] == "pool" && !t.locals[exprString(sel.X)] {
						t.locals[lhs0] = true
						t.used[exprString(sel.X)] = true
						return []string{".poolGet " + leanStr(lhs0) + " " + leanStr(exprString(sel.X))}
					}
				}
			}
			// err := f(..) / _, err = f(..)
			if c, ok := x.Rhs[0].(*ast.CallExpr); ok && fpErrOnlyLHS(x.Lhs) {
				return []string{t.call(c, s)}
			}
			// a binding that only mentions parameters and locals
			if x.Tok == token.DEFINE && t.isPure(x.Rhs[0]) {
				return []string{".pure " + leanStr(lhs0+" := …")}
			}
		}
	case *ast.ExprStmt:
		if c, ok := x.X.(*ast.CallExpr); ok {
			return []string{t.call(c, s)}
		}
	case *ast.DeferStmt:
		// defer f(..)  /  defer func() { a; b }()  (= defer b; defer a)
		if fl, ok := x.Call.Fun.(*ast.FuncLit); ok && len(x.Call.Args) == 0 && fl.Type.Params.NumFields() == 0 {
			var out []string
			for i := len(fl.Body.List) - 1; i >= 0; i-- {
				es, ok := fl.Body.List[i].(*ast.ExprStmt)
				if !ok {
					return []string{t.unsupported(s)}
				}
				c, ok := es.X.(*ast.CallExpr)
				if !ok {
					return []string{t.unsupported(s)}
				}
				out = append(out, ".deferred ("+t.call(c, es)+")")
			}
			return out
		}
		return []string{".deferred (" + t.call(x.Call, s) + ")"}
	case *ast.IfStmt:
		var out []string
		if x.Init != nil {
			out = append(out, t.stmt(x.Init)...)
		}
		if goSrc(t.g.fset, x.Cond) == "err != nil" && x.Else == nil && len(x.Body.List) == 1 {
			if r, ok := x.Body.List[0].(*ast.ReturnStmt); ok && len(r.Results) == 1 && goSrc(t.g.fset, r.Results[0]) != "nil" {
				return append(out, ".ifErrReturn")
			}
		}
		return []string{t.unsupported(s)}
	case *ast.ReturnStmt:
		if len(x.Results) == 1 {
			switch goSrc(t.g.fset, x.Results[0]) {
			case "nil":
				return []string{".returnNil"}
			case "err":
				return []string{".returnErr"}
			}
		}
	}
	return []string{t.unsupported(s)}
}

func c11FormPostProgram(g *genCtx) string {
	const rel = "pkg/op/auth_request.go"
	fd := g.findFunc(rel, "AuthResponseFormPost")
	if fd == nil {
		g.unsup["formPostProgram"] = []string{"AuthResponseFormPost not found"}
		return "def formPostProgram : List FP.Stmt := UNSUPPORTED_AuthResponseFormPost_not_found\n"
	}
	t := &fpTr{g: g, locals: map[string]bool{}, pkgVars: fpPkgVars(g, "pkg/op"), used: map[string]bool{}}
	for _, p := range fd.Type.Params.List {
		typ := goSrc(g.fset, p.Type)
		for _, n := range p.Names {
			t.locals[n.Name] = false
			if typ == "http.ResponseWriter" {
				t.resName = n.Name
			}
			if strings.HasSuffix(typ, "Encoder") {
				t.encName = n.Name
			}
			delete(t.pkgVars, n.Name) // a parameter shadows a package-level name
		}
	}
	var items []string
	for _, s := range fd.Body.List {
		items = append(items, t.stmt(s)...)
	}
	// any other mention of a package-level buffer / pool (inside an unsupported statement, a closure, …) counts as touched
	ast.Inspect(fd.Body, func(n ast.Node) bool {
		if id, ok := n.(*ast.Ident); ok && !t.locals[id.Name] {
			if k := t.pkgVars[id.Name]; k == "buf" || k == "pool" {
				t.used[id.Name] = true
			}
		}
		return true
	})
	var names []string
	for n := range t.used {
		names = append(names, n)
	}
	sort.Strings(names)
	var pk []string
	for _, n := range names {
		if t.pkgVars[n] == "pool" {
			pk = append(pk, "("+leanStr(n)+", .pool [])")
		} else {
			pk = append(pk, "("+leanStr(n)+", .buf [])")
		}
	}
	g.facts["formPostProgram"] = items
	flow, flowOK := fpTemplateData(g, fd, t)
	g.facts["formPostPkg"] = names
	var b strings.Builder
	fmt.Fprintf(&b, "/-- the buffer handling of `AuthResponseFormPost` (%s:%d), statement by statement -/\n", rel, g.fset.Position(fd.Pos()).Line)
	b.WriteString("def formPostProgram : List FP.Stmt :=\n  [ " + strings.Join(items, ",\n    ") + " ]\n\n")
	b.WriteString("/-- the package-level variables of pkg/op that `AuthResponseFormPost` touches and that can hold bytes between two calls,\n    with their state before the first call -/\n")
	b.WriteString("def formPostPkg : List (String × FP.PkgVal) := [" + strings.Join(pk, ", ") + "]\n\n")
	b.WriteString("/-- what the template is executed on: the fields of the data value handed to `Execute` and the variable / parameter each one is\n    filled from, the variable the encoder wrote the response into, the parameter that carries the redirect URI -/\n")
	if flowOK {
		b.WriteString("def formPostTemplateData : FP.TemplateData := " + flow + "\n\n")
	} else {
		g.unsup["formPostTemplateData"] = []string{"cannot tell what the template is executed on"}
		b.WriteString("def formPostTemplateData : FP.TemplateData := UNSUPPORTED_template_data\n\n")
	}
	return b.String()
}

// fpTemplateData: `tmpl.Execute(buf, D)` with D a composite literal (possibly behind `&`, possibly bound to a variable first):
// its fields and the identifiers they are filled from; which variable the encoder wrote into; which parameter is the redirect URI
func fpTemplateData(g *genCtx, fd *ast.FuncDecl, t *fpTr) (string, bool) {
	var dataExpr ast.Expr
	encodedInto := ""
	binds := map[string]ast.Expr{}
	ast.Inspect(fd.Body, func(n ast.Node) bool {
		switch x := n.(type) {
		case *ast.AssignStmt:
			if len(x.Lhs) == 1 && len(x.Rhs) == 1 {
				binds[exprString(x.Lhs[0])] = x.Rhs[0]
			}
		case *ast.CallExpr:
			if sel, ok := x.Fun.(*ast.SelectorExpr); ok {
				if sel.Sel.Name == "Execute" && len(x.Args) == 2 {
					dataExpr = x.Args[1]
				}
				if sel.Sel.Name == "Encode" && exprString(sel.X) == t.encName && len(x.Args) == 2 {
					encodedInto = exprString(x.Args[1])
				}
			}
		}
		return true
	})
	if dataExpr == nil {
		return "", false
	}
	if id, ok := dataExpr.(*ast.Ident); ok {
		if b, ok := binds[id.Name]; ok {
			dataExpr = b
		}
	}
	if u, ok := dataExpr.(*ast.UnaryExpr); ok && u.Op == token.AND {
		dataExpr = u.X
	}
	cl, ok := dataExpr.(*ast.CompositeLit)
	if !ok {
		return "", false
	}
	var fields []string
	for _, el := range cl.Elts {
		kv, ok := el.(*ast.KeyValueExpr)
		if !ok {
			return "", false
		}
		fields = append(fields, "("+leanStr(exprString(kv.Key))+", "+leanStr(goSrc(g.fset, kv.Value))+")")
	}
	uriParam := ""
	for _, p := range fd.Type.Params.List {
		for _, n := range p.Names {
			if goSrc(g.fset, p.Type) == "string" && uriParam == "" {
				uriParam = n.Name
			}
		}
	}
	return "{ fields := [" + strings.Join(fields, ", ") + "], encodedInto := " + leanStr(encodedInto) + ", uriParam := " + leanStr(uriParam) + " }", true
}
