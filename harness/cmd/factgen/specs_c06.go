package main

// C06 (deep): the issuance functions of pkg/op/token.go themselves, in their own namespace `GenC06`
// (Generated/IssueC06.lean; model types in Model/IssueC06.lean):
//
//	removeUserinfoScopes, CreateIDToken, CreateJWT, createTokens, CreateBearerToken, CreateAccessToken, CreateTokenResponse
//	and CreateDeviceTokenResponse (pkg/op/device.go), plus a SECOND model of the claim hash
//	(crypto.GetHashAlgorithm / crypto.HashString / oidc.ClaimHash) in which the hash.Hash is a VALUE that remembers
//	what was written to it - a digest object that is reused for two claims shows up in the regenerated definition.
//
// Storage calls, signing, encryption and the client's restriction functions are function-valued fields of the model types
// (oracles): the theorems of Proofs/C06Issue.lean quantify over all of them.  `needsRefreshToken` is the subject of the
// C04/C07 slice (Generated/TokenIssue.lean); here its verdict is a field of the request.

func init() {
	const tok = "pkg/op/token.go"
	ren := map[string]string{
		"oidc.ScopeProfile": "IssConst.ScopeProfile", "oidc.ScopeEmail": "IssConst.ScopeEmail",
		"oidc.ScopeAddress": "IssConst.ScopeAddress", "oidc.ScopePhone": "IssConst.ScopePhone",
		"oidc.ScopeOpenID": "IssConst.ScopeOpenID", "oidc.BearerToken": "IssConst.BearerToken",
		"AccessTokenTypeJWT":          "IssConst.AccessTokenTypeJWT",
		"oidc.NewIDTokenClaims()":     "Hand.issNewIDTokenClaims now",
		"oidc.NewAccessTokenClaims()": "Hand.issNewAccessTokenClaims now",
		"new(oidc.UserInfo)":          "({} : IssUserInfo)",
		"SignerFromKey()":             "Hand.issSignerFromKey",
		"IssuerFromContext()":         "((creator).IssuerFromContext)",
		"needsRefreshToken()":         "Hand.issNeedsRefreshToken",
		"oidc.AccessTokenResponse{}":  "struct:IssTokenResponse",
	}
	with := func(extra map[string]string) map[string]string {
		m := map[string]string{}
		for k, v := range ren {
			m[k] = v
		}
		for k, v := range extra {
			m[k] = v
		}
		return m
	}
	// the userinfo is handed to the storage by pointer: in-out
	uiOut := map[string]OutParam{
		"teStorage.SetUserinfoFromTokenExchangeRequest": {1, true},
		"storage.SetUserinfoFromScopes":                 {1, true},
		"fromRequest.SetUserinfoFromRequest":            {1, true},
	}
	zero := map[string]string{"<*ast.MapType>": "([] : IssPrivateClaims)", "time.Time": "Go.zeroTime"}
	pReq, pClient, pStorage, pCreator := "(request : IssRequest)", "(client : IssClient)", "(storage : IssStorage)", "(creator : IssCreator)"
	extraGroups = append(extraGroups, Group{
		Out:     "IssueC06.lean",
		NS:      "GenC06",
		Imports: []string{"OidcModel.Model.IssueC06"},
		Opens:   []string{"Go", "Hand", "Const", "IssC06"},
		Funcs: []FuncSpec{
			// ---- the claim hash with the digest object as a value
			{File: "pkg/crypto/hash.go", Name: "GetHashAlgorithm", Lean: "GetHashAlgorithm",
				Params: []string{"(sigAlgorithm : String)"}, Ret: RetValErr, RetType: "IssHasher",
				Rename: map[string]string{"sha256.New()": "(IssHasher.fresh HashAlg.sha256)", "sha512.New384()": "(IssHasher.fresh HashAlg.sha384)",
					"sha512.New()": "(IssHasher.fresh HashAlg.sha512)"}},
			{File: "pkg/crypto/hash.go", Name: "HashString", Lean: "HashString",
				Params: []string{"(hash : IssHasher)", "(s : String)", "(firstHalf : Bool)"}, Ret: RetVal, RetType: "(String × IssHasher)",
				AlsoRet: "hash", Mutators: []string{"hash.Write"}, Imperative: true, LetIf: true,
				Rename: map[string]string{"base64.RawURLEncoding.EncodeToString()": "IssHasher.encode"}},
			{File: "pkg/oidc/token.go", Name: "ClaimHash", Lean: "ClaimHash",
				Params: []string{"(claim : String)", "(sigAlgorithm : String)"}, Ret: RetValErr, RetType: "String",
				InOutVal: map[string]int{"crypto.HashString": 0}},
			// ---- scope filtering
			{File: tok, Name: "removeUserinfoScopes", Lean: "removeUserinfoScopes", Params: []string{"(scopes : List String)"},
				Ret: RetVal, RetType: "List String", Imperative: true, LoopStyle: "state", Rename: ren},
			// ---- the ID token
			{File: tok, Name: "CreateIDToken", Lean: "CreateIDToken",
				Params: []string{"(issuer : String)", pReq, "(validity : Int)", "(accessToken code : String)", pStorage, pClient},
				Ret:    RetValErr, RetType: "String", JoinIf: true, LetIf: true, LocalOut: uiOut,
				InOutVal: map[string]int{"crypto.HashString": 0},
				Rename:   with(map[string]string{"crypto.Sign()": "Hand.issSignID"})},
			// ---- the JWT access token
			{File: tok, Name: "CreateJWT", Lean: "CreateJWT",
				Params: []string{"(issuer : String)", "(tokenRequest : IssRequest)", "(exp : Int)", "(id : String)", pClient, pStorage},
				Ret:    RetValErr, RetType: "String", JoinIf: true, LetIf: true, ZeroOf: zero,
				InOutVal: map[string]int{"crypto.HashString": 0},
				Rename:   with(map[string]string{"crypto.Sign()": "Hand.issSignAT"})},
			// ---- access token creation
			{File: tok, Name: "createTokens", Lean: "createTokens",
				Params: []string{"(tokenRequest : IssRequest)", pStorage, "(refreshToken : String)", pClient},
				Ret:    RetValErr, RetType: "(String × String × Int)", Rename: ren, ZeroOf: zero, InitResults: true},
			{File: tok, Name: "CreateBearerToken", Lean: "CreateBearerToken",
				Params: []string{"(tokenID subject : String)", "(crypto : IssCrypto)"}, Ret: RetValErr, RetType: "String",
				Rename: with(map[string]string{"crypto.Encrypt()": "(crypto).Encrypt"})},
			{File: tok, Name: "CreateAccessToken", Lean: "CreateAccessToken",
				Params: []string{"(tokenRequest : IssRequest)", "(accessTokenType : Nat)", pCreator, pClient, "(refreshToken : String)"},
				Ret:    RetValErr, RetType: "(String × String × Int)", Rename: ren, ZeroOf: zero, InitResults: true, LetIf: true},
			// ---- the token responses
			{File: tok, Name: "CreateTokenResponse", Lean: "CreateTokenResponse",
				Params: []string{pReq, pClient, pCreator, "(createAccessToken : Bool)", "(code refreshToken : String)"},
				Ret:    RetValErr, RetType: "IssTokenResponse", JoinIf: true, LetIf: true, Rename: ren, ZeroOf: zero},
			{File: "pkg/op/device.go", Name: "CreateDeviceTokenResponse", Lean: "CreateDeviceTokenResponse",
				Params: []string{"(tokenRequest : IssRequest)", pCreator, pClient},
				Ret:    RetValErr, RetType: "IssTokenResponse", JoinIf: true, LetIf: true, Rename: ren, ZeroOf: zero},
		},
	})
	// ---- (deep4) CreateIDToken / CreateJWT once more, over the storage as a STATE-PASSING ORACLE (Model/IssueC06O.lean; namespace
	// GenC06O, Generated/IssueC06O.lean): every storage call is an oracle step whose answer may depend on all calls before it, so a
	// SECOND fetch of the signing key (seeded C06-P) is a second step with its own answer.  Everything that does not touch the
	// storage (claim hash, scope filtering) is the GenC06 definition.
	pOStorage := "(storage : IssOStorage)"
	autoO := func(claims string) map[string]string {
		return map[string]string{"Storage": "IssOStorage", "any": claims, "SigningKey": "IssSigningKey", "IDTokenRequest": "IssRequest",
			"TokenRequest": "IssRequest", "Client": "IssClient", "*oidc.IDTokenClaims": "IssIDTokenClaims", "*oidc.AccessTokenClaims": "IssAccessTokenClaims",
			"*oidc.UserInfo": "IssUserInfo", "jose.Signer": "IssSigner"}
	}
	extraGroups = append(extraGroups, Group{
		Out:     "IssueC06O.lean",
		NS:      "GenC06O",
		Imports: []string{"OidcModel.Model.IssueC06O", "OidcModel.Generated.IssueC06"},
		Opens:   []string{"Go", "Hand", "Const", "IssC06", "GenC06"},
		Funcs: []FuncSpec{
			{File: tok, Name: "CreateIDToken", Lean: "CreateIDToken",
				Params: []string{"(issuer : String)", pReq, "(validity : Int)", "(accessToken code : String)", pOStorage, pClient},
				Ret:    RetValErr, RetType: "String", JoinIf: true, LetIf: true, LocalOut: uiOut, OracleVars: []string{"storage"},
				InOutVal: map[string]int{"crypto.HashString": 0}, AutoOwn: true, AutoTypes: autoO("IssAnyClaims"),
				Rename: with(map[string]string{"crypto.Sign()": "Hand.issSignAny"})},
			{File: tok, Name: "CreateJWT", Lean: "CreateJWT",
				Params: []string{"(issuer : String)", "(tokenRequest : IssRequest)", "(exp : Int)", "(id : String)", pClient, pOStorage},
				Ret:    RetValErr, RetType: "String", JoinIf: true, LetIf: true, ZeroOf: zero, OracleVars: []string{"storage"},
				InOutVal: map[string]int{"crypto.HashString": 0}, AutoOwn: true, AutoTypes: autoO("IssAnyClaims"),
				Rename: with(map[string]string{"crypto.Sign()": "Hand.issSignAny"})},
		},
	})
	// ---- (deep3) the signing path: SignerFromKey, crypto.Sign / SignPayload, and the builder of the published key set,
	// over structured tokens (Model/IssueC06Key.lean; namespace GenC06K, Generated/IssueC06Key.lean)
	joseLits := map[string]StructLit{"jose.SigningKey{}": {Lean: "IssKJoseKey", Keep: []string{"Algorithm", "Key"}},
		"jose.JSONWebKey{}": {Lean: "IssKJWK", Keep: []string{"Key", "KeyID"}}, "jose.SignerOptions{}": {Lean: "IssKOpts", Keep: []string{}}}
	extraGroups = append(extraGroups, Group{
		Out:     "IssueC06Key.lean",
		NS:      "GenC06K",
		Imports: []string{"OidcModel.Model.IssueC06Key", "OidcModel.Model.RP"},
		Opens:   []string{"Go", "Hand", "Const"},
		Funcs: []FuncSpec{
			{File: "pkg/op/signer.go", Name: "SignerFromKey", Lean: "SignerFromKey", Params: []string{"(key : IssKSigningKey)"},
				Ret: RetValErr, RetType: "IssKSigner", StructLits: joseLits,
				Rename: map[string]string{"jose.NewSigner()": "Hand.issKNewSigner", "ErrSignerCreationFailed": "\"ErrSignerCreationFailed\""}},
			{File: "pkg/crypto/sign.go", Name: "SignPayload", Lean: "SignPayload", Params: []string{"(payload : Payload)", "(signer : IssKSigner)"},
				Ret: RetValErr, RetType: "Token", NilValue: []string{`""`},
				Rename: map[string]string{".Sign()": "Hand.issKSign", ".CompactSerialize()": "Hand.issKCompactSerialize"}},
			{File: "pkg/crypto/sign.go", Name: "Sign", Lean: "Sign", Params: []string{"(cd : IssKCodec)", "(object : Claims)", "(signer : IssKSigner)"},
				Ret: RetValErr, RetType: "Token", NilValue: []string{`""`},
				Rename: map[string]string{"json.Marshal()": "Hand.issKMarshal cd"}},
			{File: "pkg/op/keys.go", Name: "jsonWebKeySet", Lean: "jsonWebKeySet", Params: []string{"(keys : List IssKKey)"},
				Ret: RetVal, RetType: "IssKWebKeySet", Imperative: true, LoopStyle: "state",
				Rename: map[string]string{"jose.JSONWebKey{}": "Hand.issKWebKey", "jose.JSONWebKeySet{}": "struct:IssKWebKeySet"}},
		},
	})
}
