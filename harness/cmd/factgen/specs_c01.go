package main

import (
	"go/ast"
	"reflect"
	"strconv"
	"strings"
)

// C01 (round 3): the CONSTRUCTION PATH of a relying party.  The ID Token verifier an application works with is hardly ever
// hand-built: `rp.NewRelyingPartyOIDC(ctx, issuer, clientID, .., options...)` collects `rp.Option`s (closures over the
// `*relyingParty`), runs discovery, optionally appends the discovered signing algorithms to the verifier options
// (`WithSigningAlgsFromDiscovery`), and builds the verifier lazily in `(*relyingParty).IDTokenVerifier()` through
// `NewIDTokenVerifier(issuer, clientID, NewRemoteKeySet(httpClient, jwks_uri), verifierOpts...)`, each `rp.VerifierOption` again a
// closure over the `*IDTokenVerifier`.  `CodeExchange` / `RefreshTokens` reach `VerifyTokens` through `verifyTokenResponse` with
// `rp.IDTokenVerifier()`.  All of it is regenerated here (namespace GenC01, Generated/RPConstruct.lean; model types:
// Model/RPConstruct.lean, prefix RPC).  Proofs/C01Construct.lean proves that the verifier a relying party hands out carries exactly
// the configured issuer, client id, key set and every configured requirement, for every list (combination and order) of options.

func init() {
	const (
		vgo  = "pkg/client/rp/verifier.go"
		rpgo = "pkg/client/rp/relying_party.go"
	)
	allFields := []string{"Issuer", "MaxAgeIAT", "Offset", "ClientID", "SupportedSignAlgs", "MaxAge", "ACR", "KeySet", "Nonce"}
	ctxT := map[string]string{"context.Context": "Unit"}
	// a functional option of the verifier: a closure over the pointer it is handed
	vopt := func(name, param string) FuncSpec {
		return FuncSpec{File: vgo, Name: name, Lean: name, Closures: true, OptionClosures: true,
			Params: []string{param}, Ret: RetVal, RetType: "RPCVerifierOpt"}
	}
	// a functional option of the relying party
	popt := func(name, param string) FuncSpec {
		f := FuncSpec{File: rpgo, Name: name, Lean: name, Closures: true, OptionClosures: true, ValueOnly: true, Ret: RetVal, RetType: "RPCOption"}
		if param != "" {
			f.Params = []string{param}
		}
		return f
	}
	rpLit := StructLit{Lean: "RPCRelyingParty", Keep: []string{"issuer", "oauthConfig", "httpClient", "oauth2Only", "unauthorizedHandler", "oauthAuthStyle"}}
	ctorRename := map[string]string{
		"optFunc()":                        "optFunc",
		"httphelper.DefaultHTTPClient":     "Const.RPCDefaultHTTPClient",
		"oauth2.AuthStyleAutoDetect":       "Const.RPCAuthStyleAutoDetect",
		"DefaultUnauthorizedHandler":       "Const.RPCDefaultUnauthorizedHandler",
		"client.Discover()":                "(w).discover",
		"copy()":                           "GoX.copyInto", // the builtin: writes min(len) elements of its 2nd argument into its 1st
		"logCtxWithRPData()":               "Hand.rpcLogCtx",
		"GetEndpoints()":                   "GetEndpoints now",
		"WithSupportedSigningAlgorithms()": "WithSupportedSigningAlgorithms now",
		"rp.IDTokenVerifier()":             "relyingPartyIDTokenVerifier now rp",
		"rp.ErrorHandler()":                "relyingPartyErrorHandler now rp",
		"rp.UnauthorizedHandler()":         "relyingPartyUnauthorizedHandler now rp",
		"*config":                          "config",
		"&oauthConfig":                     "oauthConfig",
	}
	recvState := map[string]string{"rp.IDTokenVerifier": "rp", "rp.ErrorHandler": "rp", "rp.UnauthorizedHandler": "rp"}
	lazy := func(name, lean, ret string, rn map[string]string) FuncSpec {
		return FuncSpec{File: rpgo, Name: "relyingParty." + name, Lean: lean, PlainUpdate: true,
			Params: []string{"(rp : RPCRelyingParty)"}, Ret: RetVal, RetType: ret, AlsoRet: "rp", AlsoRetType: "RPCRelyingParty", Rename: rn}
	}
	funcs := []FuncSpec{
		// ---- the verifier: options and constructor
		vopt("WithIssuedAtOffset", "(offset : Int)"),
		vopt("WithIssuedAtMaxAge", "(maxAge : Int)"),
		vopt("WithNonce", "(nonce : Option (Unit → String))"),
		vopt("WithACRVerifier", "(verifier : Option (String → Go.R Unit))"),
		vopt("WithAuthTimeMaxAge", "(maxAge : Int)"),
		vopt("WithSupportedSigningAlgorithms", "(algs : List String)"),
		{File: vgo, Name: "NewIDTokenVerifier", Lean: "NewIDTokenVerifier", PlainUpdate: true, Closures: true, ClosureBinderTypes: ctxT,
			LoopStyle: "state", OutCallState: true, LocalOut: map[string]OutParam{"opts": {0, true}},
			StructLits: map[string]StructLit{"IDTokenVerifier{}": {Lean: "RPCVerifierGo", Keep: allFields}},
			Params:     []string{"(issuer clientID : String)", "(keySet : RPCKeySet)", "(options : List RPCVerifierOpt)"},
			Ret:        RetVal, RetType: "RPCVerifierGo", Rename: map[string]string{"opts()": "opts", "time.Second": "Go.second"}},
		// the ACR verifier applications usually hand to WithACRVerifier
		{File: "pkg/oidc/verifier.go", Name: "DefaultACRVerifier", Lean: "DefaultACRVerifier", Closures: true,
			Params: []string{"(possibleValues : List String)"}, Ret: RetVal, RetType: "(String → Go.R Unit)",
			Rename: map[string]string{"str.Contains()": "Go.contains"}},
		// ---- the relying party: options
		popt("WithCustomDiscoveryUrl", "(url : String)"),
		popt("WithCookieHandler", "(cookieHandler : Option Nat)"),
		popt("WithPKCE", "(cookieHandler : Option Nat)"),
		popt("WithHTTPClient", "(client : RPCHttpClient)"),
		popt("WithErrorHandler", "(errorHandler : Option Nat)"),
		popt("WithUnauthorizedHandler", "(unauthorizedHandler : Option Nat)"),
		popt("WithAuthStyle", "(oauthAuthStyle : Int)"),
		popt("WithVerifierOpts", "(opts : List RPCVerifierOpt)"),
		func() FuncSpec {
			f := popt("WithJWTProfile", "(signerFromKey : Go.R Nat)")
			f.Rename = map[string]string{"signerFromKey()": "signerFromKey"}
			return f
		}(),
		popt("WithLogger", "(logger : Option Nat)"),
		popt("WithSigningAlgsFromDiscovery", ""),
		// ---- what discovery yields
		{File: rpgo, Name: "GetEndpoints", Lean: "GetEndpoints", PlainUpdate: true,
			StructLits: map[string]StructLit{
				"Endpoints{}":       {Lean: "RPCEndpoints", Keep: []string{"Endpoint", "IntrospectURL", "UserinfoURL", "JKWsURL", "EndSessionURL", "RevokeURL", "DeviceAuthorizationURL"}},
				"oauth2.Endpoint{}": {Lean: "RPCEndpoint", Keep: []string{"AuthURL", "TokenURL"}}},
			Params: []string{"(discoveryConfig : RPCDiscoveryConfiguration)"}, Ret: RetVal, RetType: "RPCEndpoints"},
		// ---- the lazy getters (they write the relying party on first use)
		lazy("IDTokenVerifier", "relyingPartyIDTokenVerifier", "(Option RPCVerifierGo)",
			map[string]string{"NewIDTokenVerifier()": "NewIDTokenVerifier now", "NewRemoteKeySet()": "RPCKeySet.remote",
				"httphelper.DefaultHTTPClient": "Const.RPCDefaultHTTPClient", "http.DefaultClient": "Const.RPCGoDefaultHTTPClient"}),
		lazy("ErrorHandler", "relyingPartyErrorHandler", "(Option Nat)", map[string]string{"DefaultErrorHandler": "Const.RPCDefaultErrorHandler"}),
		lazy("UnauthorizedHandler", "relyingPartyUnauthorizedHandler", "(Option Nat)", map[string]string{"DefaultUnauthorizedHandler": "Const.RPCDefaultUnauthorizedHandler"}),
		// ---- the two constructors
		{File: rpgo, Name: "NewRelyingPartyOAuth", Lean: "NewRelyingPartyOAuth", PlainUpdate: true, NestedUpdate: true,
			LoopStyle: "ctl", OutCallState: true, LocalOut: map[string]OutParam{"optFunc": {0, true}, "copy": {0, true}}, RecvState: recvState, LetIf: true,
			StructLits: map[string]StructLit{"relyingParty{}": rpLit},
			Params:     []string{"(config : RPCOAuthConfig)", "(options : List RPCOption)"}, Ret: RetValErr, RetType: "RPCRelyingParty",
			Rename: ctorRename},
		{File: rpgo, Name: "NewRelyingPartyOIDC", Lean: "NewRelyingPartyOIDC", PlainUpdate: true, NestedUpdate: true, ValueOnly: true,
			LoopStyle: "ctl", OutCallState: true, LocalOut: map[string]OutParam{"optFunc": {0, true}, "copy": {0, true}}, RecvState: recvState, LetIf: true,
			StructLits: map[string]StructLit{"relyingParty{}": rpLit,
				"oauth2.Config{}": {Lean: "RPCOAuthConfig", Keep: []string{"ClientID", "ClientSecret", "RedirectURL", "Scopes"}}},
			Params: []string{"(w : RPCWorld)", "(issuer clientID clientSecret redirectURI : String)", "(scopes : List String)", "(options : List RPCOption)"},
			Ret:    RetValErr, RetType: "RPCRelyingParty", Rename: ctorRename},
		// ---- the way from a token response (CodeExchange, RefreshTokens) into the verifier
		{File: rpgo, Name: "verifyTokenResponse", Lean: "verifyTokenResponse", PlainUpdate: true, ErrWins: true,
			StructLits:  map[string]StructLit{"oidc.Tokens{}": {Lean: "RPCTokens", Keep: []string{"Token", "IDTokenClaims", "IDToken"}}},
			TypeAsserts: map[string]string{"string": "Hand.rpcExtraString"},
			Params:      []string{"(w : RPCWorld)", "(token : RPCOAuthToken)", "(rp : RPCRelyingParty)"}, Ret: RetValErr, RetType: "RPCTokens",
			Rename: map[string]string{"rp.IsOAuth2Only()": "(rp).oauth2Only", "token.Extra()": "Hand.rpcExtra token", "idTokenKey": "\"id_token\"",
				"rp.IDTokenVerifier()": "(relyingPartyIDTokenVerifier now rp)", "VerifyTokens()": "Hand.rpcVerifyTokens w (Gen.VerifyTokens now)",
				"VerifyIDToken()": "Hand.rpcVerifyIDToken w (Gen.VerifyIDToken now)", "NewIDTokenVerifier()": "NewIDTokenVerifier now"}},
	}
	extraGroups = append(extraGroups, Group{
		Out:     "RPConstruct.lean",
		NS:      "GenC01",
		Imports: []string{"OidcModel.Model.RPConstruct", "OidcModel.Generated.RPVerifier"},
		Opens:   []string{"Go", "Hand", "Const", "Gen"},
		Funcs:   funcs,
	})
	// ---- (round 3, seeded C01-M / C01-F) the claim GETTERS the verifier reads and the struct <-> JSON mapping of the claims types.
	// Every theorem of the slice speaks about `Claims.GetX` of Model/Token.lean (hand-written: "the claim of that name"); here the Go
	// getters of *TokenClaims / *IDTokenClaims are regenerated over the Go layout (`RPCClaimsGo`), and the JSON tag of every field is
	// extracted (`tokenClaimsTags`): Proofs/C01Construct `c01_getters_faithful` proves getter = the field whose tag is the claim's name.
	tok := "pkg/oidc/token.go"
	getter := func(name, ret string, rn map[string]string) FuncSpec {
		return FuncSpec{File: tok, Name: "TokenClaims." + name, Lean: name, Params: []string{"(c : RPCClaimsGo)"}, Ret: RetVal, RetType: ret, Rename: rn}
	}
	asTime := func(f string) map[string]string {
		return map[string]string{"c." + f + ".AsTime()": "(Go.asTime (c)." + f + ")"}
	}
	extraGroups = append(extraGroups, Group{
		Out:     "ClaimGetters.lean",
		NS:      "GenC01",
		Imports: []string{"OidcModel.Model.RPConstruct"},
		Opens:   []string{"Go", "Hand", "Const"},
		Extra:   claimTagsFact,
		Funcs: []FuncSpec{
			getter("GetIssuer", "String", nil),
			getter("GetSubject", "String", nil),
			getter("GetAudience", "(List String)", nil),
			getter("GetExpiration", "Int", asTime("Expiration")),
			getter("GetIssuedAt", "Int", asTime("IssuedAt")),
			getter("GetNonce", "String", nil),
			getter("GetAuthTime", "Int", asTime("AuthTime")),
			getter("GetAuthorizedParty", "String", nil),
			getter("GetSignatureAlgorithm", "String", nil),
			getter("GetAuthenticationContextClassReference", "String", nil),
			{File: tok, Name: "IDTokenClaims.GetAccessTokenHash", Lean: "GetAccessTokenHash", Params: []string{"(t : RPCClaimsGo)"}, Ret: RetVal, RetType: "String"},
			{File: tok, Name: "TokenClaims.SetSignatureAlgorithm", Lean: "SetSignatureAlgorithm", PlainUpdate: true,
				Params: []string{"(c : RPCClaimsGo)", "(algorithm : String)"}, Ret: RetVal, RetParam: "c", RetType: "RPCClaimsGo"},
		},
	})
}

// claimTagsFact: the `json:"name,..."` tag of every field of oidc.TokenClaims and of the fields oidc.IDTokenClaims adds, as
// `def tokenClaimsTags : List (String × String)` (Go field name, JSON member name; "-" = not part of the JSON object)
func claimTagsFact(g *genCtx) string {
	const lean = "tokenClaimsTags"
	f := g.file("pkg/oidc/token.go")
	if f == nil {
		g.unsup[lean] = append(g.unsup[lean], "pkg/oidc/token.go does not parse")
		return "def tokenClaimsTags := UNSUPPORTED_token_go\n"
	}
	var rows []string
	found := map[string]bool{}
	for _, d := range f.Decls {
		gd, ok := d.(*ast.GenDecl)
		if !ok {
			continue
		}
		for _, sp := range gd.Specs {
			ts, ok := sp.(*ast.TypeSpec)
			if !ok || (ts.Name.Name != "TokenClaims" && ts.Name.Name != "IDTokenClaims") {
				continue
			}
			st, ok := ts.Type.(*ast.StructType)
			if !ok {
				continue
			}
			found[ts.Name.Name] = true
			for _, fld := range st.Fields.List {
				if fld.Tag == nil {
					continue
				}
				tag, err := strconv.Unquote(fld.Tag.Value)
				if err != nil {
					continue
				}
				name := strings.Split(reflect.StructTag(tag).Get("json"), ",")[0]
				for _, n := range fld.Names {
					rows = append(rows, "("+leanStr(ts.Name.Name+"."+n.Name)+", "+leanStr(name)+")")
				}
			}
		}
	}
	if !found["TokenClaims"] || !found["IDTokenClaims"] {
		g.unsup[lean] = append(g.unsup[lean], "struct types TokenClaims / IDTokenClaims not found")
		return "def tokenClaimsTags := UNSUPPORTED_claims_types\n"
	}
	return "/-- JSON member name of every tagged field of oidc.TokenClaims / oidc.IDTokenClaims (pkg/oidc/token.go) -/\ndef tokenClaimsTags : List (String × String) :=\n  [" +
		strings.Join(rows, ",\n   ") + "]\n"
}

// ---- (round 4, seeded C01-P) the DECODER of the time claims the verifier's guards read: (*oidc.Time).UnmarshalJSON, and the two
// conversions between oidc.Time and time.Time (Time.AsTime is what GetExpiration / GetIssuedAt / GetAuthTime hand to the guards).
// The same FuncSpec as the codec slice's (C12, namespace GenCodec), regenerated into the C01 slice's own file and namespace so
// that the link "the instant a time guard sees is the value of the JSON number" (Proofs/C01Time.lean) depends on this function
// only. encoding/json on `any` and time.Parse are oracle parameters (`Cdc.Oracles`), quantified over in every theorem.
func init() {
	extraGroups = append(extraGroups, Group{
		Out:     "C01Time.lean",
		NS:      "GenC01T",
		Imports: []string{"OidcModel.Model.CodecWrap"},
		Opens:   []string{"Go", "Cdc"},
		Funcs: []FuncSpec{
			c12Spec(FuncSpec{File: "pkg/oidc/types.go", Name: "Time.UnmarshalJSON", Lean: "TimeUnmarshalJSON",
				Params: []string{"(o : Oracles)", "(ts : Int)", "(data : String)"}, Ret: RetErr, RetParam: "ts", RetType: "Int",
				LocalOut: map[string]OutParam{"json.Unmarshal": {1, false}}, DropArgs: []string{"&v", "time.RFC3339"},
				Rename: map[string]string{"json.Unmarshal()": "(o).jsonAny", "time.Parse()": "(o).timeParse", "Time()": "Cdc.F64.toInt64"}}),
			// the other custom decoder among the claims the verifier reads: `aud` (a string or an array of strings)
			c12Spec(FuncSpec{File: "pkg/oidc/types.go", Name: "Audience.UnmarshalJSON", Lean: "AudienceUnmarshalJSON",
				Params: []string{"(o : Oracles)", "(a : List String)", "(text : String)"}, Ret: RetErr, RetParam: "a", RetType: "(List String)",
				LocalOut: map[string]OutParam{"json.Unmarshal": {1, false}}, DropArgs: []string{"&i"},
				TypeAsserts: map[string]string{"string": "Cdc.JVal.asString"},
				Rename:      map[string]string{"json.Unmarshal()": "(o).jsonAny"}}),
			c12Spec(FuncSpec{File: "pkg/oidc/types.go", Name: "Time.AsTime", Lean: "TimeAsTime", Params: []string{"(ts : Int)"}, Ret: RetVal, RetType: "Int",
				Rename: map[string]string{"time.Time{}": "Go.zeroTime", "time.Unix()": "Cdw.timeUnix"}}),
			c12Spec(FuncSpec{File: "pkg/oidc/types.go", Name: "FromTime", Lean: "FromTime", Params: []string{"(tt : Int)"}, Ret: RetVal, RetType: "Int",
				Rename: map[string]string{"tt.IsZero()": "(Go.tIsZero tt)", "tt.Unix()": "(Go.tToUnix tt)"}}),
		},
	})
}
