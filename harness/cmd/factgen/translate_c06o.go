package main

// FuncSpec.OracleVars (C06, round 4): a variable that holds a state-passing oracle - the pluggable storage, whose answers may
// differ from call to call (a signing key that is rotated while a token response is being built).  In the model such a value
// carries the history of the calls answered so far; every method `M` of it returns `Go.R (value × next state)` (or
// `Go.R (next state)` for methods that only return an error), and the translation threads the state:
//
//	x, err := v.M(a); if err != nil { return .., err }      ->   match (v).M a with | .error err => .. | .ok (x, v) => ..
//	a, ok := v.(T)                                           ->   let ok := (v).is_T          (a is v from here on)
//
// so that a SECOND fetch of something that was fetched before is visible as a second oracle step in the regenerated definition.
// A method call on an oracle variable anywhere else (expression position, unchecked result, tail call) is UNSUPPORTED.
// Reached only with spec.OracleVars set: the output for every other spec is unchanged.

import (
	"go/ast"
)

// oracleRoot: the oracle variable an identifier stands for ("" if none)
func (t *tr) oracleRoot(name string) string {
	for i := 0; i < 8; i++ {
		y, ok := t.syn[name]
		if !ok {
			break
		}
		name = y
	}
	for _, v := range t.spec.OracleVars {
		if v == name {
			return v
		}
	}
	return ""
}

// oracleCall: `v.M(..)` with v an oracle variable (or an alias of one) -> (v's root, the call)
func (t *tr) oracleCall(e ast.Expr) (string, *ast.CallExpr) {
	if t.spec.OracleVars == nil {
		return "", nil
	}
	c, ok := e.(*ast.CallExpr)
	if !ok {
		return "", nil
	}
	sel, ok := c.Fun.(*ast.SelectorExpr)
	if !ok {
		return "", nil
	}
	id, ok := sel.X.(*ast.Ident)
	if !ok {
		return "", nil
	}
	if root := t.oracleRoot(id.Name); root != "" {
		return root, c
	}
	return "", nil
}

// oracleAlias: `a, ok := v.(T)` with v an oracle variable makes a a synonym of v
func (t *tr) oracleAlias(a string, x ast.Expr) bool {
	if t.spec.OracleVars == nil {
		return false
	}
	id, ok := x.(*ast.Ident)
	if !ok {
		return false
	}
	root := t.oracleRoot(id.Name)
	if root == "" || a == "_" {
		return false
	}
	if t.syn == nil {
		t.syn = map[string]string{}
	}
	t.syn[a] = root
	return true
}

// oracleCheck: every oracle call of the function must have had its next state bound
func (t *tr) oracleCheck(body string) string {
	if t.spec.OracleVars == nil {
		return body
	}
	for c := range t.oracleCalls {
		if !t.oracleBound[c] {
			return t.bad("call on a state-passing oracle whose next state is not bound (unchecked / expression position / tail call)", c)
		}
	}
	return body
}
