package main

// C09, kind H: handler skeletons.
//
// For EVERY function (declaration or function literal) of pkg/op (and pkg/http/marshal.go) that has a
// parameter of type http.ResponseWriter, the control-flow tree of its body is regenerated, abstracted to
//
//	write  – a call that hands the ResponseWriter on (RequestError, WriteError, AuthRequestError, http.Error,
//	         http.Redirect, httphelper.MarshalJSON*, x.writeOut, another handler …) or w.WriteHeader: commits a response
//	body   – bytes written to the ResponseWriter (w.Write, json.NewEncoder(w).Encode, buf.WriteTo(w), fmt.Fprint(w, …))
//	tryW   – `if err := F(w, …); err != nil { … }`: F writes the response XOR returns an error
//	logic  – any other call that is not tracing / logging / error construction (storage, grant logic, parsing, getters)
//	ret    – return (with the class of the returned error: none | nil | err)
//	ite / loop – branching (conditions are abstracted away: both branches are possible) and loops
//
// in continuation style (every constructor carries what follows it), so that the Lean side is a plain,
// non-nested inductive type. Anything outside this statement language is emitted as UNSUPPORTED_… and breaks
// the build visibly. No type information is used (go/ast only): "hands the ResponseWriter on" = the identifier
// of a parameter of type http.ResponseWriter occurs in the call (w.Header() excepted).

import (
	"fmt"
	"go/ast"
	"go/token"
	"os"
	"path/filepath"
	"sort"
	"strings"
)

type hsk struct {
	kind string // done write body logic ret ite tryW loop unsupported
	name string
	err  bool
	ret  string // none nil err
	a, b *hsk
	k    *hsk
}

var hDone = &hsk{kind: "done"}

func (h *hsk) lean() string {
	switch h.kind {
	case "done":
		return ".done"
	case "write":
		return fmt.Sprintf("(.write %s %v %s)", leanStr(h.name), h.err, h.k.lean())
	case "body":
		return fmt.Sprintf("(.body %s %s)", leanStr(h.name), h.k.lean())
	case "logic":
		return fmt.Sprintf("(.logic %s %s)", leanStr(h.name), h.k.lean())
	case "ret":
		return "(.ret ." + h.ret + ")"
	case "ite":
		return fmt.Sprintf("(.ite %s %s %s)", h.a.lean(), h.b.lean(), h.k.lean())
	case "tryW":
		return fmt.Sprintf("(.tryW %s %s %s)", leanStr(h.name), h.a.lean(), h.k.lean())
	case "loop":
		return fmt.Sprintf("(.loop %s %s)", h.a.lean(), h.k.lean())
	}
	return "UNSUPPORTED_" + sanitizeIdent(h.name)
}

func sanitizeIdent(s string) string {
	var b strings.Builder
	for _, r := range s {
		if (r >= 'a' && r <= 'z') || (r >= 'A' && r <= 'Z') || (r >= '0' && r <= '9') {
			b.WriteRune(r)
		} else {
			b.WriteByte('_')
		}
	}
	return b.String()
}

type skx struct {
	fset    *token.FileSet
	writers map[string]bool // identifiers of http.ResponseWriter parameters in scope
	errRes  bool            // the function's last result is `error`
	unsup   []string
	inLoop  bool
}

func (x *skx) bad(pos token.Pos, what string) *hsk {
	x.unsup = append(x.unsup, fmt.Sprintf("%s: %s", x.fset.Position(pos), what))
	return &hsk{kind: "unsupported", name: what}
}

// touchesW: a ResponseWriter identifier occurs in e, not counting `w.Header()` sub-expressions and function literals
func (x *skx) touchesW(e ast.Node) bool {
	found := false
	ast.Inspect(e, func(n ast.Node) bool {
		if found {
			return false
		}
		switch v := n.(type) {
		case *ast.FuncLit:
			return false
		case *ast.CallExpr:
			if s, ok := v.Fun.(*ast.SelectorExpr); ok && s.Sel.Name == "Header" {
				if id, ok := s.X.(*ast.Ident); ok && x.writers[id.Name] {
					return false
				}
			}
		case *ast.Ident:
			if x.writers[v.Name] {
				found = true
			}
		}
		return true
	})
	return found
}

// funcLitTouchesW: a function literal inside e uses the ResponseWriter (a deferred / stored writer): not in the language
func (x *skx) funcLitTouchesW(e ast.Node) bool {
	found := false
	ast.Inspect(e, func(n ast.Node) bool {
		if fl, ok := n.(*ast.FuncLit); ok {
			sub := &skx{fset: x.fset, writers: x.writers}
			if sub.touchesW(fl.Body) {
				found = true
			}
			return false
		}
		return true
	})
	return found
}

var c09InertPrefixes = []string{"fmt.", "errors.", "strings.", "slices.", "bytes.", "strconv.", "oidc.Err", "oidc.DefaultToServerError", "oidc.GrantType",
	"oidc.ResponseType", "NewStatusError", "AsStatusError", "unimplementedGrantError", "unimplementedError", "reflect.", "gu.MapMerge", "make", "new", "len", "cap",
	"append", "string", "int", "http.StatusText"}

func c09Inert(c *ast.CallExpr) bool {
	if ignorableCall(c) {
		return true
	}
	s := exprString(c.Fun)
	if s == "r.Context" || strings.HasSuffix(s, ".Logger") || strings.HasSuffix(s, ".getLogger") || strings.HasSuffix(s, ".Header().Set") ||
		strings.HasSuffix(s, ".Header().Add") || strings.HasSuffix(s, ".Header") || strings.HasSuffix(s, ".Error") || strings.HasSuffix(s, ".LogLevel") ||
		strings.HasSuffix(s, ".With") || strings.HasSuffix(s, ".Log") || strings.HasSuffix(s, ".ErrorContext") {
		return true
	}
	for _, p := range c09InertPrefixes {
		if s == p || (strings.HasSuffix(p, ".") && strings.HasPrefix(s, p)) || (strings.HasPrefix(s, p) && strings.HasPrefix(p, "oidc.Err")) {
			return true
		}
	}
	// method chains on an error constructor: oidc.ErrX().WithDescription(…)
	if strings.HasPrefix(s, "oidc.Err") {
		return true
	}
	return false
}

// outermost calls in e (function literals are not entered), in source order
func outermostCalls(e ast.Node) []*ast.CallExpr {
	var out []*ast.CallExpr
	if e == nil {
		return nil
	}
	ast.Inspect(e, func(n ast.Node) bool {
		switch v := n.(type) {
		case *ast.FuncLit:
			return false
		case *ast.CallExpr:
			out = append(out, v)
			return false
		}
		return true
	})
	return out
}

var c09OkWriters = map[string]bool{"httphelper.MarshalJSON": true, "MarshalJSON": true, "http.Redirect": true, "ok": true, "RedirectToLogin": true}

// callStep: the steps a single outermost call contributes, followed by k
func (x *skx) callStep(c *ast.CallExpr, k *hsk) *hsk {
	f := exprString(c.Fun)
	if inner, ok := c.Fun.(*ast.CallExpr); ok {
		// `s.withClient(s.codeExchangeHandler)(w, r)`: keep the handler that is passed on in the name
		f = render(x.fset, inner)
	}
	if !x.touchesW(c) {
		// nested calls run first; they are folded into this one step unless the call itself is inert
		if c09Inert(c) {
			var inner []*ast.CallExpr
			for _, a := range c.Args {
				inner = append(inner, outermostCalls(a)...)
			}
			if s, ok := c.Fun.(*ast.SelectorExpr); ok {
				inner = append(outermostCalls(s.X), inner...)
			}
			for i := len(inner) - 1; i >= 0; i-- {
				k = x.callStep(inner[i], k)
			}
			return k
		}
		return &hsk{kind: "logic", name: f, k: k}
	}
	// the call hands the ResponseWriter on (or is a method of it)
	var pre []*ast.CallExpr // argument calls that do not touch w run before the write
	for _, a := range c.Args {
		for _, ic := range outermostCalls(a) {
			if !x.touchesW(ic) {
				pre = append(pre, ic)
			}
		}
	}
	var step *hsk
	recvIsW := false
	if s, ok := c.Fun.(*ast.SelectorExpr); ok {
		if id, ok := s.X.(*ast.Ident); ok && x.writers[id.Name] {
			recvIsW = true
		}
	}
	switch {
	case recvIsW && strings.HasSuffix(f, ".WriteHeader"):
		isErr := true
		if len(c.Args) == 1 {
			a := exprString(c.Args[0])
			isErr = !(a == "http.StatusOK" || a == "http.StatusFound")
		}
		step = &hsk{kind: "write", name: "WriteHeader", err: isErr, k: k}
	case recvIsW && strings.HasSuffix(f, ".Write"), strings.HasSuffix(f, ".Encode"), strings.HasSuffix(f, ".WriteTo"), strings.HasPrefix(f, "fmt.Fprint"),
		f == "io.WriteString", f == "io.Copy", strings.HasSuffix(f, ".Execute"), strings.HasSuffix(f, ".ExecuteTemplate"):
		step = &hsk{kind: "body", name: f, k: k}
	case recvIsW:
		return x.bad(c.Pos(), "method of the ResponseWriter outside the language: "+f)
	default:
		isErr := !(c09OkWriters[f] || strings.HasSuffix(f, ".writeOut"))
		if (f == "httphelper.MarshalJSONWithStatus" || f == "MarshalJSONWithStatus") && len(c.Args) == 3 {
			isErr = exprString(c.Args[2]) != "http.StatusOK"
		}
		step = &hsk{kind: "write", name: f, err: isErr, k: k}
	}
	for i := len(pre) - 1; i >= 0; i-- {
		step = x.callStep(pre[i], step)
	}
	return step
}

// exprSteps: all outermost calls of the expressions, in order, followed by k; a call touching w whose VALUE is used
// is only allowed where the caller handles it (tryW); here it is an error
func (x *skx) exprSteps(k *hsk, valueUsed bool, es ...ast.Node) *hsk {
	var calls []*ast.CallExpr
	for _, e := range es {
		if e == nil {
			continue
		}
		if x.funcLitTouchesW(e) {
			return x.bad(e.Pos(), "function literal capturing the ResponseWriter")
		}
		calls = append(calls, outermostCalls(e)...)
	}
	for i := len(calls) - 1; i >= 0; i-- {
		c := calls[i]
		if valueUsed && x.touchesW(c) {
			if w := lastStep(x.callStep(c, hDone)); w != nil && w.kind == "write" {
				return x.bad(c.Pos(), "result of a response-writing call is used outside `if err := F(w, …); err != nil`: "+exprString(c.Fun))
			}
		}
		k = x.callStep(c, k)
	}
	return k
}

func c09ErrNotNil(e ast.Expr) (string, bool) {
	b, ok := e.(*ast.BinaryExpr)
	if !ok || b.Op != token.NEQ {
		return "", false
	}
	id, ok1 := b.X.(*ast.Ident)
	nl, ok2 := b.Y.(*ast.Ident)
	if ok1 && ok2 && nl.Name == "nil" {
		return id.Name, true
	}
	return "", false
}

// writerAssign: `err := F(w, …)` / `err = F(w, …)` (also as the init of an if) with F a full response writer (not a primitive)
func (x *skx) writerAssign(s ast.Stmt) (errName string, call *ast.CallExpr, ok bool) {
	as, isAs := s.(*ast.AssignStmt)
	if !isAs || len(as.Rhs) != 1 {
		return "", nil, false
	}
	c, isCall := as.Rhs[0].(*ast.CallExpr)
	if !isCall || !x.touchesW(c) {
		return "", nil, false
	}
	if w := lastStep(x.callStep(c, hDone)); w == nil || w.kind != "write" {
		return "", nil, false
	}
	last, isId := as.Lhs[len(as.Lhs)-1].(*ast.Ident)
	if !isId {
		return "", nil, false
	}
	return last.Name, c, true
}

func (x *skx) block(stmts []ast.Stmt, k *hsk) *hsk {
	// right to left; the tryW pattern `err := F(w,…)` + `if err != nil {…}` consumes two statements
	for i := len(stmts) - 1; i >= 0; i-- {
		if i > 0 {
			if ifs, ok := stmts[i].(*ast.IfStmt); ok && ifs.Init == nil && ifs.Else == nil {
				if en, ok := c09ErrNotNil(ifs.Cond); ok {
					if name, c, ok := x.writerAssign(stmts[i-1]); ok && name == en {
						k = x.tryW(c, x.block(ifs.Body.List, hDone), k)
						i--
						continue
					}
				}
			}
		}
		k = x.stmt(stmts[i], k)
	}
	return k
}

func lastStep(h *hsk) *hsk {
	for h != nil && h.k != nil && h.k.kind != "done" {
		h = h.k
	}
	return h
}

// tryW: the callee writes the response XOR returns an error; argument calls run before it
func (x *skx) tryW(c *ast.CallExpr, onErr, k *hsk) *hsk {
	st := &hsk{kind: "tryW", name: exprString(c.Fun), a: onErr, k: k}
	var pre []*ast.CallExpr
	for _, a := range c.Args {
		for _, ic := range outermostCalls(a) {
			if !x.touchesW(ic) {
				pre = append(pre, ic)
			}
		}
	}
	for i := len(pre) - 1; i >= 0; i-- {
		st = x.callStep(pre[i], st)
	}
	return st
}

func (x *skx) retKind(r *ast.ReturnStmt) string {
	if !x.errRes {
		return "none"
	}
	if len(r.Results) == 0 {
		return "naked"
	}
	if id, ok := r.Results[len(r.Results)-1].(*ast.Ident); ok && id.Name == "nil" {
		return "nil"
	}
	return "err"
}

func (x *skx) stmt(s ast.Stmt, k *hsk) *hsk {
	switch v := s.(type) {
	case nil:
		return k
	case *ast.EmptyStmt, *ast.IncDecStmt:
		return k
	case *ast.ReturnStmt:
		rk := x.retKind(v)
		if rk == "naked" {
			return x.bad(v.Pos(), "naked return in a function returning an error")
		}
		// `return F(w, …)`: the callee's discipline is this function's
		if len(v.Results) == 1 {
			if c, ok := v.Results[0].(*ast.CallExpr); ok && x.touchesW(c) && x.errRes {
				return x.tryW(c, &hsk{kind: "ret", ret: "err"}, &hsk{kind: "ret", ret: "nil"})
			}
		}
		var es []ast.Node
		for _, e := range v.Results {
			es = append(es, e)
		}
		return x.exprSteps(&hsk{kind: "ret", ret: rk}, true, es...)
	case *ast.ExprStmt:
		return x.exprSteps(k, false, v.X)
	case *ast.AssignStmt:
		var es []ast.Node
		for _, e := range v.Rhs {
			es = append(es, e)
		}
		for _, e := range v.Lhs {
			es = append(es, e)
		}
		// a body write whose error is kept (`_, err = buf.WriteTo(w)`) is an ordinary step
		if len(v.Rhs) == 1 {
			if c, ok := v.Rhs[0].(*ast.CallExpr); ok && x.touchesW(c) {
				if st := x.callStep(c, hDone); lastStep(st).kind == "body" {
					return x.callStep(c, k)
				}
			}
		}
		return x.exprSteps(k, true, es...)
	case *ast.DeclStmt:
		gd, ok := v.Decl.(*ast.GenDecl)
		if !ok {
			return x.bad(v.Pos(), "declaration")
		}
		var es []ast.Node
		for _, sp := range gd.Specs {
			if vs, ok := sp.(*ast.ValueSpec); ok {
				for _, e := range vs.Values {
					es = append(es, e)
				}
			}
		}
		return x.exprSteps(k, true, es...)
	case *ast.BlockStmt:
		return x.block(v.List, k)
	case *ast.DeferStmt:
		if ignorableCall(v.Call) || c09Inert(v.Call) {
			return k
		}
		return x.bad(v.Pos(), "defer of a non-inert call")
	case *ast.IfStmt:
		// `if err := F(w, …); err != nil { … }`
		if v.Init != nil && v.Else == nil {
			if en, ok := c09ErrNotNil(v.Cond); ok {
				if name, c, ok := x.writerAssign(v.Init); ok && name == en {
					return x.tryW(c, x.block(v.Body.List, hDone), k)
				}
			}
		}
		thenB := x.block(v.Body.List, hDone)
		elseB := hDone
		switch e := v.Else.(type) {
		case *ast.BlockStmt:
			elseB = x.block(e.List, hDone)
		case *ast.IfStmt:
			elseB = x.stmt(e, hDone)
		}
		node := &hsk{kind: "ite", a: thenB, b: elseB, k: k}
		node2 := x.exprSteps(node, true, v.Cond)
		if v.Init != nil {
			return x.stmt(v.Init, node2)
		}
		return node2
	case *ast.SwitchStmt:
		return x.switchLike(v.Init, v.Tag, v.Body, k)
	case *ast.TypeSwitchStmt:
		return x.switchLike(v.Init, v.Assign, v.Body, k)
	case *ast.ForStmt:
		if v.Init != nil || v.Post != nil {
			if x.touchesW(v) && (x.touchesWStmt(v.Init) || x.touchesWStmt(v.Post)) {
				return x.bad(v.Pos(), "for header using the ResponseWriter")
			}
		}
		if hasBranch(v.Body) {
			return x.bad(v.Pos(), "break/continue/goto in a loop")
		}
		body := x.block(v.Body.List, hDone)
		if v.Cond != nil {
			body = x.exprSteps(body, true, v.Cond)
		}
		return &hsk{kind: "loop", a: body, k: k}
	case *ast.RangeStmt:
		if hasBranch(v.Body) {
			return x.bad(v.Pos(), "break/continue/goto in a loop")
		}
		body := x.block(v.Body.List, hDone)
		return x.exprSteps(&hsk{kind: "loop", a: body, k: k}, true, v.X)
	}
	return x.bad(s.Pos(), fmt.Sprintf("statement %T", s))
}

func (x *skx) touchesWStmt(s ast.Stmt) bool {
	if s == nil {
		return false
	}
	return x.touchesW(s)
}

func hasBranch(n ast.Node) bool {
	found := false
	ast.Inspect(n, func(m ast.Node) bool {
		switch m.(type) {
		case *ast.FuncLit:
			return false
		case *ast.BranchStmt:
			found = true
		}
		return !found
	})
	return found
}

// switchLike: cases become a chain of binary choices; without a default the empty case is possible
func (x *skx) switchLike(init ast.Stmt, tag ast.Node, body *ast.BlockStmt, k *hsk) *hsk {
	if hasBranch(body) {
		return x.bad(body.Pos(), "break/fallthrough in a switch")
	}
	var cases []*hsk
	hasDefault := false
	var defaultCase *hsk
	var condCalls []ast.Node
	for _, c := range body.List {
		cc, ok := c.(*ast.CaseClause)
		if !ok {
			return x.bad(c.Pos(), "switch clause")
		}
		b := x.block(cc.Body, hDone)
		if cc.List == nil {
			hasDefault = true
			defaultCase = b
			continue
		}
		for _, e := range cc.List {
			condCalls = append(condCalls, e)
		}
		cases = append(cases, b)
	}
	tail := hDone
	if hasDefault {
		tail = defaultCase
	}
	var node *hsk
	if len(cases) == 0 {
		node = &hsk{kind: "ite", a: tail, b: tail, k: k}
	} else {
		chain := tail
		for i := len(cases) - 1; i >= 1; i-- {
			chain = &hsk{kind: "ite", a: cases[i], b: chain, k: hDone}
		}
		node = &hsk{kind: "ite", a: cases[0], b: chain, k: k}
	}
	res := x.exprSteps(node, true, append([]ast.Node{tag}, condCalls...)...)
	if init != nil {
		return x.stmt(init, res)
	}
	return res
}

// ---------------------------------------------------------------- discovery of the handler functions

type c09Handler struct {
	Name string
	File string
	Sk   *hsk
	Err  bool // returns an error (writes XOR returns it)
}

func writerParams(ft *ast.FuncType) map[string]bool {
	out := map[string]bool{}
	if ft.Params == nil {
		return out
	}
	for _, f := range ft.Params.List {
		if exprString(f.Type) == "http.ResponseWriter" {
			for _, n := range f.Names {
				out[n.Name] = true
			}
		}
	}
	return out
}

func lastResultIsError(ft *ast.FuncType) bool {
	if ft.Results == nil || len(ft.Results.List) == 0 {
		return false
	}
	l := ft.Results.List[len(ft.Results.List)-1]
	return exprString(l.Type) == "error"
}

func c09GoFiles(dir string) []string {
	ents, err := os.ReadDir(filepath.Join(repoRoot, dir))
	if err != nil {
		return nil
	}
	var out []string
	for _, e := range ents {
		n := e.Name()
		if e.IsDir() || !strings.HasSuffix(n, ".go") || strings.HasSuffix(n, "_test.go") {
			continue
		}
		out = append(out, filepath.Join(dir, n))
	}
	sort.Strings(out)
	return out
}

func declName(fd *ast.FuncDecl) string {
	if fd.Recv != nil && len(fd.Recv.List) == 1 {
		return strings.TrimPrefix(exprString(fd.Recv.List[0].Type), "*") + "." + fd.Name.Name
	}
	return fd.Name.Name
}

func c09Handlers(g *genCtx) []c09Handler {
	var out []c09Handler
	files := append(c09GoFiles("pkg/op"), "pkg/http/marshal.go")
	for _, rel := range files {
		f := g.file(rel)
		if f == nil {
			continue
		}
		for _, d := range f.Decls {
			fd, ok := d.(*ast.FuncDecl)
			if !ok || fd.Body == nil {
				continue
			}
			name := declName(fd)
			if w := writerParams(fd.Type); len(w) > 0 {
				x := &skx{fset: g.fset, writers: w, errRes: lastResultIsError(fd.Type)}
				sk := x.block(fd.Body.List, hDone)
				if len(x.unsup) > 0 {
					g.unsup["C09.sk."+name] = x.unsup
				}
				out = append(out, c09Handler{Name: name, File: rel, Sk: sk, Err: x.errRes})
			}
			// function literals with their own ResponseWriter parameter (handler constructors, middleware)
			n := 0
			ast.Inspect(fd.Body, func(nd ast.Node) bool {
				fl, ok := nd.(*ast.FuncLit)
				if !ok {
					return true
				}
				n++
				if w := writerParams(fl.Type); len(w) > 0 {
					x := &skx{fset: g.fset, writers: w, errRes: lastResultIsError(fl.Type)}
					sk := x.block(fl.Body.List, hDone)
					lname := fmt.Sprintf("%s.func%d", name, n)
					if len(x.unsup) > 0 {
						g.unsup["C09.sk."+lname] = x.unsup
					}
					out = append(out, c09Handler{Name: lname, File: rel, Sk: sk, Err: x.errRes})
				}
				return true
			})
		}
	}
	return out
}
