package main

// C02 (round 3): WHICH verifier object judges a token, and what a verification leaves behind in it.
//
// (1) Derived verifiers.  The token-consuming endpoints never see a hand-built verifier: `Provider.AccessTokenVerifier(ctx)` /
// `Provider.IDTokenHintVerifier(ctx)` build one per request from the provider's key set and option list
// (`NewAccessTokenVerifier(issuer, keySet, opts...)`, the options being closures such as
// `WithSupportedAccessTokenSigningAlgorithms(algs...)`, installed by the provider options `WithAccessTokenVerifierOpts(..)`),
// and the revocation endpoint derives ANOTHER one from it (`revocationKeySet.verifier`).  All of these are regenerated here
// (namespace GenC02, Generated/VerifiersC02.lean) together with the four readers of a presented token string that use them
// (`getTokenIDAndSubject`: userinfo + introspection of both routers, `getTokenIDAndSubjectForRevocation`: revocation of both
// routers, `getTokenIDAndClaims` + `GetTokenIDAndSubjectFromToken`: token exchange).  Proofs/C02Verifiers.lean proves that every
// verifier a reader uses carries the allow-list and key set the provider was configured with, and that a reader believes a
// JWT only under the monitor's conditions for that configuration.
//
// (2) Reuse.  `VerifyAccessToken`, `VerifyIDTokenHint`, `VerifyJWTAssertion` and the two storage-backed key sets are translated
// a second time with the FINAL STATE of the verifier / key-set object they are handed as a second result (`AlsoRet`): a write
// through the pointer (`v.keySet = …`) is then part of the definition, and the frame theorems (`*_frame`: the object comes back
// unchanged, the first result is the stateless function the C02 theorems speak about) stop checking.

func init() {
	const (
		vat  = "pkg/op/verifier_access_token.go"
		vith = "pkg/op/verifier_id_token_hint.go"
		vjp  = "pkg/op/verifier_jwt_profile.go"
		opgo = "pkg/op/op.go"
		rev  = "pkg/op/token_revocation.go"
	)
	allFields := []string{"Issuer", "MaxAgeIAT", "Offset", "ClientID", "SupportedSignAlgs", "MaxAge", "ACR", "KeySet", "Nonce"}
	pI := "(reqIssuer : String)"
	pP := "(userinfoProvider : C02Provider)"
	// a constructor: the literal, then every option applied in order
	ctor := func(file, name, lit string) FuncSpec {
		return FuncSpec{File: file, Name: name, Lean: name, PlainUpdate: true,
			LoopStyle: "state", OutCallState: true, LocalOut: map[string]OutParam{"opt": {0, true}},
			StructLits: map[string]StructLit{lit + "{}": {Lean: "Verifier", Keep: allFields}},
			Params:     []string{"(issuer : String)", "(keySet : KeySet)", "(opts : List C02VerifierOpt := [])"},
			Ret:        RetVal, RetType: "Verifier", Rename: map[string]string{"opt()": "opt"}}
	}
	// a functional option of a verifier / of the provider: a closure over the pointer it is handed
	vopt := func(file, name string) FuncSpec {
		return FuncSpec{File: file, Name: name, Lean: name, Closures: true, OptionClosures: true,
			Params: []string{"(algs : List String)"}, Ret: RetVal, RetType: "C02VerifierOpt"}
	}
	popt := func(name, param string) FuncSpec {
		return FuncSpec{File: opgo, Name: name, Lean: name, Closures: true, OptionClosures: true,
			Params: []string{param}, Ret: RetVal, RetType: "C02Option"}
	}
	readerRen := func(extra map[string]string) map[string]string {
		m := map[string]string{
			"IssuerFromContext()":                    "reqIssuer",
			"strings.Split()":                        "Hand.c02Split",
			"userinfoProvider.Crypto()":              "(userinfoProvider).crypto",
			"userinfoProvider.AccessTokenVerifier()": "(ProviderAccessTokenVerifier now reqIssuer userinfoProvider)",
			"VerifyAccessToken()":                    "Hand.c02VerifyAccessToken userinfoProvider (Gen.OPVerifyAccessToken now)",
		}
		for k, v := range extra {
			m[k] = v
		}
		return m
	}
	reader := func(file, name, ret string, kind RetKind, extra map[string]string) FuncSpec {
		return FuncSpec{File: file, Name: name, Lean: name, Params: []string{pI, pP, "(accessToken : String)"}, Ret: kind, RetType: ret,
			PlainUpdate: true, TupleAssign: true, ErrNilFirst: true, ErrElse: true, LoopStyle: "forFirst", Rename: readerRen(extra)}
	}
	ksRen := map[string]string{ // as in specs_c02.go
		"oidc.GetKeyIDAndAlg()":             "GetKeyIDAndAlg now",
		"oidc.FindMatchingKey()":            "FindMatchingKey now",
		"oidc.KeyUseSignature":              "Const.KeyUseSignature",
		"jws.Verify()":                      "Hand.jwsVerify jws",
		"o.Storage.KeySet()":                "Hand.c02StorageKeySet o",
		"jsonWebKeySet()":                   "Hand.c02JSONWebKeySet",
		"k.storage.GetKeyByIDAndClientID()": "Hand.c02GetKeyByIDAndClientID (k).storage",
	}
	funcs := []FuncSpec{
		// ---- options and constructors
		vopt(vat, "WithSupportedAccessTokenSigningAlgorithms"),
		ctor(vat, "NewAccessTokenVerifier", "AccessTokenVerifier"),
		vopt(vith, "WithSupportedIDTokenHintSigningAlgorithms"),
		ctor(vith, "NewIDTokenHintVerifier", "IDTokenHintVerifier"),
		// the one option of the JWT-profile verifier (`check` = nil stands for the constructor default SubjectIsIssuer in the model type)
		{File: vjp, Name: "SubjectCheck", Lean: "SubjectCheck", Closures: true, OptionClosures: true,
			Params: []string{"(check : Option (Claims → Go.R Unit))"}, Ret: RetVal, RetType: "(JWTProfileVerifier → JWTProfileVerifier)"},
		popt("WithAccessTokenKeySet", "(keySet : KeySet)"),
		popt("WithAccessTokenVerifierOpts", "(opts : List C02VerifierOpt)"),
		popt("WithIDTokenHintKeySet", "(keySet : KeySet)"),
		popt("WithIDTokenHintVerifierOpts", "(opts : List C02VerifierOpt)"),
		// ---- the per-request getters of the provider
		{File: opgo, Name: "Provider.AccessTokenVerifier", Lean: "ProviderAccessTokenVerifier", PlainUpdate: true,
			Params: []string{pI, "(o : C02Provider)"}, Ret: RetVal, RetType: "Verifier",
			Rename: map[string]string{"IssuerFromContext()": "reqIssuer", "NewAccessTokenVerifier()": "NewAccessTokenVerifier now"}},
		{File: opgo, Name: "Provider.IDTokenHintVerifier", Lean: "ProviderIDTokenHintVerifier", PlainUpdate: true,
			Params: []string{pI, "(o : C02Provider)"}, Ret: RetVal, RetType: "Verifier",
			Rename: map[string]string{"IssuerFromContext()": "reqIssuer", "NewIDTokenHintVerifier()": "NewIDTokenHintVerifier now"}},
		// ---- the revocation endpoint's key-set recorder: the verifier derived from the provider's, and its VerifySignature
		// (field updates with bindTarget's type ascription, not PlainUpdate: `k` is used as an oidc.KeySet right after it is written)
		{File: rev, Name: "revocationKeySet.verifier", Lean: "revocationKeySetVerifier",
			Params: []string{"(k : C02RevocationKeySet)", "(v : Verifier)"}, Ret: RetVal, RetType: "Verifier",
			AlsoRet: "k", AlsoRetType: "C02RevocationKeySet",
			Rename: map[string]string{"*v": "v", "&verifier": "verifier", "NewAccessTokenVerifier()": "NewAccessTokenVerifier now"}},
		{File: rev, Name: "revocationKeySet.VerifySignature", Lean: "revocationKeySetVerifySignature", PairStyle: true,
			Params: []string{"(k : C02RevocationKeySet)", "(jws : JWS)"}, Ret: RetVal, RetType: "GoPair",
			AlsoRet: "k", AlsoRetType: "C02RevocationKeySet",
			DropArgs: []string{"&<*ast.CompositeLit>"}, // errors.As(err, &keySetError{}): the target type is in the name of the Lean twin
			Rename:   map[string]string{"k.KeySet.VerifySignature()": "Hand.c02VerifySignaturePair (k).KeySet", "errors.As()": "Hand.c02IsKeySetError"}},
		// ---- the readers of a presented access token
		reader("pkg/op/userinfo.go", "getTokenIDAndSubject", "(String × String × Bool)", RetVal, nil),
		reader(rev, "getTokenIDAndSubjectForRevocation", "(String × String × Bool)", RetValErr, map[string]string{
			"new(revocationKeySet)": "(default : C02RevocationKeySet)",
			// the verifier the recorder derives (first half of the regenerated method's result; the recorder's own final state only
			// matters when the storage can not hand out its keys, which a key set of this model always can)
			"keys.verifier()": "Hand.c02Derived (revocationKeySetVerifier now keys)"}),
		reader("pkg/op/token_exchange.go", "getTokenIDAndClaims", "(String × String × C02ATClaims × Bool)", RetVal, map[string]string{
			"nil": "C02ATClaims.none"}),
		// ---- reuse: the verification functions with the final state of the object they are handed
		{File: vat, Name: "VerifyAccessToken", Lean: "OPVerifyAccessTokenSt",
			Params: []string{"(token : Token)", "(v : Verifier)"}, Ret: RetValErr, RetType: "Claims", NilValue: []string{"nilClaims"},
			AlsoRet: "v", AlsoRetType: "Verifier"},
		{File: vith, Name: "VerifyIDTokenHint", Lean: "VerifyIDTokenHintSt",
			Params: []string{"(token : Token)", "(v : Verifier)"}, Ret: RetValErr, RetType: "HintOut", NilValue: []string{"nilClaims"},
			WrapOk: "HintOut.valid", WrapBoth: "HintOut.expired", WrapBothType: "IDTokenHintExpiredError",
			AlsoRet: "v", AlsoRetType: "Verifier"},
		{File: vjp, Name: "VerifyJWTAssertion", Lean: "VerifyJWTAssertionSt",
			Params: []string{"(assertion : Token)", "(v : JWTProfileVerifier)"}, Ret: RetValErr, RetType: "Claims",
			AlsoRet: "v", AlsoRetType: "JWTProfileVerifier",
			Rename: map[string]string{"v.CheckSubject()": "Hand.applySubjectCheck (SubjectIsIssuer now) (v).CheckSubject",
				"jwtProfileKeySet{}": "Hand.jwtProfileKeySet"}},
		// ... and the two storage-backed key-set objects (a key set that remembered keys would have to write them into itself)
		{File: opgo, Name: "OpenIDKeySet.VerifySignature", Lean: "OpenIDKeySetVerifySignatureSt",
			Params: []string{"(o : C02KeyStorage)", "(jws : JWS)"}, Ret: RetValErr, RetType: "Payload", NilValue: []string{"nil"},
			AlsoRet: "o", AlsoRetType: "C02KeyStorage", Rename: ksRen},
		{File: vjp, Name: "jwtProfileKeySet.VerifySignature", Lean: "JwtProfileKeySetVerifySignatureSt",
			Params: []string{"(k : C02JwtProfileKeySet)", "(jws : JWS)"}, Ret: RetValErr, RetType: "Payload", NilValue: []string{"nil"},
			AlsoRet: "k", AlsoRetType: "C02JwtProfileKeySet", Rename: ksRen},
		{File: "pkg/client/rp/verifier.go", Name: "VerifyIDToken", Lean: "VerifyIDTokenSt",
			Params: []string{"(token : Token)", "(v : Verifier)"}, Ret: RetValErr, RetType: "Claims", NilValue: []string{"nilClaims"},
			AlsoRet: "v", AlsoRetType: "Verifier",
			Rename: map[string]string{"v.Nonce()": "(Go.getOpt (v).Nonce)"}},
	}
	extraGroups = append(extraGroups, Group{
		Out:     "VerifiersC02.lean",
		NS:      "GenC02",
		Imports: []string{"OidcModel.Model.VerifierC02", "OidcModel.Generated.RPVerifier", "OidcModel.Generated.KeySetC02"},
		Opens:   []string{"Go", "Hand", "Const", "Jwks", "Gen"},
		Funcs:   funcs,
	})
}
