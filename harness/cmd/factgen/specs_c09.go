package main

// C09: handler skeletons (kind H, skeleton_c09.go) and failure-site facts (kind W):
//   * uncheckedAsserts – every single-value type assertion `x.(T)` of the library packages
//   * decodeSites      – every decode call (httphelper.HttpRequest, json.Unmarshal, oidc.ParseToken, json Decoder.Decode)
//                        whose target is the ADDRESS of a pointer-typed (or type-parameter-typed) variable: the JSON literal
//                        `null` leaves that variable nil; with what happens to the variable afterwards
//   * statement skeletons of the hand-modelled decoders / ParseToken / HttpRequest (pins)

import (
	"fmt"
	"go/ast"
	"go/token"
	"sort"
	"strings"
)

func init() {
	extraGroups = append(extraGroups, Group{Out: "C09Facts.lean", Imports: []string{"OidcModel.Model.C09", "OidcModel.Model.C09Bounds", "OidcModel.Model.C09Fields", "OidcModel.Model.C09Asserts"}, NS: "GenC09", Extra: c09Facts})
}

var c09Dirs = []string{"pkg/oidc", "pkg/oidc/grants", "pkg/oidc/grants/tokenexchange", "pkg/op", "pkg/http", "pkg/crypto", "pkg/strings",
	"pkg/client", "pkg/client/rp", "pkg/client/rs", "pkg/client/tokenexchange", "pkg/client/profile"}

type c09Site struct {
	Fn, Decoder, Target, Kind string
	Guarded                   bool
	Derefs, Passes            int
	Returned                  bool
	Pos                       string
}

// c09UncheckedAsserts: the single-value type assertions `x.(T)` that no guard on the same operand dominates
// (asserts_c09.go records every assertion with its form, origin and guards; this is the unguarded part)
func c09UncheckedAsserts(sites []c09ASite) [][2]string {
	var out [][2]string
	for _, s := range sites {
		if s.unsafe() {
			out = append(out, [2]string{s.Fn, s.Expr})
		}
	}
	return out
}

func shortPkg(rel string) string {
	parts := strings.Split(rel, "/")
	if len(parts) >= 2 {
		return parts[len(parts)-2]
	}
	return rel
}

func c09DecoderOf(c *ast.CallExpr) (string, int) {
	f := exprString(c.Fun)
	switch {
	case f == "httphelper.HttpRequest" || f == "HttpRequest":
		return "HttpRequest", 2
	case f == "json.Unmarshal":
		return "json.Unmarshal", 1
	case f == "oidc.ParseToken" || f == "ParseToken":
		return "ParseToken", 1
	case strings.HasSuffix(f, ".Decode") && strings.Contains(f, "json.NewDecoder"):
		return "json.Decode", 0
	}
	return "", -1
}

func c09DecodeSites(g *genCtx) []c09Site {
	var out []c09Site
	for _, dir := range c09Dirs {
		for _, rel := range c09GoFiles(dir) {
			f := g.file(rel)
			if f == nil {
				continue
			}
			for _, d := range f.Decls {
				fd, ok := d.(*ast.FuncDecl)
				if !ok || fd.Body == nil {
					continue
				}
				out = append(out, c09SitesOf(g, rel, fd)...)
			}
		}
	}
	return out
}

func c09SitesOf(g *genCtx, rel string, fd *ast.FuncDecl) []c09Site {
	tparams := map[string]bool{}
	if fd.Type.TypeParams != nil {
		for _, f := range fd.Type.TypeParams.List {
			for _, n := range f.Names {
				tparams[n.Name] = true
			}
		}
	}
	kindOfType := func(t ast.Expr) string {
		switch v := t.(type) {
		case *ast.StarExpr:
			return "ptr"
		case *ast.Ident:
			if tparams[v.Name] {
				return "generic"
			}
		}
		return ""
	}
	vars := map[string]string{}
	fields := func(fl *ast.FieldList) {
		if fl == nil {
			return
		}
		for _, f := range fl.List {
			if k := kindOfType(f.Type); k != "" {
				for _, n := range f.Names {
					vars[n.Name] = k
				}
			}
		}
	}
	fields(fd.Type.Params)
	fields(fd.Type.Results)
	ast.Inspect(fd.Body, func(n ast.Node) bool {
		switch v := n.(type) {
		case *ast.AssignStmt:
			if v.Tok == token.DEFINE && len(v.Lhs) == len(v.Rhs) {
				for i, l := range v.Lhs {
					id, ok := l.(*ast.Ident)
					if !ok {
						continue
					}
					switch r := v.Rhs[i].(type) {
					case *ast.CallExpr:
						if exprString(r.Fun) == "new" {
							vars[id.Name] = "ptr"
						}
					case *ast.UnaryExpr:
						if r.Op == token.AND {
							if _, ok := r.X.(*ast.CompositeLit); ok {
								vars[id.Name] = "ptr"
							}
						}
					}
				}
			}
		case *ast.ValueSpec:
			if v.Type != nil {
				if k := kindOfType(v.Type); k != "" {
					for _, n := range v.Names {
						vars[n.Name] = k
					}
				}
			}
		}
		return true
	})
	var sites []c09Site
	ast.Inspect(fd.Body, func(n ast.Node) bool {
		c, ok := n.(*ast.CallExpr)
		if !ok {
			return true
		}
		dec, idx := c09DecoderOf(c)
		if idx < 0 || idx >= len(c.Args) {
			return true
		}
		u, ok := c.Args[idx].(*ast.UnaryExpr)
		if !ok || u.Op != token.AND {
			return true
		}
		id, ok := u.X.(*ast.Ident)
		if !ok || vars[id.Name] == "" {
			return true
		}
		s := c09Site{Fn: shortPkg(rel) + "." + declName(fd), Decoder: dec, Target: id.Name, Kind: vars[id.Name], Pos: g.fset.Position(c.Pos()).String()}
		after := c.End()
		guardPos, firstUse := token.NoPos, token.NoPos
		use := func(p token.Pos) {
			if firstUse == token.NoPos || p < firstUse {
				firstUse = p
			}
		}
		inGuard := map[ast.Node]bool{}
		ast.Inspect(fd.Body, func(m ast.Node) bool {
			if v, ok := m.(*ast.IfStmt); ok && v.Pos() > after {
				txt := render(g.fset, v.Cond)
				if v.Init != nil {
					txt = render(g.fset, v.Init) + "; " + txt
				}
				if c09NilTest(txt, id.Name) {
					if guardPos == token.NoPos || v.Pos() < guardPos {
						guardPos = v.Pos()
					}
					inGuard[v.Cond] = true
					if v.Init != nil {
						inGuard[v.Init] = true
					}
				}
			}
			return true
		})
		// the error branch of the decode call itself does not count as a use of the target
		var skip [][2]token.Pos
		ast.Inspect(fd.Body, func(m ast.Node) bool {
			switch v := m.(type) {
			case *ast.IfStmt:
				if v.Init != nil && v.Init.Pos() <= c.Pos() && c.End() <= v.Init.End() {
					skip = append(skip, [2]token.Pos{v.Body.Pos(), v.Body.End()})
				}
			case *ast.BlockStmt:
				for i, st := range v.List {
					if _, isIf := st.(*ast.IfStmt); isIf || !(st.Pos() <= c.Pos() && c.End() <= st.End()) || i+1 >= len(v.List) {
						continue
					}
					if nx, ok := v.List[i+1].(*ast.IfStmt); ok && nx.Init == nil {
						if _, ok := c09ErrNotNil(nx.Cond); ok {
							skip = append(skip, [2]token.Pos{nx.Body.Pos(), nx.Body.End()})
						}
					}
				}
			}
			return true
		})
		skipped := func(p token.Pos) bool {
			for _, r := range skip {
				if r[0] <= p && p < r[1] {
					return true
				}
			}
			return false
		}
		ast.Inspect(fd.Body, func(m ast.Node) bool {
			if m == nil {
				return false
			}
			if inGuard[m] {
				return false
			}
			if m.End() <= after {
				return false
			}
			if skipped(m.Pos()) {
				return false
			}
			switch v := m.(type) {
			case *ast.SelectorExpr:
				if x, ok := v.X.(*ast.Ident); ok && x.Name == id.Name && v.Pos() > after {
					s.Derefs++
					use(v.Pos())
				}
			case *ast.StarExpr:
				if x, ok := v.X.(*ast.Ident); ok && x.Name == id.Name && v.Pos() > after {
					s.Derefs++
					use(v.Pos())
				}
			case *ast.CallExpr:
				if v.Pos() > after && !ignorableCall(v) {
					for _, a := range v.Args {
						if x, ok := a.(*ast.Ident); ok && x.Name == id.Name {
							s.Passes++
							use(v.Pos())
						}
					}
				}
			case *ast.ReturnStmt:
				if v.Pos() > after {
					for _, r := range v.Results {
						if x, ok := r.(*ast.Ident); ok && x.Name == id.Name {
							s.Returned = true
							use(v.Pos())
						}
					}
				}
			}
			return true
		})
		s.Guarded = guardPos != token.NoPos && (firstUse == token.NoPos || guardPos < firstUse)
		sites = append(sites, s)
		return true
	})
	return sites
}

func leanBool(b bool) string {
	if b {
		return "true"
	}
	return "false"
}

var c09Pins = [][3]string{
	{"pkg/oidc/verifier.go", "ParseToken", "ParseToken_skeleton"},
	{"pkg/http/http.go", "HttpRequest", "HttpRequest_skeleton"},
	{"pkg/oidc/types.go", "Audience.UnmarshalJSON", "AudienceUnmarshalJSON_skeleton"},
	{"pkg/oidc/types.go", "Time.UnmarshalJSON", "TimeUnmarshalJSON_skeleton"},
	{"pkg/oidc/types.go", "Locale.UnmarshalJSON", "LocaleUnmarshalJSON_skeleton"},
	{"pkg/oidc/types.go", "Locales.UnmarshalJSON", "LocalesUnmarshalJSON_skeleton"},
	{"pkg/oidc/types.go", "SpaceDelimitedArray.UnmarshalJSON", "SpaceDelimitedArrayUnmarshalJSON_skeleton"},
	{"pkg/oidc/userinfo.go", "Bool.UnmarshalJSON", "BoolUnmarshalJSON_skeleton"},
	{"pkg/http/marshal.go", "MarshalJSONWithStatus", "MarshalJSONWithStatus_skeleton"},
	{"pkg/op/auth_request.go", "AuthResponseFormPost", "AuthResponseFormPost_skeleton"},
	// functions with an audited slice / index expression (Proofs/C09Bounds.lean)
	{"pkg/crypto/hash.go", "HashString", "HashString_skeleton"},
	{"pkg/op/device.go", "NewUserCode", "NewUserCode_skeleton"},
}

func c09Facts(g *genCtx) string {
	var b strings.Builder
	hs := c09Handlers(g)
	sort.SliceStable(hs, func(i, j int) bool { return hs[i].File+"/"+hs[i].Name < hs[j].File+"/"+hs[j].Name })
	var names []string
	var factSk []map[string]any
	b.WriteString("/-! kind H: one control-flow skeleton per function of pkg/op (+ pkg/http/marshal.go) that receives an http.ResponseWriter -/\n")
	for _, h := range hs {
		id := "sk_" + sanitizeIdent(h.Name)
		fmt.Fprintf(&b, "/-- `%s` (%s) -/\ndef %s : C09.HSk :=\n  %s\n", h.Name, h.File, id, h.Sk.lean())
		names = append(names, fmt.Sprintf("⟨%s, %s, %s, %s⟩", leanStr(h.Name), leanStr(h.File), leanBool(h.Err), id))
		factSk = append(factSk, map[string]any{"name": h.Name, "file": h.File, "skeleton": h.Sk.lean()})
	}
	b.WriteString("\ndef handlers : List C09.Handler := [\n  " + strings.Join(names, ",\n  ") + "]\n\n")
	g.facts["C09.handlers"] = factSk

	b.WriteString("/-! kind W: failure sites -/\n")
	asites := c09AssertSites(g)
	ua := c09UncheckedAsserts(asites)
	var uas []string
	for _, u := range ua {
		uas = append(uas, "("+leanStr(u[0])+", "+leanStr(u[1])+")")
	}
	b.WriteString("/-- single-value type assertions `x.(T)` (they panic when the dynamic type differs) -/\ndef uncheckedAsserts : List (String × String) := [" + strings.Join(uas, ", ") + "]\n\n")
	g.facts["C09.uncheckedAsserts"] = ua

	sites := c09DecodeSites(g)
	var ss []string
	for _, s := range sites {
		ss = append(ss, fmt.Sprintf("{ fn := %s, decoder := %s, target := %s, kind := %s, guarded := %s, derefs := %d, passes := %d, returned := %s }",
			leanStr(s.Fn), leanStr(s.Decoder), leanStr(s.Target), leanStr(s.Kind), leanBool(s.Guarded), s.Derefs, s.Passes, leanBool(s.Returned)))
	}
	b.WriteString("/-- decode calls whose target is the address of a pointer-typed variable (`null` leaves it nil) -/\ndef decodeSites : List C09.DecodeSite := [\n  " + strings.Join(ss, ",\n  ") + "]\n\n")
	g.facts["C09.decodeSites"] = sites

	rets := c09VerifierReturns(g)
	var rs []string
	for _, r := range rets {
		rs = append(rs, fmt.Sprintf("{ fn := %s, value := %s, isTarget := %s, err := %s, errType := %s, check := %s, cond := %s }",
			leanStr(r.Fn), leanStr(r.Value), leanBool(r.IsTarget), leanStr(r.Err), leanStr(r.ErrType), leanStr(r.Check), leanStr(r.Cond)))
	}
	b.WriteString("/-- the return statements of the functions that parse a token into a named result (the generic Verify* functions) -/\ndef verifierReturns : List C09.VerifierReturn := [\n  " + strings.Join(rs, ",\n  ") + "]\n\n")
	g.facts["C09.verifierReturns"] = rets
	callers := c09TolerantCallers(g)
	var cs []string
	for _, c := range callers {
		cs = append(cs, fmt.Sprintf("{ fn := %s, callee := %s, target := %s, errType := %s, guarded := %s, derefs := %d, passes := %d }",
			leanStr(c.Fn), leanStr(c.Callee), leanStr(c.Target), leanStr(c.ErrType), leanBool(c.Guarded), c.Derefs, c.Passes))
	}
	b.WriteString("/-- callers that go on to use the value although the callee returned an error of the tolerated type -/\ndef tolerantCallers : List C09.TolerantCaller := [\n  " + strings.Join(cs, ",\n  ") + "]\n\n")
	g.facts["C09.tolerantCallers"] = callers

	ca := c09ClosureAssigned(g)
	var cas []string
	for _, u := range ca {
		cas = append(cas, "("+leanStr(u[0])+", "+leanStr(u[1])+")")
	}
	b.WriteString("/-- locals declared without a value, assigned only inside function literals, used outside of them -/\ndef closureAssigned : List (String × String) := [" + strings.Join(cas, ", ") + "]\n\n")
	g.facts["C09.closureAssigned"] = ca

	b.WriteString(c09BoundFacts(g))
	b.WriteString(c09AssertFacts(g, asites))
	b.WriteString(c09FieldFacts(g))
	ng := c09NilGuards(g)
	var ngs []string
	for _, u := range ng {
		ngs = append(ngs, "("+leanStr(u[0])+", "+leanStr(u[1])+")")
	}
	b.WriteString("/-- pointer parameters / receivers tested for nil (with a return) before the first selection through them -/\ndef nilGuardedParams : List (String × String) := [\n  " + strings.Join(ngs, ",\n  ") + "]\n\n")
	g.facts["C09.nilGuardedParams"] = ng

	b.WriteString("/-! statement skeletons of the hand-modelled functions (pins) -/\n")
	for _, p := range c09Pins {
		b.WriteString(skeletonDef(g, p[0], p[1], p[2]))
	}
	return b.String()
}

func c09StmtMentions(s ast.Stmt, name string) bool {
	found := false
	ast.Inspect(s, func(n ast.Node) bool {
		if id, ok := n.(*ast.Ident); ok && id.Name == name {
			found = true
		}
		return !found
	})
	return found
}

// c09NilTest: the condition tests the variable itself for nil (`x == nil`, `x != nil`, reflect.ValueOf(x) … IsNil)
func c09NilTest(txt, name string) bool {
	for _, op := range []string{" == nil", " != nil"} {
		for i := strings.Index(txt, name+op); i >= 0; {
			if i == 0 || !(isIdentByte(txt[i-1]) || txt[i-1] == '.') {
				return true
			}
			j := strings.Index(txt[i+1:], name+op)
			if j < 0 {
				break
			}
			i += 1 + j
		}
	}
	return strings.Contains(txt, "reflect.ValueOf("+name+")") && strings.Contains(txt, "IsNil")
}

func isIdentByte(b byte) bool {
	return b == '_' || (b >= 'a' && b <= 'z') || (b >= 'A' && b <= 'Z') || (b >= '0' && b <= '9')
}
