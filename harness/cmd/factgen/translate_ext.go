package main

// Extensions of the shallow translator (translate.go) for Go constructs that were `UNSUPPORTED_…` before; every
// rule here is reached only where translate.go used to give up (or is gated by a FuncSpec field), so the output for
// functions that already translated is unchanged.
//
//   - named results:  zero-initialised before the body (FuncSpec.InitResults), naked `return`
//   - `break` inside a `switch` case  ->  the continuation of the switch statement
//   - `switch v := x.(type) { case T: … }`  ->  if-chain on the model value's flags `is_T` (first matching case wins, as in Go)
//   - `a, b, c, ok := f(..)` (no error result)  ->  tuple destructuring;  `a, b = x, y`  ->  simultaneous let
//   - `a, b, err = f(..)` followed by a naked `return`  ->  match on the callee's result
//   - `v, err := f(..)` followed by `if err == nil { … }`  ->  the success branch is the guarded one
//   - a plain `if err != nil` check of a callee whose typed errors travel in its ok-value (FuncSpec.HardErr)
//   - calls of local variables that hold a method value

import (
	"go/ast"
	"go/token"
	"strings"
)

// prepass: which locals hold method values; which results are named (InitResults)
func (t *tr) initResults(fd *ast.FuncDecl) string {
	ast.Inspect(fd.Body, func(n ast.Node) bool {
		if as, ok := n.(*ast.AssignStmt); ok && len(as.Lhs) == 1 && len(as.Rhs) == 1 {
			if id, ok := as.Lhs[0].(*ast.Ident); ok {
				if _, isSel := as.Rhs[0].(*ast.SelectorExpr); isSel {
					t.funcVals[id.Name] = true // only consulted when the variable is CALLED
				}
			}
		}
		return true
	})
	if !t.spec.InitResults || fd.Type.Results == nil {
		return ""
	}
	out := ""
	for _, f := range fd.Type.Results.List {
		ty := exprString(f.Type)
		for _, n := range f.Names {
			t.results = append(t.results, n.Name)
			if n.Name == "err" || n.Name == "_" {
				continue
			}
			out += "let " + t.ident(n.Name) + " := " + t.zeroOf(ty, f.Type) + ";\n" + t.pad()
		}
	}
	return out
}

func (t *tr) zeroOf(ty string, n ast.Node) string {
	if z, ok := t.spec.ZeroOf[ty]; ok {
		return z
	}
	switch ty {
	case "string":
		return "(\"\" : String)"
	case "bool":
		return "false"
	case "int", "int64", "uint64", "time.Duration":
		return "(0 : Int)"
	case "time.Time":
		return "Go.zeroTime"
	}
	if z, ok := zeroValues[ty]; ok {
		return z
	}
	return t.bad("zero value of "+ty, n)
}

// nakedReturn: `return` in a function with named results
func (t *tr) nakedReturn(r *ast.ReturnStmt) string {
	var vals []string
	for _, n := range t.results {
		if n != "err" {
			vals = append(vals, t.ident(n))
		}
	}
	tuple := strings.Join(vals, ", ")
	if len(vals) != 1 {
		tuple = "(" + tuple + ")"
	}
	switch t.spec.Ret {
	case RetVal:
		return tuple
	case RetValErr:
		if t.errInScope {
			return "(.error err)"
		}
		return "(.ok " + tuple + ")"
	}
	return t.bad("naked return", r)
}

// hardErr: the callee expression of `v, err := f(..); if err != nil {..}`; for a callee listed in HardErr the strict reading
func (t *tr) hardErr(call ast.Expr) string {
	if c, ok := call.(*ast.CallExpr); ok {
		fun := c.Fun
		if ix, ok := fun.(*ast.IndexExpr); ok {
			fun = ix.X
		}
		if strict, ok := t.spec.HardErr[exprString(fun)]; ok {
			return "(" + strict + " " + t.expr(call) + ")"
		}
	}
	return t.expr(call)
}

func (t *tr) identOrBlank(e ast.Expr) string {
	s := exprString(e)
	if s == "_" {
		return "_"
	}
	return t.ident(s)
}

// assignExt: assignment forms translate.go has no rule for
func (t *tr) assignExt(x *ast.AssignStmt, stmts []ast.Stmt, k cont) (string, bool) {
	rest := memo(func() string { return t.block(stmts[1:], k) })
	allIdents := true
	for _, l := range x.Lhs {
		if _, ok := l.(*ast.Ident); !ok {
			allIdents = false
		}
	}
	if !allIdents {
		return "", false
	}
	last := exprString(x.Lhs[len(x.Lhs)-1])
	// v, err := f(..)   followed by   if err == nil { body }        (the success branch is the guarded one)
	if len(x.Lhs) == 2 && len(x.Rhs) == 1 && last == "err" && len(stmts) > 1 {
		if ifs, ok := stmts[1].(*ast.IfStmt); ok && ifs.Init == nil && ifs.Else == nil && isErrIsNil(ifs.Cond) {
			if call, ok := x.Rhs[0].(*ast.CallExpr); ok {
				cont := memo(func() string { return t.block(stmts[2:], k) })
				t.indent++
				saved := t.errInScope
				t.errInScope = false
				okBranch := t.block(ifs.Body.List, cont)
				t.errInScope = true
				errBranch := cont()
				t.errInScope = saved
				t.indent--
				return "(match " + t.hardErr(call) + " with\n" + t.pad() + "| .ok " + t.identOrBlank(x.Lhs[0]) + " =>\n" + t.pad() + "  " + okBranch +
					"\n" + t.pad() + "| .error err =>\n" + t.pad() + "  " + errBranch + ")", true
			}
		}
	}
	// a, b, err = f(..)   followed by a naked   return      (named results)
	if len(x.Lhs) >= 2 && len(x.Rhs) == 1 && last == "err" && len(stmts) > 1 && t.spec.InitResults && t.spec.Ret == RetValErr {
		nxt := 1 // bookkeeping statements (span.End()) between the assignment and the return carry no decision
		for nxt+1 < len(stmts) {
			es, isES := stmts[nxt].(*ast.ExprStmt)
			if !isES {
				break
			}
			if c, isCall := es.X.(*ast.CallExpr); !isCall || !ignorableCall(c) {
				break
			}
			nxt++
		}
		if ret, ok := stmts[nxt].(*ast.ReturnStmt); ok && len(ret.Results) == 0 {
			if call, ok := x.Rhs[0].(*ast.CallExpr); ok {
				var names []string
				for _, l := range x.Lhs[:len(x.Lhs)-1] {
					names = append(names, t.identOrBlank(l))
				}
				pat := strings.Join(names, ", ")
				if len(names) != 1 {
					pat = "(" + pat + ")"
				}
				saved := t.errInScope
				t.errInScope = false
				okB := t.nakedReturn(ret)
				t.errInScope = saved
				return "(match " + t.expr(call) + " with\n" + t.pad() + "| .error err => (.error err)\n" + t.pad() + "| .ok " + pat + " =>\n" + t.pad() + okB + ")", true
			}
		}
	}
	// a, b, c, ok := f(..)   several plain results, no error
	if len(x.Lhs) >= 3 && len(x.Rhs) == 1 && last != "err" {
		if call, ok := x.Rhs[0].(*ast.CallExpr); ok && !ignorableCall(call) {
			var names []string
			for _, l := range x.Lhs {
				names = append(names, t.identOrBlank(l))
			}
			return "let (" + strings.Join(names, ", ") + ") := " + t.expr(call) + ";\n" + t.pad() + rest(), true
		}
	}
	// a, b, c = x, y, z   simultaneous assignment: all operands are evaluated before any variable is set, as in the tuple let
	if len(x.Lhs) >= 2 && len(x.Lhs) == len(x.Rhs) {
		var names, vals []string
		for i, l := range x.Lhs {
			names = append(names, t.identOrBlank(l))
			vals = append(vals, t.expr(x.Rhs[i]))
		}
		return "let (" + strings.Join(names, ", ") + ") := (" + strings.Join(vals, ", ") + ");\n" + t.pad() + rest(), true
	}
	return "", false
}

// stmtExt: statement kinds translate.go has no rule for
func (t *tr) stmtExt(s ast.Stmt, stmts []ast.Stmt, k cont) (string, bool) {
	switch x := s.(type) {
	case *ast.BranchStmt:
		// break inside a switch case (not inside a loop body): control continues after the switch
		if x.Tok == token.BREAK && x.Label == nil && len(t.breakK) > 0 && t.loop == 0 && t.loopDepth == 0 {
			return t.breakK[len(t.breakK)-1](), true
		}
		// continue inside the body of a state-threading loop (LoopStyle "state"): the round ends with the current state
		if x.Tok == token.CONTINUE && x.Label == nil && len(t.continueK) > 0 {
			return t.continueK[len(t.continueK)-1](), true
		}
		// continue inside the body of a generically translated range loop: this iteration decides nothing
		if x.Tok == token.CONTINUE && x.Label == nil && t.spec.Closures && (t.loop > 0 || t.loopDepth > 0) && len(t.breakK) == 0 {
			return "none", true
		}
	case *ast.TypeSwitchStmt:
		return t.typeSwitch(x, memo(func() string { return t.block(stmts[1:], k) })), true
	}
	return "", false
}

// switch v := x.(type) { case T1: ..; case T2, T3: ..; default: .. }   ->  if (x).is_T1 then let v := x; .. else if ..
// The model value of x carries one flag per type of interest: `is_T` = "the dynamic type of x satisfies / is T".
// Go takes the FIRST case that matches, so the order of the cases is kept.
func (t *tr) typeSwitch(s *ast.TypeSwitchStmt, cont cont) string {
	if s.Init != nil {
		return t.bad("type switch init", s)
	}
	var bind string
	var subject ast.Expr
	switch a := s.Assign.(type) {
	case *ast.AssignStmt:
		if len(a.Lhs) != 1 || len(a.Rhs) != 1 {
			return t.bad("type switch guard", s)
		}
		bind = exprString(a.Lhs[0])
		if ta, ok := a.Rhs[0].(*ast.TypeAssertExpr); ok && ta.Type == nil {
			subject = ta.X
		}
	case *ast.ExprStmt:
		if ta, ok := a.X.(*ast.TypeAssertExpr); ok && ta.Type == nil {
			subject = ta.X
		}
	}
	if subject == nil {
		return t.bad("type switch guard", s)
	}
	e := t.expr(subject)
	t.breakK = append(t.breakK, cont)
	defer func() { t.breakK = t.breakK[:len(t.breakK)-1] }()
	var def *ast.CaseClause
	var out strings.Builder
	for _, c := range s.Body.List {
		cc := c.(*ast.CaseClause)
		if cc.List == nil {
			def = cc
			continue
		}
		var conds []string
		for _, ty := range cc.List {
			if exprString(ty) == "nil" {
				return t.bad("type switch case nil", cc)
			}
			conds = append(conds, "("+e+").is_"+strings.TrimPrefix(typeAssertName(ty), "*"))
		}
		t.indent++
		body := t.block(cc.Body, cont)
		t.indent--
		let := ""
		if bind != "" && bind != "_" {
			let = "let " + t.ident(bind) + " := " + e + "; "
			t.declared[bind] = true
		}
		out.WriteString("if " + strings.Join(conds, " || ") + " then\n" + t.pad() + "  " + let + body + "\n" + t.pad() + "else ")
	}
	if def != nil {
		t.indent++
		let := ""
		if bind != "" && bind != "_" {
			let = "let " + t.ident(bind) + " := " + e + "; "
		}
		out.WriteString(let + t.block(def.Body, cont))
		t.indent--
	} else {
		out.WriteString(cont())
	}
	return "(" + out.String() + ")"
}

// elseIfOpenErr: `if C { .., err = f() } else if D { .., err = g() } else { .. }; if err != nil {..}` - a branch of an if / else-if
// chain ends with an open `err = f(..)` whose check follows the whole statement.  The else-if is translated like the block form:
// the nested if statement together with the statements after the chain (same meaning as inlining the continuation).
// Reached only where translate.go used to emit UNSUPPORTED_else_if_next_to_an_open_error_assignment.
func (t *tr) elseIfOpenErr(x *ast.IfStmt, after []ast.Stmt, k cont) string {
	ei, ok := x.Else.(*ast.IfStmt)
	if !ok {
		return t.bad("else-if next to an open error assignment", x)
	}
	return t.block(append([]ast.Stmt{ei}, after...), k)
}
