package main

// C19, third layer, facts (Generated/ProviderC19Router.lean, namespace GenOp):
//
//   DefaultEndpoints          the package-level default endpoint set of pkg/op/op.go, field by field
//   CreateRouter              what `op.CreateRouter` installs on a fresh chi router, statement by statement: every `router.Use(..)`
//                             and every `router.HandleFunc(pattern, handler)` with the pattern expression translated and the handler
//                             expression classified (WHICH handler is mounted there)
//   webServer_endpointRoute, webServer_createRouter   the same for the Server router
//
// Everything that is not one of the recognised statement shapes comes out as UNSUPPORTED_… and breaks the build of Proofs/C19Construct.

import (
	"fmt"
	"go/ast"
	"go/token"
	"strings"
)

// handler expression (whitespace-normalised source text) -> what is mounted
var c19opProviderHandlers = map[string]string{
	"healthHandler": ".health", "readyHandler(o.Probes())": ".ready", "discoveryHandler(o, o.Storage())": ".discovery",
	"authorizeHandler(o)": ".authorize", "AuthorizeCallbackHandler(o)": ".authorizeCallback", "tokenHandler(o)": ".token",
	"introspectionHandler(o)": ".introspection", "userinfoHandler(o)": ".userinfo", "revocationHandler(o)": ".revocation",
	"endSessionHandler(o)": ".endSession", "keysHandler(o.Storage())": ".keys", "DeviceAuthorizationHandler(o)": ".deviceAuthorization",
}

var c19opServerHandlers = map[string]string{
	"simpleHandler(s, s.server.Health)": ".health", "simpleHandler(s, s.server.Ready)": ".ready", "simpleHandler(s, s.server.Discovery)": ".discovery",
	"s.authorizeHandler": ".authorize", "s.withClient(s.deviceAuthorizationHandler)": ".deviceAuthorization", "s.tokensHandler": ".token",
	"s.introspectionHandler": ".introspection", "s.userInfoHandler": ".userinfo", "s.withClient(s.revocationHandler)": ".revocation",
	"s.endSessionHandler": ".endSession", "simpleHandler(s, s.server.Keys)": ".keys",
}

func c19opRouterGroup() Group {
	return Group{Out: "ProviderC19Router.lean", NS: "GenOp",
		Imports: []string{"OidcModel.Model.ProviderC19", "OidcModel.Generated.Discovery"},
		Opens:   []string{"Go", "Hand", "Const", "Gen"},
		Funcs: []FuncSpec{
			// the getters of the fields only the construction path writes (the endpoint / option getters: Generated/Discovery.lean)
			{File: "pkg/op/op.go", Name: "Provider.CORSOptions", Lean: "Provider_CORSOptions", Params: []string{"(o : C19Provider)"}, Ret: RetVal, RetType: "C19Cors"},
			{File: "pkg/op/op.go", Name: "Provider.Logger", Lean: "Provider_Logger", Params: []string{"(o : C19Provider)"}, Ret: RetVal, RetType: "C19Logger"},
			{File: "pkg/op/op.go", Name: "Provider.Storage", Lean: "Provider_Storage", Params: []string{"(o : C19Provider)"}, Ret: RetVal, RetType: "OpStorage"},
			{File: "pkg/op/op.go", Name: "Provider.Decoder", Lean: "Provider_Decoder", Params: []string{"(o : C19Provider)"}, Ret: RetVal, RetType: "C19Decoder"},
		},
		Extra: c19opExtra}
}

func c19opExtra(g *genCtx) string {
	var b strings.Builder
	c19opDefaultEndpoints(g, &b)
	c19opCreateRouter(g, &b)
	c19opEndpointRoute(g, &b)
	c19opWebServerCreateRouter(g, &b)
	return b.String()
}

func c19opBad(g *genCtx, key, reason string, n ast.Node) string {
	pos := ""
	if n != nil {
		pos = " at " + g.fset.Position(n.Pos()).String()
	}
	g.unsup[key] = append(g.unsup[key], reason+pos)
	return "UNSUPPORTED_" + strings.Map(func(r rune) rune {
		if r >= 'a' && r <= 'z' || r >= 'A' && r <= 'Z' || r >= '0' && r <= '9' {
			return r
		}
		return '_'
	}, reason)
}

// DefaultEndpoints = &Endpoints{ F: NewEndpoint(constName) | NewEndpointWithURL(p, u), ... }
func c19opDefaultEndpoints(g *genCtx, b *strings.Builder) {
	f := g.file("pkg/op/op.go")
	var lit *ast.CompositeLit
	if f != nil {
		for _, d := range f.Decls {
			gd, ok := d.(*ast.GenDecl)
			if !ok || gd.Tok != token.VAR {
				continue
			}
			for _, sp := range gd.Specs {
				vs := sp.(*ast.ValueSpec)
				for i, n := range vs.Names {
					if n.Name != "DefaultEndpoints" || i >= len(vs.Values) {
						continue
					}
					v := vs.Values[i]
					if u, ok := v.(*ast.UnaryExpr); ok && u.Op == token.AND {
						v = u.X
					}
					if cl, ok := v.(*ast.CompositeLit); ok && exprString(cl.Type) == "Endpoints" {
						lit = cl
					}
				}
			}
		}
	}
	b.WriteString("/-- pkg/op/op.go `DefaultEndpoints` (the value the package variable is initialised with) -/\n")
	if lit == nil {
		b.WriteString("def DefaultEndpoints : Endpoints := " + c19opBad(g, "DefaultEndpoints", "DefaultEndpoints is not an Endpoints literal", nil) + "\n\n")
		return
	}
	sp := &FuncSpec{Lean: "DefaultEndpoints"}
	t := &tr{spec: sp, fset: g.fset, indent: 1}
	var fields []string
	for _, e := range lit.Elts {
		kv, ok := e.(*ast.KeyValueExpr)
		if !ok {
			fields = append(fields, c19opBad(g, "DefaultEndpoints", "positional element", e))
			continue
		}
		val := ""
		if c, ok := kv.Value.(*ast.CallExpr); ok {
			switch exprString(c.Fun) {
			case "NewEndpoint":
				if len(c.Args) == 1 {
					val = "({ path := " + t.expr(c.Args[0]) + " } : Endpoint)"
				}
			case "NewEndpointWithURL":
				if len(c.Args) == 2 {
					val = "({ path := " + t.expr(c.Args[0]) + ", url := " + t.expr(c.Args[1]) + " } : Endpoint)"
				}
			}
		} else if id, ok := kv.Value.(*ast.Ident); ok && id.Name == "nil" {
			val = "Endpoint.nilPtr"
		}
		if val == "" {
			val = c19opBad(g, "DefaultEndpoints", "endpoint value of unknown shape", kv.Value)
		}
		fields = append(fields, exprString(kv.Key)+" := "+val)
	}
	if len(t.unsup) > 0 {
		g.unsup["DefaultEndpoints"] = append(g.unsup["DefaultEndpoints"], t.unsup...)
	}
	b.WriteString("def DefaultEndpoints : Endpoints :=\n  { " + strings.Join(fields, ",\n    ") + " }\n\n")
}

// one statement of a router-building function -> one `let router := …` line
type c19opRouterTr struct {
	g        *genCtx
	t        *tr
	key      string
	router   string            // Go text of the router value ("router", "s.router")
	handlers map[string]string // handler expression -> C19Mounted
	lines    []string
}

func (rt *c19opRouterTr) emit(s string) { rt.lines = append(rt.lines, s) }

func (rt *c19opRouterTr) call(c *ast.CallExpr) bool {
	sel, ok := c.Fun.(*ast.SelectorExpr)
	if !ok || goSrc(rt.g.fset, sel.X) != rt.router {
		return false
	}
	switch sel.Sel.Name {
	case "HandleFunc", "Handle":
		if len(c.Args) != 2 {
			rt.emit("let router := " + c19opBad(rt.g, rt.key, "route registration with other than two arguments", c) + ";")
			return true
		}
		h, known := rt.handlers[goSrc(rt.g.fset, c.Args[1])]
		if !known {
			h = c19opBad(rt.g, rt.key, "unknown handler expression "+goSrc(rt.g.fset, c.Args[1]), c.Args[1])
		}
		rt.emit("let router := router.HandleFunc " + rt.t.expr(c.Args[0]) + " " + h + ";")
		return true
	case "Use":
		for _, a := range c.Args {
			rt.emit("let router := router.Use " + rt.middleware(a) + ";")
		}
		return true
	}
	rt.emit("let router := " + c19opBad(rt.g, rt.key, "router method "+sel.Sel.Name, c) + ";")
	return true
}

func (rt *c19opRouterTr) middleware(a ast.Expr) string {
	src := goSrc(rt.g.fset, a)
	switch src {
	case "cors.New(*opts).Handler":
		return "(.cors opts)"
	case "cors.New(defaultCORSOptions).Handler":
		return "(.cors .default)"
	case "intercept(o.IssuerFromRequest, interceptors...)":
		return "(.intercept interceptors)"
	}
	return c19opBad(rt.g, rt.key, "unknown middleware "+src, a)
}

// CreateRouter(o OpenIDProvider, interceptors ...HttpInterceptor)
func c19opCreateRouter(g *genCtx, b *strings.Builder) {
	const key = "GenOp.CreateRouter"
	fd := g.findFunc("pkg/op/op.go", "CreateRouter")
	b.WriteString("/-- pkg/op/op.go `CreateRouter` for a `*Provider`: the middleware installed and what is mounted where, in order.\n    `o` is the provider seen through `op.OpenIDProvider` (`Gen.Provider_asConfiguration`), `p` the `*Provider` itself. -/\n")
	b.WriteString("def CreateRouter (now : Int) (p : C19Provider) (interceptors : List Nat) : C19Router :=\n  let o : Configuration := Gen.Provider_asConfiguration p.toOpProvider;\n")
	if fd == nil {
		b.WriteString("  " + c19opBad(g, key, "function not found", nil) + "\n\n")
		return
	}
	sp := &FuncSpec{Lean: "CreateRouter"}
	rt := &c19opRouterTr{g: g, t: &tr{spec: sp, fset: g.fset, indent: 1}, key: key, router: "router", handlers: c19opProviderHandlers}
	stmts := fd.Body.List
	for i, s := range stmts {
		switch x := s.(type) {
		case *ast.AssignStmt:
			if i == 0 && x.Tok == token.DEFINE && goSrc(g.fset, x) == "router := chi.NewRouter()" {
				rt.emit("let router : C19Router := {};")
				continue
			}
			rt.emit("let router := " + c19opBad(g, key, "assignment", x) + ";")
		case *ast.ExprStmt:
			if c, ok := x.X.(*ast.CallExpr); ok && rt.call(c) {
				continue
			}
			rt.emit("let router := " + c19opBad(g, key, "statement", x) + ";")
		case *ast.IfStmt:
			// if co, ok := o.(corsOptioner); ok { if opts := co.CORSOptions(); opts != nil { router.Use(cors.New(*opts).Handler) } } else { router.Use(cors.New(defaultCORSOptions).Handler) }
			// (`*Provider` has the method CORSOptions: ok = true; the else branch is for other OpenIDProvider implementations)
			if goSrc(g.fset, x.Init) == "co, ok := o.(corsOptioner)" && goSrc(g.fset, x.Cond) == "ok" && len(x.Body.List) == 1 {
				if in, ok := x.Body.List[0].(*ast.IfStmt); ok && goSrc(g.fset, in.Init) == "opts := co.CORSOptions()" && goSrc(g.fset, in.Cond) == "opts != nil" &&
					in.Else == nil && len(in.Body.List) == 1 {
					if es, ok := in.Body.List[0].(*ast.ExprStmt); ok {
						if c, ok := es.X.(*ast.CallExpr); ok {
							sub := &c19opRouterTr{g: g, t: rt.t, key: key, router: "router", handlers: rt.handlers}
							if sub.call(c) && len(sub.lines) == 1 {
								rt.emit("let opts := Provider_CORSOptions now p;")
								rt.emit("let router := (if (Go.notNil opts) then (" + strings.TrimSuffix(sub.lines[0], ";") + "; router) else router);")
								continue
							}
						}
					}
				}
			}
			rt.emit("let router := " + c19opBad(g, key, "conditional of unknown shape", x) + ";")
		case *ast.ReturnStmt:
			if i == len(stmts)-1 && len(x.Results) == 1 && goSrc(g.fset, x.Results[0]) == "router" {
				continue
			}
			rt.emit("let router := " + c19opBad(g, key, "return", x) + ";")
		default:
			rt.emit("let router := " + c19opBad(g, key, fmt.Sprintf("%T", s), s) + ";")
		}
	}
	if len(rt.t.unsup) > 0 {
		g.unsup[key] = append(g.unsup[key], rt.t.unsup...)
	}
	b.WriteString("  " + strings.Join(rt.lines, "\n  ") + "\n  router\n\n")
}

// func (s *webServer) endpointRoute(e *Endpoint, hf http.HandlerFunc) { if e != nil { trace := func(w, r) {..; hf(w, r); ..}; s.router.HandleFunc(e.Relative(), trace); .. } }
func c19opEndpointRoute(g *genCtx, b *strings.Builder) {
	const key = "GenOp.webServer_endpointRoute"
	fd := g.findFunc("pkg/op/server_http.go", "webServer.endpointRoute")
	b.WriteString("/-- pkg/op/server_http.go `webServer.endpointRoute`: a non-nil endpoint gets its handler (behind the tracing wrapper) at its relative path -/\n")
	b.WriteString("def webServer_endpointRoute (now : Int) (router : C19Router) (e : Endpoint) (hf : C19Mounted) : C19Router :=\n")
	body := ""
	if fd != nil && len(fd.Body.List) == 1 {
		if x, ok := fd.Body.List[0].(*ast.IfStmt); ok && x.Init == nil && x.Else == nil && goSrc(g.fset, x.Cond) == "e != nil" {
			wrappers := map[string]bool{"hf": true} // identifiers that stand for hf: `name := func(w, r) { .. hf(w, r) .. }`
			n := 0
			sp := &FuncSpec{Lean: "webServer_endpointRoute"}
			t := &tr{spec: sp, fset: g.fset, indent: 1}
			for _, s := range x.Body.List {
				switch y := s.(type) {
				case *ast.AssignStmt:
					if fl, ok := y.Rhs[0].(*ast.FuncLit); ok && len(y.Lhs) == 1 && y.Tok == token.DEFINE {
						calls := 0
						ast.Inspect(fl.Body, func(nd ast.Node) bool {
							if c, ok := nd.(*ast.CallExpr); ok && goSrc(g.fset, c) == "hf(w, r)" {
								calls++
							}
							return true
						})
						if calls == 1 {
							wrappers[exprString(y.Lhs[0])] = true
							continue
						}
					}
					body = c19opBad(g, key, "assignment of unknown shape", y)
				case *ast.ExprStmt:
					c, ok := y.X.(*ast.CallExpr)
					if !ok {
						body = c19opBad(g, key, "statement", y)
						continue
					}
					if ignorableCall(c) {
						continue
					}
					if goSrc(g.fset, c.Fun) == "s.router.HandleFunc" && len(c.Args) == 2 && wrappers[goSrc(g.fset, c.Args[1])] {
						n++
						if body == "" {
							body = "(if (Go.notNil e) then router.HandleFunc " + t.expr(c.Args[0]) + " hf else router)"
						}
						continue
					}
					body = c19opBad(g, key, "statement "+goSrc(g.fset, c.Fun), y)
				default:
					body = c19opBad(g, key, fmt.Sprintf("%T", s), s)
				}
			}
			if n != 1 && !strings.HasPrefix(body, "UNSUPPORTED") {
				body = c19opBad(g, key, "not exactly one route registration", x)
			}
			if len(t.unsup) > 0 {
				g.unsup[key] = append(g.unsup[key], t.unsup...)
			}
		}
	}
	if body == "" {
		body = c19opBad(g, key, "body of unknown shape", nil)
	}
	b.WriteString("  " + body + "\n\n")
}

func c19opWebServerCreateRouter(g *genCtx, b *strings.Builder) {
	const key = "GenOp.webServer_createRouter"
	fd := g.findFunc("pkg/op/server_http.go", "webServer.createRouter")
	b.WriteString("/-- pkg/op/server_http.go `webServer.createRouter`: what the Server router mounts where (on top of the router the options left) -/\n")
	b.WriteString("def webServer_createRouter (now : Int) (s : C19WebServer) : C19WebServer :=\n  let router := (s).router;\n")
	if fd == nil {
		b.WriteString("  " + c19opBad(g, key, "function not found", nil) + "\n\n")
		return
	}
	sp := &FuncSpec{Lean: "webServer_createRouter"}
	rt := &c19opRouterTr{g: g, t: &tr{spec: sp, fset: g.fset, indent: 1}, key: key, router: "s.router", handlers: c19opServerHandlers}
	for _, s := range fd.Body.List {
		es, ok := s.(*ast.ExprStmt)
		if !ok {
			rt.emit("let router := " + c19opBad(g, key, fmt.Sprintf("%T", s), s) + ";")
			continue
		}
		c, ok := es.X.(*ast.CallExpr)
		if !ok {
			rt.emit("let router := " + c19opBad(g, key, "statement", s) + ";")
			continue
		}
		if goSrc(g.fset, c.Fun) == "s.endpointRoute" && len(c.Args) == 2 {
			h, known := c19opServerHandlers[goSrc(g.fset, c.Args[1])]
			if !known {
				h = c19opBad(g, key, "unknown handler expression "+goSrc(g.fset, c.Args[1]), c.Args[1])
			}
			rt.emit("let router := webServer_endpointRoute now router " + rt.t.expr(c.Args[0]) + " " + h + ";")
			continue
		}
		if rt.call(c) {
			continue
		}
		rt.emit("let router := " + c19opBad(g, key, "statement "+goSrc(g.fset, c.Fun), s) + ";")
	}
	if len(rt.t.unsup) > 0 {
		g.unsup[key] = append(g.unsup[key], rt.t.unsup...)
	}
	b.WriteString("  " + strings.Join(rt.lines, "\n  ") + "\n  { s with router := router }\n\n")
}
