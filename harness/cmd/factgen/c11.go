package main

// C11 facts: the form_post template (pkg/op/form_post.html.tmpl) as data, which template package renders
// it (html/template = contextual auto-escaping, text/template = none), and the `schema` parameter names
// of the three response structs.  stdlib only (text/template/parse, go/ast).

import (
	"fmt"
	"go/ast"
	"os"
	"path/filepath"
	"reflect"
	"strconv"
	"strings"
	"text/template/parse"
)

func leanBytes(s string) string {
	if s == "" {
		return "[]"
	}
	var b strings.Builder
	b.WriteByte('[')
	for i := 0; i < len(s); i++ {
		if i > 0 {
			b.WriteString(", ")
		}
		fmt.Fprintf(&b, "0x%02x", s[i])
	}
	b.WriteByte(']')
	return b.String()
}

func c11Facts(g *genCtx) string {
	var out strings.Builder
	out.WriteString(c11Template(g))
	out.WriteString(c11TemplatePackage(g))
	out.WriteString(c11SchemaNames(g))
	out.WriteString(c11FormPostProgram(g))
	return out.String()
}

// c11Template: the template must be a sequence of
//
//	text | `{{ .RedirectURI }}` between `action="` and `"` | `{{with .Params.X}}text{{ index . 0 }}text{{end}}` with the
//	action between `value="` and `"`;  anything else is outside the modelled subset.
func c11Template(g *genCtx) string {
	const rel = "pkg/op/form_post.html.tmpl"
	fail := func(why string) string {
		g.unsup["formPostTemplate"] = append(g.unsup["formPostTemplate"], why)
		return "def formPostTemplate : List AR.Node := UNSUPPORTED_form_post_template\n"
	}
	src, err := os.ReadFile(filepath.Join(repoRoot, rel))
	if err != nil {
		return fail("cannot read " + rel)
	}
	trees, err := parse.Parse("form_post", string(src), "{{", "}}", map[string]any{"index": true})
	if err != nil {
		return fail("template does not parse: " + err.Error())
	}
	tree := trees["form_post"]
	if tree == nil || tree.Root == nil {
		return fail("template has no root")
	}
	nodes := tree.Root.Nodes
	text := func(i int) (string, bool) {
		if i < 0 || i >= len(nodes) {
			return "", false
		}
		tn, ok := nodes[i].(*parse.TextNode)
		if !ok {
			return "", false
		}
		return string(tn.Text), true
	}
	var items []string
	var names []string
	for i, n := range nodes {
		switch x := n.(type) {
		case *parse.TextNode:
			items = append(items, ".text "+leanBytes(string(x.Text)))
		case *parse.ActionNode:
			if x.String() != "{{.RedirectURI}}" {
				return fail("unsupported action " + x.String())
			}
			before, ok1 := text(i - 1)
			after, ok2 := text(i + 1)
			if !ok1 || !ok2 || !strings.HasSuffix(before, `action="`) || !strings.HasPrefix(after, `"`) {
				return fail("{{.RedirectURI}} is not the whole value of a double-quoted action attribute")
			}
			items = append(items, ".redirectURI")
		case *parse.WithNode:
			s := x.Pipe.String()
			if !strings.HasPrefix(s, ".Params.") || strings.Count(s, ".") != 2 || x.ElseList != nil {
				return fail("unsupported with-pipeline " + s)
			}
			name := strings.TrimPrefix(s, ".Params.")
			body := x.List.Nodes
			if len(body) != 3 {
				return fail("with-body of " + name + " is not text, action, text")
			}
			pre, ok1 := body[0].(*parse.TextNode)
			act, ok2 := body[1].(*parse.ActionNode)
			post, ok3 := body[2].(*parse.TextNode)
			if !ok1 || !ok2 || !ok3 || act.String() != "{{index . 0}}" {
				return fail("with-body of " + name + " is not text, {{index . 0}}, text")
			}
			if !strings.HasSuffix(string(pre.Text), `value="`) || !strings.HasPrefix(string(post.Text), `"`) {
				return fail("{{index . 0}} of " + name + " is not the whole value of a double-quoted value attribute")
			}
			items = append(items, ".withParam "+leanBytes(name)+" "+leanBytes(string(pre.Text))+" "+leanBytes(string(post.Text)))
			names = append(names, name)
		default:
			return fail(fmt.Sprintf("unsupported template node %T", n))
		}
	}
	g.facts["formPostTemplateParams"] = names
	var b strings.Builder
	b.WriteString("/-- " + rel + " (parsed with text/template/parse): literal text, the redirect URI in `action=\"…\"`, one optional\n    hidden input per `{{with .Params.<name>}}` -/\n")
	b.WriteString("def formPostTemplate : List AR.Node :=\n  [ " + strings.Join(items, ",\n    ") + " ]\n\n")
	return b.String()
}

// c11TemplatePackage: which package's Template renders form_post.html.tmpl
func c11TemplatePackage(g *genCtx) string {
	f := g.file("pkg/op/auth_request.go")
	if f == nil {
		return "def formPostAutoescape : Bool := UNSUPPORTED_auth_request_go\n"
	}
	html, text := false, false
	for _, im := range f.Imports {
		p, _ := strconv.Unquote(im.Path.Value)
		name := ""
		if im.Name != nil {
			name = im.Name.Name
		}
		if p == "html/template" && (name == "" || name == "template") {
			html = true
		}
		if p == "text/template" && (name == "" || name == "template") {
			text = true
		}
	}
	// the template value must be built by template.New(..).Parse(formPostHtmlTemplate)
	usesTemplateNew := false
	ast.Inspect(f, func(n ast.Node) bool {
		if vs, ok := n.(*ast.ValueSpec); ok && len(vs.Names) == 1 && vs.Names[0].Name == "formPostTmpl" && len(vs.Values) == 1 {
			ast.Inspect(vs.Values[0], func(m ast.Node) bool {
				if c, ok := m.(*ast.CallExpr); ok && exprString(c.Fun) == "template.New" {
					usesTemplateNew = true
				}
				return true
			})
		}
		return true
	})
	if html == text || !usesTemplateNew {
		g.unsup["formPostAutoescape"] = []string{fmt.Sprintf("cannot tell which template package renders the form (html/template=%v text/template=%v template.New=%v)", html, text, usesTemplateNew)}
		return "def formPostAutoescape : Bool := UNSUPPORTED_template_package\n"
	}
	g.facts["formPostTemplatePackage"] = map[bool]string{true: "html/template", false: "text/template"}[html]
	return fmt.Sprintf("/-- pkg/op/auth_request.go renders the form with %s -/\ndef formPostAutoescape : Bool := %v\n\n",
		map[bool]string{true: "html/template (contextual auto-escaping)", false: "text/template (NO escaping)"}[html], html)
}

func schemaNames(st *ast.StructType) []string {
	var out []string
	for _, fld := range st.Fields.List {
		if fld.Tag == nil {
			continue
		}
		raw, err := strconv.Unquote(fld.Tag.Value)
		if err != nil {
			continue
		}
		tag := reflect.StructTag(raw).Get("schema")
		name, _, _ := strings.Cut(tag, ",")
		if name == "" || name == "-" {
			continue
		}
		out = append(out, name)
	}
	return out
}

// c11SchemaNames: the parameter names the three response structs carry
func c11SchemaNames(g *genCtx) string {
	var b strings.Builder
	emit := func(lean, doc string, names []string, found bool) {
		if !found {
			g.unsup[lean] = []string{"struct not found"}
			fmt.Fprintf(&b, "def %s : List AR.Bytes := UNSUPPORTED_struct_not_found\n", lean)
			return
		}
		g.facts[lean] = names
		q := make([]string, len(names))
		for i, n := range names {
			q[i] = "AR.ascii " + leanStr(n)
		}
		fmt.Fprintf(&b, "/-- %s -/\ndef %s : List AR.Bytes := [%s]\n\n", doc, lean, strings.Join(q, ", "))
	}
	// the anonymous struct of AuthResponseCode
	var code []string
	foundCode := false
	if fd := g.findFunc("pkg/op/auth_request.go", "AuthResponseCode"); fd != nil {
		ast.Inspect(fd.Body, func(n ast.Node) bool {
			if cl, ok := n.(*ast.CompositeLit); ok && !foundCode {
				if st, ok := cl.Type.(*ast.StructType); ok {
					code, foundCode = schemaNames(st), true
				}
			}
			return true
		})
	}
	emit("codeResponseParams", "`schema` names of the code response struct in AuthResponseCode", code, foundCode)
	named := func(rel, typ string) ([]string, bool) {
		f := g.file(rel)
		if f == nil {
			return nil, false
		}
		var names []string
		found := false
		ast.Inspect(f, func(n ast.Node) bool {
			if ts, ok := n.(*ast.TypeSpec); ok && ts.Name.Name == typ {
				if st, ok := ts.Type.(*ast.StructType); ok {
					names, found = schemaNames(st), true
				}
			}
			return true
		})
		return names, found
	}
	tok, okTok := named("pkg/oidc/token.go", "AccessTokenResponse")
	emit("tokenResponseParams", "`schema` names of oidc.AccessTokenResponse", tok, okTok)
	// what AuthResponseToken hands to the transport code: its anonymous wrapper struct (an embedded
	// *oidc.AccessTokenResponse contributes that type's names), or the token response itself when there is no wrapper
	implicit, okImplicit := tok, okTok
	if fd := g.findFunc("pkg/op/auth_request.go", "AuthResponseToken"); fd != nil {
		seen := false
		ast.Inspect(fd.Body, func(n ast.Node) bool {
			cl, ok := n.(*ast.CompositeLit)
			if !ok || seen {
				return true
			}
			st, ok := cl.Type.(*ast.StructType)
			if !ok {
				return true
			}
			seen = true
			implicit = nil
			for _, fld := range st.Fields.List {
				if len(fld.Names) == 0 {
					switch exprString(fld.Type) {
					case "*oidc.AccessTokenResponse", "oidc.AccessTokenResponse":
						implicit = append(implicit, tok...)
					default:
						okImplicit = false // an embedded type this reader does not know
					}
					continue
				}
				implicit = append(implicit, schemaNames(&ast.StructType{Fields: &ast.FieldList{List: []*ast.Field{fld}}})...)
			}
			return true
		})
	} else {
		okImplicit = false
	}
	emit("implicitResponseParams", "`schema` names of what AuthResponseToken encodes (oidc.AccessTokenResponse and the fields wrapped around it)", implicit, okImplicit)
	er, okErr := named("pkg/oidc/error.go", "Error")
	emit("errorResponseParams", "`schema` names of oidc.Error", er, okErr)
	return b.String()
}
