package main

import (
	"go/ast"
	"go/token"
)

// Rules for the JSON wrapper methods of the claims types (C12). Each one is reached only through a FuncSpec field that
// defaults to off (RecvOut, PtrSynonyms, FieldRename), so the output for every other spec is unchanged.

// fld: the Lean name of a Go struct field (FieldRename; the identity when the spec has no table)
func (t *tr) fld(name string) string {
	if r, ok := t.spec.FieldRename[name]; ok {
		return r
	}
	return name
}

// ptrSynonym: `x := (*T)(y)` with y an identifier: x is a second pointer to the SAME value (the conversion only changes the
// method set), so every read and write through x is one of y.
func (t *tr) ptrSynonym(x *ast.AssignStmt) bool {
	if x.Tok != token.DEFINE || len(x.Lhs) != 1 || len(x.Rhs) != 1 {
		return false
	}
	lhs, ok := x.Lhs[0].(*ast.Ident)
	if !ok {
		return false
	}
	c, ok := x.Rhs[0].(*ast.CallExpr)
	if !ok || len(c.Args) != 1 {
		return false
	}
	p, ok := c.Fun.(*ast.ParenExpr)
	if !ok {
		return false
	}
	if _, isPtr := p.X.(*ast.StarExpr); !isPtr {
		return false
	}
	y, ok := c.Args[0].(*ast.Ident)
	if !ok {
		return false
	}
	if t.syn == nil {
		t.syn = map[string]string{}
	}
	t.syn[lhs.Name] = y.Name
	t.declared[lhs.Name] = true
	return true
}
