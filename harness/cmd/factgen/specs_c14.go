package main

// C14 (deepening): WHICH verifier judges an assertion.  `Provider.JWTProfileVerifier(ctx)` builds the verifier per request
// from the issuer in the request context; every consumer of an assertion (ClientJWTAuth, AuthorizePrivateJWTKey, the jwt-bearer
// grant of both routers, the legacy server's resource-client authentication) obtains it through that getter.  Here the getter, the
// constructor it calls and those consumers are regenerated with `IssuerFromContext(ctx)` ↦ the issuer the request is ADDRESSED TO
// (`reqIssuer`, an explicit parameter), in the namespace `GenC14` (AuthorizePrivateJWTKey also exists in `Gen`, over the hand-written
// `Provider.JWTProfileVerifier` of Model/OP.lean).  Model types: lean/OidcModel/Model/Assertion.lean (prefix `Asrt`).
//
// A memoised verifier (`sync.Once`, a field of the provider) has no translation: the function literal is UNSUPPORTED and the
// field is not part of `AsrtProvider`, so the build breaks visibly and `c14_audience_is_request_issuer` no longer checks.

func init() {
	const pI = "(reqIssuer : String)"
	const pP = "(exchanger : AsrtProvider)"
	rn := func(extra map[string]string) map[string]string {
		m := map[string]string{
			"IssuerFromContext()":            "reqIssuer",
			"VerifyJWTAssertion()":           "Gen.VerifyJWTAssertion now",
			"NewJWTProfileVerifier()":        "NewJWTProfileVerifier now",
			"newJWTProfileVerifier()":        "newJWTProfileVerifier now",
			"http.StatusBadRequest":          "(400 : Int)",
			"http.StatusInternalServerError": "(500 : Int)",
		}
		for k, v := range extra {
			m[k] = v
		}
		return m
	}
	ep := func(f FuncSpec) FuncSpec { // the style of the resource endpoints (C08)
		f.PlainUpdate, f.TupleAssign, f.ErrNilFirst, f.ErrElse, f.NestedUpdate = true, true, true, true, true
		f.LoopStyle = "forFirst"
		f.Rename = rn(f.Rename)
		return f
	}
	funcs := []FuncSpec{
		// the constructor: which fields the verifier gets (the Go layout: embedded oidc.Verifier, storage, key set, subject check)
		{File: "pkg/op/verifier_jwt_profile.go", Name: "newJWTProfileVerifier", Lean: "newJWTProfileVerifier", PlainUpdate: true,
			LoopStyle: "state", OutCallState: true, LocalOut: map[string]OutParam{"opt": {0, true}},
			StructLits: map[string]StructLit{"JWTProfileVerifier{}": {Lean: "AsrtVerifierGo", Keep: []string{"Verifier", "Storage", "keySet", "CheckSubject"}}},
			Params:     []string{"(storage : AsrtStorage)", "(keySet : KeySet)", "(issuer : String)", "(maxAgeIAT offset : Int)", "(opts : List AsrtVerifierOption)"},
			Ret:        RetVal, RetType: "AsrtVerifierGo", Rename: rn(map[string]string{"SubjectIsIssuer": "(Gen.SubjectIsIssuer now)", "opt()": "opt"})},
		// (deep 3) the one option the constructor knows: a custom subject check (a closure that writes the verifier's CheckSubject field)
		{File: "pkg/op/verifier_jwt_profile.go", Name: "SubjectCheck", Lean: "SubjectCheck", PlainUpdate: true, Closures: true, ClosureState: "verifier",
			Params: []string{"(check : Claims → Go.R Unit)"}, Ret: RetVal, RetType: "AsrtVerifierOption"},
		{File: "pkg/op/verifier_jwt_profile.go", Name: "NewJWTProfileVerifier", Lean: "NewJWTProfileVerifier", PlainUpdate: true, LoopStyle: "forFirst",
			Params: []string{"(storage : AsrtStorage)", "(issuer : String)", "(maxAgeIAT offset : Int)", "(opts : List AsrtVerifierOption)"},
			Ret:    RetVal, RetType: "AsrtVerifierGo", Rename: rn(nil)},
		// (deep 4) the second public constructor: a verifier with a key set of its own instead of the storage
		{File: "pkg/op/verifier_jwt_profile.go", Name: "NewJWTProfileVerifierKeySet", Lean: "NewJWTProfileVerifierKeySet", PlainUpdate: true, LoopStyle: "forFirst",
			Params: []string{"(keySet : KeySet)", "(issuer : String)", "(maxAgeIAT offset : Int)", "(opts : List AsrtVerifierOption)"},
			Ret:    RetVal, RetType: "AsrtVerifierGo", Rename: rn(nil)},
		// the getter: built per request, for the issuer of THIS request
		{File: "pkg/op/op.go", Name: "Provider.JWTProfileVerifier", Lean: "ProviderJWTProfileVerifier", PlainUpdate: true, LoopStyle: "forFirst",
			Params: []string{pI, "(o : AsrtProvider)"}, Ret: RetVal, RetType: "AsrtVerifierGo",
			Rename: rn(map[string]string{"NewJWTProfileVerifier()": "Hand.asrtNoOpts (NewJWTProfileVerifier now)"})},
		// client authentication by assertion where no registered method is asked for (introspection, device grant, device authorization,
		// the legacy server's resource endpoints)
		ep(FuncSpec{File: "pkg/op/client.go", Name: "ClientJWTAuth", Lean: "ClientJWTAuth",
			Params: []string{pI, "(ca : AsrtAssertionParams)", "(verifier : AsrtProvider)"}, Ret: RetValErr, RetType: "String",
			Rename: map[string]string{"VerifyJWTAssertion()": "Hand.asrtVerifyJWTAssertion (verifier).tokenOf (Gen.VerifyJWTAssertion now)",
				"verifier.JWTProfileVerifier()": "(Hand.asrtJWTProfileVerifier (ProviderJWTProfileVerifier now) reqIssuer verifier)"}}),
		// the registered method: an assertion authenticates only clients registered for private_key_jwt (helper of ClientIDFromRequest,
		// authenticateResourceClient and ParseTokenRevocationRequest); client_secret_post only when the provider has it switched on
		ep(FuncSpec{File: "pkg/op/client.go", Name: "checkPrivateKeyJWTClient", Lean: "checkPrivateKeyJWTClient",
			Params: []string{"(clientID : String)", "(storage : AsrtStorage)"}, Ret: RetErr}),
		ep(FuncSpec{File: "pkg/op/client.go", Name: "checkAuthMethodPost", Lean: "checkAuthMethodPost",
			Params: []string{"(clientID : String)", "(p : AsrtProvider)"}, Ret: RetErr}),
		// who the caller is at introspection, device authorization and the device grant of the Provider router
		ep(FuncSpec{File: "pkg/op/client.go", Name: "ClientIDFromRequest", Lean: "ClientIDFromRequest",
			Params: []string{pI, "(r : AsrtHttpReq)", "(p : AsrtProvider)"}, Ret: RetValErr, RetType: "(String × Bool)",
			Rename: map[string]string{"ClientJWTAuth()": "ClientJWTAuth now reqIssuer", "ClientBasicAuth()": "Hand.asrtClientBasicAuth",
				"checkPrivateKeyJWTClient()": "checkPrivateKeyJWTClient now", "checkAuthMethodPost()": "checkAuthMethodPost now",
				"errors.Is()": "Hand.asrtErrorsIs"}}),
		// … and at revocation
		ep(FuncSpec{File: "pkg/op/token_revocation.go", Name: "ParseTokenRevocationRequest", Lean: "ParseTokenRevocationRequest",
			Params: []string{pI, "(r : AsrtHttpReq)", "(revoker : AsrtProvider)"}, Ret: RetValErr, RetType: "(String × String × String)",
			Rename: map[string]string{"VerifyJWTAssertion()": "Hand.asrtVerifyJWTAssertion (revoker).tokenOf (Gen.VerifyJWTAssertion now)",
				"revokerJWTProfile.JWTProfileVerifier()": "(Hand.asrtJWTProfileVerifier (ProviderJWTProfileVerifier now) reqIssuer revokerJWTProfile)",
				"url.QueryUnescape()": "(r).queryUnescape", "AuthorizeClientIDSecret()": "Hand.asrtAuthorizeClientIDSecret",
				"checkPrivateKeyJWTClient()": "checkPrivateKeyJWTClient now", "checkAuthMethodPost()": "checkAuthMethodPost now"}}),
		// private_key_jwt at the token endpoint: additionally the registered method
		ep(FuncSpec{File: "pkg/op/token_request.go", Name: "AuthorizePrivateJWTKey", Lean: "AuthorizePrivateJWTKey",
			Params: []string{pI, "(clientAssertion : Token)", pP}, Ret: RetValErr, RetType: "OPClient",
			Rename: map[string]string{"VerifyJWTAssertion()": "Hand.asrtVerifyToken (Gen.VerifyJWTAssertion now)",
				"exchanger.JWTProfileVerifier()": "(Hand.asrtJWTProfileVerifier (ProviderJWTProfileVerifier now) reqIssuer exchanger)"}}),
		// the jwt-bearer grant of the Provider router and of the legacy server
		ep(FuncSpec{File: "pkg/op/token_jwt_profile.go", Name: "JWTProfile", Lean: "JWTProfile",
			Params: []string{pI, "(rq : Go.R AsrtGrantRequest)", pP}, Ret: RetResp, RetType: "AsrtResp",
			DropArgs: []string{"w", "r", "exchanger.Logger()", "exchanger.Decoder()"},
			Writers:  map[string]string{"RequestError": "AsrtResp.requestError", "httphelper.MarshalJSON": "AsrtResp.json"},
			Rename: map[string]string{"ParseJWTProfileGrantRequest()": "Hand.asrtParseGrantRequest rq",
				"VerifyJWTAssertion()":           "Hand.asrtVerifyJWTAssertion (exchanger).tokenOf (Gen.VerifyJWTAssertion now)",
				"exchanger.JWTProfileVerifier()": "(Hand.asrtJWTProfileVerifier (ProviderJWTProfileVerifier now) reqIssuer exchanger)",
				"CreateJWTTokenResponse()":       "Hand.asrtCreateJWTTokenResponse"}}),
		ep(FuncSpec{File: "pkg/op/server_legacy.go", Name: "LegacyServer.JWTProfile", Lean: "LegacyJWTProfile",
			Params: []string{pI, "(s : AsrtLegacyServer)", "(r : AsrtRequest AsrtGrantRequest)"}, Ret: RetValErr, RetType: "AsrtTokenResponse",
			Rename: map[string]string{
				"VerifyJWTAssertion()":           "Hand.asrtVerifyJWTAssertion ((s).provider).tokenOf (Gen.VerifyJWTAssertion now)",
				"exchanger.JWTProfileVerifier()": "(Hand.asrtJWTProfileVerifier (ProviderJWTProfileVerifier now) reqIssuer exchanger)",
				"CreateJWTTokenResponse()":       "Hand.asrtCreateJWTTokenResponse",
				"unimplementedGrantError()":      "Hand.asrtUnimplementedGrantError"}}),
		ep(FuncSpec{File: "pkg/op/server_legacy.go", Name: "LegacyServer.authenticateResourceClient", Lean: "LegacyAuthenticateResourceClient",
			Params: []string{pI, "(s : AsrtLegacyServer)", "(cc : AsrtClientCredentials)"}, Ret: RetValErr, RetType: "String",
			StructLits: map[string]StructLit{"oidc.ClientAssertionParams{}": {Lean: "AsrtAssertionParams", Keep: []string{"ClientAssertion"}}},
			Rename: map[string]string{"ClientJWTAuth()": "ClientJWTAuth now reqIssuer",
				"checkPrivateKeyJWTClient()": "checkPrivateKeyJWTClient now", "checkAuthMethodPost()": "checkAuthMethodPost now",
				"s.provider.Storage().AuthorizeClientIDSecret()": "(((s).provider).Storage).base.AuthorizeClientIDSecret"}}),
	}
	// (deep 3) the verifier as an OBJECT that outlives the call: VerifyJWTAssertion once more, this time returning what it leaves in
	// `*v` next to its answer (`Go.R Claims × JWTProfileVerifier`, on every path).  A write through the receiver (`v.keySet = …`)
	// shows in the second component: `verifyJWTAssertionSt_frame` (Proofs/C14Reuse.lean) states that there is none, hence that a
	// verifier used for a whole sequence of assertions answers each of them like a fresh one.
	extraGroups = append(extraGroups, Group{
		Out:     "AssertionReuse.lean",
		NS:      "GenC14",
		Imports: []string{"OidcModel.Generated.RPVerifier"},
		Opens:   []string{"Go", "Hand", "Gen"},
		Funcs: []FuncSpec{
			{File: "pkg/op/verifier_jwt_profile.go", Name: "VerifyJWTAssertion", Lean: "VerifyJWTAssertionSt", LetIf: true,
				Params: []string{"(assertion : Token)", "(v : JWTProfileVerifier)"}, Ret: RetValErr, RetType: "Claims", AlsoRet: "v", AlsoRetType: "JWTProfileVerifier",
				Rename: map[string]string{"v.CheckSubject()": "Hand.applySubjectCheck (SubjectIsIssuer now) (v).CheckSubject",
					"jwtProfileKeySet{}": "Hand.jwtProfileKeySet"}},
		},
	})
	// (deep 3) the library's own CLIENT-side helpers that make assertions, so that "assertions produced by the library's own client
	// helpers are accepted by the provider" is a theorem about helper ∘ verifier (Proofs/C14Deep.lean).  Model types:
	// lean/OidcModel/Model/AssertionHelpers.lean (prefix `Hlp`): keys, PEM parsing, JSON marshalling and go-jose's signer are symbolic.
	{
		const pC = "(cd : HlpCodec)"
		hl := func(f FuncSpec) FuncSpec {
			f.PlainUpdate, f.TupleAssign, f.ErrNilFirst, f.ErrElse = true, true, true, true
			if f.LoopStyle == "" {
				f.LoopStyle = "forFirst"
			}
			return f
		}
		extraGroups = append(extraGroups, Group{
			Out:     "AssertionHelpers.lean",
			NS:      "GenC14",
			Imports: []string{"OidcModel.Model.AssertionHelpers"},
			Opens:   []string{"Go", "Hand", "Const"},
			Funcs: []FuncSpec{
				// which algorithm a key gets: RSA -> RS256, Ed25519 -> EdDSA, ECDSA (any curve) -> ES256
				hl(FuncSpec{File: "pkg/crypto/key.go", Name: "BytesToPrivateKey", Lean: "BytesToPrivateKey", Params: []string{"(b : HlpKeyBytes)"},
					Ret: RetValErr, RetType: "(HlpPrivateKey × String)", NilValue: []string{"nil", `""`},
					TypeCases: map[string]string{"*rsa.PrivateKey": "HlpAnyKey.rsa", "ed25519.PrivateKey": "HlpAnyKey.ed25519", "*ecdsa.PrivateKey": "HlpAnyKey.ecdsa"},
					Rename: map[string]string{"pem.Decode()": "Hand.hlpPemDecode", "block.Bytes": "(Go.getOpt block).Bytes", "x509.ParsePKCS1PrivateKey()": "Hand.hlpParsePKCS1 b", "x509.ParsePKCS8PrivateKey()": "Hand.hlpParsePKCS8 b",
						"jose.RS256": "Const.RS256", "jose.EdDSA": "Const.EdDSA", "jose.ES256": "Const.ES256"}}),
				hl(FuncSpec{File: "pkg/client/client.go", Name: "NewSignerFromPrivateKeyByte", Lean: "NewSignerFromPrivateKeyByte",
					Params: []string{"(key : HlpKeyBytes)", "(keyID : String)"}, Ret: RetValErr, RetType: "HlpSigner",
					StructLits: map[string]StructLit{"jose.SigningKey{}": {Lean: "HlpSigningKey", Keep: []string{"Algorithm", "Key"}}, "jose.JSONWebKey{}": {Lean: "HlpJWK", Keep: []string{"Key", "KeyID"}},
						"jose.SignerOptions{}": {Lean: "HlpSignerOptions", Keep: []string{"EmbedJWK", "ExtraHeaders"}}},
					Rename: map[string]string{"jose.NewSigner()": "Hand.hlpNewSigner"}}),
				hl(FuncSpec{File: "pkg/crypto/sign.go", Name: "SignPayload", Lean: "SignPayload", Params: []string{"(payload : Payload)", "(signer : HlpSigner)"},
					Ret: RetValErr, RetType: "Token", NilValue: []string{`""`},
					Rename: map[string]string{".Sign()": "Hand.hlpSign", ".CompactSerialize()": "Hand.hlpCompactSerialize"}}),
				hl(FuncSpec{File: "pkg/crypto/sign.go", Name: "Sign", Lean: "SignRequest", Params: []string{pC, "(object : HlpTokenRequest)", "(signer : HlpSigner)"},
					Ret: RetValErr, RetType: "Token", NilValue: []string{`""`},
					Rename: map[string]string{"json.Marshal()": "Hand.hlpMarshalRequest cd"}}),
				hl(FuncSpec{File: "pkg/client/client.go", Name: "SignedJWTProfileAssertion", Lean: "SignedJWTProfileAssertion",
					Params: []string{pC, "(clientID : String)", "(audience : List String)", "(expiration : Int)", "(signer : HlpSigner)"}, Ret: RetValErr, RetType: "Token",
					StructLits: map[string]StructLit{"oidc.JWTTokenRequest{}": {Lean: "HlpTokenRequest", Keep: []string{"Issuer", "Subject", "Audience", "ExpiresAt", "IssuedAt"}}},
					Rename:     map[string]string{"crypto.Sign()": "SignRequest now cd"}}),
				// the second family: claims object + GenerateJWTProfileToken (key bytes travel inside the claims object)
				{File: "pkg/oidc/token.go", Name: "NewJWTProfileAssertion", Lean: "NewJWTProfileAssertion", PlainUpdate: true,
					LoopStyle: "state", OutCallState: true, LocalOut: map[string]OutParam{"opt": {0, true}},
					StructLits: map[string]StructLit{"JWTProfileAssertionClaims{}": {Lean: "HlpAssertionClaims",
						Keep: []string{"PrivateKey", "PrivateKeyID", "Issuer", "Subject", "IssuedAt", "Expiration", "Audience"}}},
					Params: []string{"(userID keyID : String)", "(audience : List String)", "(key : HlpKeyBytes)", "(opts : List HlpAssertionOption)"},
					Ret:    RetVal, RetType: "HlpAssertionClaims", Rename: map[string]string{"opt()": "opt"}},
				hl(FuncSpec{File: "pkg/oidc/token.go", Name: "GenerateJWTProfileToken", Lean: "GenerateJWTProfileToken",
					Params: []string{pC, "(assertion : HlpAssertionClaims)"}, Ret: RetValErr, RetType: "Token", NilValue: []string{`""`},
					StructLits: map[string]StructLit{"jose.SigningKey{}": {Lean: "HlpSigningKey", Keep: []string{"Algorithm", "Key"}}, "jose.JSONWebKey{}": {Lean: "HlpJWK", Keep: []string{"Key", "KeyID"}},
						"jose.SignerOptions{}": {Lean: "HlpSignerOptions", Keep: []string{"EmbedJWK", "ExtraHeaders"}}},
					Rename: map[string]string{"jose.NewSigner()": "Hand.hlpNewSigner", "json.Marshal()": "Hand.hlpMarshalAssertion cd",
						".Sign()": "Hand.hlpSign", ".CompactSerialize()": "Hand.hlpCompactSerialize"}}),
				// the jwt-bearer token source: which assertion it sends to the token endpoint
				hl(FuncSpec{File: "pkg/oidc/jwt_profile.go", Name: "NewJWTProfileGrantRequest", Lean: "NewJWTProfileGrantRequest",
					Params: []string{"(assertion : Token)", "(scopes : List String)"}, Ret: RetVal, RetType: "HlpGrantRequest",
					StructLits: map[string]StructLit{"JWTProfileGrantRequest{}": {Lean: "HlpGrantRequest", Keep: []string{"GrantType", "Assertion", "Scope"}}}}),
				{File: "pkg/client/profile/jwt_profile.go", Name: "NewJWTProfileTokenSource", Lean: "NewJWTProfileTokenSource", PlainUpdate: true,
					LoopStyle: "state", OutCallState: true, LocalOut: map[string]OutParam{"opt": {0, true}},
					StructLits: map[string]StructLit{"jwtProfileTokenSource{}": {Lean: "HlpTokenSource", Keep: []string{"clientID", "audience", "signer", "scopes"}}},
					Params: []string{"(discovered : Go.R String)", "(issuer clientID keyID : String)", "(key : HlpKeyBytes)", "(scopes : List String)", "(options : List HlpSourceOption)"},
					Ret:    RetValErr, RetType: "HlpTokenSource",
					Rename: map[string]string{"client.NewSignerFromPrivateKeyByte()": "NewSignerFromPrivateKeyByte now", "opt()": "opt",
						"client.Discover()": "Hand.hlpDiscover discovered", "config.TokenEndpoint": "config"},
					DropArgs: []string{"source.httpClient"}},
				{File: "pkg/client/profile/jwt_profile.go", Name: "WithStaticTokenEndpoint", Lean: "WithStaticTokenEndpoint", PlainUpdate: true, Closures: true, ClosureState: "source",
					Params: []string{"(issuer tokenEndpoint : String)"}, Ret: RetVal, RetType: "HlpSourceOption"},
				hl(FuncSpec{File: "pkg/client/profile/jwt_profile.go", Name: "jwtProfileTokenSource.TokenCtx", Lean: "TokenSourceTokenCtx",
					Params: []string{pC, "(j : HlpTokenSource)"}, Ret: RetValErr, RetType: "HlpGrantRequest",
					Rename: map[string]string{"client.SignedJWTProfileAssertion()": "SignedJWTProfileAssertion now cd", "client.JWTProfileExchange()": "Hand.hlpExchange",
						"oidc.NewJWTProfileGrantRequest()": "NewJWTProfileGrantRequest now"}}),
				// how an assertion is put on the wire as CLIENT AUTHENTICATION: the two form parameters the provider's decoders read
				{File: "pkg/client/jwt_profile.go", Name: "ClientAssertionFormAuthorization", Lean: "ClientAssertionFormAuthorization", PlainUpdate: true, Closures: true,
					Params: []string{"(assertion : String)"}, Ret: RetVal, RetType: "HlpValues → HlpValues",
					Mutators: []string{"values.Set"}, ClosureState: "values", Rename: map[string]string{"oidc.ClientAssertionTypeJWTAssertion": "Const.ClientAssertionTypeJWTAssertion"}},
				{File: "pkg/client/jwt_profile.go", Name: "ClientAssertionCodeOptions", Lean: "ClientAssertionCodeOptions", PlainUpdate: true,
					Params: []string{"(assertion : String)"}, Ret: RetVal, RetType: "List (String × String)",
					Rename: map[string]string{"oauth2.SetAuthURLParam()": "Hand.hlpSetAuthURLParam", "oidc.ClientAssertionTypeJWTAssertion": "Const.ClientAssertionTypeJWTAssertion"}},
			},
		})
	}
	// (deep 5) the time claims of an assertion as the checks read them: oidc.Time.AsTime and the two getters of JWTTokenRequest the checks call
	// (`claims.GetIssuedAt()`, `claims.GetExpiration()`), regenerated with Go's int64 arithmetic explicit (Wrap64): the hand-written
	// `Claims.GetIssuedAt / GetExpiration` (Model/Token.lean, = Go.asTime of the claim) that every regenerated check is applied to are
	// proved equal to them (Proofs/C14Time.lean: timeAsTime_eq, c14_time_getters) - a conversion that goes through int64 nanoseconds
	// (`time.Unix(0, int64(ts)*int64(time.Second))`) regenerates with `Go.wrap64` and the equation stops checking.
	extraGroups = append(extraGroups, Group{
		Out:     "AssertionTime.lean",
		NS:      "GenC14",
		Imports: []string{"OidcModel.Model.Token", "OidcModel.Model.Int64C14"},
		Opens:   []string{"Go", "Hand"},
		Funcs: []FuncSpec{
			{File: "pkg/oidc/types.go", Name: "Time.AsTime", Lean: "TimeAsTime", Params: []string{"(ts : Int)"}, Ret: RetVal, RetType: "Int", Wrap64: true,
				Rename: map[string]string{"time.Time{}": "Go.zeroTime", "time.Unix()": "Go.timeUnix"}},
			{File: "pkg/oidc/token_request.go", Name: "JWTTokenRequest.GetIssuedAt", Lean: "JWTTokenRequestGetIssuedAt", Params: []string{"(j : Claims)"},
				Ret: RetVal, RetType: "Int", Wrap64: true, FieldRename: map[string]string{"IssuedAt": "iat"}, GenMethods: map[string]string{"AsTime": "TimeAsTime"}},
			{File: "pkg/oidc/token_request.go", Name: "JWTTokenRequest.GetExpiration", Lean: "JWTTokenRequestGetExpiration", Params: []string{"(j : Claims)"},
				Ret: RetVal, RetType: "Int", Wrap64: true, FieldRename: map[string]string{"ExpiresAt": "exp"}, GenMethods: map[string]string{"AsTime": "TimeAsTime"}},
		},
	})
	extraGroups = append(extraGroups, Group{
		Out:     "AssertionEndpoints.lean",
		NS:      "GenC14",
		Imports: []string{"OidcModel.Model.Assertion", "OidcModel.Generated.RPVerifier"},
		Opens:   []string{"Go", "Hand", "Const"},
		Funcs:   funcs,
	})
}
