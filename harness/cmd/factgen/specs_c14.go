package main

// C14 (deepening): WHICH verifier judges an assertion.  `Provider.JWTProfileVerifier(ctx)` builds the verifier per request
// from the issuer in the request context; every consumer of an assertion (ClientJWTAuth, AuthorizePrivateJWTKey, the jwt-bearer
// grant of both routers, the legacy server's resource-client authentication) obtains it through that getter.  Here the getter, the
// constructor it calls and those consumers are regenerated with `IssuerFromContext(ctx)` ↦ the issuer the request is ADDRESSED TO
// (`reqIssuer`, an explicit parameter), in the namespace `GenC14` (AuthorizePrivateJWTKey also exists in `Gen`, over the hand-written
// `Provider.JWTProfileVerifier` of Model/OP.lean).  Model types: lean/OidcModel/Model/Assertion.lean (prefix `Asrt`).
//
// A memoised verifier (`sync.Once`, a field of the provider) has no translation: the function literal is UNSUPPORTED and the
// field is not part of `AsrtProvider`, so the build breaks visibly and `c14_audience_is_request_issuer` no longer checks.

func init() {
	const pI = "(reqIssuer : String)"
	const pP = "(exchanger : AsrtProvider)"
	rn := func(extra map[string]string) map[string]string {
		m := map[string]string{
			"IssuerFromContext()":            "reqIssuer",
			"VerifyJWTAssertion()":           "Gen.VerifyJWTAssertion now",
			"NewJWTProfileVerifier()":        "NewJWTProfileVerifier now",
			"newJWTProfileVerifier()":        "newJWTProfileVerifier now",
			"http.StatusBadRequest":          "(400 : Int)",
			"http.StatusInternalServerError": "(500 : Int)",
		}
		for k, v := range extra {
			m[k] = v
		}
		return m
	}
	ep := func(f FuncSpec) FuncSpec { // the style of the resource endpoints (C08)
		f.PlainUpdate, f.TupleAssign, f.ErrNilFirst, f.ErrElse, f.NestedUpdate = true, true, true, true, true
		f.LoopStyle = "forFirst"
		f.Rename = rn(f.Rename)
		return f
	}
	funcs := []FuncSpec{
		// the constructor: which fields the verifier gets (the Go layout: embedded oidc.Verifier, storage, key set, subject check)
		{File: "pkg/op/verifier_jwt_profile.go", Name: "newJWTProfileVerifier", Lean: "newJWTProfileVerifier", PlainUpdate: true,
			LoopStyle: "state", OutCallState: true, LocalOut: map[string]OutParam{"opt": {0, true}},
			StructLits: map[string]StructLit{"JWTProfileVerifier{}": {Lean: "AsrtVerifierGo", Keep: []string{"Verifier", "Storage", "keySet", "CheckSubject"}}},
			Params:     []string{"(storage : AsrtStorage)", "(keySet : KeySet)", "(issuer : String)", "(maxAgeIAT offset : Int)", "(opts : List AsrtVerifierOption)"},
			Ret:        RetVal, RetType: "AsrtVerifierGo", Rename: rn(map[string]string{"SubjectIsIssuer": "(Gen.SubjectIsIssuer now)", "opt()": "opt"})},
		{File: "pkg/op/verifier_jwt_profile.go", Name: "NewJWTProfileVerifier", Lean: "NewJWTProfileVerifier", PlainUpdate: true, LoopStyle: "forFirst",
			Params: []string{"(storage : AsrtStorage)", "(issuer : String)", "(maxAgeIAT offset : Int)", "(opts : List AsrtVerifierOption)"},
			Ret:    RetVal, RetType: "AsrtVerifierGo", Rename: rn(nil)},
		// the getter: built per request, for the issuer of THIS request
		{File: "pkg/op/op.go", Name: "Provider.JWTProfileVerifier", Lean: "ProviderJWTProfileVerifier", PlainUpdate: true, LoopStyle: "forFirst",
			Params: []string{pI, "(o : AsrtProvider)"}, Ret: RetVal, RetType: "AsrtVerifierGo",
			Rename: rn(map[string]string{"NewJWTProfileVerifier()": "Hand.asrtNoOpts (NewJWTProfileVerifier now)"})},
		// client authentication by assertion where no registered method is asked for (introspection, device grant, device authorization,
		// the legacy server's resource endpoints)
		ep(FuncSpec{File: "pkg/op/client.go", Name: "ClientJWTAuth", Lean: "ClientJWTAuth",
			Params: []string{pI, "(ca : AsrtAssertionParams)", "(verifier : AsrtProvider)"}, Ret: RetValErr, RetType: "String",
			Rename: map[string]string{"VerifyJWTAssertion()": "Hand.asrtVerifyJWTAssertion (verifier).tokenOf (Gen.VerifyJWTAssertion now)",
				"verifier.JWTProfileVerifier()": "(ProviderJWTProfileVerifier now reqIssuer verifier)"}}),
		// the registered method: an assertion authenticates only clients registered for private_key_jwt (helper of ClientIDFromRequest,
		// authenticateResourceClient and ParseTokenRevocationRequest); client_secret_post only when the provider has it switched on
		ep(FuncSpec{File: "pkg/op/client.go", Name: "checkPrivateKeyJWTClient", Lean: "checkPrivateKeyJWTClient",
			Params: []string{"(clientID : String)", "(storage : AsrtStorage)"}, Ret: RetErr}),
		ep(FuncSpec{File: "pkg/op/client.go", Name: "checkAuthMethodPost", Lean: "checkAuthMethodPost",
			Params: []string{"(clientID : String)", "(p : AsrtProvider)"}, Ret: RetErr}),
		// who the caller is at introspection, device authorization and the device grant of the Provider router
		ep(FuncSpec{File: "pkg/op/client.go", Name: "ClientIDFromRequest", Lean: "ClientIDFromRequest",
			Params: []string{pI, "(r : AsrtHttpReq)", "(p : AsrtProvider)"}, Ret: RetValErr, RetType: "(String × Bool)",
			Rename: map[string]string{"ClientJWTAuth()": "ClientJWTAuth now reqIssuer", "ClientBasicAuth()": "Hand.asrtClientBasicAuth",
				"checkPrivateKeyJWTClient()": "checkPrivateKeyJWTClient now", "checkAuthMethodPost()": "checkAuthMethodPost now",
				"errors.Is()": "Hand.asrtErrorsIs"}}),
		// … and at revocation
		ep(FuncSpec{File: "pkg/op/token_revocation.go", Name: "ParseTokenRevocationRequest", Lean: "ParseTokenRevocationRequest",
			Params: []string{pI, "(r : AsrtHttpReq)", "(revoker : AsrtProvider)"}, Ret: RetValErr, RetType: "(String × String × String)",
			Rename: map[string]string{"VerifyJWTAssertion()": "Hand.asrtVerifyJWTAssertion (revoker).tokenOf (Gen.VerifyJWTAssertion now)",
				"revokerJWTProfile.JWTProfileVerifier()": "(ProviderJWTProfileVerifier now reqIssuer revokerJWTProfile)",
				"url.QueryUnescape()": "(r).queryUnescape", "AuthorizeClientIDSecret()": "Hand.asrtAuthorizeClientIDSecret",
				"checkPrivateKeyJWTClient()": "checkPrivateKeyJWTClient now", "checkAuthMethodPost()": "checkAuthMethodPost now"}}),
		// private_key_jwt at the token endpoint: additionally the registered method
		ep(FuncSpec{File: "pkg/op/token_request.go", Name: "AuthorizePrivateJWTKey", Lean: "AuthorizePrivateJWTKey",
			Params: []string{pI, "(clientAssertion : Token)", pP}, Ret: RetValErr, RetType: "OPClient",
			Rename: map[string]string{"VerifyJWTAssertion()": "Hand.asrtVerifyToken (Gen.VerifyJWTAssertion now)",
				"exchanger.JWTProfileVerifier()": "(ProviderJWTProfileVerifier now reqIssuer exchanger)"}}),
		// the jwt-bearer grant of the Provider router and of the legacy server
		ep(FuncSpec{File: "pkg/op/token_jwt_profile.go", Name: "JWTProfile", Lean: "JWTProfile",
			Params: []string{pI, "(rq : Go.R AsrtGrantRequest)", pP}, Ret: RetResp, RetType: "AsrtResp",
			DropArgs: []string{"w", "r", "exchanger.Logger()", "exchanger.Decoder()"},
			Writers:  map[string]string{"RequestError": "AsrtResp.requestError", "httphelper.MarshalJSON": "AsrtResp.json"},
			Rename: map[string]string{"ParseJWTProfileGrantRequest()": "Hand.asrtParseGrantRequest rq",
				"VerifyJWTAssertion()":           "Hand.asrtVerifyJWTAssertion (exchanger).tokenOf (Gen.VerifyJWTAssertion now)",
				"exchanger.JWTProfileVerifier()": "(ProviderJWTProfileVerifier now reqIssuer exchanger)",
				"CreateJWTTokenResponse()":       "Hand.asrtCreateJWTTokenResponse"}}),
		ep(FuncSpec{File: "pkg/op/server_legacy.go", Name: "LegacyServer.JWTProfile", Lean: "LegacyJWTProfile",
			Params: []string{pI, "(s : AsrtLegacyServer)", "(r : AsrtRequest AsrtGrantRequest)"}, Ret: RetValErr, RetType: "AsrtTokenResponse",
			Rename: map[string]string{
				"VerifyJWTAssertion()":           "Hand.asrtVerifyJWTAssertion ((s).provider).tokenOf (Gen.VerifyJWTAssertion now)",
				"exchanger.JWTProfileVerifier()": "(ProviderJWTProfileVerifier now reqIssuer exchanger)",
				"CreateJWTTokenResponse()":       "Hand.asrtCreateJWTTokenResponse",
				"unimplementedGrantError()":      "Hand.asrtUnimplementedGrantError"}}),
		ep(FuncSpec{File: "pkg/op/server_legacy.go", Name: "LegacyServer.authenticateResourceClient", Lean: "LegacyAuthenticateResourceClient",
			Params: []string{pI, "(s : AsrtLegacyServer)", "(cc : AsrtClientCredentials)"}, Ret: RetValErr, RetType: "String",
			StructLits: map[string]StructLit{"oidc.ClientAssertionParams{}": {Lean: "AsrtAssertionParams", Keep: []string{"ClientAssertion"}}},
			Rename: map[string]string{"ClientJWTAuth()": "ClientJWTAuth now reqIssuer",
				"checkPrivateKeyJWTClient()": "checkPrivateKeyJWTClient now", "checkAuthMethodPost()": "checkAuthMethodPost now",
				"s.provider.Storage().AuthorizeClientIDSecret()": "(((s).provider).Storage).base.AuthorizeClientIDSecret"}}),
	}
	extraGroups = append(extraGroups, Group{
		Out:     "AssertionEndpoints.lean",
		NS:      "GenC14",
		Imports: []string{"OidcModel.Model.Assertion", "OidcModel.Generated.RPVerifier"},
		Opens:   []string{"Go", "Hand", "Const"},
		Funcs:   funcs,
	})
}
