package main

// The whitelist: which Go functions are translated, under which Lean signature.

const (
	pClaims = "(claims : Claims)"
)

func groups() []Group {
	return []Group{
		{Out: "Tables.lean", Extra: sigAlgTable},
		{
			Out:     "Hash.lean",
			Imports: []string{"OidcModel.Model.Token"},
			Opens:   []string{"Go", "Hand"},
			Funcs: []FuncSpec{
				{File: "pkg/crypto/hash.go", Name: "GetHashAlgorithm", Lean: "GetHashAlgorithm",
					Params: []string{"(sigAlgorithm : String)"}, Ret: RetValErr, RetType: "HashAlg",
					Rename: map[string]string{"sha256.New()": "HashAlg.sha256", "sha512.New384()": "HashAlg.sha384", "sha512.New()": "HashAlg.sha512"}},
				{File: "pkg/oidc/token.go", Name: "ClaimHash", Lean: "ClaimHash",
					Params: []string{"(claim : String)", "(sigAlgorithm : String)"}, Ret: RetValErr, RetType: "String"},
			},
		},
		{
			Out:     "OidcVerifier.lean",
			Imports: []string{"OidcModel.Model.KeySet"},
			Opens:   []string{"Go", "Hand"},
			Funcs: []FuncSpec{
				{File: "pkg/oidc/verifier.go", Name: "DecryptToken", Lean: "DecryptToken", Params: []string{"(tokenString : Token)"}, Ret: RetValErr, RetType: "Token"},
				{File: "pkg/oidc/verifier.go", Name: "CheckSubject", Lean: "CheckSubject", Params: []string{pClaims}, Ret: RetErr},
				{File: "pkg/oidc/verifier.go", Name: "CheckIssuer", Lean: "CheckIssuer", Params: []string{pClaims, "(issuer : String)"}, Ret: RetErr},
				{File: "pkg/oidc/verifier.go", Name: "CheckAudience", Lean: "CheckAudience", Params: []string{pClaims, "(clientID : String)"}, Ret: RetErr},
				{File: "pkg/oidc/verifier.go", Name: "CheckAuthorizedParty", Lean: "CheckAuthorizedParty", Params: []string{pClaims, "(clientID : String)"}, Ret: RetErr},
				{File: "pkg/oidc/verifier.go", Name: "CheckSignature", Lean: "CheckSignature",
					Params: []string{"(token : Token)", "(payload : Payload)", pClaims, "(supportedSigAlgs : List String)", "(set : KeySet)"},
					Ret:    RetErr, RetParam: "claims", RetType: "Claims",
					Rename: map[string]string{"jose.ParseSigned()": "Hand.joseParseSigned", "toJoseSignatureAlgorithms()": "Hand.toJoseSignatureAlgorithms"}},
				{File: "pkg/oidc/verifier.go", Name: "CheckExpiration", Lean: "CheckExpiration", Params: []string{pClaims, "(offset : Int)"}, Ret: RetErr},
				{File: "pkg/oidc/verifier.go", Name: "CheckIssuedAt", Lean: "CheckIssuedAt", Params: []string{pClaims, "(maxAgeIAT offset : Int)"}, Ret: RetErr},
				{File: "pkg/oidc/verifier.go", Name: "CheckNonce", Lean: "CheckNonce", Params: []string{pClaims, "(nonce : String)"}, Ret: RetErr},
				{File: "pkg/oidc/verifier.go", Name: "CheckAuthorizationContextClassReference", Lean: "CheckAuthorizationContextClassReference",
					Params: []string{pClaims, "(acr : Option (String → Go.R Unit))"}, Ret: RetErr,
					Rename: map[string]string{"acr()": "Go.callOpt acr"}},
				{File: "pkg/oidc/verifier.go", Name: "CheckAuthTime", Lean: "CheckAuthTime", Params: []string{pClaims, "(maxAge : Int)"}, Ret: RetErr},
			},
		},
		{
			Out:     "RPVerifier.lean",
			Imports: []string{"OidcModel.Generated.OidcVerifier", "OidcModel.Generated.Hash"},
			Opens:   []string{"Go", "Hand"},
			Funcs: []FuncSpec{
				{File: "pkg/client/rp/verifier.go", Name: "VerifyAccessToken", Lean: "RPVerifyAccessToken",
					Params: []string{"(accessToken atHash : String)", "(sigAlgorithm : String)"}, Ret: RetErr},
				{File: "pkg/client/rp/verifier.go", Name: "VerifyIDToken", Lean: "VerifyIDToken",
					Params: []string{"(token : Token)", "(v : Verifier)"}, Ret: RetValErr, RetType: "Claims", NilValue: []string{"nilClaims"},
					Rename: map[string]string{"v.Nonce()": "(Go.getOpt (v).Nonce)"}},
				{File: "pkg/op/verifier_access_token.go", Name: "VerifyAccessToken", Lean: "OPVerifyAccessToken",
					Params: []string{"(token : Token)", "(v : Verifier)"}, Ret: RetValErr, RetType: "Claims", NilValue: []string{"nilClaims"}},
				{File: "pkg/op/verifier_id_token_hint.go", Name: "VerifyIDTokenHint", Lean: "VerifyIDTokenHint",
					Params: []string{"(token : Token)", "(v : Verifier)"}, Ret: RetValErr, RetType: "HintOut", NilValue: []string{"nilClaims"},
					WrapOk: "HintOut.valid", WrapBoth: "HintOut.expired"},
				{File: "pkg/op/verifier_jwt_profile.go", Name: "SubjectIsIssuer", Lean: "SubjectIsIssuer",
					Params: []string{"(request : Claims)"}, Ret: RetErr},
				{File: "pkg/op/verifier_jwt_profile.go", Name: "VerifyJWTAssertion", Lean: "VerifyJWTAssertion",
					Params: []string{"(assertion : Token)", "(v : JWTProfileVerifier)"}, Ret: RetValErr, RetType: "Claims",
					Rename: map[string]string{"v.CheckSubject()": "Hand.applySubjectCheck (SubjectIsIssuer now) (v).CheckSubject",
						"jwtProfileKeySet{}": "Hand.jwtProfileKeySet"}},
				{File: "pkg/client/rp/verifier.go", Name: "VerifyTokens", Lean: "VerifyTokens",
					Params: []string{"(accessToken : String)", "(idToken : Token)", "(v : Verifier)"}, Ret: RetValErr, RetType: "Claims", NilValue: []string{"nilClaims"},
					Rename: map[string]string{"VerifyAccessToken()": "RPVerifyAccessToken now"}},
			},
		},
	}
}
