package main

// The whitelist: which Go functions are translated, under which Lean signature.

const (
	pClaims = "(claims : Claims)"
)

func groups() []Group {
	return []Group{
		{Out: "Tables.lean", Extra: func(g *genCtx) string { return sigAlgTable(g) + "\n" + tokenTypeTable(g) }},
		{Out: "StorageCalls.lean", Extra: storageCallFacts},
		{Out: "HashFacts.lean", Imports: []string{"OidcModel.Model.Token"}, Opens: []string{"Go"}, Extra: hashStringFact},
		{
			Out:     "Hash.lean",
			Imports: []string{"OidcModel.Model.Token", "OidcModel.Generated.HashFacts"},
			Opens:   []string{"Go", "Hand"},
			Funcs: []FuncSpec{
				{File: "pkg/crypto/hash.go", Name: "GetHashAlgorithm", Lean: "GetHashAlgorithm",
					Params: []string{"(sigAlgorithm : String)"}, Ret: RetValErr, RetType: "HashAlg",
					Rename: map[string]string{"sha256.New()": "HashAlg.sha256", "sha512.New384()": "HashAlg.sha384", "sha512.New()": "HashAlg.sha512"}},
				{File: "pkg/oidc/token.go", Name: "ClaimHash", Lean: "ClaimHash",
					Params: []string{"(claim : String)", "(sigAlgorithm : String)"}, Ret: RetValErr, RetType: "String"},
			},
		},
		{
			Out:     "OidcVerifier.lean",
			Imports: []string{"OidcModel.Model.KeySet", "OidcModel.Model.Int64C14"},
			Opens:   []string{"Go", "Hand"},
			Funcs: []FuncSpec{
				{File: "pkg/oidc/verifier.go", Name: "DecryptToken", Lean: "DecryptToken", Params: []string{"(tokenString : Token)"}, Ret: RetValErr, RetType: "Token"},
				{File: "pkg/oidc/verifier.go", Name: "CheckSubject", Lean: "CheckSubject", Params: []string{pClaims}, Ret: RetErr},
				{File: "pkg/oidc/verifier.go", Name: "CheckIssuer", Lean: "CheckIssuer", Params: []string{pClaims, "(issuer : String)"}, Ret: RetErr},
				{File: "pkg/oidc/verifier.go", Name: "CheckAudience", Lean: "CheckAudience", Params: []string{pClaims, "(clientID : String)"}, Ret: RetErr},
				{File: "pkg/oidc/verifier.go", Name: "CheckAuthorizedParty", Lean: "CheckAuthorizedParty", Params: []string{pClaims, "(clientID : String)"}, Ret: RetErr},
				{File: "pkg/oidc/verifier.go", Name: "CheckSignature", Lean: "CheckSignature",
					Params: []string{"(token : Token)", "(payload : Payload)", pClaims, "(supportedSigAlgs : List String)", "(set : KeySet)"},
					Ret:    RetErr, RetParam: "claims", RetType: "Claims",
					Rename: map[string]string{"jose.ParseSigned()": "Hand.joseParseSigned", "toJoseSignatureAlgorithms()": "Hand.toJoseSignatureAlgorithms"}},
				{File: "pkg/oidc/verifier.go", Name: "CheckExpiration", Lean: "CheckExpiration", Params: []string{pClaims, "(offset : Int)"}, Ret: RetErr, Wrap64: true},
				{File: "pkg/oidc/verifier.go", Name: "CheckIssuedAt", Lean: "CheckIssuedAt", Params: []string{pClaims, "(maxAgeIAT offset : Int)"}, Ret: RetErr, Wrap64: true},
				{File: "pkg/oidc/verifier.go", Name: "CheckNonce", Lean: "CheckNonce", Params: []string{pClaims, "(nonce : String)"}, Ret: RetErr},
				{File: "pkg/oidc/verifier.go", Name: "CheckAuthorizationContextClassReference", Lean: "CheckAuthorizationContextClassReference",
					Params: []string{pClaims, "(acr : Option (String → Go.R Unit))"}, Ret: RetErr,
					Rename: map[string]string{"acr()": "Go.callOpt acr"}},
				{File: "pkg/oidc/verifier.go", Name: "CheckAuthTime", Lean: "CheckAuthTime", Params: []string{pClaims, "(maxAge : Int)"}, Ret: RetErr, Wrap64: true},
			},
		},
		{
			Out:     "RPVerifier.lean",
			Imports: []string{"OidcModel.Generated.OidcVerifier", "OidcModel.Generated.Hash"},
			Opens:   []string{"Go", "Hand"},
			Funcs: []FuncSpec{
				{File: "pkg/client/rp/verifier.go", Name: "VerifyAccessToken", Lean: "RPVerifyAccessToken",
					Params: []string{"(accessToken atHash : String)", "(sigAlgorithm : String)"}, Ret: RetErr},
				{File: "pkg/client/rp/verifier.go", Name: "VerifyIDToken", Lean: "VerifyIDToken",
					Params: []string{"(token : Token)", "(v : Verifier)"}, Ret: RetValErr, RetType: "Claims", NilValue: []string{"nilClaims"},
					Rename: map[string]string{"v.Nonce()": "(Go.getOpt (v).Nonce)"}},
				{File: "pkg/op/verifier_access_token.go", Name: "VerifyAccessToken", Lean: "OPVerifyAccessToken",
					Params: []string{"(token : Token)", "(v : Verifier)"}, Ret: RetValErr, RetType: "Claims", NilValue: []string{"nilClaims"}},
				{File: "pkg/op/verifier_id_token_hint.go", Name: "VerifyIDTokenHint", Lean: "VerifyIDTokenHint",
					Params: []string{"(token : Token)", "(v : Verifier)"}, Ret: RetValErr, RetType: "HintOut", NilValue: []string{"nilClaims"},
					WrapOk: "HintOut.valid", WrapBoth: "HintOut.expired", WrapBothType: "IDTokenHintExpiredError"},
				{File: "pkg/op/verifier_jwt_profile.go", Name: "SubjectIsIssuer", Lean: "SubjectIsIssuer",
					Params: []string{"(request : Claims)"}, Ret: RetErr},
				{File: "pkg/op/verifier_jwt_profile.go", Name: "VerifyJWTAssertion", Lean: "VerifyJWTAssertion",
					Params: []string{"(assertion : Token)", "(v : JWTProfileVerifier)"}, Ret: RetValErr, RetType: "Claims",
					Rename: map[string]string{"v.CheckSubject()": "Hand.applySubjectCheck (SubjectIsIssuer now) (v).CheckSubject",
						"jwtProfileKeySet{}": "Hand.jwtProfileKeySet"}},
				{File: "pkg/client/rp/verifier.go", Name: "VerifyTokens", Lean: "VerifyTokens",
					Params: []string{"(accessToken : String)", "(idToken : Token)", "(v : Verifier)"}, Ret: RetValErr, RetType: "Claims", NilValue: []string{"nilClaims"},
					Rename: map[string]string{"VerifyAccessToken()": "RPVerifyAccessToken now"}},
			},
		},
		{
			Out:     "TokenEndpoint.lean",
			Imports: []string{"OidcModel.Model.OP", "OidcModel.Generated.RPVerifier"},
			Opens:   []string{"Go", "Hand", "Const"},
			Funcs: []FuncSpec{
				{File: "pkg/oidc/code_challenge.go", Name: "VerifyCodeChallenge", Lean: "VerifyCodeChallenge",
					Params: []string{"(c : Option CodeChallenge)", "(codeVerifier : String)"}, Ret: RetVal, RetType: "Bool",
					Rename: map[string]string{"c.Method": "(Go.getOpt c).Method", "c.Challenge": "(Go.getOpt c).Challenge"}},
				{File: "pkg/op/token_request.go", Name: "AuthorizeCodeChallenge", Lean: "AuthorizeCodeChallenge",
					Params: []string{"(codeVerifier : String)", "(challenge : Option CodeChallenge)"}, Ret: RetErr},
				{File: "pkg/op/token_request.go", Name: "AuthorizeClientIDSecret", Lean: "AuthorizeClientIDSecret",
					Params: []string{"(clientID clientSecret : String)", "(storage : Store)"}, Ret: RetErr},
				{File: "pkg/op/token_request.go", Name: "ValidateGrantType", Lean: "ValidateGrantType",
					Params: []string{"(client : OPClient)", "(grantType : String)"}, Ret: RetVal, RetType: "Bool",
					Rename: map[string]string{"client": "client"}},
				{File: "pkg/op/token_request.go", Name: "AuthorizePrivateJWTKey", Lean: "AuthorizePrivateJWTKey",
					Params: []string{"(clientAssertion : Token)", "(exchanger : Provider)"}, Ret: RetValErr, RetType: "OPClient"},
				{File: "pkg/op/token_code.go", Name: "AuthRequestByCode", Lean: "AuthRequestByCode",
					Params: []string{"(storage : Store)", "(code : String)"}, Ret: RetValErr, RetType: "AuthReq"},
				{File: "pkg/op/token_code.go", Name: "AuthorizeCodeClient", Lean: "AuthorizeCodeClient",
					Params: []string{"(tokenReq : AccessTokenRequest)", "(exchanger : Provider)"}, Ret: RetValErr, RetType: "(AuthReq × OPClient)"},
				{File: "pkg/op/token_code.go", Name: "ValidateAccessTokenRequest", Lean: "ValidateAccessTokenRequest",
					Params: []string{"(tokenReq : AccessTokenRequest)", "(exchanger : Provider)"}, Ret: RetValErr, RetType: "(AuthReq × OPClient)"},
				{File: "pkg/op/token_exchange.go", Name: "AuthorizeTokenExchangeClient", Lean: "AuthorizeTokenExchangeClient",
					Params: []string{"(clientID clientSecret : String)", "(exchanger : Provider)"}, Ret: RetValErr, RetType: "OPClient"},
				{File: "pkg/op/token_client_credentials.go", Name: "AuthorizeClientCredentialsClient", Lean: "AuthorizeClientCredentialsClient",
					Params: []string{"(request : ClientCredentials)", "(storage : Store)"}, Ret: RetValErr, RetType: "OPClient"},
				{File: "pkg/op/server_legacy.go", Name: "LegacyServer.VerifyClient", Lean: "LegacyVerifyClient",
					Params: []string{"(s : LegacyServer)", "(r : Request ClientCredentials)"}, Ret: RetValErr, RetType: "OPClient"},
				{File: "pkg/op/server_legacy.go", Name: "LegacyServer.CodeExchange", Lean: "LegacyCodeExchange",
					Params: []string{"(s : LegacyServer)", "(r : ClientRequest AccessTokenRequest)"}, Ret: RetValErr, RetType: "IssueFor",
					Rename: map[string]string{"CreateTokenResponse()": "Hand.issueForCode now"}},
				{File: "pkg/op/token_refresh.go", Name: "RefreshTokenRequestByRefreshToken", Lean: "RefreshTokenRequestByRefreshToken",
					Params: []string{"(storage : Store)", "(refreshToken : String)"}, Ret: RetValErr, RetType: "RefreshReq"},
				{File: "pkg/op/token_refresh.go", Name: "ValidateRefreshTokenScopes", Lean: "ValidateRefreshTokenScopes",
					Params: []string{"(requestedScopes : List String)", "(authRequest : RefreshReq)"}, Ret: RetErr, RetParam: "authRequest", RetType: "RefreshReq"},
				{File: "pkg/op/token_refresh.go", Name: "AuthorizeRefreshClient", Lean: "AuthorizeRefreshClient",
					Params: []string{"(tokenReq : RefreshTokenRequest)", "(exchanger : Provider)"}, Ret: RetValErr, RetType: "(RefreshReq × OPClient)"},
				{File: "pkg/op/token_refresh.go", Name: "ValidateRefreshTokenRequest", Lean: "ValidateRefreshTokenRequest",
					Params: []string{"(tokenReq : RefreshTokenRequest)", "(exchanger : Provider)"}, Ret: RetValErr, RetType: "(RefreshReq × OPClient)"},
				{File: "pkg/op/server_legacy.go", Name: "LegacyServer.RefreshToken", Lean: "LegacyRefreshToken",
					Params: []string{"(s : LegacyServer)", "(r : ClientRequest RefreshTokenRequest)"}, Ret: RetValErr, RetType: "IssueFor",
					Rename: map[string]string{"CreateTokenResponse()": "Hand.issueForRefresh now", "unimplementedGrantError()": "Hand.unimplementedGrantError"}},
			},
		},
		{
			Out:     "RequestObject.lean",
			Imports: []string{"OidcModel.Model.OP", "OidcModel.Generated.RPVerifier"},
			Opens:   []string{"Go", "Hand", "Const"},
			Funcs: []FuncSpec{
				{File: "pkg/op/auth_request.go", Name: "CopyRequestObjectToAuthRequest", Lean: "CopyRequestObjectToAuthRequest",
					Params: []string{"(authReq : AuthRequestIn)", "(requestObject : Claims)"}, Ret: RetVal, RetParam: "authReq", RetType: "AuthRequestIn"},
				{File: "pkg/op/auth_request.go", Name: "ParseRequestObject", Lean: "ParseRequestObject",
					Params: []string{"(authReq : AuthRequestIn)", "(storage : Store)", "(issuer : String)"}, Ret: RetErr, RetParam: "authReq", RetType: "AuthRequestIn",
					Rename: map[string]string{"authReq.RequestParam": "(authReq).RequestToken", "jwtProfileKeySet{}": "Hand.jwtProfileKeySetS"}},
			},
		},
		{
			Out:     "TokenExchange.lean",
			Imports: []string{"OidcModel.Model.Exchange", "OidcModel.Generated.TokenEndpoint"},
			Opens:   []string{"Go", "Hand", "Const"},
			Funcs: []FuncSpec{
				{File: "pkg/op/token_exchange.go", Name: "ValidateTokenExchangeRequest", Lean: "ValidateTokenExchangeRequest",
					Params: []string{"(oidcTokenExchangeRequest : TokenExchangeIn)", "(clientID clientSecret : String)", "(exchanger : Provider)"},
					Ret:    RetValErr, RetType: "(ExchangeReq × OPClient)",
					Rename: map[string]string{"CreateTokenExchangeRequest()": "Hand.CreateTokenExchangeRequest now"}},
				{File: "pkg/op/token_exchange.go", Name: "CreateTokenExchangeResponse", Lean: "CreateTokenExchangeResponse",
					Params: []string{"(tokenExchangeRequest : ExchangeReq)", "(client : OPClient)", "(creator : Provider)"},
					Ret:    RetValErr, RetType: "ExchangeResp",
					Rename: map[string]string{"oidc.TokenExchangeResponse{}": "ExchangeResp.mk", "CreateAccessToken()": "Hand.teCreateAccessToken now",
						"CreateIDToken()": "Hand.teCreateIDToken now"}},
			},
		},
		{
			Out:     "Claims.lean",
			Imports: []string{"OidcModel.Model.Issue"},
			Opens:   []string{"Go", "Hand", "Const"},
			Funcs: []FuncSpec{
				{File: "pkg/oidc/token.go", Name: "AppendClientIDToAudience", Lean: "AppendClientIDToAudience", ValueOnly: true,
					Params: []string{"(clientID : String)", "(audience : List String)"}, Ret: RetVal, RetType: "List String"},
				{File: "pkg/oidc/token.go", Name: "NewIDTokenClaims", Lean: "NewIDTokenClaims", ValueOnly: true,
					Params: []string{"(issuer subject : String)", "(audience : List String)", "(expiration authTime : Int)", "(nonce : String)", "(acr : String)",
						"(amr : List String)", "(clientID : String)", "(skew : Int)"}, Ret: RetVal, RetType: "IDTokenClaimsGo",
					Rename: map[string]string{"IDTokenClaims{}": "struct:IDTokenClaimsGo", "TokenClaims{}": "struct:TokenClaimsGo"}},
				{File: "pkg/oidc/token.go", Name: "NewAccessTokenClaims", Lean: "NewAccessTokenClaims", ValueOnly: true,
					Params: []string{"(issuer subject : String)", "(audience : List String)", "(expiration : Int)", "(jwtid clientID : String)", "(skew : Int)"},
					Ret:    RetVal, RetType: "AccessTokenClaimsGo",
					Rename: map[string]string{"AccessTokenClaims{}": "struct:AccessTokenClaimsGo", "TokenClaims{}": "struct:TokenClaimsGo"}},
			},
		},
	}
}

// ---- C03: the authorization endpoint (redirect-URI validation, error redirects, callback) of both routers

const (
	pO  = "(o : UriOracle)"
	pD  = "(d : AuthDeps)"
	pCl = "(client : OPClient)"
)

var azRename = map[string]string{
	"http.StatusBadRequest": "(400 : Int)", "http.StatusFound": "(302 : Int)", "http.StatusOK": "(200 : Int)",
	"http.Error()": "Hand.httpError", "http.Redirect()": "Hand.httpRedirect",
	"url.Parse()": "(o).urlParse", "net.ParseIP()": "(o).parseIP", "doublestar.Match()": "(o).globMatch",
	"HTTPLoopbackOrLocalhost()":          "HTTPLoopbackOrLocalhost now o",
	"checkURIAgainstRedirects()":         "checkURIAgainstRedirects now o",
	"validateAuthReqRedirectURINative()": "validateAuthReqRedirectURINative now o",
	"ValidateAuthReqRedirectURI()":       "ValidateAuthReqRedirectURI now o",
	"ValidateAuthReqPrompt()":            "(d).ValidateAuthReqPrompt",
	"ValidateAuthReqScopes()":            "(d).ValidateAuthReqScopes",
	"ValidateAuthReqIDTokenHint()":       "(d).ValidateAuthReqIDTokenHint",
	"ParseRequestObject()":               "(d).ParseRequestObject",
	"CreateTokenResponse()":              "(d).CreateTokenResponse",
	"CreateAuthRequestCode()":            "(d).CreateAuthRequestCode",
	"IssuerFromContext()":                "\"\"",
	"AuthResponseURL()":                  "AuthResponseURL now o",
	"TryErrorRedirect()":                 "TryErrorRedirect now o",
	"AuthRequestError()":                 "AuthRequestError now o",
	"AuthResponse()":                     "AuthResponse now o d",
	"AuthResponseCode()":                 "AuthResponseCode now o d",
	"AuthResponseToken()":                "AuthResponseToken now o d",
	"AuthResponseFormPost()":             "Hand.runFormPost (AuthResponseFormPost now (d).FormTemplate)",
	"s.server.VerifyAuthRequest()":       "LegacyVerifyAuthRequest now d (s).server",
	"s.server.Authorize()":               "LegacyAuthorize now o d (s).server",
	"ClientRequest{}":                    "Hand.mkClientRequest",
	"<*ast.StructType>{}":                "Hand.codeResponse",
}

// Lean twins of the Go types an extracted helper of this slice may take (autofollow.go)
var azAutoTypes = map[string]string{"Client": "OPClient", "oidc.ResponseType": "String", "oidc.ResponseMode": "String", "*url.URL": "URL",
	"ErrAuthRequest": "ErrReq", "AuthRequest": "AzStored", "*oidc.AuthRequest": "AuthRequestData", "Authorizer": "AzProvider", "*oidc.Error": "OidcError",
	"int": "Int", "error": "String", "Storage": "AzStorage", "*IDTokenHintVerifier": "Unit"}

func authzFuncs() []FuncSpec {
	const ar = "pkg/op/auth_request.go"
	fs := []FuncSpec{
		{File: "pkg/op/client.go", Name: "ContainsResponseType", Lean: "ContainsResponseType",
			Params: []string{"(types : List String)", "(responseType : String)"}, Ret: RetVal, RetType: "Bool"},
		{File: "pkg/op/client.go", Name: "IsConfidentialType", Lean: "IsConfidentialType", Params: []string{"(c : OPClient)"}, Ret: RetVal, RetType: "Bool"},
		{File: ar, Name: "equalURI", Lean: "equalURI", Params: []string{"(url1 url2 : URL)"}, Ret: RetVal, RetType: "Bool"},
		{File: ar, Name: "HTTPLoopbackOrLocalhost", Lean: "HTTPLoopbackOrLocalhost", Params: []string{pO, "(rawURL : String)"}, Ret: RetVal, RetType: "(URL × Bool)"},
		{File: ar, Name: "checkURIAgainstRedirects", Lean: "checkURIAgainstRedirects", Params: []string{pO, pCl, "(uri : String)"}, Ret: RetErr},
		{File: ar, Name: "validateAuthReqRedirectURINative", Lean: "validateAuthReqRedirectURINative", Params: []string{pO, pCl, "(uri : String)"}, Ret: RetErr},
		{File: ar, Name: "ValidateAuthReqRedirectURI", Lean: "ValidateAuthReqRedirectURI", Params: []string{pO, pCl, "(uri : String)", "(responseType : String)"}, Ret: RetErr},
		{File: ar, Name: "ValidateAuthReqResponseType", Lean: "ValidateAuthReqResponseType", Params: []string{pCl, "(responseType : String)"}, Ret: RetErr},
		{File: ar, Name: "ValidateAuthRequestClient", Lean: "ValidateAuthRequestClient",
			Params: []string{pO, pD, "(authReq : AuthRequestData)", pCl, "(verifier : Unit)"}, Ret: RetValErr, RetType: "String"},
		{File: ar, Name: "AuthResponseURL", Lean: "AuthResponseURL",
			Params: []string{pO, "(redirectURI responseType responseMode : String)", "(response : RespParams)", "(encoder : Encoder)"}, Ret: RetValErr, RetType: "OutURL"},
		{File: "pkg/op/error.go", Name: "TryErrorRedirect", Lean: "TryErrorRedirect",
			Params: []string{pO, "(authReq : ErrReq)", "(parent : String)", "(encoder : Encoder)", "(logger : Unit)"}, Ret: RetValErr, RetType: "Redirect"},
		{File: "pkg/op/error.go", Name: "AuthRequestError", Lean: "AuthRequestError",
			Params: []string{pO, "(authReq : ErrReq)", "(err : String)", "(authorizer : AzProvider)"}, Ret: RetWrites},
		{File: "pkg/op/server_legacy.go", Name: "LegacyServer.VerifyAuthRequest", Lean: "LegacyVerifyAuthRequest",
			Params: []string{pD, "(s : AzLegacyServer)", "(r : Request AuthRequestData)"}, Ret: RetValErr, RetType: "(ClientRequest AuthRequestData)"},
		{File: "pkg/op/server_legacy.go", Name: "LegacyServer.Authorize", Lean: "LegacyAuthorize",
			Params: []string{pO, pD, "(s : AzLegacyServer)", "(r : ClientRequest AuthRequestData)"}, Ret: RetValErr, RetType: "Redirect"},
		{File: "pkg/op/server_http.go", Name: "webServer.authorize", Lean: "WebAuthorize",
			Params: []string{pO, pD, "(s : AzWebServer)", "(r : Request AuthRequestData)"}, Ret: RetValErr, RetType: "Redirect"},
		{File: ar, Name: "RedirectToLogin", Lean: "RedirectToLogin", Params: []string{"(authReqID : AzStored)", pCl}, Ret: RetWrites},
		{File: ar, Name: "ParseAuthorizeCallbackRequest", Lean: "ParseAuthorizeCallbackRequest", Params: []string{"(r : AzHttpReq)"}, Ret: RetValErr, RetType: "String"},
		formPostSpec(),
		{File: ar, Name: "AuthResponseToken", Lean: "AuthResponseToken",
			Params: []string{pO, pD, "(authReq : AzStored)", "(authorizer : AzProvider)", pCl}, Ret: RetWrites},
		{File: ar, Name: "AuthResponseCode", Lean: "AuthResponseCode", Params: []string{pO, pD, "(authReq : AzStored)", "(authorizer : AzProvider)"}, Ret: RetWrites},
		{File: ar, Name: "AuthResponse", Lean: "AuthResponse", Params: []string{pO, pD, "(authReq : AzStored)", "(authorizer : AzProvider)"}, Ret: RetWrites},
		{File: ar, Name: "AuthorizeCallback", Lean: "AuthorizeCallback", Params: []string{pO, pD, "(r : AzHttpReq)", "(authorizer : AzProvider)"}, Ret: RetWrites},
	}
	for i := range fs {
		fs[i].AutoTypes = azAutoTypes
		if fs[i].Name == "AuthResponseFormPost" {
			continue // carries its own rename table (formPostSpec)
		}
		fs[i].Rename = azRename
		if fs[i].Name == "AuthResponseToken" {
			// its anonymous struct wraps the token response and the session state (AuthResponseCode's: code, state, session state)
			own := map[string]string{}
			for k, v := range azRename {
				own[k] = v
			}
			own["<*ast.StructType>{}"] = "Hand.tokenResponse"
			fs[i].Rename = own
		}
	}
	return fs
}
