package main

// C04 / C07: what CreateTokenResponse / createTokens do with the storage when tokens are issued.
//   * needsRefreshToken (a type switch over the dynamic type of the token request) is translated: the
//     stateful shell's `Flow.wantsRefresh` is this regenerated function;
//   * the calls CreateTokenResponse makes, in source order, with whether a failing call ends the function
//     with an error: the shell's `applyIssue` / `exchangeDeleteFails` read these facts (is the authorization
//     request deleted on the code path, is a failing deletion fatal, are tokens created before it).

import (
	"fmt"
	"go/ast"
	"strings"
)

func init() {
	extraGroups = append(extraGroups, Group{
		Out:     "TokenIssue.lean",
		Imports: []string{"OidcModel.Model.TokReq", "OidcModel.Generated.TokenEndpoint"},
		Opens:   []string{"Go", "Hand", "Const"},
		Funcs: []FuncSpec{
			{File: "pkg/op/token.go", Name: "needsRefreshToken", Lean: "needsRefreshToken", TypeSwitch: true,
				Params: []string{"(tokenRequest : TokReq)", "(client : OPClient)"}, Ret: RetVal, RetType: "Bool",
				Rename: map[string]string{"oidc.RefreshTokenType": "Gen.RefreshTokenType", "client": "client"}},
		},
		Extra: func(g *genCtx) string { return createTokenResponseFacts(g) + refreshHandlerFacts(g) },
	})
	// C04: the two places of the authorization endpoint the code-grant history depends on - what an id_token_hint
	// makes of the pending request's subject (ValidateAuthReqIDTokenHint: valid AND expired hints yield their subject),
	// and the guard of the callback handler (AuthorizeCallback: a code only for a request that is Done()).
	// A second, stateful-shell model of functions the C03 slice models with URL oracles: own namespace.
	extraGroups = append(extraGroups, Group{
		Out:     "FlowAuthz.lean",
		NS:      "GenFlow",
		Imports: []string{"OidcModel.Model.FlowAuthz", "OidcModel.Generated.RPVerifier"},
		Opens:   []string{"Go", "Hand", "Const", "Gen"},
		Funcs: []FuncSpec{
			{File: "pkg/op/auth_request.go", Name: "ValidateAuthReqIDTokenHint", Lean: "ValidateAuthReqIDTokenHint",
				Params: []string{"(tokenOf : String → Token)", "(idTokenHint : String)", "(verifier : Verifier)"}, Ret: RetValErr, RetType: "String",
				SoftErr: map[string]string{"IDTokenHintExpiredError": "Hand.flowHintClaims"},
				Rename:  map[string]string{"VerifyIDTokenHint()": "Hand.flowViaToken tokenOf (VerifyIDTokenHint now)"}},
			{File: "pkg/op/auth_request.go", Name: "AuthorizeCallback", Lean: "AuthorizeCallback",
				Params: []string{"(r : FlowCbReq)", "(authorizer : Provider)"}, Ret: RetHandled,
				Rename: map[string]string{"ParseAuthorizeCallbackRequest()": "Hand.flowParseCallback now"}},
		},
	})
}

type issueCall struct {
	callee        string
	inAuthRequest bool
	errReturned   bool
	guard         string // the conditions of the enclosing if statements, in source text, joined by " && "
}

// returnsErr: does the block contain (at its top level) a `return` whose last result is not the literal nil?
func returnsErr(b *ast.BlockStmt) bool {
	if b == nil {
		return false
	}
	for _, st := range b.List {
		if r, ok := st.(*ast.ReturnStmt); ok && len(r.Results) > 0 {
			if exprString(r.Results[len(r.Results)-1]) != "nil" {
				return true
			}
		}
	}
	return false
}

func calleeName(c *ast.CallExpr) string {
	switch f := c.Fun.(type) {
	case *ast.Ident:
		return f.Name
	case *ast.SelectorExpr:
		return f.Sel.Name
	}
	return exprString(c.Fun)
}

func isAuthRequestAssert(st ast.Stmt) bool {
	as, ok := st.(*ast.AssignStmt)
	if !ok || len(as.Rhs) != 1 {
		return false
	}
	ta, ok := as.Rhs[0].(*ast.TypeAssertExpr)
	return ok && ta.Type != nil && typeAssertName(ta.Type) == "AuthRequest"
}

func scanIssueCalls(stmts []ast.Stmt, inAR bool, guard string, out *[]issueCall) {
	for i, st := range stmts {
		switch x := st.(type) {
		case *ast.AssignStmt:
			if len(x.Rhs) == 1 {
				if c, ok := x.Rhs[0].(*ast.CallExpr); ok && len(x.Lhs) > 0 {
					last := exprString(x.Lhs[len(x.Lhs)-1])
					fatal := false
					if last != "_" && i+1 < len(stmts) {
						if ifs, ok := stmts[i+1].(*ast.IfStmt); ok && ifs.Init == nil && mentions(ifs.Cond, last) && strings.Contains(exprString2(ifs.Cond), last+" != nil") {
							fatal = returnsErr(ifs.Body)
						}
					}
					*out = append(*out, issueCall{calleeName(c), inAR, fatal, guard})
				}
			}
		case *ast.ExprStmt:
			if c, ok := x.X.(*ast.CallExpr); ok && !ignorableCall(c) {
				*out = append(*out, issueCall{calleeName(c), inAR, false, guard})
			}
		case *ast.IfStmt:
			in := inAR
			if x.Init != nil {
				if isAuthRequestAssert(x.Init) {
					in = true
				} else if as, ok := x.Init.(*ast.AssignStmt); ok && len(as.Rhs) == 1 {
					if c, ok := as.Rhs[0].(*ast.CallExpr); ok {
						last := exprString(as.Lhs[len(as.Lhs)-1])
						fatal := strings.Contains(exprString2(x.Cond), last+" != nil") && returnsErr(x.Body)
						*out = append(*out, issueCall{calleeName(c), inAR, fatal, guard})
					}
				}
			}
			g := exprString2(x.Cond)
			if guard != "" {
				g = guard + " && " + g
			}
			scanIssueCalls(x.Body.List, in, g, out)
			ng := "!(" + exprString2(x.Cond) + ")"
			if guard != "" {
				ng = guard + " && " + ng
			}
			switch e := x.Else.(type) {
			case *ast.BlockStmt:
				scanIssueCalls(e.List, inAR, ng, out)
			case *ast.IfStmt:
				scanIssueCalls([]ast.Stmt{e}, inAR, ng, out)
			}
		case *ast.BlockStmt:
			scanIssueCalls(x.List, inAR, guard, out)
		}
	}
}

func createTokenResponseFacts(g *genCtx) string {
	var b strings.Builder
	b.WriteString("\n/-- one call made by `CreateTokenResponse` (pkg/op/token.go), in source order -/\nstructure IssueCall where\n  callee : String\n  inAuthRequestBranch : Bool   -- inside `if authRequest, ok := request.(AuthRequest); ok {`\n  errReturned : Bool           -- a failing call ends CreateTokenResponse with an error instead of a response\n  guard : String               -- conditions of the enclosing if statements (source text)\n  deriving Repr, DecidableEq\n\n")
	fd := g.findFunc("pkg/op/token.go", "CreateTokenResponse")
	if fd == nil {
		g.unsup["createTokenResponseCalls"] = append(g.unsup["createTokenResponseCalls"], "function not found: pkg/op/token.go CreateTokenResponse")
		b.WriteString("def createTokenResponseCalls : List IssueCall := UNSUPPORTED_function_not_found\n")
		return b.String()
	}
	var calls []issueCall
	scanIssueCalls(fd.Body.List, false, "", &calls)
	b.WriteString("def createTokenResponseCalls : List IssueCall := [\n")
	var keep []issueCall
	for _, c := range calls {
		switch c.callee {
		case "Start", "End", "Seconds", "uint64":
			continue
		}
		keep = append(keep, c)
	}
	for i, c := range keep {
		sep := ","
		if i == len(keep)-1 {
			sep = ""
		}
		fmt.Fprintf(&b, "  { callee := %s, inAuthRequestBranch := %v, errReturned := %v, guard := %s }%s\n", leanStr(c.callee), c.inAuthRequest, c.errReturned, leanStr(c.guard), sep)
	}
	b.WriteString("]\n")
	g.facts["createTokenResponseCalls"] = len(keep)
	return b.String()
}

// The Provider router's refresh handler (RefreshTokenExchange, hand-modelled in Model/Flow.lean): what it hands to
// CreateTokenResponse as the CURRENT refresh token - "presented" (the refresh_token field of the parsed request), "empty"
// (the literal ""), or "other".
func refreshHandlerFacts(g *genCtx) string {
	kind := "other"
	fd := g.findFunc("pkg/op/token_refresh.go", "RefreshTokenExchange")
	if fd == nil {
		g.unsup["refreshHandlerCurrent"] = append(g.unsup["refreshHandlerCurrent"], "function not found: pkg/op/token_refresh.go RefreshTokenExchange")
		return "\ndef refreshHandlerCurrent : String := UNSUPPORTED_function_not_found\n"
	}
	parsed := ""
	ast.Inspect(fd.Body, func(n ast.Node) bool {
		switch x := n.(type) {
		case *ast.AssignStmt:
			if len(x.Rhs) == 1 && len(x.Lhs) >= 1 {
				if c, ok := x.Rhs[0].(*ast.CallExpr); ok && calleeName(c) == "ParseRefreshTokenRequest" {
					parsed = exprString(x.Lhs[0])
				}
			}
		case *ast.CallExpr:
			if calleeName(x) == "CreateTokenResponse" && len(x.Args) == 7 {
				switch a := x.Args[6].(type) {
				case *ast.SelectorExpr:
					if a.Sel.Name == "RefreshToken" && parsed != "" && exprString(a.X) == parsed {
						kind = "presented"
					}
				case *ast.BasicLit:
					if a.Value == `""` {
						kind = "empty"
					}
				}
			}
		}
		return true
	})
	g.facts["refreshHandlerCurrent"] = kind
	return "\n/-- what `RefreshTokenExchange` (Provider router) hands to CreateTokenResponse as the current refresh token -/\ndef refreshHandlerCurrent : String := " + leanStr(kind) + "\n"
}
