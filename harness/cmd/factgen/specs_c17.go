package main

func init() {
	// (round 4, seeded C17-N) the CONSTRUCTION of the cookie handler: NewCookieHandler, its functional options and the securecookie.New
	// call site. `securecookie.New` is the hand-written `Hand.securecookieNew` (holds exactly the byte strings it is handed); whatever
	// the library does to the keys before that call (a helper applied to them) is part of the regenerated definition or UNSUPPORTED.
	copt := func(name, param string) FuncSpec {
		f := FuncSpec{File: "pkg/http/cookie.go", Name: name, Lean: name, Closures: true, OptionClosures: true, PlainUpdate: true,
			Ret: RetVal, RetType: "CookieHandlerOpt", Mutators: []string{"c.securecookie.MaxAge"}, NestedUpdate: true}
		if param != "" {
			f.Params = []string{param}
		}
		return f
	}
	extraGroups = append(extraGroups, Group{
		Out:     "RPCookieNew.lean",
		Imports: []string{"OidcModel.Model.RP", "OidcModel.GoX"},
		Opens:   []string{"Go", "Hand", "Const"},
		Funcs: []FuncSpec{
			copt("WithUnsecure", ""),
			copt("WithSameSite", "(sameSite : Int)"),
			copt("WithMaxAge", "(maxAge : Int)"),
			copt("WithDomain", "(domain : String)"),
			copt("WithPath", "(path : String)"),
			{File: "pkg/http/cookie.go", Name: "NewCookieHandler", Lean: "NewCookieHandler", PlainUpdate: true, Closures: true,
				LoopStyle: "state", OutCallState: true, LocalOut: map[string]OutParam{"opt": {0, true}}, Imperative: true,
				StructLits: map[string]StructLit{"CookieHandler{}": {Lean: "CookieHandler", Keep: []string{"securecookie", "secureOnly", "sameSite", "maxAge", "domain", "path"}}},
				Params:     []string{"(hashKey encryptKey : CookieKey)", "(opts : List CookieHandlerOpt)"},
				Ret:        RetVal, RetType: "CookieHandler",
				Rename: map[string]string{"opt()": "opt", "securecookie.New()": "Hand.securecookieNew", "http.SameSiteLaxMode": "Http.SameSiteLaxMode"}},
		},
	})
	// (round 5, seeded C17-P) what the two handlers READ of a constructed relying party: the getters of *relyingParty over the Go
	// layout of Model/RPConstruct.lean (the layout the regenerated constructors of Generated/RPConstruct.lean fill in). Together
	// with GenC01.NewRelyingPartyOIDC / NewRelyingPartyOAuth / the rp.Option functions (imported, not regenerated twice)
	// Proofs/C17Construct.lean proves: a relying party built with WithPKCE answers IsPKCE() = true, whatever the discovery document.
	rpGetter := func(name, ret string) FuncSpec {
		return FuncSpec{File: "pkg/client/rp/relying_party.go", Name: "relyingParty." + name, Lean: name,
			Params: []string{"(rp : RPCRelyingParty)"}, Ret: RetVal, RetType: ret}
	}
	extraGroups = append(extraGroups, Group{
		Out:     "RPGetters.lean",
		NS:      "GenC17",
		Imports: []string{"OidcModel.Model.RPConstruct"},
		Opens:   []string{"Go", "Hand", "Const"},
		Funcs: []FuncSpec{
			rpGetter("IsPKCE", "Bool"),
			rpGetter("CookieHandler", "(Option Nat)"),
			rpGetter("OAuthConfig", "RPCOAuthConfig"),
			rpGetter("Signer", "(Option Nat)"),
			rpGetter("Issuer", "String"),
		},
	})
	extraGroups = append(extraGroups, []Group{
		{Out: "RPTables.lean", Imports: []string{"OidcModel.Model.OP"}, Opens: []string{"Const"}, Extra: rpHandlerTables},
		{
			// C17: the RP's login / callback handlers and the cookie helper they rest on. `w` (http.ResponseWriter and
			// the outside world) is threaded as an effect log (Model/RP.lean `World`).
			Out:     "RPHandlers.lean",
			Imports: []string{"OidcModel.Model.RP", "OidcModel.Generated.RPTables"},
			Opens:   []string{"Go", "Hand", "Const"},
			Funcs: []FuncSpec{
				{File: "pkg/http/cookie.go", Name: "CookieHandler.CheckCookie", Lean: "CheckCookie",
					Params: []string{"(c : CookieHandler)", "(r : HttpReq)", "(name : String)"}, Ret: RetValErr, RetType: "String"},
				{File: "pkg/http/cookie.go", Name: "CookieHandler.CheckQueryCookie", Lean: "CheckQueryCookie",
					Params: []string{"(c : CookieHandler)", "(r : HttpReq)", "(name : String)"}, Ret: RetValErr, RetType: "String",
					Rename: map[string]string{"c.CheckCookie()": "CheckCookie now c"}},
				{File: "pkg/http/cookie.go", Name: "CookieHandler.SetCookie", Lean: "SetCookie", Writer: "w",
					Params: []string{"(c : CookieHandler)", "(w : World)", "(name value : String)"}, Ret: RetErr},
				{File: "pkg/http/cookie.go", Name: "CookieHandler.DeleteCookie", Lean: "DeleteCookie", Writer: "w",
					Params: []string{"(c : CookieHandler)", "(w : World)", "(name : String)"}, Ret: RetVoid, RetType: "World"},
				{File: "pkg/client/rp/relying_party.go", Name: "trySetStateCookie", Lean: "trySetStateCookie", Writer: "w",
					Params: []string{"(w : World)", "(state : String)", "(rp : RP)"}, Ret: RetErr,
					Rename: map[string]string{"rp.CookieHandler().SetCookie()": "SetCookie now (Go.getOpt (rp).CookieHandler)"}},
				{File: "pkg/client/rp/relying_party.go", Name: "tryReadStateCookie", Lean: "tryReadStateCookie", Writer: "w",
					Params: []string{"(w : World)", "(r : HttpReq)", "(rp : RP)"}, Ret: RetValErr, RetType: "String",
					Rename: map[string]string{"rp.CookieHandler().CheckQueryCookie()": "CheckQueryCookie now (Go.getOpt (rp).CookieHandler)",
						"rp.CookieHandler().DeleteCookie()": "DeleteCookie now (Go.getOpt (rp).CookieHandler)"}},
				{File: "pkg/client/rp/relying_party.go", Name: "GenerateAndStoreCodeChallenge", Lean: "GenerateAndStoreCodeChallenge", Writer: "w",
					Params: []string{"(rnd : String)", "(w : World)", "(rp : RP)"}, Ret: RetValErr, RetType: "String",
					Rename: map[string]string{"rp.CookieHandler().SetCookie()": "SetCookie now (Go.getOpt (rp).CookieHandler)",
						"uuid.New()": "rnd", "base64.RawURLEncoding.EncodeToString()": "Hand.rawURLEncode"}},
				{File: "pkg/client/rp/relying_party.go", Name: "AuthURLHandler", Lean: "AuthURLHandler", Writer: "w",
					Params: []string{"(stateFn : String)", "(rnd : String)", "(rp : RP)", "(urlParam : List UrlOpt)", "(w : World)", "(r : HttpReq)"},
					Ret:    RetHandler, RetType: "World", AliasByFact: true,
					Rename: map[string]string{"stateFn()": "stateFn", "GenerateAndStoreCodeChallenge()": "GenerateAndStoreCodeChallenge now rnd",
						"AuthURL()": "Hand.AuthURL now"}},
				{File: "pkg/client/rp/relying_party.go", Name: "CodeExchangeHandler", Lean: "CodeExchangeHandler", Writer: "w",
					Params: []string{"(rp : RP)", "(urlParam : List UrlOpt)", "(w : World)", "(r : HttpReq)"},
					Ret:    RetHandler, RetType: "World", AliasByFact: true,
					Effectful: []string{"CodeExchange"},
					Rename: map[string]string{"rp.CookieHandler().CheckCookie()": "CheckCookie now (Go.getOpt (rp).CookieHandler)",
						"rp.CookieHandler().DeleteCookie()": "DeleteCookie now (Go.getOpt (rp).CookieHandler)",
						"rp.ErrorHandler()()":               "Hand.errorHandler rp", "callback()": "Hand.appCallback",
						"client.SignedJWTProfileAssertion()": "Hand.SignedJWTProfileAssertion now",
						"CodeExchange()":                     "Hand.CodeExchange now w"}},
			},
		},
	}...)
}
