package main

// C12, second group: the JSON wrapper methods of the claims / response types (pkg/oidc/token.go, userinfo.go, introspection.go,
// token_request.go) and the Time conversions of pkg/oidc/types.go.  Own file + own namespace (GenCodecW): the group reads
// GenCodec.mergeAndMarshalClaims / unmarshalJSONMulti (Generated/Codec.lean) as callees.  Model types: Model/CodecWrap.lean.

type c12Wrapper struct {
	file, typ, recv, alias string
}

var c12Wrappers = []c12Wrapper{
	{"pkg/oidc/token.go", "AccessTokenClaims", "a", "atcAlias"},
	{"pkg/oidc/token.go", "IDTokenClaims", "i", "itcAlias"},
	{"pkg/oidc/token.go", "ActorClaims", "c", "acAlias"},
	{"pkg/oidc/token.go", "JWTProfileAssertionClaims", "j", "jpaAlias"},
	{"pkg/oidc/token.go", "LogoutTokenClaims", "i", "ltcAlias"},
	{"pkg/oidc/userinfo.go", "UserInfo", "u", "uiAlias"},
}

func init() {
	const po = "(o : Oracles)"
	var funcs []FuncSpec
	for _, w := range c12Wrappers {
		funcs = append(funcs,
			FuncSpec{File: w.file, Name: w.typ + ".MarshalJSON", Lean: w.typ + "MarshalJSON",
				Params: []string{po, "(" + w.recv + " : Cdw.ClaimsVal)"}, Ret: RetValErr, RetType: "(List Obj)",
				Rename: map[string]string{"mergeAndMarshalClaims()": "Cdw.mmc (GenCodec.mergeAndMarshalClaims now o)", "*" + w.alias + "()": "Cdw.ClaimsVal.alias", "nil": "([] : Obj)"}},
			FuncSpec{File: w.file, Name: w.typ + ".UnmarshalJSON", Lean: w.typ + "UnmarshalJSON",
				Params: []string{po, "(" + w.recv + " : Cdw.ClaimsVal)", "(data : String)"}, Ret: RetErr,
				Rename: map[string]string{"unmarshalJSONMulti()": "Cdw.multi2 (GenCodec.unmarshalJSONMulti now o)", "*" + w.alias + "()": "Cdw.aliasDst",
					w.recv + ".Claims": "(Cdw.claimsDst " + w.recv + ")"}})
	}
	funcs = append(funcs,
		// the receiver's Username is filled from PreferredUsername when (only when) it is empty, then the usual merge
		FuncSpec{File: "pkg/oidc/introspection.go", Name: "IntrospectionResponse.MarshalJSON", Lean: "IntrospectionResponseMarshalJSON",
			Params: []string{po, "(i : Cdw.IntroVal)"}, Ret: RetValErr, RetType: "(List Obj)", RecvOut: "i", RecvOutType: "Cdw.IntroVal",
			Rename: map[string]string{"mergeAndMarshalClaims()": "Cdw.mmc (GenCodec.mergeAndMarshalClaims now o)", "*introspectionResponseAlias()": "Cdw.introAlias o"}},
		FuncSpec{File: "pkg/oidc/introspection.go", Name: "IntrospectionResponse.UnmarshalJSON", Lean: "IntrospectionResponseUnmarshalJSON",
			Params: []string{po, "(i : Cdw.IntroVal)", "(data : String)"}, Ret: RetErr,
			Rename: map[string]string{"unmarshalJSONMulti()": "Cdw.multi2 (GenCodec.unmarshalJSONMulti now o)", "*introspectionResponseAlias()": "Cdw.aliasDst",
				"i.Claims": "(Cdw.claimsDst i)"}},
		// JWTTokenRequest merges through its unexported map and leaves the merged members in it
		FuncSpec{File: "pkg/oidc/token_request.go", Name: "JWTTokenRequest.MarshalJSON", Lean: "JWTTokenRequestMarshalJSON",
			Params: []string{po, "(j : Cdw.JwtReq)"}, Ret: RetValErr, RetType: "Obj", RecvOut: "j", RecvOutType: "Cdw.JwtReq", PtrSynonyms: true, MapCap: true,
			FieldRename: map[string]string{"private": "priv"}, LocalOut: map[string]OutParam{"json.Unmarshal": {1, true}},
			Rename: map[string]string{"json.Marshal()": "Cdw.jsonMarshal o", "json.Unmarshal()": "Cdw.jsonUnmarshal o"}},
		FuncSpec{File: "pkg/oidc/token_request.go", Name: "JWTTokenRequest.UnmarshalJSON", Lean: "JWTTokenRequestUnmarshalJSON",
			Params: []string{po, "(j : Cdw.JwtReq)", "(data : String)"}, Ret: RetErr, RetParam: "j", RetType: "Cdw.JwtReq", PtrSynonyms: true,
			FieldRename: map[string]string{"private": "priv"}, LocalOut: map[string]OutParam{"json.Unmarshal": {1, true}},
			Rename: map[string]string{"json.Unmarshal()": "Cdw.jsonUnmarshal o"}},
		// pkg/oidc/types.go: the conversions between oidc.Time and time.Time (hand-written twins Go.asTime / Go.fromTime are used by every slice)
		FuncSpec{File: "pkg/oidc/types.go", Name: "Time.AsTime", Lean: "TimeAsTime", Params: []string{"(ts : Int)"}, Ret: RetVal, RetType: "Int",
			Rename: map[string]string{"time.Time{}": "Go.zeroTime", "time.Unix()": "Cdw.timeUnix"}},
		FuncSpec{File: "pkg/oidc/types.go", Name: "FromTime", Lean: "FromTime", Params: []string{"(tt : Int)"}, Ret: RetVal, RetType: "Int",
			Rename: map[string]string{"tt.IsZero()": "(Go.tIsZero tt)", "tt.Unix()": "(Go.tToUnix tt)"}},
	)
	for i := range funcs {
		funcs[i] = c12Spec(funcs[i])
	}
	extraGroups = append(extraGroups, Group{
		Out:     "CodecWrap.lean",
		NS:      "GenCodecW",
		Imports: []string{"OidcModel.Model.CodecWrap", "OidcModel.Generated.Codec"},
		Opens:   []string{"Go", "Cdc"},
		Funcs:   funcs,
		Extra:   c12RegFields,
	})
}
