package main

// C09, kind W (fifth part): pointer parameters (and receivers) that a function tests for nil before it first selects
// through them: `func F(p *T, …) { if p == nil { return … } … p.X … }`.  Lean pins the audited set from BELOW: every
// guard of the audited tree must still be there (a rewrite that loses one - seeded C09-E - stops `nil_guards_kept`
// from checking); new guards do not disturb anything.

import (
	"go/ast"
	"go/token"
	"sort"
)

func c09NilGuards(g *genCtx) [][2]string {
	var out [][2]string
	for _, dir := range c09Dirs {
		for _, rel := range c09GoFiles(dir) {
			f := g.file(rel)
			if f == nil || c09IsGenerated(f) {
				continue
			}
			for _, d := range f.Decls {
				fd, ok := d.(*ast.FuncDecl)
				if !ok || fd.Body == nil {
					continue
				}
				var ptrs []string
				for _, fl := range []*ast.FieldList{fd.Recv, fd.Type.Params} {
					if fl == nil {
						continue
					}
					for _, fld := range fl.List {
						if _, ok := fld.Type.(*ast.StarExpr); ok {
							for _, n := range fld.Names {
								if n.Name != "_" {
									ptrs = append(ptrs, n.Name)
								}
							}
						}
					}
				}
				for _, p := range ptrs {
					guard := token.NoPos
					for _, st := range fd.Body.List {
						ifs, ok := st.(*ast.IfStmt)
						if !ok || ifs.Init != nil || !terminates(ifs.Body) {
							continue
						}
						// `p == nil` alone or as a disjunct: the body is entered whenever p is nil
						if c09NilDisjunct(ifs.Cond, p) {
							guard = ifs.Pos()
							break
						}
					}
					if guard == token.NoPos {
						continue
					}
					first := token.NoPos
					ast.Inspect(fd.Body, func(n ast.Node) bool {
						var x ast.Expr
						switch v := n.(type) {
						case *ast.SelectorExpr:
							x = v.X
						case *ast.StarExpr:
							x = v.X
						default:
							return true
						}
						if id, ok := x.(*ast.Ident); ok && id.Name == p && (first == token.NoPos || n.Pos() < first) {
							first = n.Pos()
						}
						return true
					})
					if first == token.NoPos || guard < first {
						out = append(out, [2]string{shortPkg(rel) + "." + declName(fd), p})
					}
				}
			}
		}
	}
	sort.Slice(out, func(i, j int) bool { return out[i][0]+"/"+out[i][1] < out[j][0]+"/"+out[j][1] })
	return out
}

func c09NilDisjunct(e ast.Expr, name string) bool {
	switch v := e.(type) {
	case *ast.ParenExpr:
		return c09NilDisjunct(v.X, name)
	case *ast.BinaryExpr:
		if v.Op == token.LOR {
			return c09NilDisjunct(v.X, name) || c09NilDisjunct(v.Y, name)
		}
		if v.Op == token.EQL {
			x, ok1 := v.X.(*ast.Ident)
			y, ok2 := v.Y.(*ast.Ident)
			return ok1 && ok2 && x.Name == name && y.Name == "nil"
		}
	}
	return false
}
