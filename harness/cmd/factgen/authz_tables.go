package main

// C03 facts that are tables rather than functions:
//   * which oidc.Err* constructors exist, their OAuth error code, and which of them disable redirects
//   * the statement skeletons of the two handlers that are modelled by hand (op.Authorize with its closure,
//     webServer.authorizeHandler with its generic decoder): the hand model in Model/AuthzFlow.lean was written
//     for exactly these statement sequences; Proofs/C03.lean pins them.

import (
	"bytes"
	"go/ast"
	"go/printer"
	"go/token"
	"strconv"
	"strings"
)

func authzTables(g *genCtx) string {
	var b strings.Builder
	b.WriteString(oidcErrorTables(g))
	b.WriteString(skeletonDef(g, "pkg/op/auth_request.go", "Authorize", "Authorize_skeleton"))
	b.WriteString(skeletonDef(g, "pkg/op/server_http.go", "webServer.authorizeHandler", "authorizeHandler_skeleton"))
	b.WriteString(skeletonDef(g, "pkg/op/server.go", "Redirect.writeOut", "redirectWriteOut_skeleton"))
	b.WriteString(skeletonDef(g, "pkg/op/error.go", "WriteError", "WriteError_skeleton"))
	b.WriteString(skeletonDef(g, "pkg/op/error.go", "writeError", "writeError_skeleton"))
	return b.String()
}

func oidcErrorTables(g *genCtx) string {
	f := g.file("pkg/oidc/error.go")
	if f == nil {
		g.unsup["oidcErrorCtors"] = []string{"pkg/oidc/error.go not parsed"}
		return "def oidcErrorCtors : List String := UNSUPPORTED_not_found\n"
	}
	codes := map[string]string{} // constant name -> OAuth error code
	var ctors, disabled []string
	var pairs []string
	bad := ""
	for _, d := range f.Decls {
		gd, ok := d.(*ast.GenDecl)
		if !ok {
			continue
		}
		for _, sp := range gd.Specs {
			vs, ok := sp.(*ast.ValueSpec)
			if !ok {
				continue
			}
			for i, n := range vs.Names {
				if i >= len(vs.Values) {
					continue
				}
				if gd.Tok == token.CONST {
					if lit, ok := vs.Values[i].(*ast.BasicLit); ok && lit.Kind == token.STRING {
						s, _ := strconv.Unquote(lit.Value)
						codes[n.Name] = s
					}
					continue
				}
				fl, ok := vs.Values[i].(*ast.FuncLit)
				if !ok || !isErrCtor(n.Name) {
					continue
				}
				// func() *Error { return &Error{ ErrorType: X, redirectDisabled: true, ... } }
				if len(fl.Body.List) != 1 {
					bad = n.Name + ": body is not a single return"
					continue
				}
				ret, ok := fl.Body.List[0].(*ast.ReturnStmt)
				if !ok || len(ret.Results) != 1 {
					bad = n.Name + ": body is not a single return"
					continue
				}
				e := ret.Results[0]
				if u, ok := e.(*ast.UnaryExpr); ok {
					e = u.X
				}
				cl, ok := e.(*ast.CompositeLit)
				if !ok || exprString(cl.Type) != "Error" {
					bad = n.Name + ": does not return &Error{...}"
					continue
				}
				ctors = append(ctors, n.Name)
				for _, el := range cl.Elts {
					kv, ok := el.(*ast.KeyValueExpr)
					if !ok {
						bad = n.Name + ": positional field"
						continue
					}
					switch exprString(kv.Key) {
					case "ErrorType":
						pairs = append(pairs, "("+leanStr(n.Name)+", "+leanStr(codes[exprString(kv.Value)])+")")
					case "redirectDisabled":
						switch exprString(kv.Value) {
						case "true":
							disabled = append(disabled, n.Name)
						case "false":
						default:
							bad = n.Name + ": redirectDisabled is not a literal"
						}
					}
				}
			}
		}
	}
	// IsRedirectDisabled must be the plain getter of that field
	if fd := g.findFunc("pkg/oidc/error.go", "Error.IsRedirectDisabled"); fd == nil || len(fd.Body.List) != 1 {
		bad = "IsRedirectDisabled left the recognised shape"
	} else if r, ok := fd.Body.List[0].(*ast.ReturnStmt); !ok || len(r.Results) != 1 || exprString(r.Results[0]) != "e.redirectDisabled" {
		bad = "IsRedirectDisabled left the recognised shape"
	}
	if bad != "" || len(ctors) == 0 {
		g.unsup["oidcErrorCtors"] = []string{"pkg/oidc/error.go: " + bad}
		return "def oidcErrorCtors : List String := UNSUPPORTED_error_constructors\n"
	}
	g.facts["oidcErrorCtors"] = ctors
	g.facts["redirectDisabledErrors"] = disabled
	return "/-- the `oidc.Err*` constructors of pkg/oidc/error.go -/\ndef oidcErrorCtors : List String := " + leanStrList(ctors) + "\n" +
		"/-- constructors whose error carries `redirectDisabled: true` (never sent to the redirect_uri) -/\ndef redirectDisabledErrors : List String := " + leanStrList(disabled) + "\n" +
		"/-- constructor ↦ OAuth `error` code -/\ndef oidcErrorCodes : List (String × String) := [" + strings.Join(pairs, ", ") + "]\n"
}

func render(fset *token.FileSet, n ast.Node) string {
	var buf bytes.Buffer
	printer.Fprint(&buf, fset, n)
	return strings.Join(strings.Fields(buf.String()), " ")
}

func skeletonStmts(fset *token.FileSet, stmts []ast.Stmt, out *[]string) {
	for _, s := range stmts {
		switch x := s.(type) {
		case *ast.IfStmt:
			hd := "if "
			if x.Init != nil {
				hd += render(fset, x.Init) + "; "
			}
			*out = append(*out, hd+render(fset, x.Cond)+" {")
			skeletonStmts(fset, x.Body.List, out)
			switch e := x.Else.(type) {
			case *ast.BlockStmt:
				*out = append(*out, "} else {")
				skeletonStmts(fset, e.List, out)
			case *ast.IfStmt:
				*out = append(*out, "} else")
				skeletonStmts(fset, []ast.Stmt{e}, out)
				continue
			}
			*out = append(*out, "}")
		case *ast.DeferStmt:
			if ignorableCall(x.Call) {
				continue
			}
			*out = append(*out, render(fset, x))
		case *ast.ExprStmt:
			if c, ok := x.X.(*ast.CallExpr); ok && ignorableCall(c) {
				continue
			}
			*out = append(*out, render(fset, x))
		case *ast.AssignStmt:
			if len(x.Rhs) == 1 {
				if c, ok := x.Rhs[0].(*ast.CallExpr); ok && ignorableCall(c) {
					continue
				}
			}
			*out = append(*out, render(fset, x))
		default:
			*out = append(*out, render(fset, s))
		}
	}
}

func skeletonDef(g *genCtx, file, fn, lean string) string {
	fd := g.findFunc(file, fn)
	if fd == nil {
		g.unsup[lean] = []string{"function not found: " + file + " " + fn}
		return "def " + lean + " : List String := UNSUPPORTED_function_not_found\n"
	}
	var out []string
	skeletonStmts(g.fset, fd.Body.List, &out)
	g.facts[lean] = out
	var b strings.Builder
	b.WriteString("/-- statement skeleton of `" + fn + "` (" + file + "), tracing and logging removed -/\ndef " + lean + " : List String := [\n")
	for i, s := range out {
		b.WriteString("  " + leanStr(s))
		if i < len(out)-1 {
			b.WriteString(",")
		}
		b.WriteString("\n")
	}
	b.WriteString("]\n")
	return b.String()
}
