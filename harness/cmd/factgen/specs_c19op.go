package main

// C19, third layer (Generated/ProviderC19.lean, namespace GenOp): the CONSTRUCTION path of a provider.
//
//   NewProvider (literal with the package defaults, the option loop, issuer(o.insecure), CreateRouter(o, o.interceptors...), decoder /
//   encoder / crypto), NewOpenIDProvider / NewDynamicOpenIDProvider / NewForwardedOpenIDProvider, every op.Option (closures over the
//   *Provider they are handed), Endpoint.Validate, IssuerFromHost / IssuerFromForwardedOrHost / WithIssuerFromCustomHeaders (the option
//   loop over *issuerConfig), NewLegacyServer + its two getters.
//
// What `CreateRouter` mounts where, the package default `DefaultEndpoints` and the Server router's constructor are facts emitted by
// `c19opExtra` (specs_c19op_router.go).  Proofs/C19Construct.lean proves, by induction over the option list, that for EVERY list of options
// in EVERY order the endpoint a handler is mounted at, the endpoint discovery advertises and the configured one coincide, that the
// defaults are the package defaults, and that every getter returns the configured object.

func c19opGroup() Group {
	const (
		opgo  = "pkg/op/op.go"
		cfggo = "pkg/op/config.go"
		epgo  = "pkg/op/endpoint.go"
		leggo = "pkg/op/server_legacy.go"
	)
	valRen := map[string]string{"endpoint.Validate()": "Endpoint_Validate now endpoint", "e.Validate()": "Endpoint_Validate now e"}
	popt := func(name string, params ...string) FuncSpec {
		return FuncSpec{File: opgo, Name: name, Lean: name, Closures: true, OptionClosures: true, NestedUpdate: true, SpreadAppend: true,
			Params: params, Ret: RetVal, RetType: "C19Option", Rename: valRen}
	}
	pEp := "(endpoint : Endpoint)"
	ctorRen := map[string]string{
		"*DefaultEndpoints":    "DefaultEndpoints",
		"&endpoints":           "endpoints",
		"defaultCORSOptions":   "C19Cors.default",
		"slog.Default()":       "C19Logger.default",
		"schema.NewDecoder()":  "(C19Decoder.schema false)",
		"oidc.NewEncoder()":    "Hand.c19NewEncoder",
		"NewAESCrypto()":       "Hand.c19NewAESCrypto",
		"make()":               "Hand.c19MakeTimer",
		"CreateRouter()":       "CreateRouter now",
		"optFunc()":            "optFunc",
		"issuer()":             "issuer",
		"StaticIssuer()":       "GenServe.StaticIssuer now urlParse",
		"IssuerFromHost()":     "IssuerFromHost now urlParse parseFwd",
		"NewProvider()":        "NewProvider now",
		"IssuerFromForwardedOrHost()": "IssuerFromForwardedOrHost now urlParse parseFwd canonicalKey",
	}
	pCfg, pSt := "(config : OpConfig)", "(storage : OpStorage)"
	pOpts := "(opOpts : List C19Option)"
	funcs := []FuncSpec{
		{File: epgo, Name: "Endpoint.Validate", Lean: "Endpoint_Validate", Params: []string{"(e : Endpoint)"}, Ret: RetErr},
		// ---- every op.Option
		popt("WithAllowInsecure"),
		popt("WithCustomAuthEndpoint", pEp),
		popt("WithCustomTokenEndpoint", pEp),
		popt("WithCustomIntrospectionEndpoint", pEp),
		popt("WithCustomUserinfoEndpoint", pEp),
		popt("WithCustomRevocationEndpoint", pEp),
		popt("WithCustomEndSessionEndpoint", pEp),
		popt("WithCustomKeysEndpoint", pEp),
		popt("WithCustomDeviceAuthorizationEndpoint", pEp),
		popt("WithCustomEndpoints", "(auth token userInfo revocation endSession keys : Endpoint)"),
		popt("WithHttpInterceptors", "(interceptors : List Nat)"),
		popt("WithAccessTokenKeySet", "(keySet : C19KeySet)"),
		popt("WithAccessTokenVerifierOpts", "(opts : List Nat)"),
		popt("WithIDTokenHintKeySet", "(keySet : C19KeySet)"),
		popt("WithIDTokenHintVerifierOpts", "(opts : List Nat)"),
		popt("WithCORSOptions", "(opts : C19Cors)"),
		popt("WithLogger", "(logger : C19Logger)"),
		// ---- the issuer strategies' constructors (the strategies themselves: Generated/DiscoveryServe.lean)
		{File: cfggo, Name: "WithIssuerFromCustomHeaders", Lean: "WithIssuerFromCustomHeaders", Closures: true, OptionClosures: true, Imperative: true,
			Params: []string{"(canonicalKey : String → String)", "(headers : List String)"}, Ret: RetVal, RetType: "C19IssuerOption",
			Rename: map[string]string{"http.CanonicalHeaderKey()": "canonicalKey"}},
		{File: cfggo, Name: "IssuerFromHost", Lean: "IssuerFromHost", Params: []string{pURLParse, pParseFwd, "(path : String)"}, Ret: RetVal, RetType: "C19IssuerFn",
			Rename: map[string]string{"issuerFromForwardedOrHost()": "GenServe.issuerFromForwardedOrHost now urlParse parseFwd", "new(issuerConfig)": "(default : DiscIssuerConfig)"}},
		{File: cfggo, Name: "IssuerFromForwardedOrHost", Lean: "IssuerFromForwardedOrHost", PlainUpdate: true,
			LoopStyle: "state", OutCallState: true, LocalOut: map[string]OutParam{"opt": {0, true}},
			StructLits: map[string]StructLit{"issuerConfig{}": {Lean: "DiscIssuerConfig", Keep: []string{"headers"}}},
			Params:     []string{pURLParse, pParseFwd, "(canonicalKey : String → String)", "(path : String)", "(opts : List C19IssuerOption := [])"}, Ret: RetVal, RetType: "C19IssuerFn",
			Rename: map[string]string{"issuerFromForwardedOrHost()": "GenServe.issuerFromForwardedOrHost now urlParse parseFwd", "http.CanonicalHeaderKey()": "canonicalKey", "opt()": "opt"}},
		// ---- the constructors
		{File: opgo, Name: "NewProvider", Lean: "NewProvider", PlainUpdate: true, LoopStyle: "ctl", OutCallAny: true, LocalOut: map[string]OutParam{"optFunc": {0, true}},
			Mutators: []string{"o.decoder.IgnoreUnknownKeys"}, DropArgs: []string{"config.CryptoKey"},
			StructLits: map[string]StructLit{"Provider{}": {Lean: "C19Provider", Keep: []string{"config", "storage", "accessTokenKeySet", "idTokenHinKeySet", "endpoints", "corsOpts", "logger"}},
				"OpenIDKeySet{}": {Lean: "C19KeySet", Ctor: "C19KeySet.openID"}},
			Params:      []string{pCfg, pSt, "(issuer : C19IssuerFn)", pOpts}, Ret: RetValErr, RetType: "C19Provider", NilValue: []string{"nil"}, Rename: ctorRen},
		{File: opgo, Name: "NewOpenIDProvider", Lean: "NewOpenIDProvider",
			Params: []string{pURLParse, "(issuer : String)", pCfg, pSt, pOpts}, Ret: RetValErr, RetType: "C19Provider", TailCalls: []string{"NewProvider"}, Rename: ctorRen},
		{File: opgo, Name: "NewDynamicOpenIDProvider", Lean: "NewDynamicOpenIDProvider",
			Params: []string{pURLParse, pParseFwd, "(path : String)", pCfg, pSt, pOpts}, Ret: RetValErr, RetType: "C19Provider", TailCalls: []string{"NewProvider"}, Rename: ctorRen},
		{File: opgo, Name: "NewForwardedOpenIDProvider", Lean: "NewForwardedOpenIDProvider",
			Params: []string{pURLParse, pParseFwd, "(canonicalKey : String → String)", "(path : String)", pCfg, pSt, pOpts}, Ret: RetValErr, RetType: "C19Provider", TailCalls: []string{"NewProvider"}, Rename: ctorRen},
		// ---- the per-request verifier getters: WHICH key set and option list they hand to the verifier constructors
		{File: opgo, Name: "Provider.AccessTokenVerifier", Lean: "Provider_AccessTokenVerifier", KeepCtx: true,
			Params: []string{"(o : C19Provider)", "(ctx : DiscCtx)"}, Ret: RetVal, RetType: "C19VerifierArgs",
			Rename: map[string]string{"IssuerFromContext()": "GenServe.IssuerFromContext now", "NewAccessTokenVerifier()": "C19VerifierArgs.mk"}},
		{File: opgo, Name: "Provider.IDTokenHintVerifier", Lean: "Provider_IDTokenHintVerifier", KeepCtx: true,
			Params: []string{"(o : C19Provider)", "(ctx : DiscCtx)"}, Ret: RetVal, RetType: "C19VerifierArgs",
			Rename: map[string]string{"IssuerFromContext()": "GenServe.IssuerFromContext now", "NewIDTokenHintVerifier()": "C19VerifierArgs.mk"}},
		{File: opgo, Name: "Provider.IssuerFromRequest", Lean: "Provider_IssuerFromRequest",
			Params: []string{"(o : C19Provider)", "(r : DiscReq)"}, Ret: RetVal, RetType: "String", Rename: map[string]string{"o.issuer()": "Hand.c19CallIssuer (o).issuer"}},
		// ---- the second router's server object
		{File: leggo, Name: "NewLegacyServer", Lean: "NewLegacyServer", Params: []string{"(provider : C19Provider)", "(endpoints : Endpoints)"}, Ret: RetVal, RetType: "C19LegacyServer",
			StructLits: map[string]StructLit{"LegacyServer{}": {Lean: "C19LegacyServer", Keep: []string{"provider", "endpoints"}}}},
		{File: leggo, Name: "LegacyServer.Provider", Lean: "LegacyServer_Provider", Params: []string{"(s : C19LegacyServer)"}, Ret: RetVal, RetType: "C19Provider"},
		{File: leggo, Name: "LegacyServer.Endpoints", Lean: "LegacyServer_Endpoints", Params: []string{"(s : C19LegacyServer)"}, Ret: RetVal, RetType: "Endpoints"},
	}
	return Group{Out: "ProviderC19.lean", NS: "GenOp",
		Imports: []string{"OidcModel.Model.ProviderC19", "OidcModel.Generated.DiscoveryServe", "OidcModel.Generated.ProviderC19Router"},
		Opens:   []string{"Go", "Hand", "Const", "Gen"},
		Funcs:   funcs}
}

func init() { extraGroups = append(extraGroups, c19opRouterGroup(), c19opGroup()) }
