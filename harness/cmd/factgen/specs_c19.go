package main

// C19, second layer (Generated/DiscoveryServe.lean, namespace GenServe): the path a discovery REQUEST takes and the issuer
// strategies, as functions of the request.
//
//   IssuerInterceptor.Handler -> setIssuerCtx (ContextWithIssuer / IssuerFromContext)
//     Provider router: discoveryHandler -> Discover -> CreateDiscoveryConfig(ctx, ..)
//     Server router:   simpleHandler -> LegacyServer.Discovery -> createDiscoveryConfigV2(ctx, ..) -> Response.writeOut
//   StaticIssuer, issuerFromForwardedOrHost, hostFromForwarded (-> dynamicIssuer of Generated/Discovery.lean)
//
// Contexts are kept (KeepCtx): the issuer travels in `r.Context()`. Handler closures become Lean lambdas (Closures); a closure that
// keeps state between requests (captured variable written, sync.Once, mutex) has no translation and comes out as UNSUPPORTED_….
// `CreateDiscoveryConfig` / `createDiscoveryConfigV2` are translated a second time here WITH their context parameter (the first
// translation, Generated/Discovery.lean, takes the issuer as a parameter); Proofs/C19 shows the two agree.

import (
	"fmt"
	"go/ast"
	"strings"
)

const (
	tHandlerFn = "DiscW → DiscReq → DiscW"
	tIssuerFn  = "Bool → Go.R (DiscReq → String)"
	pParseFwd  = "(parseFwd : String → List String → Go.R (List String))"
	pURLParse  = "(urlParse : String → Go.R DiscURL)"
)

func c19ServeGroup() Group {
	disco := map[string]StructLit{"oidc.DiscoveryConfiguration{}": {Lean: "DiscoveryConfiguration", Keep: discoveryKeep}}
	ctxRename := map[string]string{"issuerKey": "DiscCtx.issuerKey", "context.WithValue()": "DiscCtx.WithValue"}
	funcs := []FuncSpec{
		// ---- the issuer in the request context
		{File: "pkg/op/context.go", Name: "IssuerFromContext", Lean: "IssuerFromContext", Params: []string{"(ctx : DiscCtx)"}, Ret: RetVal, RetType: "String",
			KeepCtx: true, Imperative: true, TypeAsserts: map[string]string{"string": "DiscCtxVal.asString"}, Rename: ctxRename},
		{File: "pkg/op/context.go", Name: "ContextWithIssuer", Lean: "ContextWithIssuer", Params: []string{"(ctx : DiscCtx)", "(issuer : String)"}, Ret: RetVal, RetType: "DiscCtx",
			KeepCtx: true, Rename: ctxRename},
		{File: "pkg/op/context.go", Name: "IssuerInterceptor.setIssuerCtx", Lean: "setIssuerCtx", Writer: "w",
			Params: []string{"(i : DiscInterceptor)", "(w : DiscW)", "(r : DiscReq)", "(next : DiscHandler)"}, Ret: RetVoid, RetType: "DiscW", KeepCtx: true},
		{File: "pkg/op/context.go", Name: "IssuerInterceptor.Handler", Lean: "IssuerInterceptor_Handler",
			Params: []string{"(i : DiscInterceptor)", "(next : DiscHandler)"}, Ret: RetVal, RetType: tHandlerFn, KeepCtx: true, Closures: true,
			Rename: map[string]string{"i.setIssuerCtx()": "setIssuerCtx now i"}},
		// ---- the document, with its context parameter
		{File: "pkg/op/discovery.go", Name: "CreateDiscoveryConfig", Lean: "CreateDiscoveryConfig",
			Params: []string{"(ctx : DiscCtx)", "(config : Configuration)", "(storage : OpStorage)"}, Ret: RetVal, RetType: "DiscoveryConfiguration",
			KeepCtx: true, StructLits: disco},
		{File: "pkg/op/discovery.go", Name: "createDiscoveryConfigV2", Lean: "createDiscoveryConfigV2",
			Params: []string{"(ctx : DiscCtx)", "(config : Configuration)", "(storage : OpStorage)", "(endpoints : Endpoints)"}, Ret: RetVal, RetType: "DiscoveryConfiguration",
			KeepCtx: true, StructLits: disco},
		// ---- Provider router
		{File: "pkg/op/discovery.go", Name: "Discover", Lean: "opDiscover", Writer: "w",
			Params: []string{"(w : DiscW)", "(config : DiscoveryConfiguration)"}, Ret: RetVoid, RetType: "DiscW",
			Rename: map[string]string{"httphelper.MarshalJSON()": "Hand.discMarshalJSON"}},
		{File: "pkg/op/discovery.go", Name: "discoveryHandler", Lean: "discoveryHandler",
			Params: []string{"(c : Configuration)", "(s : OpStorage)"}, Ret: RetVal, RetType: tHandlerFn, KeepCtx: true, Closures: true,
			Rename: map[string]string{"Discover()": "opDiscover now"}},
		// ---- Server router
		{File: "pkg/op/server_legacy.go", Name: "LegacyServer.Discovery", Lean: "LegacyServer_Discovery",
			Params: []string{"(s : DiscLegacyServer)", "(ctx : DiscCtx)", "(r : DiscRequest)"}, Ret: RetValErr, RetType: "DiscResponse", KeepCtx: true,
			Rename: map[string]string{"NewResponse()": "Hand.discNewResponse"}},
		{File: "pkg/op/server.go", Name: "Response.writeOut", Lean: "Response_writeOut", Writer: "w",
			Params: []string{"(resp : DiscResponse)", "(w : DiscW)"}, Ret: RetVoid, RetType: "DiscW", Ignore: []string{"gu.MapMerge"},
			Rename: map[string]string{"httphelper.MarshalJSON()": "Hand.discMarshalJSON"}},
		{File: "pkg/op/server_http.go", Name: "simpleHandler", Lean: "simpleHandler",
			Params: []string{"(s : Unit)", "(method : DiscCtx → DiscRequest → Go.R DiscResponse)"}, Ret: RetVal, RetType: tHandlerFn, KeepCtx: true, Closures: true,
			DropArgs: []string{"s.getLogger()", "&<*ast.CompositeLit>"},
			Rename: map[string]string{"method()": "method", "newRequest()": "Hand.discNewRequest", "WriteError()": "Hand.discWriteError",
				"resp.writeOut()": "Response_writeOut now resp"}},
		// ---- issuer strategies
		{File: "pkg/op/config.go", Name: "hostFromForwarded", Lean: "hostFromForwarded",
			Params: []string{pParseFwd, "(r : DiscReq)", "(headers : List String)"}, Ret: RetVal, RetType: "(String × Bool)",
			Closures: true, Ignore: []string{"log.Printf"},
			Rename: map[string]string{"httpforwarded.ParseParameter()": "parseFwd", "r.Header[]": "(r).HeaderValues"}},
		{File: "pkg/op/config.go", Name: "issuerFromForwardedOrHost", Lean: "issuerFromForwardedOrHost",
			Params: []string{pURLParse, pParseFwd, "(path : String)", "(c : DiscIssuerConfig)"}, Ret: RetVal, RetType: tIssuerFn, Closures: true,
			Rename: map[string]string{"url.Parse()": "urlParse", "hostFromForwarded()": "hostFromForwarded now parseFwd"}},
		{File: "pkg/op/config.go", Name: "StaticIssuer", Lean: "StaticIssuer",
			Params: []string{pURLParse, "(issuer : String)"}, Ret: RetVal, RetType: tIssuerFn, Closures: true,
			Rename: map[string]string{"ValidateIssuer()": "ValidateIssuer now urlParse"}},
	}
	return Group{Out: "DiscoveryServe.lean", NS: "GenServe",
		Imports: []string{"OidcModel.Model.DiscoveryServe", "OidcModel.Generated.Discovery"}, Opens: []string{"Go", "Hand", "Const", "Gen"},
		Funcs: funcs, Extra: c19ServeWiring}
}

// c19ServeWiring: how the translated pieces are plugged together, as facts read from the source. The expressions are kept as
// (whitespace-normalised) source text and pinned by `C19.serve_wiring_pinned`: a change in who serves the discovery route, which
// middleware establishes the issuer, or in `intercept` / `NewIssuerInterceptor` themselves breaks that theorem and asks for a review
// of the hand-written composition `Disco.serve`.
func c19ServeWiring(g *genCtx) string {
	var b strings.Builder
	// the handler expression registered for oidc.DiscoveryEndpoint, and the arguments of every `Use(..)` / WithHTTPMiddleware(..)
	routeOf := func(rel, fn string) (handler string, middleware []string) {
		fd := g.findFunc(rel, fn)
		if fd == nil {
			g.unsup["serveWiring."+fn] = []string{"function not found"}
			return "UNSUPPORTED", nil
		}
		n := 0
		ast.Inspect(fd.Body, func(nd ast.Node) bool {
			c, ok := nd.(*ast.CallExpr)
			if !ok {
				return true
			}
			sel, isSel := c.Fun.(*ast.SelectorExpr)
			name := exprString(c.Fun)
			switch {
			case isSel && (sel.Sel.Name == "HandleFunc" || sel.Sel.Name == "Handle") && len(c.Args) == 2 && goSrc(g.fset, c.Args[0]) == "oidc.DiscoveryEndpoint":
				handler = goSrc(g.fset, c.Args[1])
				n++
			case isSel && sel.Sel.Name == "Use", name == "WithHTTPMiddleware":
				for _, a := range c.Args {
					middleware = append(middleware, goSrc(g.fset, a))
				}
			}
			return true
		})
		if n > 1 {
			handler = "UNSUPPORTED_discovery_route_registered_more_than_once"
			g.unsup["serveWiring."+fn] = []string{"discovery route registered more than once"}
		}
		return
	}
	row := func(name, rel, fn string) {
		h, mw := routeOf(rel, fn)
		fmt.Fprintf(&b, "/-- %s `%s`: the handler registered for oidc.DiscoveryEndpoint and the middleware installed -/\n", rel, fn)
		fmt.Fprintf(&b, "def %s : String × List String := (%s, %s)\n\n", name, leanStr(h), leanStrList(mw))
	}
	row("wiring_CreateRouter", "pkg/op/op.go", "CreateRouter")
	row("wiring_webServer_createRouter", "pkg/op/server_http.go", "webServer.createRouter")
	row("wiring_RegisterLegacyServer", "pkg/op/server_legacy.go", "RegisterLegacyServer")
	src := func(name, rel, fn string) {
		fd := g.findFunc(rel, fn)
		s := "UNSUPPORTED_function_not_found"
		if fd != nil {
			s = goSrc(g.fset, fd.Body)
		} else {
			g.unsup["serveWiring."+fn] = []string{"function not found"}
		}
		fmt.Fprintf(&b, "/-- source text of %s `%s` (hand-modelled in Disco.serve; pinned) -/\n", rel, fn)
		fmt.Fprintf(&b, "def %s : String := %s\n\n", name, leanStr(s))
	}
	src("src_intercept", "pkg/op/op.go", "intercept")
	src("src_NewIssuerInterceptor", "pkg/op/context.go", "NewIssuerInterceptor")
	src("src_IssuerFromHost", "pkg/op/config.go", "IssuerFromHost")
	src("src_IssuerFromForwardedOrHost", "pkg/op/config.go", "IssuerFromForwardedOrHost")
	src("src_Provider_IssuerFromRequest", "pkg/op/op.go", "Provider.IssuerFromRequest")
	return b.String()
}

func init() { extraGroups = append(extraGroups, c19ServeGroup()) }
