package main

// alias_c07.go (C07, deep5): what the provider does with the slices it gets from the request getters.
//
// The result of RefreshTokenRequest.GetAudience() / GetScopes() / GetAMR() (and of the same getters of every other token request)
// may be the storage's OWN slice: its grant record, with spare capacity. The flow model's values are immutable, so a function
// that writes into such a slice (slices.Insert / Delete / Sort / Reverse / Compact / Replace, sort.*, an index assignment, copy,
// clear, an append to a re-slice) damages the record invisibly to the model. This extractor regenerates, from the CURRENT
// source of pkg/op and pkg/oidc (go/ast only, flow-insensitive, by name):
//   - fns:           the functions (index = id used below)
//   - roots:         the refresh handlers of both routers
//   - calls:         name-based call graph (a method call reaches every method of that name in the two packages)
//   - getterSites:   every slice operation applied, inside a function, to a value that comes from a getter call
//   - getterPasses:  every hand-over of such a value to a parameter of a function of the two packages
//   - paramSites / paramPasses: the same for (aliases of) a function's own slice parameters
// Aliases followed: assignment, re-slicing, conversion, parenthesis, the result of append / slices.* on the value.
// Proofs/C07Alias.lean: no function reachable from the refresh handlers applies an in-place operation to a getter value,
// directly or through the parameters it is handed on to; hence (heap model of Model/C07Alias.lean) the storage's view of its
// record is the same after any run of those operations.  NOT followed: a getter value stored in a struct field and written
// through the field later; function values; packages other than op and oidc (the standard library is taken to read its arguments,
// except the mutators named above).

import (
	"fmt"
	"go/ast"
	"go/parser"
	"go/token"
	"os"
	"path/filepath"
	"sort"
	"strings"
)

func init() {
	extraGroups = append(extraGroups, Group{
		Out: "C07Alias.lean", Imports: []string{"OidcModel.Model.C07Alias"}, NS: "GenC07A", Extra: c07AliasFacts,
	})
}

var c07aGetters = map[string]bool{"GetAudience": true, "GetScopes": true, "GetAMR": true}

var c07aRoots = []string{"op.RefreshTokenExchange", "op.LegacyServer.RefreshToken", "op.webServer.refreshTokenHandler"}

var c07aMutators = map[string]string{ // package.function -> SliceOp (first argument is the slice)
	"slices.Insert": ".insert", "slices.Delete": ".delete", "slices.DeleteFunc": ".delete", "slices.Replace": ".replace",
	"slices.Sort": ".sort", "slices.SortFunc": ".sort", "slices.SortStableFunc": ".sort", "slices.Reverse": ".reverse",
	"slices.Compact": ".compact", "slices.CompactFunc": ".compact",
	"sort.Strings": ".sort", "sort.Slice": ".sort", "sort.SliceStable": ".sort", "sort.Sort": ".sort", "sort.Stable": ".sort",
}

type c07aFn struct {
	key    string
	pkg    string
	decl   *ast.FuncDecl
	params []string // names in order; variadic last
	slice  []bool   // parameter is of a slice type
	file   string
}

type c07aOrigin struct {
	getter bool
	src    string // getter call, or parameter name
	pidx   int
	sub    bool // a re-slice of the value
}

type c07aGen struct {
	fset       *token.FileSet
	fns        []*c07aFn
	byKey      map[string]int
	byMethod   map[string][]int // method name -> fn ids
	sliceTypes map[string]bool
	lines      struct{ gs, gp, ps, pp []string }
	calls      [][]int
}

func c07aRecv(fd *ast.FuncDecl) string {
	if fd.Recv == nil || len(fd.Recv.List) != 1 {
		return ""
	}
	t := fd.Recv.List[0].Type
	for {
		switch x := t.(type) {
		case *ast.StarExpr:
			t = x.X
			continue
		case *ast.IndexExpr:
			t = x.X
			continue
		case *ast.IndexListExpr:
			t = x.X
			continue
		case *ast.Ident:
			return x.Name
		}
		return exprString(t)
	}
}

func (g *c07aGen) isSliceType(t ast.Expr) bool {
	switch x := t.(type) {
	case *ast.ArrayType:
		return x.Len == nil
	case *ast.Ellipsis:
		return true
	case *ast.Ident:
		return g.sliceTypes[x.Name]
	case *ast.SelectorExpr:
		return g.sliceTypes[x.Sel.Name]
	}
	return false
}

func (g *c07aGen) load(pkg, dir string) {
	ents, err := os.ReadDir(filepath.Join(repoRoot, dir))
	if err != nil {
		return
	}
	var files []*ast.File
	var names []string
	for _, e := range ents {
		n := e.Name()
		if e.IsDir() || !strings.HasSuffix(n, ".go") || strings.HasSuffix(n, "_test.go") {
			continue
		}
		f, err := parser.ParseFile(g.fset, filepath.Join(repoRoot, dir, n), nil, 0)
		if err != nil {
			continue
		}
		files = append(files, f)
		names = append(names, filepath.Join(dir, n))
	}
	for _, f := range files {
		for _, d := range f.Decls {
			gd, ok := d.(*ast.GenDecl)
			if !ok || gd.Tok != token.TYPE {
				continue
			}
			for _, sp := range gd.Specs {
				ts := sp.(*ast.TypeSpec)
				if at, ok := ts.Type.(*ast.ArrayType); ok && at.Len == nil {
					g.sliceTypes[ts.Name.Name] = true
				}
			}
		}
	}
	for i, f := range files {
		for _, d := range f.Decls {
			fd, ok := d.(*ast.FuncDecl)
			if !ok || fd.Body == nil {
				continue
			}
			key := pkg + "." + fd.Name.Name
			if r := c07aRecv(fd); r != "" {
				key = pkg + "." + r + "." + fd.Name.Name
			}
			fn := &c07aFn{key: key, pkg: pkg, decl: fd, file: names[i]}
			g.fns = append(g.fns, fn)
		}
	}
}

func (g *c07aGen) index() {
	sort.SliceStable(g.fns, func(i, j int) bool { return g.fns[i].key < g.fns[j].key })
	for i, fn := range g.fns {
		if _, dup := g.byKey[fn.key]; !dup {
			g.byKey[fn.key] = i
		}
		if fn.decl.Recv != nil {
			g.byMethod[fn.decl.Name.Name] = append(g.byMethod[fn.decl.Name.Name], i)
		}
		for _, f := range fn.decl.Type.Params.List {
			sl := g.isSliceType(f.Type)
			if len(f.Names) == 0 {
				fn.params, fn.slice = append(fn.params, "_"), append(fn.slice, sl)
			}
			for _, n := range f.Names {
				fn.params, fn.slice = append(fn.params, n.Name), append(fn.slice, sl)
			}
		}
	}
}

// callees of a call expression: ids of the functions it may enter
func (g *c07aGen) callees(fn *c07aFn, c *ast.CallExpr, locals map[string]bool) []int {
	fun := ast.Unparen(c.Fun)
	switch x := fun.(type) {
	case *ast.IndexExpr:
		fun = x.X
	case *ast.IndexListExpr:
		fun = x.X
	}
	switch x := fun.(type) {
	case *ast.Ident:
		if locals[x.Name] {
			return nil
		}
		if id, ok := g.byKey[fn.pkg+"."+x.Name]; ok {
			return []int{id}
		}
	case *ast.SelectorExpr:
		if p, ok := x.X.(*ast.Ident); ok && !locals[p.Name] && (p.Name == "op" || p.Name == "oidc") {
			if id, ok := g.byKey[p.Name+"."+x.Sel.Name]; ok {
				return []int{id}
			}
		}
		return g.byMethod[x.Sel.Name]
	}
	return nil
}

func c07aQual(c *ast.CallExpr) string {
	if s, ok := ast.Unparen(c.Fun).(*ast.SelectorExpr); ok {
		if p, ok := s.X.(*ast.Ident); ok {
			return p.Name + "." + s.Sel.Name
		}
	}
	if ix, ok := ast.Unparen(c.Fun).(*ast.IndexExpr); ok {
		if s, ok := ix.X.(*ast.SelectorExpr); ok {
			if p, ok := s.X.(*ast.Ident); ok {
				return p.Name + "." + s.Sel.Name
			}
		}
	}
	return ""
}

func (g *c07aGen) originOf(e ast.Expr, taint map[string]c07aOrigin) (c07aOrigin, bool) {
	switch x := e.(type) {
	case *ast.ParenExpr:
		return g.originOf(x.X, taint)
	case *ast.Ident:
		o, ok := taint[x.Name]
		return o, ok
	case *ast.SliceExpr:
		o, ok := g.originOf(x.X, taint)
		o.sub = true
		return o, ok
	case *ast.CallExpr:
		if s, ok := ast.Unparen(x.Fun).(*ast.SelectorExpr); ok && c07aGetters[s.Sel.Name] && len(x.Args) == 0 {
			return c07aOrigin{getter: true, src: exprString(x)}, true
		}
		if id, ok := x.Fun.(*ast.Ident); ok && id.Name == "append" && len(x.Args) > 0 {
			return g.originOf(x.Args[0], taint)
		}
		if _, ok := c07aMutators[c07aQual(x)]; ok && len(x.Args) > 0 {
			return g.originOf(x.Args[0], taint)
		}
		if len(x.Args) == 1 && g.isSliceType(ast.Unparen(x.Fun)) { // conversion
			return g.originOf(x.Args[0], taint)
		}
	}
	return c07aOrigin{}, false
}

func (g *c07aGen) analyse(id int) {
	fn := g.fns[id]
	taint := map[string]c07aOrigin{}
	locals := map[string]bool{}
	for i, p := range fn.params {
		locals[p] = true
		if fn.slice[i] && p != "_" {
			taint[p] = c07aOrigin{src: p, pidx: i}
		}
	}
	// pass 1: aliases, to a fixpoint (flow-insensitive)
	for round := 0; round < 6; round++ {
		changed := false
		set := func(name string, rhs ast.Expr) {
			if name == "_" {
				return
			}
			locals[name] = true
			if o, ok := g.originOf(rhs, taint); ok {
				if old, had := taint[name]; !had || (o.sub && !old.sub) {
					taint[name] = o
					changed = true
				}
			}
		}
		ast.Inspect(fn.decl.Body, func(n ast.Node) bool {
			switch x := n.(type) {
			case *ast.AssignStmt:
				if len(x.Lhs) == len(x.Rhs) {
					for i := range x.Lhs {
						if l, ok := x.Lhs[i].(*ast.Ident); ok {
							set(l.Name, x.Rhs[i])
						}
					}
				} else {
					for _, l := range x.Lhs {
						if id, ok := l.(*ast.Ident); ok {
							locals[id.Name] = true
						}
					}
				}
			case *ast.ValueSpec:
				for i, nme := range x.Names {
					locals[nme.Name] = true
					if i < len(x.Values) {
						set(nme.Name, x.Values[i])
					}
				}
			case *ast.RangeStmt:
				for _, e := range []ast.Expr{x.Key, x.Value} {
					if id, ok := e.(*ast.Ident); ok {
						locals[id.Name] = true
					}
				}
			}
			return true
		})
		if !changed {
			break
		}
	}
	// pass 2: operations and hand-overs
	calleeSet := map[int]bool{}
	site := func(pos token.Pos, o c07aOrigin, op string) {
		line := g.fset.Position(pos).Line
		if o.getter {
			g.lines.gs = append(g.lines.gs, fmt.Sprintf("{ fid := %d, fn := %q, line := %d, src := %q, op := %s }", id, fn.key, line, o.src, op))
		} else {
			g.lines.ps = append(g.lines.ps, fmt.Sprintf("{ fid := %d, fn := %q, pidx := %d, param := %q, line := %d, op := %s }", id, fn.key, o.pidx, o.src, line, op))
		}
	}
	indexWrite := func(lhs ast.Expr) {
		if ix, ok := ast.Unparen(lhs).(*ast.IndexExpr); ok {
			if o, ok := g.originOf(ix.X, taint); ok {
				site(lhs.Pos(), o, ".index")
			}
		}
	}
	ast.Inspect(fn.decl.Body, func(n ast.Node) bool {
		switch x := n.(type) {
		case *ast.AssignStmt:
			for _, l := range x.Lhs {
				indexWrite(l)
			}
		case *ast.IncDecStmt:
			indexWrite(x.X)
		case *ast.CallExpr:
			if idn, ok := x.Fun.(*ast.Ident); ok && !locals[idn.Name] && len(x.Args) > 0 {
				switch idn.Name {
				case "append":
					if o, ok := g.originOf(x.Args[0], taint); ok {
						if o.sub {
							site(x.Pos(), o, ".appendSub")
						} else {
							site(x.Pos(), o, ".append")
						}
					}
				case "copy":
					if o, ok := g.originOf(x.Args[0], taint); ok {
						site(x.Pos(), o, ".copyInto")
					}
				case "clear":
					if o, ok := g.originOf(x.Args[0], taint); ok {
						site(x.Pos(), o, ".clear")
					}
				}
			}
			if op, ok := c07aMutators[c07aQual(x)]; ok && len(x.Args) > 0 {
				if p, ok := ast.Unparen(x.Fun).(*ast.SelectorExpr); ok {
					if pk, ok := p.X.(*ast.Ident); ok && !locals[pk.Name] {
						if o, ok := g.originOf(x.Args[0], taint); ok {
							site(x.Pos(), o, op)
						}
					}
				}
			}
			cs := g.callees(fn, x, locals)
			for _, c := range cs {
				calleeSet[c] = true
			}
			for ai, a := range x.Args {
				o, ok := g.originOf(a, taint)
				if !ok {
					continue
				}
				for _, c := range cs {
					cf := g.fns[c]
					pi := ai
					if pi >= len(cf.params) {
						pi = len(cf.params) - 1
					}
					if pi < 0 {
						continue
					}
					line := g.fset.Position(a.Pos()).Line
					if o.getter {
						g.lines.gp = append(g.lines.gp, fmt.Sprintf("{ fid := %d, fn := %q, line := %d, src := %q, callee := %d, calleeName := %q, pidx := %d }", id, fn.key, line, o.src, c, cf.key, pi))
					} else {
						g.lines.pp = append(g.lines.pp, fmt.Sprintf("{ fid := %d, fn := %q, pidx := %d, param := %q, line := %d, callee := %d, calleeName := %q, cpidx := %d }", id, fn.key, o.pidx, o.src, line, c, cf.key, pi))
					}
				}
			}
		}
		return true
	})
	var cs []int
	for c := range calleeSet {
		cs = append(cs, c)
	}
	sort.Ints(cs)
	g.calls[id] = cs
}

func c07AliasFacts(gc *genCtx) string {
	g := &c07aGen{fset: token.NewFileSet(), byKey: map[string]int{}, byMethod: map[string][]int{}, sliceTypes: map[string]bool{}}
	g.load("oidc", "pkg/oidc")
	g.load("op", "pkg/op")
	g.index()
	g.calls = make([][]int, len(g.fns))
	for i := range g.fns {
		g.analyse(i)
	}
	var b strings.Builder
	var roots []string
	for _, r := range c07aRoots {
		if id, ok := g.byKey[r]; ok {
			roots = append(roots, fmt.Sprint(id))
		}
	}
	if len(roots) != len(c07aRoots) {
		gc.unsup["C07Alias_roots"] = []string{"a refresh handler was not found: " + strings.Join(c07aRoots, ", ")}
		b.WriteString("def facts : C07Alias.Facts := UNSUPPORTED_refresh_handler_not_found\n")
		return b.String()
	}
	var names, calls []string
	for i, fn := range g.fns {
		names = append(names, fmt.Sprintf("%q", fn.key))
		var cs []string
		for _, c := range g.calls[i] {
			cs = append(cs, fmt.Sprint(c))
		}
		calls = append(calls, "["+strings.Join(cs, ", ")+"]")
	}
	list := func(name, ty string, xs []string) {
		fmt.Fprintf(&b, "def %s : List %s := [\n  %s]\n\n", name, ty, strings.Join(xs, ",\n  "))
	}
	b.WriteString("/-- functions of pkg/oidc and pkg/op (index = id) -/\n")
	list("fns", "String", names)
	fmt.Fprintf(&b, "/-- the refresh handlers: %s -/\ndef roots : List Nat := [%s]\n\n", strings.Join(c07aRoots, ", "), strings.Join(roots, ", "))
	b.WriteString("/-- name-based call graph: entry i = ids of the functions function i may enter -/\n")
	list("calls", "(List Nat)", calls)
	b.WriteString("/-- slice operations applied to a value obtained from GetAudience() / GetScopes() / GetAMR() -/\n")
	list("getterSites", "C07Alias.GetterSite", g.lines.gs)
	b.WriteString("/-- such a value handed to a parameter of a function of the two packages -/\n")
	list("getterPasses", "C07Alias.GetterPass", g.lines.gp)
	b.WriteString("/-- slice operations applied to (an alias of) a function's own slice parameter -/\n")
	list("paramSites", "C07Alias.ParamSite", g.lines.ps)
	b.WriteString("/-- (an alias of) a slice parameter handed on -/\n")
	list("paramPasses", "C07Alias.ParamPass", g.lines.pp)
	b.WriteString("def facts : C07Alias.Facts :=\n  { roots := roots, calls := calls, getterSites := getterSites, getterPasses := getterPasses, paramSites := paramSites, paramPasses := paramPasses }\n")
	return b.String()
}
