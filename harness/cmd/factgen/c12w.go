package main

import (
	"go/ast"
	"reflect"
	"sort"
	"strings"
)

// c12RegFields: the registered JSON members of the claims / response types, read from the struct declarations (json tags,
// embedded structs flattened with encoding/json's rule: the field at the shallowest depth wins, several at that depth cancel).
//   def regFields : String → List (String × Bool)     -- (json name, omitempty)
var c12RegTypes = []string{"AccessTokenClaims", "IDTokenClaims", "ActorClaims", "JWTProfileAssertionClaims", "LogoutTokenClaims", "UserInfo",
	"IntrospectionResponse", "JWTTokenRequest", "TokenExchangeResponse", "AccessTokenResponse"}

var c12RegFiles = []string{"pkg/oidc/token.go", "pkg/oidc/userinfo.go", "pkg/oidc/introspection.go", "pkg/oidc/token_request.go"}

type c12Field struct {
	name  string
	omit  bool
	depth int
}

func c12RegFields(g *genCtx) string {
	structs := map[string]*ast.StructType{}
	for _, rel := range c12RegFiles {
		f := g.file(rel)
		if f == nil {
			continue
		}
		for _, d := range f.Decls {
			gd, ok := d.(*ast.GenDecl)
			if !ok {
				continue
			}
			for _, sp := range gd.Specs {
				ts, ok := sp.(*ast.TypeSpec)
				if !ok {
					continue
				}
				if st, ok := ts.Type.(*ast.StructType); ok {
					structs[ts.Name.Name] = st
				}
			}
		}
	}
	var collect func(name string, depth int, seen map[string]bool) []c12Field
	collect = func(name string, depth int, seen map[string]bool) []c12Field {
		st := structs[name]
		if st == nil || seen[name] {
			return nil
		}
		seen[name] = true
		defer delete(seen, name)
		var out []c12Field
		for _, f := range st.Fields.List {
			tag := ""
			if f.Tag != nil {
				tag = reflect.StructTag(strings.Trim(f.Tag.Value, "`")).Get("json")
			}
			if len(f.Names) == 0 {
				// embedded struct (value or pointer) without a json name: its fields are promoted
				tn := strings.TrimPrefix(exprString(f.Type), "*")
				if tag == "" {
					out = append(out, collect(tn, depth+1, seen)...)
					continue
				}
				f = &ast.Field{Names: []*ast.Ident{ast.NewIdent(tn)}, Type: f.Type, Tag: f.Tag}
			}
			for _, n := range f.Names {
				if !ast.IsExported(n.Name) || tag == "-" {
					continue
				}
				parts := strings.Split(tag, ",")
				jn := parts[0]
				if jn == "" {
					jn = n.Name
				}
				omit := false
				for _, p := range parts[1:] {
					if p == "omitempty" {
						omit = true
					}
				}
				out = append(out, c12Field{jn, omit, depth})
			}
		}
		return out
	}
	var b strings.Builder
	b.WriteString("/-- registered JSON members of the claims / response types: (json name, omitempty); struct tags of pkg/oidc, embedded structs flattened -/\n")
	b.WriteString("def regFields : String → List (String × Bool)\n")
	facts := map[string][]string{}
	for _, tn := range c12RegTypes {
		fs := collect(tn, 0, map[string]bool{})
		best := map[string]int{}
		count := map[string]int{}
		for _, f := range fs {
			if d, ok := best[f.name]; !ok || f.depth < d {
				best[f.name], count[f.name] = f.depth, 1
			} else if f.depth == d {
				count[f.name]++
			}
		}
		var rows []string
		done := map[string]bool{}
		for _, f := range fs {
			if f.depth != best[f.name] || count[f.name] != 1 || done[f.name] {
				continue
			}
			done[f.name] = true
			rows = append(rows, "("+leanStr(f.name)+", "+map[bool]string{true: "true", false: "false"}[f.omit]+")")
			facts[tn] = append(facts[tn], f.name)
		}
		if structs[tn] == nil {
			b.WriteString("  | " + leanStr(tn) + " => UNSUPPORTED_struct_not_found\n")
			continue
		}
		b.WriteString("  | " + leanStr(tn) + " => [" + strings.Join(rows, ", ") + "]\n")
		sort.Strings(facts[tn])
	}
	b.WriteString("  | _ => []\n")
	b.WriteString("def regNames (t : String) : List String := (regFields t).map (·.1)\n")
	g.facts["c12RegFields"] = facts
	return b.String()
}
