package main

// C09, kind W (fourth part): the FIELD contract between functions that build a result struct and the functions that
// dereference one of its nil-able fields.
//
//   fieldReturns   – for every function whose results are (*T, error) with T a struct of the library that has nil-able
//                    fields (pointer / interface / func typed, of a type-parameter type, or an embedded pointer): every
//                    `return value, err`: which fields the value has set (`&T{A: …, B: …}`), or which call it is forwarded
//                    from (`return F(…)`, `v, err := F(…) … return v, nil`), whether the error is nil / not nil / the
//                    callee's, whether a NIL error is returned on a path where the callee's error was not nil
//                    (`if errors.Is(err, X) { return v, nil }`: the values of the callee's error returns become values
//                    of successful returns), and the conditions on the way
//   fieldConsumers – every selection through a nil-able field of such a value (`v.F.M()`, `v.F.G`, and `v.P` promoted
//                    through an embedded pointer) in a function or function literal, with where `v` comes from (a
//                    parameter - of a literal: of which named func type; a call) and whether `v.F` is nil-tested first
//   callThroughs   – calls of a func-typed parameter (`callback(w, r, tokens, …)`) or of a library function with an
//                    argument that comes straight from a producer call, and whether the producer's error was checked
//
// Lean (Model/C09Fields.lean) resolves the forwards and decides: every field a consumer dereferences unguarded is set
// by every return that can reach it with a nil error.

import (
	"go/ast"
	"go/token"
	"sort"
	"strings"
)

type c09Struct struct {
	Key      string
	Nilable  map[string]string
	Embedded []string
	Fields   map[string]bool
}

type c09FRet struct {
	Fn, ValueKind string
	Sets          []string
	Forward       string
	ErrKind       string
	Launders      bool
	Conds         []string
}

type c09FCons struct {
	Fn, Var, Origin   string
	ParamIndex        int
	FuncType, Callee  string
	ErrChecked        bool
	Type, Field, Expr string
	Guarded           bool
}

type c09FCall struct {
	Fn, FuncType, CalleeFn string
	ArgIndex               int
	Origin                 string
	ErrChecked             bool
}

type c09FieldScan struct {
	g         *genCtx
	structs   map[string]*c09Struct
	funcTypes map[string]bool   // named func types: "rp.CodeExchangeCallback"
	methods   map[string]bool   // "oidc.Tokens.M"
	producers map[string]string // function -> struct key of its first result (second result: error)
	rets      []c09FRet
	cons      []c09FCons
	calls     []c09FCall
}

func stripIndex(e ast.Expr) ast.Expr {
	switch v := e.(type) {
	case *ast.IndexExpr:
		return v.X
	case *ast.IndexListExpr:
		return v.X
	}
	return e
}

func importNames(f *ast.File) map[string]string {
	out := map[string]string{}
	for _, im := range f.Imports {
		p := strings.Trim(im.Path.Value, `"`)
		parts := strings.Split(p, "/")
		last := parts[len(parts)-1]
		// a version suffix is not the package name
		if len(parts) > 1 && len(last) > 1 && last[0] == 'v' && strings.Trim(last[1:], "0123456789") == "" {
			last = parts[len(parts)-2]
		}
		name := last
		if im.Name != nil {
			name = im.Name.Name
		}
		// library packages are keyed by their directory name (pkg/http is imported as httphelper)
		if strings.Contains(p, "zitadel/oidc") {
			out[name] = last
		} else {
			out[name] = name
		}
	}
	return out
}

// typeKey: the struct / func type a type expression names ("oidc.Tokens" for *oidc.Tokens[C]); ptr: it was a pointer
func typeKey(cur string, imports map[string]string, t ast.Expr) (key string, ptr bool) {
	for {
		switch v := t.(type) {
		case *ast.StarExpr:
			ptr = true
			t = v.X
			continue
		case *ast.ParenExpr:
			t = v.X
			continue
		case *ast.IndexExpr:
			t = v.X
			continue
		case *ast.IndexListExpr:
			t = v.X
			continue
		case *ast.Ident:
			return cur + "." + v.Name, ptr
		case *ast.SelectorExpr:
			if x, ok := v.X.(*ast.Ident); ok {
				if p, ok := imports[x.Name]; ok {
					return p + "." + v.Sel.Name, ptr
				}
				return x.Name + "." + v.Sel.Name, ptr
			}
		}
		return "", ptr
	}
}

func calleeKey(cur string, imports map[string]string, c *ast.CallExpr) string {
	k, _ := typeKey(cur, imports, c.Fun)
	return k
}

func (sc *c09FieldScan) collect() {
	for _, dir := range c09Dirs {
		for _, rel := range c09GoFiles(dir) {
			f := sc.g.file(rel)
			if f == nil {
				continue
			}
			cur := shortPkg(rel)
			imports := importNames(f)
			for _, d := range f.Decls {
				switch v := d.(type) {
				case *ast.GenDecl:
					for _, sp := range v.Specs {
						ts, ok := sp.(*ast.TypeSpec)
						if !ok {
							continue
						}
						key := cur + "." + ts.Name.Name
						tparams := map[string]bool{}
						if ts.TypeParams != nil {
							for _, fl := range ts.TypeParams.List {
								for _, n := range fl.Names {
									tparams[n.Name] = true
								}
							}
						}
						switch tt := ts.Type.(type) {
						case *ast.FuncType:
							sc.funcTypes[key] = true
						case *ast.StructType:
							st := &c09Struct{Key: key, Nilable: map[string]string{}, Fields: map[string]bool{}}
							for _, fld := range tt.Fields.List {
								kind := ""
								switch ft := fld.Type.(type) {
								case *ast.StarExpr:
									kind = "ptr"
								case *ast.InterfaceType:
									kind = "iface"
								case *ast.FuncType:
									kind = "func"
								case *ast.Ident:
									if tparams[ft.Name] {
										kind = "generic"
									} else if ft.Name == "any" || ft.Name == "error" {
										kind = "iface"
									}
								}
								if len(fld.Names) == 0 {
									// embedded: promoted selections go through it
									name := lastName(stripIndex(fld.Type))
									if se, ok := fld.Type.(*ast.StarExpr); ok {
										name = lastName(stripIndex(se.X))
										st.Embedded = append(st.Embedded, name)
										st.Nilable[name] = "ptr"
									}
									st.Fields[name] = true
									continue
								}
								for _, n := range fld.Names {
									st.Fields[n.Name] = true
									if kind != "" {
										st.Nilable[n.Name] = kind
									}
								}
							}
							if len(st.Nilable) > 0 {
								sc.structs[key] = st
							}
						}
					}
				case *ast.FuncDecl:
					if v.Recv != nil && len(v.Recv.List) == 1 {
						k, _ := typeKey(cur, imports, v.Recv.List[0].Type)
						sc.methods[k+"."+v.Name.Name] = true
					}
				}
			}
		}
	}
	// producers: func … (*T, error)
	for _, dir := range c09Dirs {
		for _, rel := range c09GoFiles(dir) {
			f := sc.g.file(rel)
			if f == nil {
				continue
			}
			cur := shortPkg(rel)
			imports := importNames(f)
			for _, d := range f.Decls {
				fd, ok := d.(*ast.FuncDecl)
				if !ok || fd.Body == nil || fd.Recv != nil || fd.Type.Results == nil {
					continue
				}
				var types []ast.Expr
				for _, r := range fd.Type.Results.List {
					k := len(r.Names)
					if k == 0 {
						k = 1
					}
					for i := 0; i < k; i++ {
						types = append(types, r.Type)
					}
				}
				if len(types) != 2 {
					continue
				}
				if id, ok := types[1].(*ast.Ident); !ok || id.Name != "error" {
					continue
				}
				key, ptr := typeKey(cur, imports, types[0])
				if ptr && sc.structs[key] != nil {
					sc.producers[cur+"."+fd.Name.Name] = key
				}
			}
		}
	}
}

// the statement lists of a function body, flattened with their parents (to find "the statement after")
func nextStmtIsErrReturn(body *ast.BlockStmt, as ast.Stmt, errVar string) bool {
	found := false
	ast.Inspect(body, func(n ast.Node) bool {
		var list []ast.Stmt
		switch v := n.(type) {
		case *ast.BlockStmt:
			list = v.List
		case *ast.CaseClause:
			list = v.Body
		case *ast.CommClause:
			list = v.Body
		default:
			return true
		}
		for i, st := range list {
			if st == as && i+1 < len(list) {
				if ifs, ok := list[i+1].(*ast.IfStmt); ok && ifs.Init == nil {
					if v, ok := c09ErrNotNil(ifs.Cond); ok && (v == errVar || errVar == "") && terminates(ifs.Body) {
						found = true
					}
				}
			}
		}
		return true
	})
	return found
}

type c09VarOrigin struct {
	callee     string
	errVar     string
	errChecked bool
	stmt       ast.Stmt
	pos        token.Pos
}

// originsOf: `v, err := F(…)` / `v, err = F(…)` with F a producer, per variable, in source order
func (sc *c09FieldScan) originsOf(cur string, imports map[string]string, body *ast.BlockStmt) map[string][]c09VarOrigin {
	out := map[string][]c09VarOrigin{}
	ast.Inspect(body, func(n ast.Node) bool {
		as, ok := n.(*ast.AssignStmt)
		if !ok || len(as.Lhs) != 2 || len(as.Rhs) != 1 {
			return true
		}
		call, ok := as.Rhs[0].(*ast.CallExpr)
		v, ok1 := as.Lhs[0].(*ast.Ident)
		e, ok2 := as.Lhs[1].(*ast.Ident)
		if !ok || !ok1 || !ok2 {
			return true
		}
		callee := calleeKey(cur, imports, call)
		if sc.producers[callee] == "" {
			return true
		}
		out[v.Name] = append(out[v.Name], c09VarOrigin{callee: callee, errVar: e.Name, errChecked: nextStmtIsErrReturn(body, as, e.Name), stmt: as, pos: as.Pos()})
		return true
	})
	return out
}

func otherAssignments(body *ast.BlockStmt, name string, skip map[ast.Stmt]bool) bool {
	other := false
	ast.Inspect(body, func(n ast.Node) bool {
		if as, ok := n.(*ast.AssignStmt); ok && !skip[as] {
			for _, l := range as.Lhs {
				if id, ok := l.(*ast.Ident); ok && id.Name == name {
					other = true
				}
			}
		}
		return true
	})
	return other
}

func litSets(cl *ast.CompositeLit) []string {
	var sets []string
	for _, el := range cl.Elts {
		if kv, ok := el.(*ast.KeyValueExpr); ok {
			if id, ok := kv.Key.(*ast.Ident); ok {
				if vid, ok := kv.Value.(*ast.Ident); ok && vid.Name == "nil" {
					continue
				}
				sets = append(sets, id.Name)
			}
		}
	}
	return sets
}

// literalVar: name is defined exactly once, as `name := &T{…}`, and neither reassigned nor are its fields assigned
func (sc *c09FieldScan) literalVar(cur string, imports map[string]string, body *ast.BlockStmt, name, key string) ([]string, bool) {
	var lit *ast.CompositeLit
	n := 0
	ast.Inspect(body, func(m ast.Node) bool {
		as, ok := m.(*ast.AssignStmt)
		if !ok {
			return true
		}
		for i, l := range as.Lhs {
			if rootIdent(l) != name {
				continue
			}
			n++
			if id, ok := l.(*ast.Ident); ok && id.Name == name && len(as.Lhs) == len(as.Rhs) {
				if u, ok := as.Rhs[i].(*ast.UnaryExpr); ok && u.Op == token.AND {
					if cl, ok := u.X.(*ast.CompositeLit); ok {
						if k, _ := typeKey(cur, imports, cl.Type); k == key {
							lit = cl
						}
					}
				}
			}
		}
		return true
	})
	if n != 1 || lit == nil {
		return nil, false
	}
	return litSets(lit), true
}

func (sc *c09FieldScan) producerReturns(rel string, fd *ast.FuncDecl) {
	cur := shortPkg(rel)
	f := sc.g.file(rel)
	imports := importNames(f)
	fn := cur + "." + fd.Name.Name
	key := sc.producers[fn]
	origins := sc.originsOf(cur, imports, fd.Body)
	var walk func(stmts []ast.Stmt, conds []string)
	walk = func(stmts []ast.Stmt, conds []string) {
		for _, st := range stmts {
			switch v := st.(type) {
			case *ast.ReturnStmt:
				r := c09FRet{Fn: fn, Conds: append([]string{}, conds...)}
				switch len(v.Results) {
				case 1:
					if call, ok := v.Results[0].(*ast.CallExpr); ok {
						if c := calleeKey(cur, imports, call); sc.producers[c] == key {
							r.ValueKind, r.Forward, r.ErrKind = "forward", c, "same"
							break
						}
					}
					r.ValueKind, r.ErrKind = "other", "nil"
				case 2:
					// the error
					switch e := v.Results[1].(type) {
					case *ast.Ident:
						if e.Name == "nil" {
							r.ErrKind = "nil"
						} else {
							r.ErrKind = "nonnil"
						}
					default:
						r.ErrKind = "nonnil"
					}
					// the value
					switch val := v.Results[0].(type) {
					case *ast.Ident:
						if val.Name == "nil" {
							r.ValueKind = "nil"
							break
						}
						os := origins[val.Name]
						skip := map[ast.Stmt]bool{}
						var last *c09VarOrigin
						for i := range os {
							skip[os[i].stmt] = true
							if os[i].pos < v.Pos() {
								last = &os[i]
							}
						}
						if last == nil || len(os) != 1 || otherAssignments(fd.Body, val.Name, skip) {
							r.ValueKind = "other"
							// `v := &T{…}` once, no field of v assigned afterwards: the literal's fields
							if sets, ok := sc.literalVar(cur, imports, fd.Body, val.Name, key); ok {
								r.ValueKind, r.Sets = "lit", sets
							}
							break
						}
						r.ValueKind, r.Forward = "forward", last.callee
						if e, ok := v.Results[1].(*ast.Ident); ok && e.Name == last.errVar {
							// `return v, err` with the callee's own error: the pair is the callee's - unless the path is one
							// on which the error is known not to be nil
							r.ErrKind = "same"
						}
						if r.ErrKind == "nil" && !last.errChecked {
							// a nil error is returned although the callee's error was not (or not always) ruled out before
							r.Launders = true
						}
					case *ast.UnaryExpr:
						if cl, ok := val.X.(*ast.CompositeLit); ok && val.Op == token.AND {
							if k, _ := typeKey(cur, imports, cl.Type); k == key {
								r.ValueKind, r.Sets = "lit", litSets(cl)
								break
							}
						}
						r.ValueKind = "other"
					default:
						r.ValueKind = "other"
					}
				default:
					r.ValueKind, r.ErrKind = "other", "nil"
				}
				sc.rets = append(sc.rets, r)
			case *ast.IfStmt:
				c := render(sc.g.fset, v.Cond)
				walk(v.Body.List, append(append([]string{}, conds...), c))
				switch e := v.Else.(type) {
				case *ast.BlockStmt:
					walk(e.List, append(append([]string{}, conds...), "!("+c+")"))
				case *ast.IfStmt:
					walk([]ast.Stmt{e}, append(append([]string{}, conds...), "!("+c+")"))
				}
			case *ast.BlockStmt:
				walk(v.List, conds)
			case *ast.ForStmt:
				walk(v.Body.List, conds)
			case *ast.RangeStmt:
				walk(v.Body.List, conds)
			case *ast.SwitchStmt:
				for _, c := range v.Body.List {
					if cc, ok := c.(*ast.CaseClause); ok {
						var cs []string
						for _, e := range cc.List {
							cs = append(cs, render(sc.g.fset, e))
						}
						walk(cc.Body, append(append([]string{}, conds...), "case "+strings.Join(cs, ", ")))
					}
				}
			case *ast.TypeSwitchStmt:
				for _, c := range v.Body.List {
					if cc, ok := c.(*ast.CaseClause); ok {
						walk(cc.Body, conds)
					}
				}
			case *ast.SelectStmt:
				for _, c := range v.Body.List {
					if cc, ok := c.(*ast.CommClause); ok {
						walk(cc.Body, conds)
					}
				}
			case *ast.LabeledStmt:
				walk([]ast.Stmt{v.Stmt}, conds)
			}
		}
	}
	walk(fd.Body.List, nil)
}

// one function or function literal as a unit of consumption
type c09Unit struct {
	fn       string
	ft       *ast.FuncType
	body     *ast.BlockStmt
	funcType string // a literal returned as a value of this named func type
	outer    []*ast.FuncType
}

func (sc *c09FieldScan) units(rel string, fd *ast.FuncDecl) []c09Unit {
	cur := shortPkg(rel)
	imports := importNames(sc.g.file(rel))
	fn := cur + "." + declName(fd)
	out := []c09Unit{{fn: fn, ft: fd.Type, body: fd.Body}}
	resultType := ""
	if fd.Type.Results != nil && len(fd.Type.Results.List) == 1 {
		if k, _ := typeKey(cur, imports, fd.Type.Results.List[0].Type); sc.funcTypes[k] {
			resultType = k
		}
	}
	returned := map[*ast.FuncLit]bool{}
	ast.Inspect(fd.Body, func(n ast.Node) bool {
		if rs, ok := n.(*ast.ReturnStmt); ok && len(rs.Results) == 1 {
			if fl, ok := rs.Results[0].(*ast.FuncLit); ok {
				returned[fl] = true
			}
		}
		return true
	})
	var stack []*ast.FuncType
	var visit func(n ast.Node) bool
	visit = func(n ast.Node) bool {
		if fl, ok := n.(*ast.FuncLit); ok {
			u := c09Unit{fn: fn, ft: fl.Type, body: fl.Body, outer: append(append([]*ast.FuncType{}, stack...), fd.Type)}
			if returned[fl] {
				u.funcType = resultType
			}
			out = append(out, u)
		}
		return true
	}
	ast.Inspect(fd.Body, visit)
	return out
}

func paramsOf(fts ...*ast.FuncType) (names []string, types []ast.Expr) {
	for _, ft := range fts {
		if ft == nil || ft.Params == nil {
			continue
		}
		for _, f := range ft.Params.List {
			if len(f.Names) == 0 {
				names = append(names, "_")
				types = append(types, f.Type)
			}
			for _, n := range f.Names {
				names = append(names, n.Name)
				types = append(types, f.Type)
			}
		}
	}
	return
}

// inspectOwn walks a body without entering nested function literals
func inspectOwn(body *ast.BlockStmt, f func(n ast.Node) bool) {
	ast.Inspect(body, func(n ast.Node) bool {
		if _, ok := n.(*ast.FuncLit); ok {
			return false
		}
		return f(n)
	})
}

func (sc *c09FieldScan) consume(rel string, u c09Unit) {
	cur := shortPkg(rel)
	imports := importNames(sc.g.file(rel))
	type vinfo struct {
		typ        string
		origin     string
		paramIndex int
		callee     string
		errChecked bool
	}
	vars := map[string]vinfo{}
	names, types := paramsOf(u.ft)
	for i, n := range names {
		if k, ptr := typeKey(cur, imports, types[i]); ptr && sc.structs[k] != nil {
			vars[n] = vinfo{typ: k, origin: "param", paramIndex: i}
		}
	}
	for name, os := range sc.originsOf(cur, imports, u.body) {
		if len(os) == 1 {
			if _, isParam := vars[name]; !isParam {
				vars[name] = vinfo{typ: sc.producers[os[0].callee], origin: "call", callee: os[0].callee, errChecked: os[0].errChecked}
			}
		}
	}
	// nil tests of v.F anywhere before a use
	guardPos := map[string]token.Pos{}
	inspectOwn(u.body, func(n ast.Node) bool {
		if ifs, ok := n.(*ast.IfStmt); ok {
			txt := render(sc.g.fset, ifs.Cond)
			for v, vi := range vars {
				for f := range sc.structs[vi.typ].Nilable {
					if c09NilTest(txt, v+"."+f) {
						if p, ok := guardPos[v+"."+f]; !ok || ifs.Pos() < p {
							guardPos[v+"."+f] = ifs.Pos()
						}
					}
				}
			}
		}
		return true
	})
	seen := map[string]bool{}
	emit := func(v string, vi vinfo, field string, e ast.Expr) {
		gp, ok := guardPos[v+"."+field]
		c := c09FCons{Fn: u.fn, Var: v, Origin: vi.origin, ParamIndex: vi.paramIndex, FuncType: u.funcType, Callee: vi.callee, ErrChecked: vi.errChecked,
			Type: vi.typ, Field: field, Expr: render(sc.g.fset, e), Guarded: ok && gp < e.Pos()}
		k := c.Fn + "|" + c.Var + "|" + c.Field + "|" + c.Expr
		if !seen[k] {
			seen[k] = true
			sc.cons = append(sc.cons, c)
		}
	}
	// `x := v.F` (x defined once): a selection through x is a selection through v.F
	aliases := map[string][2]string{}
	defs := map[string]int{}
	inspectOwn(u.body, func(n ast.Node) bool {
		if as, ok := n.(*ast.AssignStmt); ok {
			for _, l := range as.Lhs {
				if id, ok := l.(*ast.Ident); ok {
					defs[id.Name]++
				}
			}
		}
		return true
	})
	inspectOwn(u.body, func(n ast.Node) bool {
		as, ok := n.(*ast.AssignStmt)
		if !ok || len(as.Lhs) != 1 || len(as.Rhs) != 1 {
			return true
		}
		id, ok1 := as.Lhs[0].(*ast.Ident)
		sel, ok2 := as.Rhs[0].(*ast.SelectorExpr)
		if !ok1 || !ok2 || defs[id.Name] != 1 {
			return true
		}
		if v, ok := sel.X.(*ast.Ident); ok {
			if vi, ok := vars[v.Name]; ok {
				if kind := sc.structs[vi.typ].Nilable[sel.Sel.Name]; kind != "" && kind != "func" {
					aliases[id.Name] = [2]string{v.Name, sel.Sel.Name}
				}
			}
		}
		return true
	})
	inspectOwn(u.body, func(n ast.Node) bool {
		if ifs, ok := n.(*ast.IfStmt); ok {
			txt := render(sc.g.fset, ifs.Cond)
			for a, vf := range aliases {
				if c09NilTest(txt, a) {
					k := vf[0] + "." + vf[1]
					if p, ok := guardPos[k]; !ok || ifs.Pos() < p {
						guardPos[k] = ifs.Pos()
					}
				}
			}
		}
		return true
	})
	inspectOwn(u.body, func(n ast.Node) bool {
		sel, ok := n.(*ast.SelectorExpr)
		if !ok {
			return true
		}
		// x.sel with x := v.F
		if id, ok := sel.X.(*ast.Ident); ok {
			if vf, ok := aliases[id.Name]; ok {
				emit(vf[0], vars[vf[0]], vf[1], sel)
			}
		}
		// v.F.x
		if inner, ok := sel.X.(*ast.SelectorExpr); ok {
			if id, ok := inner.X.(*ast.Ident); ok {
				if vi, ok := vars[id.Name]; ok {
					if kind := sc.structs[vi.typ].Nilable[inner.Sel.Name]; kind != "" && kind != "func" {
						emit(id.Name, vi, inner.Sel.Name, sel)
					}
				}
			}
		}
		// v.P promoted through the embedded pointer
		if id, ok := sel.X.(*ast.Ident); ok {
			if vi, ok := vars[id.Name]; ok {
				st := sc.structs[vi.typ]
				if !st.Fields[sel.Sel.Name] && !sc.methods[vi.typ+"."+sel.Sel.Name] && len(st.Embedded) == 1 {
					emit(id.Name, vi, st.Embedded[0], sel)
				}
			}
		}
		return true
	})
	// calls of func-typed parameters / library functions with a producer's result as argument
	pnames, ptypes := paramsOf(append([]*ast.FuncType{u.ft}, u.outer...)...)
	funcParams := map[string]string{}
	for i, n := range pnames {
		if k, _ := typeKey(cur, imports, ptypes[i]); sc.funcTypes[k] {
			if _, dup := funcParams[n]; !dup {
				funcParams[n] = k
			}
		}
	}
	inspectOwn(u.body, func(n ast.Node) bool {
		call, ok := n.(*ast.CallExpr)
		if !ok {
			return true
		}
		ft, calleeFn := "", ""
		if id, ok := call.Fun.(*ast.Ident); ok && funcParams[id.Name] != "" {
			ft = funcParams[id.Name]
		} else {
			calleeFn = calleeKey(cur, imports, call)
		}
		for i, a := range call.Args {
			id, ok := a.(*ast.Ident)
			if !ok {
				continue
			}
			vi, ok := vars[id.Name]
			if !ok || vi.origin != "call" {
				continue
			}
			if ft == "" && !strings.Contains(calleeFn, ".") {
				continue
			}
			sc.calls = append(sc.calls, c09FCall{Fn: u.fn, FuncType: ft, CalleeFn: calleeFn, ArgIndex: i, Origin: vi.callee, ErrChecked: vi.errChecked})
		}
		return true
	})
}

func c09FieldFacts(g *genCtx) string {
	sc := &c09FieldScan{g: g, structs: map[string]*c09Struct{}, funcTypes: map[string]bool{}, methods: map[string]bool{}, producers: map[string]string{}}
	sc.collect()
	for _, dir := range c09Dirs {
		for _, rel := range c09GoFiles(dir) {
			f := g.file(rel)
			if f == nil {
				continue
			}
			for _, d := range f.Decls {
				fd, ok := d.(*ast.FuncDecl)
				if !ok || fd.Body == nil {
					continue
				}
				if sc.producers[shortPkg(rel)+"."+fd.Name.Name] != "" && fd.Recv == nil {
					sc.producerReturns(rel, fd)
				}
				for _, u := range sc.units(rel, fd) {
					sc.consume(rel, u)
				}
			}
		}
	}
	var b strings.Builder
	var rs, cs, ks []string
	for _, r := range sc.rets {
		rs = append(rs, "{ fn := "+leanStr(r.Fn)+", valueKind := "+leanStr(r.ValueKind)+", sets := "+leanStrList(r.Sets)+", forward := "+leanStr(r.Forward)+
			", errKind := "+leanStr(r.ErrKind)+", launders := "+leanBool(r.Launders)+", conds := "+leanStrList(r.Conds)+" }")
	}
	for _, c := range sc.cons {
		cs = append(cs, "{ fn := "+leanStr(c.Fn)+", var := "+leanStr(c.Var)+", origin := "+leanStr(c.Origin)+", paramIndex := "+itoa(c.ParamIndex)+", funcType := "+leanStr(c.FuncType)+
			", callee := "+leanStr(c.Callee)+", errChecked := "+leanBool(c.ErrChecked)+",\n    type := "+leanStr(c.Type)+", field := "+leanStr(c.Field)+", expr := "+leanStr(c.Expr)+", guarded := "+leanBool(c.Guarded)+" }")
	}
	for _, k := range sc.calls {
		ks = append(ks, "{ fn := "+leanStr(k.Fn)+", funcType := "+leanStr(k.FuncType)+", calleeFn := "+leanStr(k.CalleeFn)+", argIndex := "+itoa(k.ArgIndex)+", origin := "+leanStr(k.Origin)+
			", errChecked := "+leanBool(k.ErrChecked)+" }")
	}
	b.WriteString("/-- the return statements of the functions that build a result struct with nil-able fields -/\ndef fieldReturns : List C09.FieldReturn := [\n  " + strings.Join(rs, ",\n  ") + "]\n\n")
	b.WriteString("/-- selections through a nil-able field of such a struct -/\ndef fieldConsumers : List C09.FieldConsumer := [\n  " + strings.Join(cs, ",\n  ") + "]\n\n")
	b.WriteString("/-- a producer's result handed on as an argument (to a func-typed parameter or a library function) -/\ndef callThroughs : List C09.CallThrough := [\n  " + strings.Join(ks, ",\n  ") + "]\n\n")
	var sk []string
	for k := range sc.structs {
		sk = append(sk, k)
	}
	sort.Strings(sk)
	g.facts["C09.fieldReturns"] = sc.rets
	g.facts["C09.fieldConsumers"] = sc.cons
	g.facts["C09.callThroughs"] = sc.calls
	g.facts["C09.fieldStructs"] = sk
	return b.String()
}

func itoa(n int) string {
	if n < 0 {
		return "0"
	}
	s := ""
	if n == 0 {
		return "0"
	}
	for n > 0 {
		s = string(rune('0'+n%10)) + s
		n /= 10
	}
	return s
}
