package main

// C19, fourth layer (Generated/HonourC19.lean, namespace GenHon): "every advertised PKCE method and advertised request-object support
// is actually honoured by the endpoints", END TO END.
//
//   CopyRequestObjectToAuthRequest   which parameter of an accepted request object reaches the authorization request
//   ParseRequestObject               when an object is accepted, and that the request handed on is exactly that copy
//
// (C03's slice regenerates the same two Go functions over ITS types into GenAz for the redirect-URI property; C14's into Gen for
// the signature checks.  This is C19's own model: Proofs/C19Honour.lean states, for EVERY parameter a request object may carry, that the
// effective request carries the object's value when the object sets it, and composes this with the regenerated PKCE check of the token
// endpoint - Gen.AuthorizeCodeChallenge / Gen.VerifyCodeChallenge of Generated/TokenEndpoint.lean - to "S256 advertised + challenge inside
// the object => exactly the S256 pre-image is accepted".)
//
// A rewrite that leaves the translatable subset (e.g. Go generics with pointer parameters) comes out as UNSUPPORTED_… and breaks the
// build; the stream (kind=honour, harness/cmd/vharness/c19hon.go) then has to deliver the concrete input.

func init() {
	const ar = "pkg/op/auth_request.go"
	ren := map[string]string{
		"oidc.ParseToken()":                "(ro).ParseToken",
		"oidc.CheckSignature()":            "(ro).CheckSignature",
		"jwtProfileKeySet{}":               "Hand.honKeySet",
		"CopyRequestObjectToAuthRequest()": "CopyRequestObjectToAuthRequest now",
	}
	auto := map[string]string{"*oidc.AuthRequest": "HonAuthRequest", "*oidc.RequestObject": "HonRequestObject", "Storage": "HonStorage",
		"error": "String", "string": "String", "bool": "Bool"}
	fs := []FuncSpec{
		{File: ar, Name: "CopyRequestObjectToAuthRequest", Lean: "CopyRequestObjectToAuthRequest",
			Params: []string{"(authReq : HonAuthRequest)", "(requestObject : HonRequestObject)"}, Ret: RetVal, RetParam: "authReq", RetType: "HonAuthRequest",
			Rename: ren, LetIf: true, AutoTypes: auto},
		{File: ar, Name: "ParseRequestObject", Lean: "ParseRequestObject",
			Params: []string{"(ro : HonRoOracle)", "(authReq : HonAuthRequest)", "(storage : HonStorage)", "(issuer : String)"}, Ret: RetErr, RetParam: "authReq", RetType: "HonAuthRequest",
			Rename: ren, RenameDropsOut: true, AutoTypes: auto},
	}
	extraGroups = append(extraGroups, Group{
		Out:     "HonourC19.lean",
		// Generated/RequestObject.lean + `open Gen`: a same-package helper that an "extract function" rewrite introduces is emitted once, by the
		// first group that meets it (autofollow.go: C14's translation of the same two functions, namespace Gen)
		Imports: []string{"OidcModel.Model.HonourC19", "OidcModel.Generated.RequestObject"},
		Opens:   []string{"Go", "Hand", "Const", "Gen"},
		NS:      "GenHon",
		Funcs:   fs,
	})
}
