package main

// C12: the decision logic of the claims codec (custom (un)marshalers of pkg/oidc/types.go and userinfo.go,
// unmarshalJSONMulti / mergeAndMarshalClaims of pkg/oidc/util.go) and of the AES sealing (pkg/crypto/crypto.go).
// Library calls are oracle parameters (`o : Cdc.Oracles`): encoding/json on generic values, language.Parse,
// time.Parse, aes.NewCipher, crypto/rand; the model types live in lean/OidcModel/Model/CodecGen.lean.

var c12TypeCases = map[string]string{
	"[]any": ".arr", "string": ".str", "float64": ".num", "nil": ".null", "bool": ".bool", "map[string]any": ".obj",
}

func c12Spec(sp FuncSpec) FuncSpec {
	sp.Imperative, sp.PlainUpdate, sp.RenameFirst = true, true, true
	if sp.LoopStyle == "" {
		sp.LoopStyle = "state"
	}
	if sp.TypeCases == nil {
		sp.TypeCases = c12TypeCases
	}
	if sp.Rename == nil {
		sp.Rename = map[string]string{}
	}
	for k, v := range map[string]string{
		"strings.Split()": "Cdc.split", "strings.Join()": "Cdc.join", "aes.BlockSize": "Cdc.aesBlockSize",
	} {
		if _, ok := sp.Rename[k]; !ok {
			sp.Rename[k] = v
		}
	}
	return sp
}

func init() {
	const po = "(o : Oracles)"
	funcs := []FuncSpec{
		// ---- pkg/oidc/types.go
		{File: "pkg/oidc/types.go", Name: "Audience.UnmarshalJSON", Lean: "AudienceUnmarshalJSON",
			Params: []string{po, "(a : List String)", "(text : String)"}, Ret: RetErr, RetParam: "a", RetType: "(List String)",
			LocalOut: map[string]OutParam{"json.Unmarshal": {1, false}}, DropArgs: []string{"&i"},
			TypeAsserts: map[string]string{"string": "Cdc.JVal.asString"},
			Rename:      map[string]string{"json.Unmarshal()": "(o).jsonAny"}},
		{File: "pkg/oidc/types.go", Name: "Locale.UnmarshalJSON", Lean: "LocaleUnmarshalJSON",
			Params: []string{po, "(l : Locale)", "(data : String)"}, Ret: RetErr, RetParam: "l", RetType: "Locale",
			LocalOut: map[string]OutParam{"json.Unmarshal": {1, true}}, AlwaysOut: map[string]bool{"json.Unmarshal": true},
			Rename: map[string]string{"json.Unmarshal()": "(o).jsonTag", "language.Tag{}": "Cdc.Tag.zero"}},
		{File: "pkg/oidc/types.go", Name: "Locale.MarshalJSON", Lean: "LocaleMarshalJSON",
			Params: []string{po, "(l : Option Locale)"}, Ret: RetValErr, RetType: "String",
			Rename: map[string]string{"l.Tag()": "Cdc.Locale.Tag l", "json.Marshal()": "(o).marshalTag"}},
		{File: "pkg/oidc/types.go", Name: "ParseLocales", Lean: "ParseLocales",
			Params: []string{po, "(locales : List String)"}, Ret: RetVal, RetType: "(List Tag)", ErrValues: true,
			Rename: map[string]string{"language.Parse()": "(o).languageParse"}},
		{File: "pkg/oidc/types.go", Name: "Locales.UnmarshalText", Lean: "LocalesUnmarshalText",
			Params: []string{po, "(l : List Tag)", "(text : String)"}, Ret: RetErr, RetParam: "l", RetType: "(List Tag)",
			Rename: map[string]string{"ParseLocales()": "ParseLocales now o"}},
		{File: "pkg/oidc/types.go", Name: "Locales.UnmarshalJSON", Lean: "LocalesUnmarshalJSON",
			Params: []string{po, "(l : List Tag)", "(data : String)"}, Ret: RetErr, RetParam: "l", RetType: "(List Tag)",
			LocalOut: map[string]OutParam{"json.Unmarshal": {1, false}}, DropArgs: []string{"&dst"},
			Rename: map[string]string{"json.Unmarshal()": "(o).jsonAny", "ParseLocales()": "ParseLocales now o", "nil": "([] : List Tag)",
				"gu.AssertInterfaces()": "Cdc.assertStrings"}},
		{File: "pkg/oidc/types.go", Name: "SpaceDelimitedArray.String", Lean: "SpaceDelimitedArrayString",
			Params: []string{"(s : List String)"}, Ret: RetVal, RetType: "String"},
		{File: "pkg/oidc/types.go", Name: "SpaceDelimitedArray.UnmarshalText", Lean: "SpaceDelimitedArrayUnmarshalText",
			Params: []string{"(s : List String)", "(text : String)"}, Ret: RetErr, RetParam: "s", RetType: "(List String)"},
		{File: "pkg/oidc/types.go", Name: "SpaceDelimitedArray.MarshalJSON", Lean: "SpaceDelimitedArrayMarshalJSON",
			Params: []string{po, "(s : List String)"}, Ret: RetValErr, RetType: "String",
			Rename: map[string]string{"json.Marshal()": "(o).marshalString", "s.String()": "(SpaceDelimitedArrayString now s)"}},
		{File: "pkg/oidc/types.go", Name: "SpaceDelimitedArray.UnmarshalJSON", Lean: "SpaceDelimitedArrayUnmarshalJSON",
			Params: []string{po, "(s : List String)", "(data : String)"}, Ret: RetErr, RetParam: "s", RetType: "(List String)",
			LocalOut: map[string]OutParam{"json.Unmarshal": {1, true}},
			Rename:   map[string]string{"json.Unmarshal()": "(o).jsonString"}},
		{File: "pkg/oidc/types.go", Name: "Time.UnmarshalJSON", Lean: "TimeUnmarshalJSON",
			Params: []string{po, "(ts : Int)", "(data : String)"}, Ret: RetErr, RetParam: "ts", RetType: "Int",
			LocalOut: map[string]OutParam{"json.Unmarshal": {1, false}}, DropArgs: []string{"&v", "time.RFC3339"},
			Rename: map[string]string{"json.Unmarshal()": "(o).jsonAny", "time.Parse()": "(o).timeParse", "Time()": "Cdc.F64.toInt64"}},
		{File: "pkg/oidc/types.go", Name: "Display.UnmarshalText", Lean: "DisplayUnmarshalText",
			Params: []string{"(d : String)", "(text : String)"}, Ret: RetErr, RetParam: "d", RetType: "String",
			Rename: map[string]string{"Display()": ""}},
		// ---- pkg/oidc/userinfo.go
		{File: "pkg/oidc/userinfo.go", Name: "Bool.UnmarshalJSON", Lean: "BoolUnmarshalJSON",
			Params: []string{po, "(bs : Bool)", "(data : String)"}, Ret: RetErr, RetParam: "bs", RetType: "Bool",
			LocalOut: map[string]OutParam{"json.Unmarshal": {1, true}},
			Rename:   map[string]string{"json.Unmarshal()": "(o).jsonString"}},
		// ---- pkg/oidc/util.go
		{File: "pkg/oidc/util.go", Name: "unmarshalJSONMulti", Lean: "unmarshalJSONMulti",
			Params: []string{po, "(data : String)", "(destinations : List Dst)"}, Ret: RetErr,
			Rename: map[string]string{"json.Unmarshal()": "(o).unmarshalInto"}},
		{File: "pkg/oidc/util.go", Name: "mergeAndMarshalClaims", Lean: "mergeAndMarshalClaims",
			Params: []string{po, "(registered : Reg)", "(extraClaims : Obj)"}, Ret: RetValErr, RetType: "(List Obj)",
			Writer: "buf", Effectful: []string{"json.NewEncoder().Encode", "json.NewDecoder().Decode"},
			LocalOut: map[string]OutParam{"json.NewDecoder().Decode": {0, true}},
			Rename: map[string]string{"new(bytes.Buffer)": "Cdc.Buf.empty", "json.NewEncoder().Encode()": "Cdc.bufEncode o buf",
				"json.NewDecoder().Decode()": "Cdc.bufDecodeInto o buf"}},
		// ---- pkg/crypto/crypto.go
		{File: "pkg/crypto/crypto.go", Name: "EncryptBytesAES", Lean: "EncryptBytesAES",
			Params: []string{po, "(plainText : Bytes)", "(key : Bytes)"}, Ret: RetValErr, RetType: "Bytes", SliceAlias: true,
			LocalOut: map[string]OutParam{"io.ReadFull": {1, true}, "stream.XORKeyStream": {0, true}}, DropArgs: []string{"rand.Reader"},
			Rename: map[string]string{"aes.NewCipher()": "(o).newCipher", "io.ReadFull()": "(o).randRead", "cipher.NewCFBEncrypter()": "Cdc.newCFBEncrypter"}},
		{File: "pkg/crypto/crypto.go", Name: "DecryptBytesAES", Lean: "DecryptBytesAES",
			Params: []string{po, "(cipherText : Bytes)", "(key : Bytes)"}, Ret: RetValErr, RetType: "Bytes",
			LocalOut: map[string]OutParam{"stream.XORKeyStream": {0, true}},
			Rename:   map[string]string{"aes.NewCipher()": "(o).newCipher", "cipher.NewCFBDecrypter()": "Cdc.newCFBDecrypter"}},
		{File: "pkg/crypto/crypto.go", Name: "EncryptAES", Lean: "EncryptAES",
			Params: []string{po, "(data : Bytes)", "(key : Bytes)"}, Ret: RetValErr, RetType: "(List Char)",
			Rename: map[string]string{"EncryptBytesAES()": "EncryptBytesAES now o", "base64.RawURLEncoding.EncodeToString()": "Cdc.b64Encode"}},
		{File: "pkg/crypto/crypto.go", Name: "DecryptAES", Lean: "DecryptAES",
			Params: []string{po, "(data : List Char)", "(key : Bytes)"}, Ret: RetValErr, RetType: "Bytes",
			Rename: map[string]string{"DecryptBytesAES()": "DecryptBytesAES now o", "base64.RawURLEncoding.DecodeString()": "Cdc.b64Decode"}},
	}
	for i := range funcs {
		funcs[i] = c12Spec(funcs[i])
	}
	extraGroups = append(extraGroups, Group{Out: "CodecConsts.lean", NS: "GenCodec", Extra: c12Consts})
	extraGroups = append(extraGroups, Group{
		Out:     "Codec.lean",
		NS:      "GenCodec",
		Imports: []string{"OidcModel.Model.CodecGen", "OidcModel.Generated.CodecConsts"},
		Opens:   []string{"Go", "Cdc"},
		Funcs:   funcs,
	})
}
