package main

// C02 (round 5): the relying party's PARSER of the downloaded JWKS document - `jsonWebKeySet.UnmarshalJSON` of
// pkg/client/rp/jwks.go, the tie between the document the provider publishes and the key list `FindMatchingKey` sees
// (namespace GenC02J, Generated/JwksDocC02.lean).  encoding/json on the document (`json.Unmarshal(data, &raw)`) and go-jose's
// per-key parser (`(*jose.JSONWebKey).UnmarshalJSON(rawKey)`) are oracle parameters (`o : C02JOracle`); everything the
// function itself does with them (which raw entries are parsed, how often, from which bytes, which results enter the set, in
// which order) is regenerated.

func init() {
	extraGroups = append(extraGroups, Group{
		Out:     "JwksDocC02.lean",
		NS:      "GenC02J",
		Imports: []string{"OidcModel.Model.JwksDocC02"},
		Opens:   []string{"Go", "Hand", "Const"},
		Funcs: []FuncSpec{
			{File: jwksFile, Name: "jsonWebKeySet.UnmarshalJSON", Lean: "jsonWebKeySetUnmarshalJSON",
				Params: []string{"(o : C02JOracle)", "(k : C02JKeySet)", "(data : C02JDoc)"},
				Ret:    RetErr, RetParam: "k", RetType: "C02JKeySet",
				Imperative: true, PlainUpdate: true, RenameFirst: true, LoopStyle: "state", InitResults: true, FieldState: true, LoopLocalErr: true, ValueOnly: true, ErrElse: true,
				ZeroOf:   map[string]string{"rawJSONWebKeySet": "(default : C02JRawKeySet)", "error": "Go.nil"},
				LocalOut: map[string]OutParam{"json.Unmarshal": {1, true}, "webKey.UnmarshalJSON": {-1, true}},
				Rename: map[string]string{"json.Unmarshal()": "(o).jsonUnmarshal", "new(jose.JSONWebKey)": "(default : C02JWebKey)",
					"webKey.UnmarshalJSON()": "(o).parseJWK webKey"},
			},
			// fetchRemoteKeys: the download.  The response body goes to the parser above on a FRESH key set (`new(jsonWebKeySet)`), and what
			// the parser left in it is what updateKeys caches.  `httphelper.HttpRequest` is the hand-written twin Hand.c02jHttpRequest
			// (transport error / status / body handed to the response's UnmarshalJSON), `http.NewRequestWithContext` an oracle.
			{File: jwksFile, Name: "remoteKeySet.fetchRemoteKeys", Lean: "fetchRemoteKeys",
				Params: []string{"(o : C02JOracle)", "(w : C02JHttp)", "(r : C02JRemote)"},
				Ret:    RetValErr, RetType: "(List JWK)", NilValue: []string{"nil"},
				Imperative: true, PlainUpdate: true, RenameFirst: true, ErrElse: true,
				LocalOut: map[string]OutParam{"httphelper.HttpRequest": {2, true}},
				Rename: map[string]string{"http.NewRequestWithContext()": "Hand.c02jNewRequest w", "new(jsonWebKeySet)": "(default : C02JKeySet)",
					"httphelper.HttpRequest()": "Hand.c02jHttpRequest w (jsonWebKeySetUnmarshalJSON now o)"},
			},
		},
	})
}
